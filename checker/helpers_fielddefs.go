package main

import (
	"golang.org/x/tools/go/ssa"
)

// Flow-sensitive field definitions of a local struct variable.
//
// compositeFields is flow-insensitive: it answers "what is stored into field F somewhere". That is
// exact for a composite literal, but not for a variable that is filled field by field
// (`var out T; out.A = x; if c { out.B = y }; use(out)`): there a field may still hold its zero value
// on the paths that bypass its assignment. fieldDefsAt answers "which definitions of field F can be
// the one in effect at `use`, and what is known on the ways each of them gets there".

// FieldDef is one definition of a struct field that may be in effect at a use.
type FieldDef struct {
	// Val is the value assigned to the field; nil when the field still holds its zero value (the
	// variable was allocated and the field not assigned on the way) or when Whole is set.
	Val ssa.Value
	// Whole is the struct value assigned to the entire variable (`v = x`); the field is field F of it.
	Whole ssa.Value
	// At is the defining instruction (the Store, or the Alloc for the zero value).
	At ssa.Instruction
	// Facts hold on every path on which this definition reaches the use without being overwritten.
	Facts []Fact
	// ViaBarrier: the definition can reach the use on a way that runs through the barrier block
	// (a loop head: the definition was then made in an earlier iteration).
	ViaBarrier bool
	// BarrierFacts (ViaBarrier only): what holds on every such way — the conditions under which the
	// definition was made together with those of every definition-free way from the barrier to the use.
	BarrierFacts []Fact
}

// fieldDefsAt returns the definitions of field `field` of the local struct variable `a` that may be
// in effect when `use` executes. ok is false when the variable's address escapes in a way that is
// not modelled (passed to a call, captured, stored): the field could be written elsewhere. barrier
// (may be nil) is a block of interest, see FieldDef.ViaBarrier.
func (p *Program) fieldDefsAt(a *ssa.Alloc, field int, use ssa.Instruction, barrier *ssa.BasicBlock) (defs []FieldDef, ok bool) {
	fn := a.Parent()
	if fn == nil || use.Parent() != fn {
		return nil, false
	}
	isDef := map[ssa.Instruction]bool{ssa.Instruction(a): true}
	for _, r := range referrersOf(a) {
		switch x := r.(type) {
		case *ssa.Store:
			if x.Addr != ssa.Value(a) {
				return nil, false // the address itself is stored somewhere
			}
			isDef[x] = true
		case *ssa.UnOp, *ssa.DebugRef:
		case *ssa.FieldAddr:
			if x.Field != field {
				continue
			}
			for _, rr := range referrersOf(x) {
				switch y := rr.(type) {
				case *ssa.Store:
					if y.Addr != ssa.Value(x) {
						return nil, false
					}
					isDef[y] = true
				case *ssa.UnOp, *ssa.DebugRef:
				default:
					return nil, false // &v.F handed out
				}
			}
		default:
			return nil, false
		}
	}
	lastDefIn := func(b *ssa.BasicBlock, before ssa.Instruction) ssa.Instruction {
		var last ssa.Instruction
		for _, in := range b.Instrs {
			if in == before {
				break
			}
			if isDef[in] {
				last = in
			}
		}
		return last
	}
	hasDef := func(b *ssa.BasicBlock) bool { return lastDefIn(b, nil) != nil }
	mk := func(d ssa.Instruction, facts []Fact) FieldDef {
		fd := FieldDef{At: d, Facts: facts}
		if st, isSt := d.(*ssa.Store); isSt {
			if st.Addr == ssa.Value(a) {
				fd.Whole = st.Val
			} else {
				fd.Val = st.Val
			}
		}
		return fd
	}
	ub := use.Block()
	if d := lastDefIn(ub, use); d != nil {
		return []FieldDef{mk(d, p.FactsAt(ub))}, true
	}
	// backward walk over definition-free blocks: the last definition of every block reached
	var found []ssa.Instruction
	seen := map[*ssa.BasicBlock]bool{}
	work := append([]*ssa.BasicBlock{}, ub.Preds...)
	for len(work) > 0 {
		b := work[len(work)-1]
		work = work[:len(work)-1]
		if seen[b] {
			continue
		}
		seen[b] = true
		if d := lastDefIn(b, nil); d != nil {
			found = append(found, d)
			continue
		}
		work = append(work, b.Preds...)
	}
	if len(found) == 0 {
		return nil, false
	}
	// blocks from which the use is reachable through definition-free blocks
	reachUse := map[*ssa.BasicBlock]bool{ub: true}
	work = append(work[:0], ub.Preds...)
	for len(work) > 0 {
		b := work[len(work)-1]
		work = work[:len(work)-1]
		if reachUse[b] || hasDef(b) {
			continue
		}
		reachUse[b] = true
		work = append(work, b.Preds...)
	}
	for _, d := range found {
		fd := mk(d, p.factsAlongFrom(d.Block(), ub, reachUse, !hasDef(ub)))
		if barrier != nil && reachUse[barrier] && (barrier != ub || !hasDef(ub)) {
			// is the barrier reachable from d through definition-free blocks that reach the use?
			seen := map[*ssa.BasicBlock]bool{}
			work := append([]*ssa.BasicBlock{}, d.Block().Succs...)
			for len(work) > 0 {
				b := work[len(work)-1]
				work = work[:len(work)-1]
				if seen[b] || !reachUse[b] || (b == ub && hasDef(ub)) {
					continue
				}
				seen[b] = true
				if b == barrier {
					fd.ViaBarrier = true
					fd.BarrierFacts = append(append([]Fact{}, p.FactsAt(d.Block())...), p.factsAlongFrom(barrier, ub, reachUse, !hasDef(ub))...)
					break
				}
				work = append(work, b.Succs...)
			}
		}
		defs = append(defs, fd)
	}
	return defs, true
}

// factsAlongFrom: the conditions that hold on every path that leaves block `from` and arrives at the
// top of block `to` passing only through blocks of `via` (forward must-dataflow restricted to that
// sub-graph; `from` is a pure source, it is not re-entered). through: paths may also run through `to`
// and come back to it (it is an ordinary member of the sub-graph).
func (p *Program) factsAlongFrom(from, to *ssa.BasicBlock, via map[*ssa.BasicBlock]bool, through bool) []Fact {
	in := map[*ssa.BasicBlock]factSet{}
	top := map[*ssa.BasicBlock]bool{}
	for b := range via {
		top[b] = true
	}
	edge := func(u, v *ssa.BasicBlock, have factSet) factSet {
		out := factSet{}
		for k, f := range have {
			out[k] = f
		}
		for _, f := range p.FactsOnEdge(u, v) {
			out[f.key] = f
		}
		return out
	}
	src := factSet{}
	for _, f := range p.FactsAt(from) {
		src[f.key] = f
	}
	changed := true
	for iter := 0; changed && iter < 200; iter++ {
		changed = false
		for _, b := range from.Parent().Blocks {
			if !via[b] {
				continue
			}
			var acc factSet
			first := true
			for _, u := range b.Preds {
				var cand factSet
				switch {
				case u == from:
					cand = edge(u, b, src)
				case via[u] && (u != to || through) && !top[u]:
					cand = edge(u, b, in[u])
				default:
					continue
				}
				if first {
					acc, first = cand, false
					continue
				}
				for k := range acc {
					if _, ok := cand[k]; !ok {
						delete(acc, k)
					}
				}
			}
			if first {
				continue
			}
			if top[b] || !sameFactKeys(acc, in[b]) {
				top[b] = false
				in[b] = acc
				changed = true
			}
		}
	}
	out := factSet{}
	for k, f := range in[to] {
		out[k] = f
	}
	for _, f := range p.FactsAt(to) {
		out[f.key] = f
	}
	return out.list()
}
