package main

import (
	"go/token"
	"go/types"
	"sort"
	"strings"

	"golang.org/x/tools/go/ssa"
)

// Rules added after seeded round 7 (small local slips and ordering/lifecycle changes).

func init() {
	st := "every error-free pass that got an answer from the phase engine records status.controllerOf before it returns (also when a probe fails)"
	addRule("C06", Rule{ID: "C06.R16", Min: 2, Statement: st, Run: controllerOfEveryPassRule})
	addRule("C08", Rule{ID: "C08.R10", Min: 2, Statement: st, Run: controllerOfEveryPassRule})
	addRule("C15", Rule{ID: "C15.R11", Min: 2, Statement: st, Run: controllerOfEveryPassRule})
	addRule("C09", Rule{ID: "C09.R9", Min: 1, Statement: "the pause propagation visits every listed ObjectSet: the loop is left early only with an error", Run: pauseLoopCompleteRule})
	addRule("C07", Rule{ID: "C07.R12", Min: 1, Statement: "the collision counter held in status is written through its pointer only on paths that record the collision (SetStatusCollisionCount follows)", Run: collisionCounterWriteThroughRule})
	addRule("C10", Rule{ID: "C10.R10", Min: 1, Statement: "self-bootstrap: the ClusterPackage is patched to the new spec only after the old operator was shut down and its revisions paused (the unpatched spec is the durable marker that these steps are outstanding)", Run: bootstrapMarkerLastRule})
	addRule("C18", Rule{ID: "C18.R11", Min: 2, Statement: "on update the rendered labels and annotations win over the ones found on the cluster: labels.Merge(existing, rendered)", Run: renderedMetadataWinsRule})
	addRule("C16", Rule{ID: "C16.R11", Min: 1, Statement: "an object passes the GVK validator only with a non-empty version and a non-empty kind", Run: gvkValidatorBothRule})
}

// ---------------------------------------------------------------------------------------------
// C06.R16 / C08.R10 / C15.R11

const ctlProbingResult = pkgControllers + ".ProbingResult"

func controllerOfEveryPassRule(c *Ctx) {
	p := c.P
	n := 0
	for _, pkg := range []string{pkgObjectSets, pkgObjSetPhases} {
		for _, fn := range p.FuncsIn(pkg) {
			if fn.Parent() != nil || fn.Signature.Recv() == nil || stableName(fn) != "Reconcile" {
				continue
			}
			// the call of the phase engine: a call with a ProbingResult among its results
			var engine *ssa.Call
			for _, call := range callsIn(fn) {
				ci, ok := call.Instr.(*ssa.Call)
				if !ok {
					continue
				}
				if tup, ok := ci.Type().(*types.Tuple); ok {
					for i := 0; i < tup.Len(); i++ {
						if namedTypeString(tup.At(i).Type()) == ctlProbingResult {
							engine = ci
						}
					}
				}
			}
			if engine == nil {
				continue
			}
			n++
			o := c.Ob(fn, "controllerOf-recorded", engine, c.rule.Statement)
			records := func(in ssa.Instruction) bool {
				ci, ok := in.(*ssa.Call)
				if !ok {
					return false
				}
				return p.callRecordsControllerOf(ci.Common(), 2)
			}
			found := false
			for _, b := range fn.Blocks {
				for _, in := range b.Instrs {
					if records(in) {
						found = true
					}
				}
			}
			if !found {
				o.Fail("status.controllerOf is never recorded in %s", shortFuncID(fn))
				continue
			}
			reach := map[ssa.Instruction]bool{}
			for _, in := range reachableAfter(engine, records) {
				reach[in] = true
			}
			var bad []string
			for _, rc := range p.returnCases(fn) {
				if !reach[rc.Ret] {
					continue
				}
				if p.returnErrNilness(rc.Ret) == noTri {
					continue // a failing pass: the controller does not persist the status
				}
				if len(rc.Results) > 0 {
					last := rc.Results[len(rc.Results)-1]
					if last != nil && !isNilConst(stripConv(last)) && p.errorValueNilness(last, rc.Facts) == noTri {
						continue
					}
				}
				exempt := false
				for _, f := range rc.Facts {
					if call, _ := asCall(f.Cond); call != nil && f.Pol && strings.HasSuffix(calleeID(call.Common()), ".IsExternalResourceNotFound") {
						exempt = true // nothing was learnt about the objects in this pass
					}
					if x, nonNil, ok := errNilTest(f.Cond); ok && f.Pol == nonNil && p.valueIsResultOf(x, engine) {
						exempt = true // the engine failed
					}
				}
				if !exempt {
					bad = append(bad, p.IPos(rc.Ret))
				}
			}
			if len(bad) > 0 {
				sort.Strings(bad)
				o.Fail("return at %s ends an error-free pass without SetStatusControllerOf: the status written at the end of the pass keeps the list of an older pass — objects handed to a newer revision stay claimed (wrong InTransition, an old revision is archived or kept on stale data)", strings.Join(dedupStrings(bad), ", "))
			} else {
				o.OK()
			}
		}
	}
	if n == 0 {
		c.AnchorLost("Reconcile methods calling the phase engine in " + pkgObjectSets + " / " + pkgObjSetPhases)
	}
}

// callRecordsControllerOf: the call is SetStatusControllerOf, or a repository helper all of whose
// error-free returns are preceded by one.
func (p *Program) callRecordsControllerOf(cc *ssa.CallCommon, depth int) bool {
	if calleeName(cc) == "SetStatusControllerOf" {
		return true
	}
	callee := staticCallee(cc)
	if callee == nil || len(callee.Blocks) == 0 || depth <= 0 || !strings.HasPrefix(funcPkgPath(callee), modPKO) {
		return false
	}
	has := false
	inner := func(in ssa.Instruction) bool {
		ci, ok := in.(*ssa.Call)
		return ok && p.callRecordsControllerOf(ci.Common(), depth-1)
	}
	for _, b := range callee.Blocks {
		for _, in := range b.Instrs {
			if inner(in) {
				has = true
			}
		}
	}
	if !has {
		return false
	}
	// every return that may be error-free is preceded by the recording call
	if len(callee.Blocks[0].Instrs) == 0 {
		return false
	}
	first := callee.Blocks[0].Instrs[0]
	if inner(first) {
		return true
	}
	reach := map[ssa.Instruction]bool{}
	for _, in := range reachableAfter(first, inner) {
		reach[in] = true
	}
	for _, b := range callee.Blocks {
		if ret, ok := b.Instrs[len(b.Instrs)-1].(*ssa.Return); ok && reach[ret] {
			if p.returnErrNilness(ret) != noTri {
				return false
			}
		}
	}
	return true
}

// valueIsResultOf: v is (an extract of) the result of call.
func (p *Program) valueIsResultOf(v ssa.Value, call *ssa.Call) bool {
	for _, pv := range p.possibleValues(v) {
		if c, _ := asCall(pv); c == call {
			return true
		}
	}
	return false
}

// ---------------------------------------------------------------------------------------------
// C09.R9

func pauseLoopCompleteRule(c *Ctx) {
	p := c.P
	n := 0
	for _, fn := range p.FuncsIn(pkgObjDeploy) {
		for _, call := range callsIn(fn) {
			name := calleeName(call.Common)
			if name != "SetPausedByParent" {
				continue
			}
			var loop *Loop
			for _, l := range loopsOf(fn) {
				if l.Body[call.Instr.Block()] && (loop == nil || len(l.Body) < len(loop.Body)) {
					loop = l
				}
			}
			if loop == nil {
				continue
			}
			n++
			o := c.Ob(fn, "pause-propagation-loop", call.Instr, c.rule.Statement)
			if ok, why := p.loopEarlyExitsFail(loop); !ok {
				o.Fail("the loop that propagates the pause to the ObjectSets can be left before every ObjectSet was visited (%s): revisions behind that point are never paused (or never released) and keep writing", why)
			} else {
				o.OK()
			}
		}
	}
	if n == 0 {
		c.AnchorLost("loop calling SetPausedByParent in " + pkgObjDeploy)
	}
}

// ---------------------------------------------------------------------------------------------
// C07.R12

func collisionCounterWriteThroughRule(c *Ctx) {
	p := c.P
	n := 0
	for _, fn := range p.FuncsIn(pkgObjDeploy) {
		for _, call := range callsIn(fn) {
			if calleeName(call.Common) != "GetStatusCollisionCount" {
				continue
			}
			ci, ok := call.Instr.(*ssa.Call)
			if !ok {
				continue
			}
			// stores through a pointer that may be this result
			for _, b := range fn.Blocks {
				for _, in := range b.Instrs {
					st, ok := in.(*ssa.Store)
					if !ok {
						continue
					}
					through := false
					for _, pv := range p.possibleValues(st.Addr) {
						if stripConv(pv) == ssa.Value(ci) {
							through = true
						}
					}
					if !through {
						continue
					}
					n++
					o := c.Ob(fn, "collision-counter-write-through", st, c.rule.Statement)
					isSet := func(x ssa.Instruction) bool {
						cc, ok := x.(*ssa.Call)
						return ok && calleeName(cc.Common()) == "SetStatusCollisionCount"
					}
					escaped := ""
					for _, r := range reachableAfter(st, isSet) {
						if ret, ok := r.(*ssa.Return); ok {
							escaped = p.IPos(ret)
							break
						}
					}
					if escaped != "" {
						o.Fail("GetStatusCollisionCount returns the pointer stored in status; it is incremented here, but the return at %s is reached without SetStatusCollisionCount: a pass that decides this is no collision (slow cache) still bumps the persisted counter, the next pass computes another name and creates a second ObjectSet for the same template", escaped)
					} else {
						o.OK()
					}
				}
			}
		}
	}
	if n == 0 {
		c.AnchorLost("increment of the collision counter in " + pkgObjDeploy)
	}
}

// ---------------------------------------------------------------------------------------------
// C10.R10

const pkgBootstrap = modPKO + "/cmd/package-operator-manager/bootstrap"

func bootstrapMarkerLastRule(c *Ctx) {
	p := c.P
	n := 0
	for _, fn := range p.FuncsIn(pkgBootstrap) {
		var steps []ssa.Instruction
		for _, call := range callsIn(fn) {
			if callee := staticCallee(call.Common); callee != nil {
				switch stableName(callee) {
				case "ensurePKODeploymentGone", "ensurePKORevisionsPaused":
					steps = append(steps, call.Instr)
				}
			}
		}
		if len(steps) == 0 {
			continue
		}
		for _, ws := range allWriterSites([]*ssa.Function{fn}) {
			if ws.Verb != "Patch" && ws.Verb != "Update" {
				continue
			}
			if !strings.HasSuffix(namedTypeString(derefType(stripConv(ws.Obj).Type())), ".ClusterPackage") {
				continue
			}
			n++
			o := c.Ob(fn, "clusterpackage-patched-last", ws.Call.Instr, c.rule.Statement)
			bad := ""
			for _, s := range steps {
				if canPrecede(ws.Call.Instr, s) {
					bad = p.IPos(s)
				}
			}
			if bad != "" {
				o.Fail("the ClusterPackage is patched before the shutdown/pause step at %s: after a fault between the two the retried bootstrap sees equal images, skips the steps, and the still active old revision re-installs the old operator next to the new one", bad)
			} else {
				o.OK()
			}
		}
	}
	if n == 0 {
		c.AnchorLost("patch of the ClusterPackage next to ensurePKODeploymentGone/ensurePKORevisionsPaused in " + pkgBootstrap)
	}
}

// ---------------------------------------------------------------------------------------------
// C18.R11

func renderedMetadataWinsRule(c *Ctx) {
	p := c.P
	n := 0
	for _, fn := range p.FuncsIn(pkgObjTemplate) {
		for _, call := range callsIn(fn) {
			name := calleeName(call.Common)
			if name != "SetLabels" && name != "SetAnnotations" {
				continue
			}
			args := callArgs(call.Common)
			recv := callRecv(call.Common)
			if len(args) != 1 || recv == nil {
				continue
			}
			merge, _ := asCall(args[0])
			if merge == nil || calleeID(merge.Common()) != "k8s.io/apimachinery/pkg/labels.Merge" {
				continue
			}
			margs := merge.Common().Args
			getter := "Get" + strings.TrimPrefix(name, "Set")
			rootOf := func(v ssa.Value) (ssa.Value, bool) {
				g, _ := asCall(v)
				if g == nil || calleeName(g.Common()) != getter {
					return nil, false
				}
				return callRecv(g.Common()), true
			}
			r0, ok0 := rootOf(margs[0])
			r1, ok1 := rootOf(margs[1])
			if !ok0 || !ok1 {
				continue // not a merge of two objects' metadata (e.g. adding a fixed label)
			}
			n++
			o := c.Ob(fn, "rendered-"+strings.ToLower(strings.TrimPrefix(name, "Set"))+"-win", call.Instr, c.rule.Statement)
			switch {
			case p.key(r1) == p.key(recv) && p.key(r0) != p.key(recv):
				o.OK()
			case p.key(r0) == p.key(recv) && p.key(r1) != p.key(recv):
				o.Fail("labels.Merge lets its second operand win: here that is the object found on the cluster, so a %s rendered from a source never follows later changes of that source", strings.ToLower(strings.TrimSuffix(strings.TrimPrefix(name, "Set"), "s")))
			default:
				o.Unknown("cannot tell which operand of labels.Merge belongs to the rendered object")
			}
		}
	}
	if n == 0 {
		c.AnchorLost("labels.Merge into SetLabels/SetAnnotations in " + pkgObjTemplate)
	}
}

// ---------------------------------------------------------------------------------------------
// C16.R11

func gvkValidatorBothRule(c *Ctx) {
	p := c.P
	n := 0
	for _, fn := range p.FuncsIn(pkgPkgValid) {
		// functions that can return a ViolationReasonMissingGVK violation
		if !p.mentionsConst(fn, "ViolationReasonMissingGVK") {
			continue
		}
		n++
		o := c.Ob(fn, "gvk-both-required", nil, c.rule.Statement)
		var bad []string
		for _, rc := range p.returnCases(fn) {
			if len(rc.Results) == 0 {
				continue
			}
			last := rc.Results[len(rc.Results)-1]
			if last == nil || !isNilConst(stripConv(last)) {
				continue
			}
			// an accepting return: both parts must be known non-empty
			nonEmpty := map[string]bool{}
			for _, f := range rc.Facts {
				if x, trueMeansNonEmpty, ok := lenCmp(f.Cond); ok && f.Pol == trueMeansNonEmpty {
					nonEmpty[gvkPart(x)] = true
				}
				if b, ok := f.Cond.(*ssa.BinOp); ok && (b.Op == token.EQL || b.Op == token.NEQ) {
					for _, pair := range [][2]ssa.Value{{b.X, b.Y}, {b.Y, b.X}} {
						if s, isConst := constString(pair[1]); isConst && s == "" && f.Pol == (b.Op == token.NEQ) {
							nonEmpty[gvkPart(pair[0])] = true
						}
					}
				}
			}
			for _, part := range []string{"Version", "Kind"} {
				if !nonEmpty[part] {
					bad = append(bad, "the return at "+p.IPos(rc.Ret)+" accepts the object without knowing that its "+strings.ToLower(part)+" is set")
				}
			}
		}
		if len(bad) > 0 {
			sort.Strings(bad)
			o.Fail("%s: an object with only one of apiVersion/kind passes object validation and is written into the ObjectDeployment", strings.Join(dedupStrings(bad), "; "))
		} else {
			o.OK()
		}
	}
	if n == 0 {
		c.AnchorLost("validator returning ViolationReasonMissingGVK in " + pkgPkgValid)
	}
}

// gvkPart: "Version" / "Kind" / "Group" when v is that field of a GroupVersionKind (or GetKind / GetAPIVersion).
func gvkPart(v ssa.Value) string {
	v = stripConv(v)
	switch x := v.(type) {
	case *ssa.Field:
		if strings.HasSuffix(namedTypeString(x.X.Type()), "schema.GroupVersionKind") {
			return fieldName(x.X.Type(), x.Field)
		}
	case *ssa.UnOp:
		if fa, ok := x.X.(*ssa.FieldAddr); ok && x.Op == token.MUL && strings.HasSuffix(namedTypeString(fa.X.Type()), "schema.GroupVersionKind") {
			return fieldName(fa.X.Type(), fa.Field)
		}
	case *ssa.Call:
		switch calleeName(x.Common()) {
		case "GetKind":
			return "Kind"
		case "GetAPIVersion":
			return "Version"
		}
	}
	return ""
}

// mentionsConst: fn uses the package constant / variable with that name.
func (p *Program) mentionsConst(fn *ssa.Function, name string) bool {
	for _, b := range fn.Blocks {
		for _, in := range b.Instrs {
			var ops []*ssa.Value
			for _, o := range in.Operands(ops) {
				switch x := (*o).(type) {
				case *ssa.Const:
					if x.Value != nil && namedOf(x.Type()) != nil && p.constName(x) == name {
						return true
					}
				case *ssa.Global:
					if x.Name() == name {
						return true
					}
				}
			}
		}
	}
	return false
}
