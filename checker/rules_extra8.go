package main

import (
	"go/token"
	"go/types"
	"sort"
	"strings"

	"golang.org/x/tools/go/ssa"
)

// Rules added after seeded round 7 (small local slips and ordering/lifecycle changes).

func init() {
	st := "every error-free pass that got an answer from the phase engine records status.controllerOf before it returns (also when a probe fails)"
	addRule("C06", Rule{ID: "C06.R16", Min: 2, Statement: st, Run: controllerOfEveryPassRule})
	addRule("C08", Rule{ID: "C08.R10", Min: 2, Statement: st, Run: controllerOfEveryPassRule})
	addRule("C15", Rule{ID: "C15.R11", Min: 2, Statement: st, Run: controllerOfEveryPassRule})
	addRule("C09", Rule{ID: "C09.R9", Min: 1, Statement: "the pause propagation visits every listed ObjectSet: the loop is left early only with an error", Run: pauseLoopCompleteRule})
	addRule("C07", Rule{ID: "C07.R12", Min: 1, Statement: "the collision counter held in status is written through its pointer only on paths that record the collision (SetStatusCollisionCount follows)", Run: collisionCounterWriteThroughRule})
	addRule("C10", Rule{ID: "C10.R10", Min: 1, Statement: "self-bootstrap: the ClusterPackage is patched to the new spec only after the old operator was shut down and its revisions paused (the unpatched spec is the durable marker that these steps are outstanding)", Run: bootstrapMarkerLastRule})
	addRule("C18", Rule{ID: "C18.R11", Min: 2, Statement: "on update the rendered labels and annotations win over the ones found on the cluster: labels.Merge(existing, rendered)", Run: renderedMetadataWinsRule})
	addRule("C16", Rule{ID: "C16.R11", Min: 1, Statement: "an object passes the GVK validator only with a non-empty version and a non-empty kind", Run: gvkValidatorBothRule})
}

// ---------------------------------------------------------------------------------------------
// C06.R16 / C08.R10 / C15.R11

const ctlProbingResult = pkgControllers + ".ProbingResult"

func controllerOfEveryPassRule(c *Ctx) {
	p := c.P
	n := 0
	for _, pkg := range []string{pkgObjectSets, pkgObjSetPhases} {
		for _, fn := range p.FuncsIn(pkg) {
			if fn.Parent() != nil || fn.Signature.Recv() == nil || stableName(fn) != "Reconcile" {
				continue
			}
			// the call of the phase engine: a call with a ProbingResult among its results
			var engine *ssa.Call
			for _, call := range callsIn(fn) {
				ci, ok := call.Instr.(*ssa.Call)
				if !ok {
					continue
				}
				if tup, ok := ci.Type().(*types.Tuple); ok {
					for i := 0; i < tup.Len(); i++ {
						if namedTypeString(tup.At(i).Type()) == ctlProbingResult {
							engine = ci
						}
					}
				}
			}
			if engine == nil {
				continue
			}
			n++
			o := c.Ob(fn, "controllerOf-recorded", engine, c.rule.Statement)
			records := func(in ssa.Instruction) bool {
				ci, ok := in.(*ssa.Call)
				if !ok {
					return false
				}
				return p.callRecordsControllerOf(ci.Common(), 2)
			}
			found := false
			for _, b := range fn.Blocks {
				for _, in := range b.Instrs {
					if records(in) {
						found = true
					}
				}
			}
			if !found {
				o.Fail("status.controllerOf is never recorded in %s", shortFuncID(fn))
				continue
			}
			reach := map[ssa.Instruction]bool{}
			for _, in := range reachableAfter(engine, records) {
				reach[in] = true
			}
			var bad []string
			for _, rc := range p.returnCases(fn) {
				if !reach[rc.Ret] {
					continue
				}
				if p.returnErrNilness(rc.Ret) == noTri {
					continue // a failing pass: the controller does not persist the status
				}
				if len(rc.Results) > 0 {
					last := rc.Results[len(rc.Results)-1]
					if last != nil && !isNilConst(stripConv(last)) && p.errorValueNilness(last, rc.Facts) == noTri {
						continue
					}
				}
				exempt := false
				for _, f := range rc.Facts {
					if call, _ := asCall(f.Cond); call != nil && f.Pol && strings.HasSuffix(calleeID(call.Common()), ".IsExternalResourceNotFound") {
						exempt = true // nothing was learnt about the objects in this pass
					}
					if x, nonNil, ok := errNilTest(f.Cond); ok && f.Pol == nonNil && p.valueIsResultOf(x, engine) {
						exempt = true // the engine failed
					}
				}
				if !exempt {
					bad = append(bad, p.IPos(rc.Ret))
				}
			}
			if len(bad) > 0 {
				sort.Strings(bad)
				o.Fail("return at %s ends an error-free pass without SetStatusControllerOf: the status written at the end of the pass keeps the list of an older pass — objects handed to a newer revision stay claimed (wrong InTransition, an old revision is archived or kept on stale data)", strings.Join(dedupStrings(bad), ", "))
			} else {
				o.OK()
			}
		}
	}
	if n == 0 {
		c.AnchorLost("Reconcile methods calling the phase engine in " + pkgObjectSets + " / " + pkgObjSetPhases)
	}
}

// callRecordsControllerOf: the call is SetStatusControllerOf, or a repository helper all of whose
// error-free returns are preceded by one.
func (p *Program) callRecordsControllerOf(cc *ssa.CallCommon, depth int) bool {
	if calleeName(cc) == "SetStatusControllerOf" {
		return true
	}
	callee := staticCallee(cc)
	if callee == nil || len(callee.Blocks) == 0 || depth <= 0 || !strings.HasPrefix(funcPkgPath(callee), modPKO) {
		return false
	}
	has := false
	inner := func(in ssa.Instruction) bool {
		ci, ok := in.(*ssa.Call)
		return ok && p.callRecordsControllerOf(ci.Common(), depth-1)
	}
	for _, b := range callee.Blocks {
		for _, in := range b.Instrs {
			if inner(in) {
				has = true
			}
		}
	}
	if !has {
		return false
	}
	// every return that may be error-free is preceded by the recording call
	if len(callee.Blocks[0].Instrs) == 0 {
		return false
	}
	first := callee.Blocks[0].Instrs[0]
	if inner(first) {
		return true
	}
	reach := map[ssa.Instruction]bool{}
	for _, in := range reachableAfter(first, inner) {
		reach[in] = true
	}
	for _, b := range callee.Blocks {
		if ret, ok := b.Instrs[len(b.Instrs)-1].(*ssa.Return); ok && reach[ret] {
			if p.returnErrNilness(ret) != noTri {
				return false
			}
		}
	}
	return true
}

// valueIsResultOf: v is (an extract of) the result of call.
func (p *Program) valueIsResultOf(v ssa.Value, call *ssa.Call) bool {
	for _, pv := range p.possibleValues(v) {
		if c, _ := asCall(pv); c == call {
			return true
		}
	}
	return false
}

// ---------------------------------------------------------------------------------------------
// C09.R9

func pauseLoopCompleteRule(c *Ctx) {
	p := c.P
	n := 0
	for _, fn := range p.FuncsIn(pkgObjDeploy) {
		for _, call := range callsIn(fn) {
			name := calleeName(call.Common)
			if name != "SetPausedByParent" {
				continue
			}
			var loop *Loop
			for _, l := range loopsOf(fn) {
				if l.Body[call.Instr.Block()] && (loop == nil || len(l.Body) < len(loop.Body)) {
					loop = l
				}
			}
			if loop == nil {
				continue
			}
			n++
			o := c.Ob(fn, "pause-propagation-loop", call.Instr, c.rule.Statement)
			if ok, why := p.loopEarlyExitsFail(loop); !ok {
				o.Fail("the loop that propagates the pause to the ObjectSets can be left before every ObjectSet was visited (%s): revisions behind that point are never paused (or never released) and keep writing", why)
			} else {
				o.OK()
			}
		}
	}
	if n == 0 {
		c.AnchorLost("loop calling SetPausedByParent in " + pkgObjDeploy)
	}
}

// ---------------------------------------------------------------------------------------------
// C07.R12

func collisionCounterWriteThroughRule(c *Ctx) {
	p := c.P
	n := 0
	for _, fn := range p.FuncsIn(pkgObjDeploy) {
		for _, call := range callsIn(fn) {
			if calleeName(call.Common) != "GetStatusCollisionCount" {
				continue
			}
			ci, ok := call.Instr.(*ssa.Call)
			if !ok {
				continue
			}
			// stores through a pointer that may be this result
			for _, b := range fn.Blocks {
				for _, in := range b.Instrs {
					st, ok := in.(*ssa.Store)
					if !ok {
						continue
					}
					through := false
					for _, pv := range p.possibleValues(st.Addr) {
						if stripConv(pv) == ssa.Value(ci) {
							through = true
						}
					}
					if !through {
						continue
					}
					n++
					o := c.Ob(fn, "collision-counter-write-through", st, c.rule.Statement)
					isSet := func(x ssa.Instruction) bool {
						cc, ok := x.(*ssa.Call)
						return ok && calleeName(cc.Common()) == "SetStatusCollisionCount"
					}
					escaped := ""
					for _, r := range reachableAfter(st, isSet) {
						if ret, ok := r.(*ssa.Return); ok {
							escaped = p.IPos(ret)
							break
						}
					}
					if escaped != "" {
						o.Fail("GetStatusCollisionCount returns the pointer stored in status; it is incremented here, but the return at %s is reached without SetStatusCollisionCount: a pass that decides this is no collision (slow cache) still bumps the persisted counter, the next pass computes another name and creates a second ObjectSet for the same template", escaped)
					} else {
						o.OK()
					}
				}
			}
		}
	}
	if n == 0 {
		c.AnchorLost("increment of the collision counter in " + pkgObjDeploy)
	}
}

// ---------------------------------------------------------------------------------------------
// C10.R10

const pkgBootstrap = modPKO + "/cmd/package-operator-manager/bootstrap"

func bootstrapMarkerLastRule(c *Ctx) {
	p := c.P
	n := 0
	for _, fn := range p.FuncsIn(pkgBootstrap) {
		var steps []ssa.Instruction
		for _, call := range callsIn(fn) {
			if callee := staticCallee(call.Common); callee != nil {
				switch stableName(callee) {
				case "ensurePKODeploymentGone", "ensurePKORevisionsPaused":
					steps = append(steps, call.Instr)
				}
			}
		}
		if len(steps) == 0 {
			continue
		}
		for _, ws := range allWriterSites([]*ssa.Function{fn}) {
			if ws.Verb != "Patch" && ws.Verb != "Update" {
				continue
			}
			if !strings.HasSuffix(namedTypeString(derefType(stripConv(ws.Obj).Type())), ".ClusterPackage") {
				continue
			}
			n++
			o := c.Ob(fn, "clusterpackage-patched-last", ws.Call.Instr, c.rule.Statement)
			bad := ""
			for _, s := range steps {
				if canPrecede(ws.Call.Instr, s) {
					bad = p.IPos(s)
				}
			}
			if bad != "" {
				o.Fail("the ClusterPackage is patched before the shutdown/pause step at %s: after a fault between the two the retried bootstrap sees equal images, skips the steps, and the still active old revision re-installs the old operator next to the new one", bad)
			} else {
				o.OK()
			}
		}
	}
	if n == 0 {
		c.AnchorLost("patch of the ClusterPackage next to ensurePKODeploymentGone/ensurePKORevisionsPaused in " + pkgBootstrap)
	}
}

// ---------------------------------------------------------------------------------------------
// C18.R11

func renderedMetadataWinsRule(c *Ctx) {
	p := c.P
	n := 0
	for _, fn := range p.FuncsIn(pkgObjTemplate) {
		for _, call := range callsIn(fn) {
			name := calleeName(call.Common)
			if name != "SetLabels" && name != "SetAnnotations" {
				continue
			}
			args := callArgs(call.Common)
			recv := callRecv(call.Common)
			if len(args) != 1 || recv == nil {
				continue
			}
			margs, isMerge := p.mergeOperands(fn, args[0])
			if !isMerge {
				continue
			}
			getter := "Get" + strings.TrimPrefix(name, "Set")
			rootOf := func(v ssa.Value) (ssa.Value, bool) {
				g, _ := asCall(v)
				if g == nil || calleeName(g.Common()) != getter {
					return nil, false
				}
				return callRecv(g.Common()), true
			}
			r0, ok0 := rootOf(margs[0])
			r1, ok1 := rootOf(margs[1])
			if !ok0 || !ok1 {
				continue // not a merge of two objects' metadata (e.g. adding a fixed label)
			}
			n++
			o := c.Ob(fn, "rendered-"+strings.ToLower(strings.TrimPrefix(name, "Set"))+"-win", call.Instr, c.rule.Statement)
			switch {
			case p.key(r1) == p.key(recv) && p.key(r0) != p.key(recv):
				o.OK()
			case p.key(r0) == p.key(recv) && p.key(r1) != p.key(recv):
				o.Fail("the merge lets its second operand win: here that is the object found on the cluster, so a %s rendered from a source never follows later changes of that source", strings.ToLower(strings.TrimSuffix(strings.TrimPrefix(name, "Set"), "s")))
			default:
				o.Unknown("cannot tell which operand of labels.Merge belongs to the rendered object")
			}
		}
	}
	if n == 0 {
		c.AnchorLost("labels.Merge into SetLabels/SetAnnotations in " + pkgObjTemplate)
	}
}

// mergeOperands reads `labels.Merge(a, b)` and its spelled-out forms — a fresh map filled by
// `maps.Copy(m, a); maps.Copy(m, b)` or by two range loops — as (a, b): b's entries win.
func (p *Program) mergeOperands(fn *ssa.Function, v ssa.Value) ([]ssa.Value, bool) {
	if merge, _ := asCall(v); merge != nil && calleeID(merge.Common()) == "k8s.io/apimachinery/pkg/labels.Merge" {
		return merge.Common().Args, true
	}
	var mk *ssa.MakeMap
	for _, pv := range p.possibleValues(v) {
		m, ok := stripConv(pv).(*ssa.MakeMap)
		if !ok || (mk != nil && mk != m) {
			return nil, false
		}
		mk = m
	}
	if mk == nil {
		return nil, false
	}
	type ev struct {
		at  ssa.Instruction
		src ssa.Value
	}
	var evs []ev
	isM := func(x ssa.Value) bool {
		for _, pv := range p.possibleValues(x) {
			if stripConv(pv) == ssa.Value(mk) {
				return true
			}
		}
		return false
	}
	for _, b := range fn.Blocks {
		for _, in := range b.Instrs {
			switch x := in.(type) {
			case *ssa.Call:
				if calleeID(x.Common()) == "maps.Copy" && len(x.Common().Args) == 2 && isM(x.Common().Args[0]) {
					evs = append(evs, ev{x, x.Common().Args[1]})
				}
			case *ssa.MapUpdate:
				if !isM(x.Map) {
					continue
				}
				// key taken from a range over another map
				ex, ok := stripConv(x.Key).(*ssa.Extract)
				if !ok {
					return nil, false
				}
				nx, ok := ex.Tuple.(*ssa.Next)
				if !ok {
					return nil, false
				}
				rg, ok := nx.Iter.(*ssa.Range)
				if !ok {
					return nil, false
				}
				evs = append(evs, ev{x, rg.X})
			}
		}
	}
	if len(evs) != 2 {
		return nil, false
	}
	switch {
	case canPrecede(evs[0].at, evs[1].at) && !canPrecede(evs[1].at, evs[0].at):
		return []ssa.Value{evs[0].src, evs[1].src}, true
	case canPrecede(evs[1].at, evs[0].at) && !canPrecede(evs[0].at, evs[1].at):
		return []ssa.Value{evs[1].src, evs[0].src}, true
	}
	return nil, false
}

// ---------------------------------------------------------------------------------------------
// C16.R11

func gvkValidatorBothRule(c *Ctx) {
	p := c.P
	n := 0
	for _, fn := range p.FuncsIn(pkgPkgValid) {
		// functions that can return a ViolationReasonMissingGVK violation
		if !p.mentionsConst(fn, "ViolationReasonMissingGVK") {
			continue
		}
		n++
		o := c.Ob(fn, "gvk-both-required", nil, c.rule.Statement)
		var bad []string
		for _, rc := range p.returnCases(fn) {
			if len(rc.Results) == 0 {
				continue
			}
			last := rc.Results[len(rc.Results)-1]
			if last == nil || !isNilConst(stripConv(last)) {
				continue
			}
			// an accepting return: both parts must be known non-empty
			nonEmpty := map[string]bool{}
			for _, f := range rc.Facts {
				if x, trueMeansNonEmpty, ok := lenCmp(f.Cond); ok && f.Pol == trueMeansNonEmpty {
					nonEmpty[gvkPart(x)] = true
				}
				if b, ok := f.Cond.(*ssa.BinOp); ok && (b.Op == token.EQL || b.Op == token.NEQ) {
					for _, pair := range [][2]ssa.Value{{b.X, b.Y}, {b.Y, b.X}} {
						if s, isConst := constString(pair[1]); isConst && s == "" && f.Pol == (b.Op == token.NEQ) {
							nonEmpty[gvkPart(pair[0])] = true
						}
					}
				}
			}
			for _, part := range []string{"Version", "Kind"} {
				if !nonEmpty[part] {
					bad = append(bad, "the return at "+p.IPos(rc.Ret)+" accepts the object without knowing that its "+strings.ToLower(part)+" is set")
				}
			}
		}
		if len(bad) > 0 {
			sort.Strings(bad)
			o.Fail("%s: an object with only one of apiVersion/kind passes object validation and is written into the ObjectDeployment", strings.Join(dedupStrings(bad), "; "))
		} else {
			o.OK()
		}
	}
	if n == 0 {
		c.AnchorLost("validator returning ViolationReasonMissingGVK in " + pkgPkgValid)
	}
}

// gvkPart: "Version" / "Kind" / "Group" when v is that field of a GroupVersionKind (or GetKind / GetAPIVersion).
func gvkPart(v ssa.Value) string {
	v = stripConv(v)
	switch x := v.(type) {
	case *ssa.Field:
		if strings.HasSuffix(namedTypeString(x.X.Type()), "schema.GroupVersionKind") {
			return fieldName(x.X.Type(), x.Field)
		}
	case *ssa.UnOp:
		if fa, ok := x.X.(*ssa.FieldAddr); ok && x.Op == token.MUL && strings.HasSuffix(namedTypeString(fa.X.Type()), "schema.GroupVersionKind") {
			return fieldName(fa.X.Type(), fa.Field)
		}
	case *ssa.Call:
		switch calleeName(x.Common()) {
		case "GetKind":
			return "Kind"
		case "GetAPIVersion":
			return "Version"
		}
	}
	return ""
}

// mentionsConst: fn uses the package constant / variable with that name.
func (p *Program) mentionsConst(fn *ssa.Function, name string) bool {
	for _, b := range fn.Blocks {
		for _, in := range b.Instrs {
			var ops []*ssa.Value
			for _, o := range in.Operands(ops) {
				switch x := (*o).(type) {
				case *ssa.Const:
					if x.Value != nil && namedOf(x.Type()) != nil && p.constName(x) == name {
						return true
					}
				case *ssa.Global:
					if x.Name() == name {
						return true
					}
				}
			}
		}
	}
	return false
}

// =============================================================================================
// batch 2

func init() {
	stc := "a working copy taken with DeepCopy() before the original is refreshed in place (Get / Create / Update / Patch decode into it) is not mutated, written or handed on afterwards"
	addRule("C02", Rule{ID: "C02.R8", Min: 1, Statement: stc, Run: staleCopyRule})
	addRule("C01", Rule{ID: "C01.R10", Min: 1, Statement: stc, Run: staleCopyRule})
	scf := "the ObjectSetPhase controller acts (teardown, finalizer, reconcile, status) only on phases of its own class: the class test precedes every effect"
	addRule("C04", Rule{ID: "C04.R10", Min: 3, Statement: scf, Run: classFilterFirstRule})
	addRule("C15", Rule{ID: "C15.R12", Min: 3, Statement: scf, Run: classFilterFirstRule})
	addRule("C10", Rule{ID: "C10.R9", Min: 5, Statement: "a function whose returned error is classified by a caller (IsNotFound, errors.Is/As, …) wraps the errors it passes on with %w", Run: errorClassPreservedRule})
	sse := "the environment sink's shared state is modified only by its setter: nothing is stored through the shared pointer"
	addRule("C13", Rule{ID: "C13.R15", Min: 1, Statement: sse, Run: sinkSharedStateRule})
	addRule("C18", Rule{ID: "C18.R10", Min: 1, Statement: sse, Run: sinkSharedStateRule})
	addRule("C17", Rule{ID: "C17.R10", Min: 1, Statement: "the condition probe judges only the condition of the probed type: every verdict that depends on a condition's content is taken after the type test", Run: conditionTypeFilterFirstRule})
}

// ---------------------------------------------------------------------------------------------
// C02.R8 / C01.R10

func staleCopyRule(c *Ctx) {
	p := c.P
	n := 0
	for _, fn := range p.FuncsUnder(pkgControllers) {
		type refresh struct {
			in  ssa.Instruction
			key string
		}
		var refreshes []refresh
		for _, b := range fn.Blocks {
			for _, in := range b.Instrs {
				if obj := p.refreshedObject(in); obj != nil {
					refreshes = append(refreshes, refresh{in, p.objectRootKey(obj)})
				}
			}
		}
		for _, call := range callsIn(fn) {
			cp, ok := call.Instr.(*ssa.Call)
			if !ok {
				continue
			}
			if nm := calleeName(call.Common); nm != "DeepCopy" && nm != "DeepCopyObject" {
				continue
			}
			recv := callRecv(call.Common)
			if recv == nil {
				continue
			}
			n++
			rk := p.objectRootKey(recv)
			var bad []string
			for _, rf := range refreshes {
				if rf.key != rk || rf.in == ssa.Instruction(cp) || !canPrecede(cp, rf.in) {
					continue
				}
				after := map[ssa.Instruction]bool{}
				for _, in := range reachableAfter(rf.in, nil) {
					after[in] = true
				}
				for _, use := range transitiveUses(cp, 4) {
					if !after[use] || use == rf.in {
						continue
					}
					ci, isCall := use.(ssa.CallInstruction)
					if !isCall {
						continue
					}
					cc := ci.Common()
					id := calleeID(cc)
					if strings.HasPrefix(id, "builtin:") || strings.Contains(id, "DeepEqual") || strings.Contains(id, ".MergeFrom") || strings.Contains(id, ".StrategicMergeFrom") ||
						strings.HasPrefix(id, "fmt.") || strings.Contains(id, "logr.") {
						continue // comparison / patch base / message: a snapshot of the old state is the point
					}
					name := calleeName(cc)
					if isAccessorName(name) && !strings.HasPrefix(name, "Set") {
						continue
					}
					bad = append(bad, "used by "+shortPkg(id)+" at "+p.IPos(use)+" after "+p.IPos(rf.in)+" refreshed the original")
				}
			}
			if len(bad) == 0 {
				continue // nothing to decide for copies that are not followed by a refresh
			}
			sort.Strings(bad)
			c.Ob(fn, "copy-before-refresh", cp, c.rule.Statement).Fail("the copy made at %s is %s: it still describes what was in the variable before the read (the desired object with the owner's controller reference already set, or an older version) — ownership tests and patches computed from it are wrong on exactly the paths where the refresh mattered", p.IPos(cp), strings.Join(dedupStrings(bad), "; "))
		}
	}
	o := c.Ob(nil, "copies-scanned", nil, c.rule.Statement)
	if n < 5 {
		o.Fail("reason=anchor-lost: only %d DeepCopy calls seen in %s", n, pkgControllers)
	} else {
		o.OK()
	}
}

// ---------------------------------------------------------------------------------------------
// C04.R10 / C15.R12

func classFilterFirstRule(c *Ctx) {
	p := c.P
	n := 0
	for _, fn := range p.FuncsIn(pkgObjSetPhases) {
		if fn.Parent() != nil {
			continue
		}
		// the class test: GetClass() ==/!= <field class of the receiver>
		var test *ssa.BinOp
		for _, b := range fn.Blocks {
			for _, in := range b.Instrs {
				bo, ok := in.(*ssa.BinOp)
				if !ok || (bo.Op != token.EQL && bo.Op != token.NEQ) {
					continue
				}
				for _, pair := range [][2]ssa.Value{{bo.X, bo.Y}, {bo.Y, bo.X}} {
					g, _ := asCall(pair[0])
					if g == nil || calleeName(g.Common()) != "GetClass" {
						continue
					}
					if ld, ok := stripConv(pair[1]).(*ssa.UnOp); ok && ld.Op == token.MUL {
						if fa, ok := ld.X.(*ssa.FieldAddr); ok && fieldName(fa.X.Type(), fa.Field) == "class" {
							test = bo
						}
					}
				}
			}
		}
		if test == nil {
			continue
		}
		for _, call := range callsIn(fn) {
			if _, isDefer := call.Instr.(*ssa.Defer); isDefer {
				continue
			}
			callee := staticCallee(call.Common)
			effect := false
			if _, ok := classifyWriter(call); ok {
				effect = true
			}
			if callee != nil && strings.HasPrefix(funcPkgPath(callee), modPKO) && !isAccessorName(callee.Name()) && callee.Signature.Recv() != nil &&
				namedTypeString(callee.Signature.Recv().Type()) == namedTypeString(fn.Signature.Recv().Type()) {
				effect = true // a method of the controller itself
			}
			if callee != nil && funcPkgPath(callee) == pkgControllers && !isAccessorName(callee.Name()) {
				effect = true // shared controller helpers (finalizer handling, status from error, …)
			}
			if call.Common.IsInvoke() && (call.Common.Method.Name() == "Reconcile" || call.Common.Method.Name() == "Teardown") {
				effect = true
			}
			if !effect {
				continue
			}
			n++
			o := c.Ob(fn, "own-class-only:"+calleeName(call.Common), call.Instr, c.rule.Statement)
			ok := false
			for _, f := range p.FactsAt(call.Instr.Block()) {
				if f.Cond == ssa.Value(test) && f.Pol == (test.Op == token.EQL) {
					ok = true
				}
			}
			if ok {
				o.OK()
			} else {
				o.Fail("%s runs before (or without) the test that the ObjectSetPhase is of this controller's class: a controller of another class tears down / finalizes phases it cannot see the objects of, reports the clean-up done and removes the finalizer the responsible controller relies on", calleeName(call.Common))
			}
		}
	}
	if n == 0 {
		c.AnchorLost("class test in the Reconcile of " + pkgObjSetPhases)
	}
}

// ---------------------------------------------------------------------------------------------
// C10.R9

func isErrorType(t types.Type) bool {
	if t == nil {
		return false
	}
	errIface := types.Universe.Lookup("error").Type().Underlying().(*types.Interface)
	return types.Implements(t, errIface)
}

// errorPredicate: the call classifies its error argument (returns the index of that argument, or -1).
func errorPredicate(cc *ssa.CallCommon) int {
	id := calleeID(cc)
	switch {
	case id == "errors.Is" || id == "errors.As":
		return 0
	case strings.HasPrefix(id, "k8s.io/apimachinery/pkg/api/errors.Is") || id == "k8s.io/apimachinery/pkg/api/errors.ReasonForError":
		return 0
	case id == "sigs.k8s.io/controller-runtime/pkg/client.IgnoreNotFound" || id == "sigs.k8s.io/controller-runtime/pkg/client.IgnoreAlreadyExists":
		return 0
	}
	if callee := staticCallee(cc); callee != nil && strings.HasPrefix(funcPkgPath(callee), modPKO) && callee.Signature.Recv() == nil {
		sig := callee.Signature
		if sig.Params().Len() == 1 && sig.Results().Len() == 1 && namedTypeString(sig.Params().At(0).Type()) == "error" {
			if b, ok := sig.Results().At(0).Type().Underlying().(*types.Basic); ok && b.Kind() == types.Bool {
				return 0
			}
		}
	}
	return -1
}

// errorProducers: module functions (with bodies) whose error result may be the value v.
func (p *Program) errorProducers(v ssa.Value) []*ssa.Function {
	var out []*ssa.Function
	for _, pv := range p.possibleValues(v) {
		call, _ := asCall(pv)
		if call == nil {
			continue
		}
		id := calleeID(call.Common())
		if id == "fmt.Errorf" {
			// wrapped with %w: the class of the wrapped operand is what the caller tests
			if elems, ok := sliceElems(call.Common().Args[1]); ok {
				for _, e := range elems {
					if isErrorType(stripConv(e).Type()) {
						out = append(out, p.errorProducers(stripConv(e))...)
					}
				}
			}
			continue
		}
		if callee := staticCallee(call.Common()); callee != nil && len(callee.Blocks) > 0 && strings.HasPrefix(funcPkgPath(callee), modPKO) {
			out = append(out, callee)
		}
	}
	return out
}

func errorClassPreservedRule(c *Ctx) {
	p := c.P
	tested := map[*ssa.Function]string{}
	for _, fn := range p.productFuncs() {
		for _, call := range callsIn(fn) {
			idx := errorPredicate(call.Common)
			if idx < 0 || idx >= len(call.Common.Args) {
				continue
			}
			for _, prod := range p.errorProducers(call.Common.Args[idx]) {
				if _, ok := tested[prod]; !ok {
					tested[prod] = shortPkg(calleeID(call.Common)) + " in " + shortFuncID(fn)
				}
			}
		}
	}
	// what a tested function passes on from its callees is tested as well
	for round := 0; round < 3; round++ {
		var add []*ssa.Function
		why := map[*ssa.Function]string{}
		for fn, w := range tested {
			ei := errResultIndex(fn)
			if ei < 0 {
				continue
			}
			for _, b := range fn.Blocks {
				ret, ok := b.Instrs[len(b.Instrs)-1].(*ssa.Return)
				if !ok || ei >= len(ret.Results) {
					continue
				}
				for _, prod := range p.errorProducers(ret.Results[ei]) {
					if _, ok := tested[prod]; !ok {
						add = append(add, prod)
						why[prod] = w + " (through " + shortFuncID(fn) + ")"
					}
				}
			}
		}
		if len(add) == 0 {
			break
		}
		for _, f := range add {
			tested[f] = why[f]
		}
	}
	var fns []*ssa.Function
	for fn := range tested {
		fns = append(fns, fn)
	}
	sort.Slice(fns, func(i, j int) bool { return funcID(fns[i]) < funcID(fns[j]) })
	n := 0
	for _, fn := range fns {
		for _, call := range callsIn(fn) {
			if calleeID(call.Common) != "fmt.Errorf" || len(call.Common.Args) != 2 {
				continue
			}
			elems, ok := sliceElems(call.Common.Args[1])
			if !ok {
				continue
			}
			hasErr := false
			for _, e := range elems {
				if isErrorType(stripConv(e).Type()) {
					hasErr = true
				}
			}
			if !hasErr {
				continue
			}
			n++
			o := c.Ob(fn, "wraps-with-%w", call.Instr, c.rule.Statement)
			format, isConst := constString(call.Common.Args[0])
			if !isConst {
				o.Unknown("the format string is not a constant")
				continue
			}
			verbs, okv := formatVerbs(format)
			if !okv || len(verbs) != len(elems) {
				o.Unknown("cannot match the verbs of %q with its %d operands", format, len(elems))
				continue
			}
			var bad []string
			for i, e := range elems {
				if isErrorType(stripConv(e).Type()) && verbs[i] != 'w' {
					bad = append(bad, "%"+string(verbs[i])+" for "+p.describe(stripConv(e)))
				}
			}
			if len(bad) == 0 {
				o.OK()
			} else {
				o.Fail("the error is formatted with %s instead of %%w, so its class is lost; the result of %s is classified by %s — that test can no longer see it (a missing object becomes a hard failure, a retryable condition a permanent one)", strings.Join(bad, ", "), shortFuncID(fn), tested[fn])
			}
		}
	}
	if n == 0 {
		c.AnchorLost("fmt.Errorf calls in functions whose error is classified by a caller")
	}
}

// formatVerbs returns the verb letters of a Printf format, one per operand (no explicit argument
// indexes, no '*' widths — ok=false then).
func formatVerbs(f string) ([]byte, bool) {
	var out []byte
	for i := 0; i < len(f); i++ {
		if f[i] != '%' {
			continue
		}
		i++
		for i < len(f) && strings.ContainsRune("+-# 0123456789.", rune(f[i])) {
			i++
		}
		if i >= len(f) {
			return nil, false
		}
		switch f[i] {
		case '%':
			continue
		case '[', '*':
			return nil, false
		}
		out = append(out, f[i])
	}
	return out, true
}

// ---------------------------------------------------------------------------------------------
// C13.R15 / C18.R10

const pkgEnvironment = modPKO + "/internal/environment"

func sinkSharedStateRule(c *Ctx) {
	p := c.P
	n := 0
	for _, fn := range p.FuncsIn(pkgEnvironment) {
		root := fn
		for root.Parent() != nil {
			root = root.Parent()
		}
		if root.Signature.Recv() == nil || !strings.HasSuffix(namedTypeString(root.Signature.Recv().Type()), ".Sink") {
			continue
		}
		n++
		o := c.Ob(fn, "shared-env-not-written", nil, c.rule.Statement)
		var bad []string
		for _, b := range fn.Blocks {
			for _, in := range b.Instrs {
				st, ok := in.(*ssa.Store)
				if !ok {
					continue
				}
				if p.throughSharedEnv(st.Addr, 0) {
					bad = append(bad, p.IPos(st))
				}
			}
		}
		if len(bad) > 0 {
			sort.Strings(bad)
			o.Fail("the store at %s goes through the pointer held in Sink.env (not through a copy): what is looked up for one namespace (the HostedCluster) is recorded in the long-lived shared state and shows up in the render context of every other Package — an unchanged Package renders differently", strings.Join(bad, ", "))
		} else {
			o.OK()
		}
	}
	if n == 0 {
		c.AnchorLost("methods of environment.Sink")
	}
}

// throughSharedEnv: the address is reached by dereferencing the pointer loaded from Sink.env.
func (p *Program) throughSharedEnv(addr ssa.Value, d int) bool {
	if d > 10 {
		return false
	}
	switch x := addr.(type) {
	case *ssa.FieldAddr:
		// &(<X>).f : X is a pointer; is X the shared pointer, or itself reached through it?
		return p.isSharedEnvPointer(x.X, d+1) || p.throughSharedEnv(x.X, d+1)
	case *ssa.IndexAddr:
		return p.isSharedEnvPointer(x.X, d+1) || p.throughSharedEnv(x.X, d+1)
	case *ssa.UnOp:
		if x.Op == token.MUL {
			// a pointer loaded from memory that is itself reached through the shared pointer
			return p.throughSharedEnv(x.X, d+1)
		}
	case *ssa.Phi:
		for _, e := range x.Edges {
			if p.throughSharedEnv(e, d+1) {
				return true
			}
		}
	}
	return false
}

func (p *Program) isSharedEnvPointer(v ssa.Value, d int) bool {
	if d > 10 {
		return false
	}
	for _, pv := range p.possibleValues(v) {
		ld, ok := stripConv(pv).(*ssa.UnOp)
		if !ok || ld.Op != token.MUL {
			continue
		}
		if fa, ok := ld.X.(*ssa.FieldAddr); ok && strings.HasSuffix(namedTypeString(fa.X.Type()), ".Sink") && fieldName(fa.X.Type(), fa.Field) == "env" {
			return true
		}
	}
	return false
}

// ---------------------------------------------------------------------------------------------
// C17.R10

func conditionTypeFilterFirstRule(c *Ctx) {
	p := c.P
	n := 0
	for _, fn := range p.FuncsIn(pkgProbing) {
		root := fn
		for root.Parent() != nil {
			root = root.Parent()
		}
		if root.Signature.Recv() == nil || !strings.HasSuffix(namedTypeString(root.Signature.Recv().Type()), ".ConditionProbe") {
			continue
		}
		// the type test: <cond>["type"] ==/!= <probe>.Type
		var test *ssa.BinOp
		var condMap ssa.Value
		for _, b := range fn.Blocks {
			for _, in := range b.Instrs {
				bo, ok := in.(*ssa.BinOp)
				if !ok || (bo.Op != token.EQL && bo.Op != token.NEQ) {
					continue
				}
				for _, side := range []ssa.Value{bo.X, bo.Y} {
					if lk, ok := stripConv(side).(*ssa.Lookup); ok {
						if k, isConst := constString(lk.Index); isConst && k == "type" {
							test, condMap = bo, lk.X
						}
					}
				}
			}
		}
		if test == nil {
			continue
		}
		n++
		o := c.Ob(fn, "type-test-first", test, c.rule.Statement)
		var bad []string
		for _, rc := range p.returnCases(fn) {
			dep := false
			for _, f := range rc.Facts {
				if f.Cond != ssa.Value(test) && dependsOnValue(f.Cond, condMap, 10) {
					dep = true
				}
			}
			if !dep {
				continue
			}
			okf := false
			for _, f := range rc.Facts {
				if f.Cond == ssa.Value(test) && f.Pol == (test.Op == token.EQL) {
					okf = true
				}
			}
			if !okf {
				bad = append(bad, p.IPos(rc.Ret))
			}
		}
		if len(bad) > 0 {
			sort.Strings(bad)
			o.Fail("the return at %s is decided by the content of a condition that was not yet matched against the probed type: a stale or odd condition of another type listed first fails (or passes) the probe", strings.Join(dedupStrings(bad), ", "))
		} else {
			o.OK()
		}
	}
	if n == 0 {
		c.AnchorLost("type test of ConditionProbe in " + pkgProbing)
	}
}

// dependsOnValue: v is computed from target (operands, bounded depth).
func dependsOnValue(v, target ssa.Value, depth int) bool {
	seen := map[ssa.Value]bool{}
	var walk func(v ssa.Value, d int) bool
	walk = func(v ssa.Value, d int) bool {
		if v == nil || d > depth || seen[v] {
			return false
		}
		seen[v] = true
		if v == target {
			return true
		}
		in, ok := v.(ssa.Instruction)
		if !ok {
			return false
		}
		var ops []*ssa.Value
		for _, o := range in.Operands(ops) {
			if *o != nil && walk(*o, d+1) {
				return true
			}
		}
		return false
	}
	return walk(v, 0)
}

// =============================================================================================
// batch 3 (seeded round 8)

func init() {
	addRule("C16", Rule{ID: "C16.R12", Min: 2, Statement: "Deploy hands an error of a step that talks to the API server (constraint check, deployment reconcile) on to its caller: such a failure is never reported as success", Run: deployAPIErrorsReturnedRule})
	snf := "the preflight check of an ObjectTemplate's source or target sees the namespace the user wrote: the object's namespace is defaulted only after the check"
	addRule("C18", Rule{ID: "C18.R12", Min: 2, Statement: snf, Run: preflightBeforeNamespaceDefaultRule})
	addRule("C11", Rule{ID: "C11.R10", Min: 2, Statement: snf, Run: preflightBeforeNamespaceDefaultRule})
	addRule("C19", Rule{ID: "C19.R11", Min: 1, Statement: "a map keyed by an interface type is only indexed with values of hashable concrete types (indexing with an unhashable dynamic value panics)", Run: interfaceKeyedMapRule})
}

// talksToAPI: fn (or a module function it calls statically, bounded) calls a controller-runtime reader/writer.
func (p *Program) talksToAPI(fn *ssa.Function, depth int, seen map[*ssa.Function]bool) bool {
	if fn == nil || len(fn.Blocks) == 0 || seen[fn] {
		return false
	}
	seen[fn] = true
	for _, call := range callsIn(fn) {
		if isReaderGet(call.Common) {
			return true
		}
		if _, ok := classifyWriter(call); ok {
			return true
		}
		if call.Common.IsInvoke() && call.Common.Method.Name() == "List" && strings.HasPrefix(namedTypeString(call.Common.Value.Type()), pkgClient+".") {
			return true
		}
		if callee := staticCallee(call.Common); callee != nil && depth > 0 && strings.HasPrefix(funcPkgPath(callee), modPKO) {
			if p.talksToAPI(callee, depth-1, seen) {
				return true
			}
		}
	}
	return false
}

func deployAPIErrorsReturnedRule(c *Ctx) {
	p := c.P
	n := 0
	for _, fn := range p.FuncsIn(pkgPkgDeploy) {
		if fn.Parent() != nil || fn.Signature.Recv() == nil || stableName(fn) != "Deploy" || !strings.HasSuffix(namedTypeString(fn.Signature.Recv().Type()), ".PackageDeployer") {
			continue
		}
		cases := p.returnCases(fn)
		for _, call := range callsIn(fn) {
			ci, ok := call.Instr.(*ssa.Call)
			if !ok {
				continue
			}
			api := false
			if callee := staticCallee(call.Common); callee != nil && strings.HasPrefix(funcPkgPath(callee), modPKO) {
				api = p.talksToAPI(callee, 3, map[*ssa.Function]bool{})
			}
			if call.Common.IsInvoke() && call.Common.Method.Name() == "Reconcile" {
				api = true
			}
			if !api {
				continue
			}
			n++
			o := c.Ob(fn, "api-error-returned:"+calleeName(call.Common), ci, c.rule.Statement)
			var bad []string
			for _, rc := range cases {
				failed := false
				for _, f := range rc.Facts {
					if x, nonNil, ok := errNilTest(f.Cond); ok && f.Pol == nonNil && p.valueIsResultOf(x, ci) {
						failed = true
					}
				}
				if !failed || len(rc.Results) == 0 {
					continue
				}
				last := rc.Results[len(rc.Results)-1]
				if last != nil && isNilConst(stripConv(last)) {
					bad = append(bad, p.IPos(rc.Ret))
				}
			}
			if len(bad) > 0 {
				sort.Strings(bad)
				o.Fail("when %s fails, Deploy returns nil at %s: the unpack reconciler takes that for success and records the spec hash as unpacked, so a package that hit a transient API error is never rolled out and never retried", calleeName(call.Common), strings.Join(dedupStrings(bad), ", "))
			} else {
				o.OK()
			}
		}
	}
	if n == 0 {
		c.AnchorLost("API-facing steps of PackageDeployer.Deploy")
	}
}

// ---------------------------------------------------------------------------------------------
// C18.R12 / C11.R10

func preflightBeforeNamespaceDefaultRule(c *Ctx) {
	p := c.P
	n := 0
	for _, fn := range p.FuncsIn(pkgObjTemplate) {
		for _, call := range callsIn(fn) {
			if calleeName(call.Common) != "Check" {
				continue
			}
			rt := ""
			if call.Common.IsInvoke() {
				rt = namedTypeString(call.Common.Value.Type())
			} else if callee := staticCallee(call.Common); callee != nil {
				rt = funcPkgPath(callee)
			}
			if !strings.Contains(rt, "/preflight") && !strings.Contains(strings.ToLower(rt), "preflight") {
				continue
			}
			args := callArgs(call.Common)
			if len(args) < 3 {
				continue
			}
			obj := args[2]
			n++
			o := c.Ob(fn, "checked-before-defaulting", call.Instr, c.rule.Statement)
			bad := ""
			for _, other := range callsIn(fn) {
				if calleeName(other.Common) != "SetNamespace" {
					continue
				}
				r := callRecv(other.Common)
				if r == nil || p.objectRootKey(r) != p.objectRootKey(obj) {
					continue
				}
				if canPrecede(other.Instr, call.Instr) && p.namespaceFromAnotherObject(other.Common) {
					bad = p.IPos(other.Instr)
				}
			}
			if bad != "" {
				o.Fail("the namespace of the checked object is overwritten at %s before the preflight check runs: a source (or target) the user placed in a foreign namespace is silently moved into the ObjectTemplate's namespace, the namespace-escalation check can never fire, and the same-named object of the own namespace is read instead", bad)
			} else {
				o.OK()
			}
		}
	}
	if n == 0 {
		c.AnchorLost("preflight Check calls in " + pkgObjTemplate)
	}
}

// namespaceFromAnotherObject: SetNamespace(y.GetNamespace()) with y another object than the receiver
// (defaulting from the owner); setting the namespace from the user's own spec is not.
func (p *Program) namespaceFromAnotherObject(cc *ssa.CallCommon) bool {
	args := callArgs(cc)
	s := callRecv(cc)
	if len(args) != 1 || s == nil {
		return false
	}
	for _, pv := range p.possibleValues(args[0]) {
		g, _ := asCall(pv)
		if g == nil || calleeName(g.Common()) != "GetNamespace" {
			continue
		}
		if r := callRecv(g.Common()); r != nil && p.objectRootKey(r) != p.objectRootKey(s) {
			return true
		}
	}
	return false
}

// ---------------------------------------------------------------------------------------------
// C19.R11

func hashableConcrete(t types.Type) bool {
	switch u := t.Underlying().(type) {
	case *types.Basic:
		return true
	case *types.Pointer, *types.Chan:
		return true
	case *types.Struct:
		for i := 0; i < u.NumFields(); i++ {
			if !hashableConcrete(u.Field(i).Type()) {
				return false
			}
		}
		return true
	case *types.Array:
		return hashableConcrete(u.Elem())
	}
	return false // interface (dynamic type unknown), map, slice, func
}

func interfaceKeyedMapRule(c *Ctx) {
	p := c.P
	n, lookups := 0, 0
	for _, fn := range p.productFuncs() {
		if isAPITypesPkg(funcPkgPath(fn)) || strings.Contains(fn.Name(), "DeepCopy") {
			continue
		}
		for _, b := range fn.Blocks {
			for _, in := range b.Instrs {
				var m, key ssa.Value
				switch x := in.(type) {
				case *ssa.Lookup:
					m, key = x.X, x.Index
				case *ssa.MapUpdate:
					m, key = x.Map, x.Key
				default:
					continue
				}
				mt, ok := m.Type().Underlying().(*types.Map)
				if !ok {
					continue
				}
				lookups++
				if _, isTP := types.Unalias(mt.Key()).(*types.TypeParam); isTP {
					continue // generic code: the key type is fixed (and comparable) at instantiation
				}
				if _, isIface := mt.Key().Underlying().(*types.Interface); !isIface {
					continue
				}
				n++
				o := c.Ob(fn, "interface-key", in, c.rule.Statement)
				okAll := true
				what := ""
				for _, pv := range p.possibleValues(key) {
					mi, isMI := pv.(*ssa.MakeInterface)
					if k, isConst := pv.(*ssa.Const); isConst && k.Value == nil {
						continue // nil interface: hashable
					}
					if !isMI || !hashableConcrete(mi.X.Type()) {
						okAll = false
						what = p.describe(pv)
					}
				}
				if okAll {
					o.OK()
				} else {
					o.Fail("the map is keyed by an interface type and indexed with %s, whose dynamic type is not known to be hashable: a map or list in that position (any JSON value can be) makes the runtime panic with \"hash of unhashable type\" instead of returning an error", what)
				}
			}
		}
	}
	o := c.Ob(nil, "map-accesses-scanned", nil, c.rule.Statement)
	if lookups < 100 {
		o.Fail("reason=anchor-lost: only %d map accesses seen", lookups)
	} else {
		o.OK()
	}
}

// =============================================================================================
// batch 4 (seeded round 9)

func init() {
	addRule("C18", Rule{ID: "C18.R13", Min: 1, Statement: "the requeue decided for a missing optional source reaches the caller: once RequeueAfter is set on the result, the result is not replaced before it is returned", Run: optionalSourceRequeueKeptRule})
}

func optionalSourceRequeueKeptRule(c *Ctx) {
	p := c.P
	n := 0
	for _, fn := range p.FuncsIn(pkgObjTemplate) {
		if fn.Parent() != nil {
			continue
		}
		for _, b := range fn.Blocks {
			for _, in := range b.Instrs {
				st, ok := in.(*ssa.Store)
				if !ok {
					continue
				}
				fa, ok := st.Addr.(*ssa.FieldAddr)
				if !ok || fieldName(fa.X.Type(), fa.Field) != "RequeueAfter" {
					continue
				}
				// the value: the optional-resource retry interval of the reconciler
				ld, ok := stripConv(st.Val).(*ssa.UnOp)
				if !ok || ld.Op != token.MUL {
					continue
				}
				vfa, ok := ld.X.(*ssa.FieldAddr)
				if !ok || fieldName(vfa.X.Type(), vfa.Field) != "optionalResourceRetryInterval" {
					continue
				}
				res, ok := fa.X.(*ssa.Alloc)
				if !ok {
					continue
				}
				n++
				o := c.Ob(fn, "optional-source-requeue-kept", st, c.rule.Statement)
				bad := ""
				for _, r := range reachableAfter(st, nil) {
					ws, ok := r.(*ssa.Store)
					if !ok || ws.Addr != ssa.Value(res) {
						continue
					}
					if l, isLoad := stripConv(ws.Val).(*ssa.UnOp); isLoad && l.Op == token.MUL && l.X == ssa.Value(res) {
						continue // `return res, …` with a named result
					}
					bad = p.IPos(ws)
				}
				if bad != "" {
					o.Fail("after the retry interval for a missing optional source was put on the result, the result is replaced at %s: the ObjectTemplate is not requeued, and a source that appears later never re-renders the target (sources are only watched once they exist)", bad)
				} else {
					o.OK()
				}
			}
		}
	}
	if n == 0 {
		c.AnchorLost("store of optionalResourceRetryInterval into the reconcile result in " + pkgObjTemplate)
	}
}
