package main

import (
	"fmt"
	"go/token"
	"go/types"
	"sort"
	"strings"

	"golang.org/x/tools/go/ssa"
)

// C17.R3 — observedGeneration wrapper, parsers.

// c17Stale is one observedGeneration test of a function: either the NestedInt64 call itself (Site ==
// N) or the call of an extracted helper that performs it on its parameters and reports the verdict
// as its boolean result (Site = the helper call, N/Og/Ok/Err live in Helper).
type c17Stale struct {
	N           *ssa.Call
	Og, Ok, Err ssa.Value
	Site        *ssa.Call // the instruction of the analysed function at which the test runs
	Map         ssa.Value // the inspected map, as a value of the analysed function
	Path        []string  // the constant field path, as seen from the analysed function
	Helper      *ssa.Function
	HelperObj   int    // index (in Helper.Params / Site args) of the object whose generation is compared
	HelperWhy   string // non-empty: the helper's result is not exactly the stale verdict
	// Lookup: the NestedInt64 call sits in this helper, which hands back (value, found) with
	// found == (err == nil && ok); Og/Ok are the results of the helper call in the analysed function,
	// Err is nil (folded into Ok).
	Lookup    *ssa.Function
	LookupWhy string // non-empty: the helper is not recognised as such a lookup
}

// c17StaleCalls: the observedGeneration tests of f: unstructured.NestedInt64(x, ..., "observedGeneration")
// calls, and calls of extracted helpers whose result is such a test of their parameters.
func (p *Program) c17StaleCalls(f *ssa.Function) []c17Stale {
	var out []c17Stale
	for _, cl := range callsIn(f) {
		call, ok := cl.Instr.(*ssa.Call)
		if !ok {
			continue
		}
		if isCallTo(cl.Common, pkgUnstr+".NestedInt64") && len(call.Call.Args) == 2 {
			path, ok := c17VariadicConsts(call.Call.Args[1])
			if !ok || len(path) == 0 || path[len(path)-1] != "observedGeneration" {
				continue
			}
			out = append(out, c17Stale{N: call, Og: c16Extract(call, 0), Ok: c16Extract(call, 1), Err: c16Extract(call, 2),
				Site: call, Map: call.Call.Args[0], Path: path})
			continue
		}
		h := staticCallee(cl.Common)
		if h == nil || !p.inlinable(h) || h == f {
			continue
		}
		if res := h.Signature.Results(); res.Len() != 1 || res.At(0).Type().String() != "bool" {
			// a helper that only performs the lookup and hands back (value, found): the comparison with
			// the generation stays with f
			if lk, ok := p.c17LookupHelperCall(call, h); ok {
				out = append(out, lk)
			}
			continue
		}
		for _, hc := range callsIn(h) {
			n, ok := hc.Instr.(*ssa.Call)
			if !ok || !isCallTo(hc.Common, pkgUnstr+".NestedInt64") || len(n.Call.Args) != 2 {
				continue
			}
			mi, pi := paramIndex(h, n.Call.Args[0]), paramIndex(h, n.Call.Args[1])
			if mi < 0 || mi >= len(call.Call.Args) {
				continue
			}
			var path []string
			if pi >= 0 && pi < len(call.Call.Args) {
				path, ok = c17VariadicConsts(call.Call.Args[pi])
			} else {
				path, ok = c17VariadicConsts(n.Call.Args[1])
			}
			if !ok || len(path) == 0 || path[len(path)-1] != "observedGeneration" {
				continue
			}
			st := c17Stale{N: n, Og: c16Extract(n, 0), Ok: c16Extract(n, 1), Err: c16Extract(n, 2),
				Site: call, Map: call.Call.Args[mi], Path: path, Helper: h, HelperObj: -1}
			st.HelperObj, st.HelperWhy = p.c17HelperIsStaleVerdict(h, st)
			out = append(out, st)
		}
	}
	return out
}

// c17LookupHelperCall: call is a call of helper h that performs unstructured.NestedInt64 on its
// parameters and hands back the value together with one flag that folds `err == nil && found`
// (results: one int64, one bool, in either order). The flag must be true only under err==nil ∧ found —
// then with the looked-up value as the int64 result — and false only under err!=nil ∨ !found: a
// declared observedGeneration is never reported as absent. The test then reads, in f,
// `flag && value != generation`; Err is folded into Ok.
func (p *Program) c17LookupHelperCall(call *ssa.Call, h *ssa.Function) (c17Stale, bool) {
	res := h.Signature.Results()
	if res.Len() != 2 {
		return c17Stale{}, false
	}
	vi, fi := -1, -1
	for i := 0; i < 2; i++ {
		switch res.At(i).Type().String() {
		case "int64":
			vi = i
		case "bool":
			fi = i
		}
	}
	if vi < 0 || fi < 0 {
		return c17Stale{}, false
	}
	for _, hc := range callsIn(h) {
		n, ok := hc.Instr.(*ssa.Call)
		if !ok || !isCallTo(hc.Common, pkgUnstr+".NestedInt64") || len(n.Call.Args) != 2 {
			continue
		}
		mi, pi := paramIndex(h, n.Call.Args[0]), paramIndex(h, n.Call.Args[1])
		if mi < 0 || mi >= len(call.Call.Args) {
			continue
		}
		var path []string
		if pi >= 0 && pi < len(call.Call.Args) {
			path, ok = c17VariadicConsts(call.Call.Args[pi])
		} else {
			path, ok = c17VariadicConsts(n.Call.Args[1])
		}
		if !ok || len(path) == 0 || path[len(path)-1] != "observedGeneration" {
			continue
		}
		og, okv, errv := c16Extract(n, 0), c16Extract(n, 1), c16Extract(n, 2)
		if og == nil || okv == nil || errv == nil {
			continue
		}
		st := c17Stale{N: n, Og: c16Extract(call, vi), Ok: c16Extract(call, fi), Site: call, Map: call.Call.Args[mi], Path: path,
			Lookup: h}
		nTrue := 0
		for _, rc := range p.c17ReturnCases(h) {
			if len(rc.Results) != 2 {
				st.LookupWhy = "unexpected results"
				continue
			}
			for _, lf := range p.c17Expand(rc.Results[fi], rc.Facts, 0) {
				var pols []bool
				if v, isConst := c17ConstBoolResult(lf.V); isConst {
					pols = []bool{v}
				} else {
					pols = []bool{true, false}
				}
				for _, pol := range pols {
					fs := lf.Facts
					if len(pols) == 2 {
						fs = append(append([]Fact{}, lf.Facts...), p.mkFact(lf.V, pol))
					}
					declared := p.nilnessFromFacts(fs, errv) == yesTri && p.boolFromFacts(fs, okv) == yesTri
					absent := p.nilnessFromFacts(fs, errv) == noTri || p.boolFromFacts(fs, okv) == noTri
					switch {
					case pol && !declared:
						st.LookupWhy = fmt.Sprintf("%s reports a value at %s without err==nil ∧ found", h.Name(), p.IPos(rc.Ret))
					case pol:
						nTrue++
						for _, vl := range p.c17Expand(rc.Results[vi], fs, 0) {
							if !p.sameValue(vl.V, og) {
								st.LookupWhy = fmt.Sprintf("%s hands back %s at %s, not the looked-up value", h.Name(), c17Short(p.describe(vl.V)), p.IPos(rc.Ret))
							}
						}
					case !absent:
						st.LookupWhy = fmt.Sprintf("%s may report a declared observedGeneration as absent at %s", h.Name(), p.IPos(rc.Ret))
					}
				}
			}
		}
		if nTrue == 0 && st.LookupWhy == "" {
			st.LookupWhy = h.Name() + " never reports a value"
		}
		if st.Og == nil || st.Ok == nil {
			// the results are not consumed by f: no test there
			continue
		}
		return st, true
	}
	return c17Stale{}, false
}

type c17BoolCase struct {
	Val   bool
	Facts []Fact
	Ret   *ssa.Return
}

// c17BoolCases: the ways f can produce its first (boolean) result: constants with the facts of their
// return edge; a computed result contributes one case per truth value, with the corresponding fact.
func (p *Program) c17BoolCases(f *ssa.Function) []c17BoolCase {
	var out []c17BoolCase
	for _, rc := range p.c17ReturnCases(f) {
		if len(rc.Results) == 0 {
			continue
		}
		for _, lf := range p.c17Expand(rc.Results[0], rc.Facts, 0) {
			if v, isConst := c17ConstBoolResult(lf.V); isConst {
				out = append(out, c17BoolCase{Val: v, Facts: lf.Facts, Ret: rc.Ret})
				continue
			}
			for _, pol := range []bool{true, false} {
				fs := append(append([]Fact{}, lf.Facts...), p.mkFact(lf.V, pol))
				out = append(out, c17BoolCase{Val: pol, Facts: fs, Ret: rc.Ret})
			}
		}
	}
	return out
}

// c17HelperIsStaleVerdict: helper h returns true exactly under err==nil ∧ found ∧ observedGeneration
// != <param>.GetGeneration(). Returns the index of that parameter.
func (p *Program) c17HelperIsStaleVerdict(h *ssa.Function, st c17Stale) (int, string) {
	direct := st
	direct.Helper = nil
	cases := p.c17BoolCases(h)
	if len(cases) == 0 {
		return -1, "no boolean result"
	}
	why := "the generation is not compared with GetGeneration() of a parameter of " + h.Name()
	for i, prm := range h.Params {
		ok, sawTrue := true, false
		for _, bc := range cases {
			if bc.Val {
				sawTrue = true
				if !p.c17IsStale(bc.Facts, direct, prm) {
					ok = false
					why = fmt.Sprintf("%s returns true at %s without err==nil ∧ found ∧ observedGeneration != generation", h.Name(), p.IPos(bc.Ret))
				}
			} else if !p.c17NotStale(bc.Facts, direct, prm) {
				ok = false
				why = fmt.Sprintf("%s may return false at %s for a declared, different observedGeneration", h.Name(), p.IPos(bc.Ret))
			}
		}
		if ok && sawTrue {
			return i, ""
		}
	}
	return -1, why
}

// c17IsStale: the facts establish err==nil ∧ found ∧ observedGeneration != obj.GetGeneration().
func (p *Program) c17IsStale(fs []Fact, st c17Stale, obj ssa.Value) bool {
	if st.Helper != nil {
		if st.HelperObj < 0 || st.HelperObj >= len(st.Site.Call.Args) || !p.sameValue(st.Site.Call.Args[st.HelperObj], obj) {
			return false
		}
		return p.boolFromFacts(fs, st.Site) == yesTri
	}
	if st.Og == nil || st.Ok == nil || (st.Err == nil && st.Lookup == nil) || st.LookupWhy != "" {
		return false
	}
	if (st.Err != nil && p.nilnessFromFacts(fs, st.Err) != yesTri) || p.boolFromFacts(fs, st.Ok) != yesTri {
		return false
	}
	for _, f := range fs {
		a, b, equal, ok := c17EqFact(f)
		if !ok || equal {
			continue
		}
		for _, pr := range [][2]ssa.Value{{a, b}, {b, a}} {
			if p.sameValue(pr[0], st.Og) && p.c17CallChain(pr[1], obj, "GetGeneration") {
				return true
			}
		}
	}
	return false
}

// c17NotStale: the facts contradict err==nil ∧ found ∧ observedGeneration != obj.GetGeneration().
func (p *Program) c17NotStale(fs []Fact, st c17Stale, obj ssa.Value) bool {
	if st.Helper != nil {
		return p.boolFromFacts(fs, st.Site) == noTri
	}
	if st.Og == nil || st.Ok == nil || (st.Err == nil && st.Lookup == nil) || st.LookupWhy != "" {
		return false
	}
	if (st.Err != nil && p.nilnessFromFacts(fs, st.Err) == noTri) || p.boolFromFacts(fs, st.Ok) == noTri {
		return true
	}
	for _, f := range fs {
		a, b, equal, ok := c17EqFact(f)
		if !ok || !equal {
			continue
		}
		for _, pr := range [][2]ssa.Value{{a, b}, {b, a}} {
			if p.sameValue(pr[0], st.Og) && p.c17CallChain(pr[1], obj, "GetGeneration") {
				return true
			}
		}
	}
	return false
}

// c17StaleOnlyFails: every return reachable from a block in which the stale facts hold is a
// constant-false return; at least one such block exists.
func (p *Program) c17StaleOnlyFails(f *ssa.Function, st c17Stale, obj ssa.Value) (tri, string) {
	if st.Helper != nil && st.HelperWhy != "" {
		return unknownTri, "the observedGeneration test was extracted into " + st.Helper.Name() + ", whose result is not recognised as the stale verdict: " + st.HelperWhy
	}
	if st.Lookup != nil && st.LookupWhy != "" {
		return unknownTri, "the observedGeneration lookup was extracted into " + st.Lookup.Name() + ", which is not recognised as handing back exactly (value, err==nil ∧ found): " + st.LookupWhy
	}
	rcs := p.c17ReturnCases(f)
	n := 0
	for _, b := range f.Blocks {
		if !p.c17IsStale(p.FactsAt(b), st, obj) {
			continue
		}
		n++
		for _, in := range reachableFromEdge(b, nil) {
			ret, ok := in.(*ssa.Return)
			if !ok {
				continue
			}
			for _, rc := range rcs {
				if rc.Ret != ret {
					continue
				}
				// a return whose own guard facts are contradictory never executes: the fall-through
				// behind `if true { return … }` that the normaliser's tail duplication leaves for the
				// helper return that always takes the branch
				if pfDeadByFacts(rc.Facts) {
					continue
				}
				if v, isConst := c17ConstBoolResult(rc.Results[0]); !isConst || v {
					return noTri, fmt.Sprintf("with a declared observedGeneration different from metadata.generation the return at %s (result %s) is still reachable", p.IPos(ret), p.describe(rc.Results[0]))
				}
			}
		}
	}
	if n == 0 {
		return unknownTri, "no program point at which err==nil ∧ found ∧ observedGeneration != obj.GetGeneration() is established by branch conditions"
	}
	return yesTri, fmt.Sprintf("%d block(s) under the stale-generation guard reach only `false`", n)
}

func c17SliceParamOf(f *ssa.Function, elemType string) *ssa.Parameter {
	for _, prm := range f.Params {
		if sl, ok := prm.Type().Underlying().(*types.Slice); ok && namedTypeString(sl.Elem()) == elemType {
			if _, isPtr := sl.Elem().(*types.Pointer); !isPtr {
				return prm
			}
		}
	}
	return nil
}

func c17ParamOfNamedType(f *ssa.Function, typ string) *ssa.Parameter {
	for _, prm := range f.Params {
		if _, isPtr := prm.Type().(*types.Pointer); !isPtr && namedTypeString(prm.Type()) == typ {
			return prm
		}
	}
	return nil
}

// c17ElemOf: v is a (field path of a) load of slice[idx], possibly through a local copy of the element.
func c17ElemOf(v ssa.Value, slice ssa.Value) (idx ssa.Value, path []string, ok bool) {
	root, path := c17FieldPath(v)
	for i := 0; i < 3; i++ {
		switch x := root.(type) {
		case *ssa.IndexAddr:
			if x.X == slice {
				return x.Index, path, true
			}
			return nil, nil, false
		case *ssa.Index:
			if x.X == slice {
				return x.Index, path, true
			}
			return nil, nil, false
		case *ssa.Alloc:
			var val ssa.Value
			n := 0
			for _, r := range referrersOf(x) {
				if st, isSt := r.(*ssa.Store); isSt && st.Addr == ssa.Value(x) {
					n++
					val = st.Val
				}
			}
			if n != 1 {
				return nil, nil, false
			}
			var p2 []string
			root, p2 = c17FieldPath(val)
			path = append(p2, path...)
		default:
			return nil, nil, false
		}
	}
	return nil, nil, false
}

// nested stores into a composite literal: "A.B" → value
func c17NestedStores(a *ssa.Alloc) map[string]ssa.Value {
	out := map[string]ssa.Value{}
	for _, b := range a.Parent().Blocks {
		for _, in := range b.Instrs {
			st, ok := in.(*ssa.Store)
			if !ok || st.Addr == ssa.Value(a) {
				continue
			}
			root, path := c17FieldPath(st.Addr)
			if root == ssa.Value(a) && len(path) > 0 {
				out[strings.Join(path, ".")] = st.Val
			}
		}
	}
	return out
}

type c17Leaf struct {
	V     ssa.Value
	Facts []Fact
}

// c17Expand splits phis per incoming edge, accumulating the facts of each edge.
func (p *Program) c17Expand(v ssa.Value, facts []Fact, depth int) []c17Leaf {
	v = stripConv(v)
	if ph, ok := v.(*ssa.Phi); ok && depth < 6 {
		var out []c17Leaf
		for i, e := range ph.Edges {
			if !p.c17PhiEdgeFeasible(ph, i, facts) {
				// e.g. the `return nil, err` of a merged helper when its error is known nil here
				continue
			}
			fs := append(append([]Fact{}, facts...), p.FactsOnEdge(ph.Block().Preds[i], ph.Block())...)
			out = append(out, p.c17Expand(e, fs, depth+1)...)
		}
		return out
	}
	return []c17Leaf{{V: v, Facts: facts}}
}

// ---------------------------------------------------------------------------------------------
// values that merge at a join (results of a multi-return helper once its body stands at the call
// site: one phi per result, all in the block after the helper's body)

// c17NilnessOf: is the value itself nil (yes) / certainly non-nil (no)?
func c17NilnessOf(v ssa.Value) tri {
	for i := 0; i < 6; i++ {
		switch x := v.(type) {
		case *ssa.ChangeInterface:
			v = x.X
			continue
		case *ssa.ChangeType:
			v = x.X
			continue
		case *ssa.MakeInterface, *ssa.Alloc, *ssa.MakeSlice, *ssa.MakeMap, *ssa.MakeClosure, *ssa.Function:
			return noTri
		case *ssa.Const:
			if x.Value == nil {
				return yesTri
			}
			return unknownTri
		}
		break
	}
	if definitelyNonNil(v) {
		return noTri
	}
	return unknownTri
}

// c17PhiEdgeFeasible: can the phi have been entered over its i-th edge when `facts` hold? No when the
// facts say something about the phi or about another phi of the same block (the sibling results of one
// helper return) that the value carried by that edge contradicts.
func (p *Program) c17PhiEdgeFeasible(ph *ssa.Phi, i int, facts []Fact) bool {
	blk := ph.Block()
	if i >= len(blk.Preds) {
		return true
	}
	siblingEdge := func(x ssa.Value, i int) (ssa.Value, bool) {
		s, ok := x.(*ssa.Phi)
		if !ok || s.Block() != blk || i >= len(s.Edges) {
			return nil, false
		}
		return s.Edges[i], true
	}
	edgeFs := p.FactsOnEdge(blk.Preds[i], blk)
	for _, f := range facts {
		if sv, ok := siblingEdge(f.Cond, i); ok {
			if cb, isConst := constBool(sv); isConst {
				if cb != f.Pol {
					return false
				}
			} else if t := p.boolFromFacts(edgeFs, sv); (t == yesTri && !f.Pol) || (t == noTri && f.Pol) {
				return false
			}
			continue
		}
		x, trueMeansNonNil, isNilTest := errNilTest(f.Cond)
		if !isNilTest {
			continue
		}
		sv, ok := siblingEdge(x, i)
		if !ok {
			continue
		}
		wantNil := f.Pol != trueMeansNonNil
		n := c17NilnessOf(sv)
		if n == unknownTri {
			n = p.nilnessFromFacts(edgeFs, sv)
		}
		if (wantNil && n == noTri) || (!wantNil && n == yesTri) {
			return false
		}
	}
	return true
}

// c17PhiUnderFacts: the values v can carry at a point where `facts` hold. An incoming edge of a phi
// is dropped when it contradicts what the facts say about that phi or about another phi of the same
// block (the sibling results of one helper return: `return nil, false, nil` cannot be the return
// taken when the flag was tested true). Facts about a phi are established after the phi's block ran,
// so they speak about the same execution of the join as the value read here.
func (p *Program) c17PhiUnderFacts(v ssa.Value, facts []Fact, depth int) []ssa.Value {
	ph, ok := v.(*ssa.Phi)
	if !ok || depth > 6 {
		return []ssa.Value{v}
	}
	blk := ph.Block()
	var out []ssa.Value
	seen := map[ssa.Value]bool{}
	for i, e := range ph.Edges {
		if i >= len(blk.Preds) {
			return []ssa.Value{v}
		}
		feasible := p.c17PhiEdgeFeasible(ph, i, facts)
		if !feasible {
			continue
		}
		for _, x := range p.c17PhiUnderFacts(e, facts, depth+1) {
			if !seen[x] {
				seen[x] = true
				out = append(out, x)
			}
		}
	}
	return out
}

// c17BoundValue: the value a phi has on a path (bindings are resolved when they are recorded, so one
// lookup suffices; a phi the path did not pass stays as it is).
func c17BoundValue(v ssa.Value, bind map[*ssa.Phi]ssa.Value) ssa.Value {
	if ph, ok := v.(*ssa.Phi); ok {
		if b, ok := bind[ph]; ok {
			return b
		}
	}
	return v
}

// c17CondOnPath: the truth value of a branch condition on a path that entered its joins through the
// edges recorded in bind and took the branches recorded in known (condition with `!` stripped ↦ its
// truth value on this path); unknownTri when the path does not decide it.
func c17CondOnPath(cond ssa.Value, bind map[*ssa.Phi]ssa.Value, known map[ssa.Value]bool, depth int) tri {
	neg := func(t tri) tri {
		switch t {
		case yesTri:
			return noTri
		case noTri:
			return yesTri
		}
		return unknownTri
	}
	if depth > 6 {
		return unknownTri
	}
	if b := c17BoundValue(cond, bind); b != cond {
		// a value taken from a binding is final: its operands are not looked up again (they were
		// resolved when the binding was recorded)
		cond, bind = b, nil
	}
	if cb, ok := constBool(cond); ok {
		if cb {
			return yesTri
		}
		return noTri
	}
	if t, ok := known[cond]; ok {
		// the path already branched on this very condition
		if t {
			return yesTri
		}
		return noTri
	}
	switch x := cond.(type) {
	case *ssa.UnOp:
		if x.Op == token.NOT {
			return neg(c17CondOnPath(x.X, bind, known, depth+1))
		}
	case *ssa.BinOp:
		if x.Op != token.EQL && x.Op != token.NEQ {
			return unknownTri
		}
		l, r := c17BoundValue(x.X, bind), c17BoundValue(x.Y, bind)
		res := unknownTri // truth of l == r
		switch {
		case isNilConst(r):
			res = c17NilnessOnPath(l, known)
		case isNilConst(l):
			res = c17NilnessOnPath(r, known)
		default:
			if cb, ok := constBool(r); ok {
				res = c17CondOnPath(x.X, bind, known, depth+1)
				if !cb {
					res = neg(res)
				}
			} else if cb, ok := constBool(l); ok {
				res = c17CondOnPath(x.Y, bind, known, depth+1)
				if !cb {
					res = neg(res)
				}
			}
		}
		if x.Op == token.NEQ {
			res = neg(res)
		}
		return res
	}
	return unknownTri
}

// c17NilnessOnPath: is v nil (yes) / non-nil (no) on a path that took the branches in known? Beyond
// what the value says about itself, an earlier nil test of the same value decides it (`if err != nil
// { return nil, false, err }` in a merged helper: the error that arrives at the join over that edge
// is the one just tested non-nil).
func c17NilnessOnPath(v ssa.Value, known map[ssa.Value]bool) tri {
	if t := c17NilnessOf(v); t != unknownTri {
		return t
	}
	sv := stripConv(v)
	for kc, truth := range known {
		x, trueMeansNonNil, ok := errNilTest(kc)
		if !ok || (x != v && stripConv(x) != sv) {
			continue
		}
		if truth == trueMeansNonNil {
			return noTri
		}
		return yesTri
	}
	return unknownTri
}

// c17ComputedIn: is v, or something it is computed from (a few levels), an instruction of block b?
// Such a value is computed anew when a path enters b again; what the path knew about it is stale.
func c17ComputedIn(v ssa.Value, b *ssa.BasicBlock, depth int) bool {
	in, ok := v.(ssa.Instruction)
	if !ok {
		return false
	}
	if in.Block() == b {
		return true
	}
	if depth >= 4 {
		return false
	}
	switch v.(type) {
	case *ssa.Phi, *ssa.Call, *ssa.Alloc:
		return false
	}
	for _, op := range in.Operands(nil) {
		if op != nil && *op != nil && c17ComputedIn(*op, b, depth+1) {
			return true
		}
	}
	return false
}

// c17FeasibleReach: is there a path from block `from` to block `to` that does not enter `avoid` and is
// consistent with itself? The walk records, for every join it enters, which incoming edge it used
// (the value each phi of the join has on this path) and does not follow the branch of an `if` whose
// condition those choices decide the other way. `infeasible` may veto further edges. An exhausted
// search budget counts as reachable.
func c17FeasibleReach(from, to, avoid *ssa.BasicBlock, infeasible func(from, to *ssa.BasicBlock) bool) bool {
	type state struct {
		b     *ssa.BasicBlock
		bind  map[*ssa.Phi]ssa.Value
		known map[ssa.Value]bool
	}
	sig := func(s state) string {
		var parts []string
		for ph, v := range s.bind {
			parts = append(parts, fmt.Sprintf("%s=%p", ph.Name(), v))
		}
		for c, t := range s.known {
			parts = append(parts, fmt.Sprintf("?%p=%v", c, t))
		}
		sort.Strings(parts)
		return fmt.Sprintf("%d|%s", s.b.Index, strings.Join(parts, ","))
	}
	seen := map[string]bool{}
	work := []state{{b: from, bind: map[*ssa.Phi]ssa.Value{}, known: map[ssa.Value]bool{}}}
	for budget := 20000; len(work) > 0; budget-- {
		if budget == 0 {
			return true
		}
		s := work[len(work)-1]
		work = work[:len(work)-1]
		if s.b == avoid {
			continue
		}
		if s.b == to {
			return true
		}
		k := sig(s)
		if seen[k] {
			continue
		}
		seen[k] = true
		decided := unknownTri
		var cond ssa.Value // the branch condition with `!` stripped; condNeg: an odd number was stripped
		condNeg := false
		if iff, ok := s.b.Instrs[len(s.b.Instrs)-1].(*ssa.If); ok && len(s.b.Succs) == 2 && s.b.Succs[0] != s.b.Succs[1] {
			decided = c17CondOnPath(iff.Cond, s.bind, s.known, 0)
			cond = iff.Cond
			for {
				u, isNot := cond.(*ssa.UnOp)
				if !isNot || u.Op != token.NOT {
					break
				}
				cond, condNeg = u.X, !condNeg
			}
		}
		for si, nx := range s.b.Succs {
			if (decided == yesTri && si == 1) || (decided == noTri && si == 0) {
				continue
			}
			if infeasible != nil && infeasible(s.b, nx) {
				continue
			}
			pi := -1
			for i, pr := range nx.Preds {
				if pr == s.b {
					pi = i
					break
				}
			}
			nb := make(map[*ssa.Phi]ssa.Value, len(s.bind)+2)
			for ph, v := range s.bind {
				nb[ph] = v
			}
			for _, in := range nx.Instrs {
				ph, ok := in.(*ssa.Phi)
				if !ok {
					break
				}
				if pi >= 0 && pi < len(ph.Edges) {
					nb[ph] = c17BoundValue(ph.Edges[pi], s.bind)
				} else {
					delete(nb, ph)
				}
			}
			// the branch taken here is known from now on, until the path enters a block again that
			// computes the condition (or what it tests) anew
			nk := make(map[ssa.Value]bool, len(s.known)+1)
			for c, t := range s.known {
				nk[c] = t
			}
			if cond != nil && decided == unknownTri {
				if _, isConst := cond.(*ssa.Const); !isConst {
					nk[cond] = (si == 0) != condNeg
				}
			}
			for c := range nk {
				if c17ComputedIn(c, nx, 0) {
					delete(nk, c)
				}
			}
			work = append(work, state{b: nx, bind: nb, known: nk})
		}
	}
	return false
}

// c17FieldNil: do the facts say <prm>.<field> is nil (yes) / non-nil (no)?
func c17FieldNil(fs []Fact, prm *ssa.Parameter, field string) tri {
	for _, f := range fs {
		x, trueMeansNonNil, ok := errNilTest(f.Cond)
		if !ok {
			continue
		}
		root, path := c17FieldPath(x)
		if len(path) == 1 && path[0] == field && c17IsParamOrSpill(root, prm) {
			if f.Pol == trueMeansNonNil {
				return noTri
			}
			return yesTri
		}
	}
	return unknownTri
}

// c17FieldOfWhole: the values field `name` of the struct value v can hold, v being the load of a local
// variable that is filled field by field or by a literal (every definition that can be in effect at
// the load; ok=false when one of them is the zero value or unknown).
func (p *Program) c17FieldOfWhole(v ssa.Value, name string) (vals []ssa.Value, ok bool) {
	ld, isLoad := stripConv(v).(*ssa.UnOp)
	if !isLoad || ld.Op != token.MUL {
		return nil, false
	}
	a, isAlloc := ld.X.(*ssa.Alloc)
	if !isAlloc {
		return nil, false
	}
	st, isStruct := a.Type().Underlying().(*types.Pointer).Elem().Underlying().(*types.Struct)
	if !isStruct {
		return nil, false
	}
	field := -1
	for i := 0; i < st.NumFields(); i++ {
		if st.Field(i).Name() == name {
			field = i
		}
	}
	if field < 0 {
		return nil, false
	}
	defs, known := p.fieldDefsAt(a, field, ld, nil)
	if !known || len(defs) == 0 {
		return nil, false
	}
	for _, d := range defs {
		switch {
		case d.Val != nil:
			vals = append(vals, d.Val)
		case d.Whole != nil:
			sub, ok := p.c17FieldOfWhole(d.Whole, name)
			if !ok {
				return nil, false
			}
			vals = append(vals, sub...)
		default:
			return nil, false // may still hold the zero value
		}
	}
	return vals, true
}

// c17MsLen: the length of a make([]T, len, cap); nil for a nil MakeSlice.
func c17MsLen(ms *ssa.MakeSlice) ssa.Value {
	if ms == nil {
		return nil
	}
	return ms.Len
}

// c17Uniq drops repeated messages (the copies the normaliser's tail duplication makes of one source
// statement are reported once).
func c17Uniq(pr []string) []string {
	seen := map[string]bool{}
	var out []string
	for _, s := range pr {
		if !seen[s] {
			seen[s] = true
			out = append(out, s)
		}
	}
	return out
}

func c17r3(c *Ctx) {
	p := c.P
	// wrapper types (generation guards) and selector types, from the Probe implementations
	wrapperTypes := map[string]bool{}
	kindOfType := map[string]string{}
	nWrap := 0
	for _, f := range c17ProbeMethods(p) {
		k := c17Classify(f)
		kindOfType[namedTypeString(f.Signature.Recv().Type())] = k
		if k != "wrapper" {
			continue
		}
		stales := p.c17StaleCalls(f)
		if len(stales) == 0 {
			continue
		}
		nWrap++
		c.Visit(f)
		wrapperTypes[namedTypeString(f.Signature.Recv().Type())] = true
		obj := c17ObjParam(f)
		o := c.Ob(f, "stale-generation-fails", stales[0].Site, "the wrapper returns false exactly under err==nil ∧ found ∧ status.observedGeneration != obj.GetGeneration() and otherwise returns the wrapped prober's verdict on the same object")
		var pr []string
		st := stales[0]
		if path := st.Path; strings.Join(path, ".") != "status.observedGeneration" {
			pr = append(pr, "the inspected field is ."+strings.Join(path, ".")+", not .status.observedGeneration")
		}
		if obj == nil || !c17DerivesFrom(st.Map, obj, 0) {
			pr = append(pr, "the inspected map is "+p.describe(st.Map)+", which is not derived from the probed object")
		}
		nDel := 0
		for _, rc := range p.c17ReturnCases(f) {
			if p.c17Delegate(f, rc) {
				nDel++
				continue
			}
			if v, isConst := c17ConstBoolResult(rc.Results[0]); isConst && !v {
				if !p.c17IsStale(rc.Facts, st, obj) {
					pr = append(pr, fmt.Sprintf("false is returned at %s without err==nil ∧ found ∧ observedGeneration != generation being established: objects without a (different) observedGeneration would fail", p.IPos(rc.Ret)))
				}
				continue
			}
			pr = append(pr, fmt.Sprintf("return at %s yields %s: neither the stale verdict nor the wrapped prober's verdict", p.IPos(rc.Ret), p.describe(rc.Results[0])))
		}
		if nDel == 0 {
			pr = append(pr, "the wrapped prober is never consulted")
		}
		verdict, why := p.c17StaleOnlyFails(f, st, obj)
		switch {
		case len(pr) > 0:
			o.Fail("%s", strings.Join(pr, "; "))
		case verdict == noTri:
			o.Fail("%s", why)
		case verdict == unknownTri:
			o.Unknown("%s", why)
		default:
			o.OK(why)
		}
	}
	if nWrap == 0 {
		c.AnchorLost("Prober wrapper (struct with only an embedded Prober) that inspects observedGeneration")
		return
	}

	var parseProbes, parseSelector []*ssa.Function
	for _, f := range p.FuncsIn(pkgIntProbing) {
		if f.Parent() != nil {
			continue
		}
		if c17SliceParamOf(f, pkgCoreV1+".Probe") != nil {
			parseProbes = append(parseProbes, f)
		}
		if c17ParamOfNamedType(f, pkgCoreV1+".ProbeSelector") != nil && c17ParamOfNamedType(f, c17TypeProber) != nil {
			parseSelector = append(parseSelector, f)
		}
	}
	if len(parseProbes) == 0 {
		c.AnchorLost("function of " + pkgIntProbing + " taking []corev1alpha1.Probe")
	}
	if len(parseSelector) == 0 {
		c.AnchorLost("function of " + pkgIntProbing + " taking a corev1alpha1.ProbeSelector and a Prober")
	}
	isIn := func(f *ssa.Function, set []*ssa.Function) bool {
		for _, x := range set {
			if x == f {
				return true
			}
		}
		return false
	}

	// (a) ParseProbes
	for _, f := range parseProbes {
		c.Visit(f)
		o := c.Ob(f, "wrapper-on-every-return", nil, "every error-free return is the observedGeneration wrapper around the parsed list")
		var pr []string
		var lists []ssa.Value
		var listRets []*ssa.Return
		nOK := 0
		for _, rc := range p.c17ReturnCases(f) {
			if !c17ErrResultIsNil(rc) {
				continue
			}
			nOK++
			a, ok := stripConv(rc.Results[0]).(*ssa.Alloc)
			if !ok || !wrapperTypes[namedTypeString(a.Type())] {
				pr = append(pr, fmt.Sprintf("error-free return at %s yields %s, which is not the observedGeneration wrapper: a stale status could pass", p.IPos(rc.Ret), p.describe(rc.Results[0])))
				continue
			}
			fields, _, ok := compositeFields(a)
			if !ok || fields["Prober"] == nil {
				pr = append(pr, fmt.Sprintf("the wrapper returned at %s wraps nothing", p.IPos(rc.Ret)))
				continue
			}
			lists = append(lists, stripConv(fields["Prober"]))
			listRets = append(listRets, rc.Ret)
		}
		if nOK == 0 {
			pr = append(pr, "no error-free return recognised")
		}
		if len(pr) == 0 {
			o.OK()
		} else {
			o.Fail("%s", strings.Join(pr, "; "))
		}

		o2 := c.Ob(f, "all-probes-in-list", nil, "every probe built from a spec entry is appended to the list that is wrapped and returned")
		pr = nil
		if len(lists) == 0 {
			o2.Fail("no wrapped list to check")
			continue
		}
		// Every error-free return hands out its own wrapped list (one in the repository's shape; the
		// normaliser's tail duplication of a merged multi-return helper copies the rest of the function,
		// loop and return included, once per helper return). A construction is judged against the lists
		// of the returns it can reach.
		type wrappedList struct {
			ret     *ssa.Return
			list    ssa.Value
			inList  map[ssa.Value]bool
			appends []*ssa.Call
		}
		var wls []wrappedList
		okFlow := true
		for li, list := range lists {
			dup := false
			for _, w := range wls {
				if w.ret == listRets[li] && w.list == list {
					dup = true
				}
			}
			if dup {
				continue
			}
			wl := wrappedList{ret: listRets[li], list: list, inList: map[ssa.Value]bool{}}
			for _, v := range p.possibleValues(list) {
				call, _ := asCall(v)
				switch {
				case c17IsNilResult(v):
				case call != nil && isCallTo(call.Common(), "builtin:append") && len(call.Call.Args) == 2 && p.sameValue(call.Call.Args[0], list):
					wl.appends = append(wl.appends, call)
					elems, ok := sliceElems(call.Call.Args[1])
					if !ok {
						okFlow = false
						pr = append(pr, "appended elements at "+p.IPos(call)+" not recognised")
					}
					for _, e := range elems {
						for _, pv := range p.possibleValues(e) {
							wl.inList[pv] = true
						}
					}
				default:
					okFlow = false
					pr = append(pr, "the list may be "+p.describe(v)+", which is not an append to itself")
				}
			}
			wls = append(wls, wl)
		}
		// probe constructions: in f itself, or in an extracted helper that hands the probe back as a result
		isProbeMI := func(v ssa.Value) (string, bool) {
			mi, ok := v.(*ssa.MakeInterface)
			if !ok || namedTypeString(mi.Type()) != c17TypeProber {
				return "", false
			}
			tn := namedTypeString(mi.X.Type())
			if !strings.HasPrefix(tn, pkgProbing+".") || wrapperTypes[tn] || kindOfType[tn] == "list" {
				return "", false
			}
			return tn, true
		}
		type construction struct {
			mi    *ssa.MakeInterface
			tn    string
			site  ssa.Instruction // instruction of f at which the probe comes into being
			via   *ssa.Call       // call of the helper that built it (nil: built in f)
			idx   int             // result index of the helper holding the probe
			given []ssa.Value     // the helper's results in the return case that hands out the probe
		}
		var cons []construction
		for _, b := range f.Blocks {
			for _, in := range b.Instrs {
				if v, isV := in.(ssa.Value); isV {
					if tn, ok := isProbeMI(v); ok {
						cons = append(cons, construction{mi: v.(*ssa.MakeInterface), tn: tn, site: in})
					}
				}
				call, isCall := in.(*ssa.Call)
				if !isCall {
					continue
				}
				h := staticCallee(call.Common())
				if h == nil || h == f || !p.inlinable(h) {
					continue
				}
				returned := map[*ssa.MakeInterface]bool{}
				for _, hrc := range p.c17ReturnCases(h) {
					for i, r := range hrc.Results {
						for _, pv := range p.possibleValues(r) {
							if tn, ok := isProbeMI(pv); ok {
								returned[pv.(*ssa.MakeInterface)] = true
								cons = append(cons, construction{mi: pv.(*ssa.MakeInterface), tn: tn, site: call, via: call, idx: i, given: hrc.Results})
							}
						}
					}
				}
				for _, hb := range h.Blocks {
					for _, hin := range hb.Instrs {
						if v, isV := hin.(ssa.Value); isV {
							if tn, ok := isProbeMI(v); ok && !returned[v.(*ssa.MakeInterface)] {
								pr = append(pr, fmt.Sprintf("the %s built at %s is not handed back by %s", tn[len(pkgProbing)+1:], p.IPos(hin), h.Name()))
							}
						}
					}
				}
			}
		}
		nProbes := 0
		for _, k := range cons {
			nProbes++
			tn := k.tn
			// the lists this construction has to end up in: those of the error-free returns that can
			// follow it; a construction none of them follows is judged against all lists
			var mine []wrappedList
			for _, w := range wls {
				if blockReachableFrom(k.site.Block(), w.ret.Block()) {
					mine = append(mine, w)
				}
			}
			if len(mine) == 0 {
				mine = wls
			}
			listed := true
			for _, w := range mine {
				in := w.inList[k.mi]
				if k.via != nil {
					for v := range w.inList {
						if src, i := asCall(v); src == k.via && i == k.idx {
							in = true
						}
					}
				}
				if !in {
					listed = false
				}
			}
			if !listed {
				pr = append(pr, fmt.Sprintf("the %s built at %s never reaches the returned list", tn[len(pkgProbing)+1:], p.IPos(k.mi)))
				continue
			}
			// path-sensitive part: once built, the probe cannot reach the next iteration (or the
			// end of the loop) without passing an append. For a probe handed out by a helper, only
			// the paths consistent with the other results of that return of the helper count.
			infeasible := func(from, to *ssa.BasicBlock) bool {
				if k.via == nil {
					return false
				}
				for _, fc := range p.edgeFacts(from, to) {
					if src, i := asCall(fc.Cond); src == k.via && i >= 0 && i < len(k.given) {
						if v, isConst := c17ConstBoolResult(k.given[i]); isConst && v != fc.Pol {
							return true
						}
					}
					if x, trueMeansNonNil, ok := errNilTest(fc.Cond); ok {
						if src, i := asCall(x); src == k.via && i >= 0 && i < len(k.given) && c17IsNilResult(k.given[i]) && fc.Pol == trueMeansNonNil {
							return true
						}
					}
				}
				return false
			}
			for _, w := range mine {
				reaches := false
				for _, ap := range w.appends {
					l := innermostLoop(f, ap.Block())
					if l == nil {
						continue
					}
					if k.site.Block() == ap.Block() || !c17FeasibleReach(k.site.Block(), l.Head, ap.Block(), infeasible) {
						reaches = true
					}
				}
				if !reaches {
					pr = append(pr, fmt.Sprintf("the %s built at %s can reach the next iteration without being appended to the list", tn[len(pkgProbing)+1:], p.IPos(k.mi)))
					break
				}
			}
		}
		if nProbes == 0 {
			pr = append(pr, "no probe construction found")
		}
		if len(pr) == 0 && okFlow {
			o2.OK(fmt.Sprintf("%d probe constructions flow into the list", nProbes))
		} else {
			o2.Fail("%s", strings.Join(c17Uniq(pr), "; "))
		}
	}

	// (c) Parse
	nParse := 0
	for _, f := range p.FuncsIn(pkgIntProbing) {
		pp := c17SliceParamOf(f, pkgCoreV1+".ObjectSetProbe")
		if pp == nil || f.Parent() != nil {
			continue
		}
		nParse++
		c.Visit(f)
		o := c.Ob(f, "entries-wrapped-and-indexed", nil, "entry i becomes ParseSelector(entry.Selector, ParseProbes(entry.Probes)) at index i of a list of len(entries); only exhaustion returns the list")
		// One instance per call of the selector parser (one in the repository's shape; the normaliser's
		// tail duplication of a merged multi-return helper copies the loop and the return once per
		// helper return): its probe-list parser call is the last one that can run before it, and it
		// answers for the error-free returns that can follow its store.
		var ppCalls, psCalls []*ssa.Call
		for _, cl := range callsIn(f) {
			call, ok := cl.Instr.(*ssa.Call)
			if !ok {
				continue
			}
			if isIn(staticCallee(cl.Common), parseProbes) {
				ppCalls = append(ppCalls, call)
			}
			if isIn(staticCallee(cl.Common), parseSelector) {
				psCalls = append(psCalls, call)
			}
		}
		if len(ppCalls) == 0 || len(psCalls) == 0 {
			o.Fail("does not call both the probe-list parser and the selector parser")
			continue
		}
		type c17ParseInst struct {
			pr      []string
			site    ssa.Instruction
			listVal ssa.Value
		}
		judge := func(ppCall, psCall *ssa.Call) (res c17ParseInst) {
			var pr []string
			// the store
			var store *ssa.Store
			var list *ssa.MakeSlice
			var sidx ssa.Value
			ps0 := c16Extract(psCall, 0)
			// the stored value is judged by what it can be where it is stored: a value that merged with
			// the results of the failing returns (parsers called in an extracted helper) is narrowed by
			// the error tests that guard the store
			for _, b := range f.Blocks {
				for _, in := range b.Instrs {
					st, ok := in.(*ssa.Store)
					if !ok || ps0 == nil {
						continue
					}
					ia, ok := st.Addr.(*ssa.IndexAddr)
					if !ok {
						continue
					}
					ms, ok := ia.X.(*ssa.MakeSlice)
					if !ok {
						continue
					}
					vals := p.c17PhiUnderFacts(st.Val, p.FactsAt(b), 0)
					hit := false
					for _, v := range vals {
						if p.sameValue(v, ps0) {
							hit = true
						}
					}
					if !hit {
						continue
					}
					store, list, sidx = st, ms, ia.Index
					for _, v := range vals {
						if !p.sameValue(v, ps0) {
							pr = append(pr, fmt.Sprintf("the value stored at %s may also be %s, not the result of the selector parser", p.IPos(st), p.describe(v)))
						}
					}
				}
			}
			// the same list built by appending: it starts empty, every iteration appends exactly the one
			// prober of its entry, so entry i sits at index i and the list has len(entries) elements once
			// the loop over all entries has run to its end
			var site ssa.Instruction
			var listVal ssa.Value
			if store != nil {
				site, listVal = store, list
				if lc, _ := asCall(list.Len); lc == nil || !isCallTo(lc.Common(), "builtin:len") || lc.Call.Args[0] != ssa.Value(pp) {
					pr = append(pr, "the list has length "+p.describe(list.Len)+", not len(entries)")
				}
			} else if ps0 != nil {
				for _, cl := range callsIn(f) {
					ap, ok := cl.Instr.(*ssa.Call)
					if !ok || !isCallTo(cl.Common, "builtin:append") || len(ap.Call.Args) != 2 {
						continue
					}
					elems, ok := sliceElems(ap.Call.Args[1])
					if !ok || len(elems) != 1 {
						continue
					}
					vals := p.c17PhiUnderFacts(elems[0], p.FactsAt(ap.Block()), 0)
					hit := false
					for _, v := range vals {
						if p.sameValue(v, ps0) {
							hit = true
						}
					}
					if !hit {
						continue
					}
					al := innermostLoop(f, ap.Block())
					ph, isPhi := ap.Call.Args[0].(*ssa.Phi)
					if al == nil || !isPhi || ph.Block() != al.Head {
						pr = append(pr, "the selector parser's result is appended at "+p.IPos(ap)+" to "+c17Short(p.describe(ap.Call.Args[0]))+", which is not the list carried around the loop over the entries")
						site, listVal = ap, ap
						continue
					}
					for _, v := range vals {
						if !p.sameValue(v, ps0) {
							pr = append(pr, fmt.Sprintf("the value appended at %s may also be %s, not the result of the selector parser", p.IPos(ap), p.describe(v)))
						}
					}
					for i, e := range ph.Edges {
						switch {
						case al.Body[ph.Block().Preds[i]]:
							if stripConv(e) != ssa.Value(ap) {
								pr = append(pr, "the list carried into the next iteration may be "+c17Short(p.describe(e))+", not the list extended by this entry's prober")
							}
						case c17IsNilResult(e):
						default:
							ms, isMS := stripConv(e).(*ssa.MakeSlice)
							if n, isConst := constInt(c17MsLen(ms)); !isMS || !isConst || n != 0 {
								pr = append(pr, "the list the probers are appended to starts as "+c17Short(p.describe(e))+", which is not an empty list")
							}
						}
					}
					site, listVal = ap, ph
					if iff, isIf := al.Head.Instrs[len(al.Head.Instrs)-1].(*ssa.If); isIf {
						if cond, isBin := iff.Cond.(*ssa.BinOp); isBin {
							sidx = cond.X
						}
					}
				}
			}
			if site == nil {
				return res
			}
			res.site, res.listVal = site, listVal
			l := innermostLoop(f, site.Block())
			if l == nil {
				pr = append(pr, "entries are not processed in a loop")
			} else if sidx == nil {
				pr = append(pr, "loop header does not end in a bounds test")
			} else {
				if ok, why := p.c17LoopOverSlice(l, pp, sidx); !ok {
					pr = append(pr, why)
				}
				if !p.mustPrecedeInLoop(l, site) {
					pr = append(pr, "an iteration can continue without storing its prober")
				}
				rcs := p.c17ReturnCases(f)
				for b := range l.Body {
					for _, s := range b.Succs {
						if l.Body[s] || b == l.Head {
							continue
						}
						for _, in := range reachableFromEdge(s, nil) {
							ret, ok := in.(*ssa.Return)
							if !ok {
								continue
							}
							for _, rc := range rcs {
								if rc.Ret == ret && !p.c17NonNilErr(rc, rc.Results[len(rc.Results)-1]) {
									pr = append(pr, fmt.Sprintf("the loop can be left early at %s and return without an error", p.IPos(ret)))
								}
							}
						}
					}
				}
				for _, rc := range rcs {
					if !c17ErrResultIsNil(rc) || !blockReachableFrom(site.Block(), rc.Ret.Block()) {
						continue
					}
					if stripConv(rc.Results[0]) != listVal {
						pr = append(pr, fmt.Sprintf("error-free return at %s yields %s, not the list of all entries", p.IPos(rc.Ret), p.describe(rc.Results[0])))
					}
				}
			}
			// arguments
			if len(ppCall.Call.Args) < 2 {
				pr = append(pr, "probe-list parser call has no list argument")
			} else if idx, path, ok := c17ElemOf(ppCall.Call.Args[len(ppCall.Call.Args)-1], pp); !ok || stripConv(idx) != stripConv(sidx) || strings.Join(path, ".") != "Probes" {
				pr = append(pr, "the parsed probes are "+p.describe(ppCall.Call.Args[len(ppCall.Call.Args)-1])+", not entries[i].Probes of the entry stored at i")
			}
			selPrm := c17ParamOfNamedType(staticCallee(psCall.Common()), pkgCoreV1+".ProbeSelector")
			prbPrm := c17ParamOfNamedType(staticCallee(psCall.Common()), c17TypeProber)
			for i, fp := range staticCallee(psCall.Common()).Params {
				if i >= len(psCall.Call.Args) {
					break
				}
				arg := psCall.Call.Args[i]
				if fp == selPrm {
					if idx, path, ok := c17ElemOf(arg, pp); !ok || stripConv(idx) != stripConv(sidx) || strings.Join(path, ".") != "Selector" {
						pr = append(pr, "the selector handed to the selector parser is "+p.describe(arg)+", not entries[i].Selector")
					}
				}
				if fp == prbPrm {
					if pp0 := c16Extract(ppCall, 0); pp0 == nil || !p.sameValue(arg, pp0) {
						pr = append(pr, "the prober handed to the selector parser is "+p.describe(arg)+", not the parsed probe list of this entry")
					}
				}
			}
			fs := p.FactsAt(site.Block())
			if !p.errOfCallIsNil(fs, ppCall) || !p.errOfCallIsNil(fs, psCall) {
				pr = append(pr, "the store is not dominated by the error-free edges of both parsers")
			}
			res.pr = pr
			return res
		}
		var pr []string
		var insts []c17ParseInst
		for _, psCall := range psCalls {
			var ppCall *ssa.Call
			for _, cand := range ppCalls {
				for _, x := range reachableAfter(cand, nil) {
					if x == ssa.Instruction(psCall) {
						ppCall = cand
						break
					}
				}
			}
			if ppCall == nil {
				ppCall = ppCalls[len(ppCalls)-1]
			}
			if r := judge(ppCall, psCall); r.site != nil {
				insts = append(insts, r)
				pr = append(pr, r.pr...)
			}
		}
		if len(insts) == 0 {
			o.Fail("the result of the selector parser is not stored into a freshly made list")
			continue
		}
		// an error-free return that follows no store still has to hand out one of the lists
		for _, rc := range p.c17ReturnCases(f) {
			if !c17ErrResultIsNil(rc) {
				continue
			}
			covered := false
			for _, r := range insts {
				if blockReachableFrom(r.site.Block(), rc.Ret.Block()) || stripConv(rc.Results[0]) == r.listVal {
					covered = true
				}
			}
			if !covered {
				pr = append(pr, fmt.Sprintf("error-free return at %s yields %s, not the list of all entries", p.IPos(rc.Ret), p.describe(rc.Results[0])))
			}
		}
		pr = c17Uniq(pr)
		if len(pr) == 0 {
			o.OK()
		} else {
			o.Fail("%s", strings.Join(pr, "; "))
		}
	}
	if nParse == 0 {
		c.AnchorLost("function of " + pkgIntProbing + " taking []corev1alpha1.ObjectSetProbe")
	}

	// ParseSelector
	for _, f := range parseSelector {
		c.Visit(f)
		o := c.Ob(f, "selectors-applied", nil, "the prober is returned bare only when neither kind nor label selector is set; a set kind wraps it in the kind selector (group/kind from the spec), a set label selector wraps that in the label selector")
		sel := c17ParamOfNamedType(f, pkgCoreV1+".ProbeSelector")
		prb := c17ParamOfNamedType(f, c17TypeProber)
		var pr []string
		var checkLeaf func(lf c17Leaf, needSelNil bool, depth int)
		checkLeaf = func(lf c17Leaf, needSelNil bool, depth int) {
			v := lf.V
			if v == ssa.Value(prb) {
				if c17FieldNil(lf.Facts, sel, "Kind") != yesTri {
					pr = append(pr, "the bare prober can be used although selector.Kind may be set: objects of other kinds would be probed")
				}
				if needSelNil && c17FieldNil(lf.Facts, sel, "Selector") != yesTri {
					pr = append(pr, "the prober can be returned without the label selector although selector.Selector may be set")
				}
				return
			}
			a, ok := v.(*ssa.Alloc)
			if !ok || depth > 3 {
				pr = append(pr, "returned prober may be "+p.describe(v)+", which is neither the input prober nor a selector wrapper")
				return
			}
			fields, _, _ := compositeFields(a)
			nested := c17NestedStores(a)
			switch kindOfType[namedTypeString(a.Type())] {
			case "kind-selector":
				if needSelNil && c17FieldNil(lf.Facts, sel, "Selector") != yesTri {
					pr = append(pr, "the kind selector can be returned without the label selector although selector.Selector may be set")
				}
				for _, fn := range []string{"Group", "Kind"} {
					vs, ok := []ssa.Value{nested["GroupKind."+fn]}, nested["GroupKind."+fn] != nil
					if !ok {
						// the pair assigned as one value that was itself filled field by field
						vs, ok = p.c17FieldOfWhole(fields["GroupKind"], fn)
					}
					if !ok {
						pr = append(pr, "kind selector's GroupKind."+fn+" is "+p.describe(nil)+", not selector.Kind."+fn)
					}
					for _, v := range vs {
						root, path := c17FieldPath(v)
						if !ok || !c17IsParamOrSpill(root, sel) || strings.Join(path, ".") != "Kind."+fn {
							pr = append(pr, "kind selector's GroupKind."+fn+" is "+p.describe(v)+", not selector.Kind."+fn)
						}
					}
				}
				if fields["Prober"] == nil {
					pr = append(pr, "kind selector wraps nothing")
					return
				}
				for _, in := range p.c17Expand(fields["Prober"], p.FactsAt(a.Block()), 0) {
					if in.V != ssa.Value(prb) {
						pr = append(pr, "kind selector wraps "+p.describe(in.V)+", not the input prober")
					}
				}
			case "label-selector":
				call, idx := asCall(fields["Selector"])
				if call == nil || idx != 0 || !isCallTo(call.Common(), pkgMetaV1+".LabelSelectorAsSelector") || !p.errOfCallIsNil(p.FactsAt(a.Block()), call) {
					pr = append(pr, "label selector's Selector is "+p.describe(fields["Selector"])+", not the error-free result of metav1.LabelSelectorAsSelector")
				} else if root, path := c17FieldPath(call.Call.Args[0]); !c17IsParamOrSpill(root, sel) || strings.Join(path, ".") != "Selector" {
					pr = append(pr, "the label selector is built from "+p.describe(call.Call.Args[0])+", not selector.Selector")
				}
				if fields["Prober"] == nil {
					pr = append(pr, "label selector wraps nothing")
					return
				}
				for _, in := range p.c17Expand(fields["Prober"], p.FactsAt(a.Block()), 0) {
					checkLeaf(in, false, depth+1)
				}
			default:
				pr = append(pr, "returned prober may be "+p.describe(v)+", which is not a selector wrapper")
			}
		}
		nOK := 0
		for _, rc := range p.c17ReturnCases(f) {
			if !c17ErrResultIsNil(rc) {
				continue
			}
			nOK++
			for _, lf := range p.c17Expand(rc.Results[0], rc.Facts, 0) {
				checkLeaf(lf, true, 0)
			}
		}
		if nOK == 0 || sel == nil || prb == nil {
			o.Unknown("no error-free return recognised")
			continue
		}
		seen := map[string]bool{}
		var uniq []string
		for _, s := range pr {
			if !seen[s] {
				seen[s] = true
				uniq = append(uniq, s)
			}
		}
		if len(uniq) == 0 {
			o.OK()
		} else {
			o.Fail("%s", strings.Join(uniq, "; "))
		}
	}
}
