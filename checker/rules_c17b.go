package main

import (
	"fmt"
	"go/types"
	"strings"

	"golang.org/x/tools/go/ssa"
)

// C17.R3 — observedGeneration wrapper, parsers.

// c17Stale is one observedGeneration test of a function: either the NestedInt64 call itself (Site ==
// N) or the call of an extracted helper that performs it on its parameters and reports the verdict
// as its boolean result (Site = the helper call, N/Og/Ok/Err live in Helper).
type c17Stale struct {
	N           *ssa.Call
	Og, Ok, Err ssa.Value
	Site        *ssa.Call // the instruction of the analysed function at which the test runs
	Map         ssa.Value // the inspected map, as a value of the analysed function
	Path        []string  // the constant field path, as seen from the analysed function
	Helper      *ssa.Function
	HelperObj   int    // index (in Helper.Params / Site args) of the object whose generation is compared
	HelperWhy   string // non-empty: the helper's result is not exactly the stale verdict
}

// c17StaleCalls: the observedGeneration tests of f: unstructured.NestedInt64(x, ..., "observedGeneration")
// calls, and calls of extracted helpers whose result is such a test of their parameters.
func (p *Program) c17StaleCalls(f *ssa.Function) []c17Stale {
	var out []c17Stale
	for _, cl := range callsIn(f) {
		call, ok := cl.Instr.(*ssa.Call)
		if !ok {
			continue
		}
		if isCallTo(cl.Common, pkgUnstr+".NestedInt64") && len(call.Call.Args) == 2 {
			path, ok := c17VariadicConsts(call.Call.Args[1])
			if !ok || len(path) == 0 || path[len(path)-1] != "observedGeneration" {
				continue
			}
			out = append(out, c17Stale{N: call, Og: c16Extract(call, 0), Ok: c16Extract(call, 1), Err: c16Extract(call, 2),
				Site: call, Map: call.Call.Args[0], Path: path})
			continue
		}
		h := staticCallee(cl.Common)
		if h == nil || !p.inlinable(h) || h == f {
			continue
		}
		if res := h.Signature.Results(); res.Len() != 1 || res.At(0).Type().String() != "bool" {
			continue
		}
		for _, hc := range callsIn(h) {
			n, ok := hc.Instr.(*ssa.Call)
			if !ok || !isCallTo(hc.Common, pkgUnstr+".NestedInt64") || len(n.Call.Args) != 2 {
				continue
			}
			mi, pi := paramIndex(h, n.Call.Args[0]), paramIndex(h, n.Call.Args[1])
			if mi < 0 || mi >= len(call.Call.Args) {
				continue
			}
			var path []string
			if pi >= 0 && pi < len(call.Call.Args) {
				path, ok = c17VariadicConsts(call.Call.Args[pi])
			} else {
				path, ok = c17VariadicConsts(n.Call.Args[1])
			}
			if !ok || len(path) == 0 || path[len(path)-1] != "observedGeneration" {
				continue
			}
			st := c17Stale{N: n, Og: c16Extract(n, 0), Ok: c16Extract(n, 1), Err: c16Extract(n, 2),
				Site: call, Map: call.Call.Args[mi], Path: path, Helper: h, HelperObj: -1}
			st.HelperObj, st.HelperWhy = p.c17HelperIsStaleVerdict(h, st)
			out = append(out, st)
		}
	}
	return out
}

type c17BoolCase struct {
	Val   bool
	Facts []Fact
	Ret   *ssa.Return
}

// c17BoolCases: the ways f can produce its first (boolean) result: constants with the facts of their
// return edge; a computed result contributes one case per truth value, with the corresponding fact.
func (p *Program) c17BoolCases(f *ssa.Function) []c17BoolCase {
	var out []c17BoolCase
	for _, rc := range p.c17ReturnCases(f) {
		if len(rc.Results) == 0 {
			continue
		}
		for _, lf := range p.c17Expand(rc.Results[0], rc.Facts, 0) {
			if v, isConst := c17ConstBoolResult(lf.V); isConst {
				out = append(out, c17BoolCase{Val: v, Facts: lf.Facts, Ret: rc.Ret})
				continue
			}
			for _, pol := range []bool{true, false} {
				fs := append(append([]Fact{}, lf.Facts...), p.mkFact(lf.V, pol))
				out = append(out, c17BoolCase{Val: pol, Facts: fs, Ret: rc.Ret})
			}
		}
	}
	return out
}

// c17HelperIsStaleVerdict: helper h returns true exactly under err==nil ∧ found ∧ observedGeneration
// != <param>.GetGeneration(). Returns the index of that parameter.
func (p *Program) c17HelperIsStaleVerdict(h *ssa.Function, st c17Stale) (int, string) {
	direct := st
	direct.Helper = nil
	cases := p.c17BoolCases(h)
	if len(cases) == 0 {
		return -1, "no boolean result"
	}
	why := "the generation is not compared with GetGeneration() of a parameter of " + h.Name()
	for i, prm := range h.Params {
		ok, sawTrue := true, false
		for _, bc := range cases {
			if bc.Val {
				sawTrue = true
				if !p.c17IsStale(bc.Facts, direct, prm) {
					ok = false
					why = fmt.Sprintf("%s returns true at %s without err==nil ∧ found ∧ observedGeneration != generation", h.Name(), p.IPos(bc.Ret))
				}
			} else if !p.c17NotStale(bc.Facts, direct, prm) {
				ok = false
				why = fmt.Sprintf("%s may return false at %s for a declared, different observedGeneration", h.Name(), p.IPos(bc.Ret))
			}
		}
		if ok && sawTrue {
			return i, ""
		}
	}
	return -1, why
}

// c17IsStale: the facts establish err==nil ∧ found ∧ observedGeneration != obj.GetGeneration().
func (p *Program) c17IsStale(fs []Fact, st c17Stale, obj ssa.Value) bool {
	if st.Helper != nil {
		if st.HelperObj < 0 || st.HelperObj >= len(st.Site.Call.Args) || !p.sameValue(st.Site.Call.Args[st.HelperObj], obj) {
			return false
		}
		return p.boolFromFacts(fs, st.Site) == yesTri
	}
	if st.Og == nil || st.Ok == nil || st.Err == nil {
		return false
	}
	if p.nilnessFromFacts(fs, st.Err) != yesTri || p.boolFromFacts(fs, st.Ok) != yesTri {
		return false
	}
	for _, f := range fs {
		a, b, equal, ok := c17EqFact(f)
		if !ok || equal {
			continue
		}
		for _, pr := range [][2]ssa.Value{{a, b}, {b, a}} {
			if p.sameValue(pr[0], st.Og) && p.c17CallChain(pr[1], obj, "GetGeneration") {
				return true
			}
		}
	}
	return false
}

// c17NotStale: the facts contradict err==nil ∧ found ∧ observedGeneration != obj.GetGeneration().
func (p *Program) c17NotStale(fs []Fact, st c17Stale, obj ssa.Value) bool {
	if st.Helper != nil {
		return p.boolFromFacts(fs, st.Site) == noTri
	}
	if st.Og == nil || st.Ok == nil || st.Err == nil {
		return false
	}
	if p.nilnessFromFacts(fs, st.Err) == noTri || p.boolFromFacts(fs, st.Ok) == noTri {
		return true
	}
	for _, f := range fs {
		a, b, equal, ok := c17EqFact(f)
		if !ok || !equal {
			continue
		}
		for _, pr := range [][2]ssa.Value{{a, b}, {b, a}} {
			if p.sameValue(pr[0], st.Og) && p.c17CallChain(pr[1], obj, "GetGeneration") {
				return true
			}
		}
	}
	return false
}

// c17StaleOnlyFails: every return reachable from a block in which the stale facts hold is a
// constant-false return; at least one such block exists.
func (p *Program) c17StaleOnlyFails(f *ssa.Function, st c17Stale, obj ssa.Value) (tri, string) {
	if st.Helper != nil && st.HelperWhy != "" {
		return unknownTri, "the observedGeneration test was extracted into " + st.Helper.Name() + ", whose result is not recognised as the stale verdict: " + st.HelperWhy
	}
	rcs := p.c17ReturnCases(f)
	n := 0
	for _, b := range f.Blocks {
		if !p.c17IsStale(p.FactsAt(b), st, obj) {
			continue
		}
		n++
		for _, in := range reachableFromEdge(b, nil) {
			ret, ok := in.(*ssa.Return)
			if !ok {
				continue
			}
			for _, rc := range rcs {
				if rc.Ret != ret {
					continue
				}
				if v, isConst := c17ConstBoolResult(rc.Results[0]); !isConst || v {
					return noTri, fmt.Sprintf("with a declared observedGeneration different from metadata.generation the return at %s (result %s) is still reachable", p.IPos(ret), p.describe(rc.Results[0]))
				}
			}
		}
	}
	if n == 0 {
		return unknownTri, "no program point at which err==nil ∧ found ∧ observedGeneration != obj.GetGeneration() is established by branch conditions"
	}
	return yesTri, fmt.Sprintf("%d block(s) under the stale-generation guard reach only `false`", n)
}

func c17SliceParamOf(f *ssa.Function, elemType string) *ssa.Parameter {
	for _, prm := range f.Params {
		if sl, ok := prm.Type().Underlying().(*types.Slice); ok && namedTypeString(sl.Elem()) == elemType {
			if _, isPtr := sl.Elem().(*types.Pointer); !isPtr {
				return prm
			}
		}
	}
	return nil
}

func c17ParamOfNamedType(f *ssa.Function, typ string) *ssa.Parameter {
	for _, prm := range f.Params {
		if _, isPtr := prm.Type().(*types.Pointer); !isPtr && namedTypeString(prm.Type()) == typ {
			return prm
		}
	}
	return nil
}

// c17ElemOf: v is a (field path of a) load of slice[idx], possibly through a local copy of the element.
func c17ElemOf(v ssa.Value, slice ssa.Value) (idx ssa.Value, path []string, ok bool) {
	root, path := c17FieldPath(v)
	for i := 0; i < 3; i++ {
		switch x := root.(type) {
		case *ssa.IndexAddr:
			if x.X == slice {
				return x.Index, path, true
			}
			return nil, nil, false
		case *ssa.Index:
			if x.X == slice {
				return x.Index, path, true
			}
			return nil, nil, false
		case *ssa.Alloc:
			var val ssa.Value
			n := 0
			for _, r := range referrersOf(x) {
				if st, isSt := r.(*ssa.Store); isSt && st.Addr == ssa.Value(x) {
					n++
					val = st.Val
				}
			}
			if n != 1 {
				return nil, nil, false
			}
			var p2 []string
			root, p2 = c17FieldPath(val)
			path = append(p2, path...)
		default:
			return nil, nil, false
		}
	}
	return nil, nil, false
}

// nested stores into a composite literal: "A.B" → value
func c17NestedStores(a *ssa.Alloc) map[string]ssa.Value {
	out := map[string]ssa.Value{}
	for _, b := range a.Parent().Blocks {
		for _, in := range b.Instrs {
			st, ok := in.(*ssa.Store)
			if !ok || st.Addr == ssa.Value(a) {
				continue
			}
			root, path := c17FieldPath(st.Addr)
			if root == ssa.Value(a) && len(path) > 0 {
				out[strings.Join(path, ".")] = st.Val
			}
		}
	}
	return out
}

type c17Leaf struct {
	V     ssa.Value
	Facts []Fact
}

// c17Expand splits phis per incoming edge, accumulating the facts of each edge.
func (p *Program) c17Expand(v ssa.Value, facts []Fact, depth int) []c17Leaf {
	v = stripConv(v)
	if ph, ok := v.(*ssa.Phi); ok && depth < 6 {
		var out []c17Leaf
		for i, e := range ph.Edges {
			fs := append(append([]Fact{}, facts...), p.FactsOnEdge(ph.Block().Preds[i], ph.Block())...)
			out = append(out, p.c17Expand(e, fs, depth+1)...)
		}
		return out
	}
	return []c17Leaf{{V: v, Facts: facts}}
}

// c17FieldNil: do the facts say <prm>.<field> is nil (yes) / non-nil (no)?
func c17FieldNil(fs []Fact, prm *ssa.Parameter, field string) tri {
	for _, f := range fs {
		x, trueMeansNonNil, ok := errNilTest(f.Cond)
		if !ok {
			continue
		}
		root, path := c17FieldPath(x)
		if len(path) == 1 && path[0] == field && c17IsParamOrSpill(root, prm) {
			if f.Pol == trueMeansNonNil {
				return noTri
			}
			return yesTri
		}
	}
	return unknownTri
}

func c17r3(c *Ctx) {
	p := c.P
	// wrapper types (generation guards) and selector types, from the Probe implementations
	wrapperTypes := map[string]bool{}
	kindOfType := map[string]string{}
	nWrap := 0
	for _, f := range c17ProbeMethods(p) {
		k := c17Classify(f)
		kindOfType[namedTypeString(f.Signature.Recv().Type())] = k
		if k != "wrapper" {
			continue
		}
		stales := p.c17StaleCalls(f)
		if len(stales) == 0 {
			continue
		}
		nWrap++
		c.Visit(f)
		wrapperTypes[namedTypeString(f.Signature.Recv().Type())] = true
		obj := c17ObjParam(f)
		o := c.Ob(f, "stale-generation-fails", stales[0].Site, "the wrapper returns false exactly under err==nil ∧ found ∧ status.observedGeneration != obj.GetGeneration() and otherwise returns the wrapped prober's verdict on the same object")
		var pr []string
		st := stales[0]
		if path := st.Path; strings.Join(path, ".") != "status.observedGeneration" {
			pr = append(pr, "the inspected field is ."+strings.Join(path, ".")+", not .status.observedGeneration")
		}
		if obj == nil || !c17DerivesFrom(st.Map, obj, 0) {
			pr = append(pr, "the inspected map is "+p.describe(st.Map)+", which is not derived from the probed object")
		}
		nDel := 0
		for _, rc := range p.c17ReturnCases(f) {
			if p.c17Delegate(f, rc) {
				nDel++
				continue
			}
			if v, isConst := c17ConstBoolResult(rc.Results[0]); isConst && !v {
				if !p.c17IsStale(rc.Facts, st, obj) {
					pr = append(pr, fmt.Sprintf("false is returned at %s without err==nil ∧ found ∧ observedGeneration != generation being established: objects without a (different) observedGeneration would fail", p.IPos(rc.Ret)))
				}
				continue
			}
			pr = append(pr, fmt.Sprintf("return at %s yields %s: neither the stale verdict nor the wrapped prober's verdict", p.IPos(rc.Ret), p.describe(rc.Results[0])))
		}
		if nDel == 0 {
			pr = append(pr, "the wrapped prober is never consulted")
		}
		verdict, why := p.c17StaleOnlyFails(f, st, obj)
		switch {
		case len(pr) > 0:
			o.Fail("%s", strings.Join(pr, "; "))
		case verdict == noTri:
			o.Fail("%s", why)
		case verdict == unknownTri:
			o.Unknown("%s", why)
		default:
			o.OK(why)
		}
	}
	if nWrap == 0 {
		c.AnchorLost("Prober wrapper (struct with only an embedded Prober) that inspects observedGeneration")
		return
	}

	var parseProbes, parseSelector []*ssa.Function
	for _, f := range p.FuncsIn(pkgIntProbing) {
		if f.Parent() != nil {
			continue
		}
		if c17SliceParamOf(f, pkgCoreV1+".Probe") != nil {
			parseProbes = append(parseProbes, f)
		}
		if c17ParamOfNamedType(f, pkgCoreV1+".ProbeSelector") != nil && c17ParamOfNamedType(f, c17TypeProber) != nil {
			parseSelector = append(parseSelector, f)
		}
	}
	if len(parseProbes) == 0 {
		c.AnchorLost("function of " + pkgIntProbing + " taking []corev1alpha1.Probe")
	}
	if len(parseSelector) == 0 {
		c.AnchorLost("function of " + pkgIntProbing + " taking a corev1alpha1.ProbeSelector and a Prober")
	}
	isIn := func(f *ssa.Function, set []*ssa.Function) bool {
		for _, x := range set {
			if x == f {
				return true
			}
		}
		return false
	}

	// (a) ParseProbes
	for _, f := range parseProbes {
		c.Visit(f)
		o := c.Ob(f, "wrapper-on-every-return", nil, "every error-free return is the observedGeneration wrapper around the parsed list")
		var pr []string
		var lists []ssa.Value
		nOK := 0
		for _, rc := range p.c17ReturnCases(f) {
			if !c17ErrResultIsNil(rc) {
				continue
			}
			nOK++
			a, ok := stripConv(rc.Results[0]).(*ssa.Alloc)
			if !ok || !wrapperTypes[namedTypeString(a.Type())] {
				pr = append(pr, fmt.Sprintf("error-free return at %s yields %s, which is not the observedGeneration wrapper: a stale status could pass", p.IPos(rc.Ret), p.describe(rc.Results[0])))
				continue
			}
			fields, _, ok := compositeFields(a)
			if !ok || fields["Prober"] == nil {
				pr = append(pr, fmt.Sprintf("the wrapper returned at %s wraps nothing", p.IPos(rc.Ret)))
				continue
			}
			lists = append(lists, stripConv(fields["Prober"]))
		}
		if nOK == 0 {
			pr = append(pr, "no error-free return recognised")
		}
		if len(pr) == 0 {
			o.OK()
		} else {
			o.Fail("%s", strings.Join(pr, "; "))
		}

		o2 := c.Ob(f, "all-probes-in-list", nil, "every probe built from a spec entry is appended to the list that is wrapped and returned")
		pr = nil
		if len(lists) == 0 {
			o2.Fail("no wrapped list to check")
			continue
		}
		list := lists[0]
		inList := map[ssa.Value]bool{}
		var appends []*ssa.Call
		okFlow := true
		for _, v := range p.possibleValues(list) {
			call, _ := asCall(v)
			switch {
			case c17IsNilResult(v):
			case call != nil && isCallTo(call.Common(), "builtin:append") && len(call.Call.Args) == 2 && p.sameValue(call.Call.Args[0], list):
				appends = append(appends, call)
				elems, ok := sliceElems(call.Call.Args[1])
				if !ok {
					okFlow = false
					pr = append(pr, "appended elements at "+p.IPos(call)+" not recognised")
				}
				for _, e := range elems {
					for _, pv := range p.possibleValues(e) {
						inList[pv] = true
					}
				}
			default:
				okFlow = false
				pr = append(pr, "the list may be "+p.describe(v)+", which is not an append to itself")
			}
		}
		// probe constructions: in f itself, or in an extracted helper that hands the probe back as a result
		isProbeMI := func(v ssa.Value) (string, bool) {
			mi, ok := v.(*ssa.MakeInterface)
			if !ok || namedTypeString(mi.Type()) != c17TypeProber {
				return "", false
			}
			tn := namedTypeString(mi.X.Type())
			if !strings.HasPrefix(tn, pkgProbing+".") || wrapperTypes[tn] || kindOfType[tn] == "list" {
				return "", false
			}
			return tn, true
		}
		type construction struct {
			mi    *ssa.MakeInterface
			tn    string
			site  ssa.Instruction // instruction of f at which the probe comes into being
			via   *ssa.Call       // call of the helper that built it (nil: built in f)
			idx   int             // result index of the helper holding the probe
			given []ssa.Value     // the helper's results in the return case that hands out the probe
		}
		var cons []construction
		for _, b := range f.Blocks {
			for _, in := range b.Instrs {
				if v, isV := in.(ssa.Value); isV {
					if tn, ok := isProbeMI(v); ok {
						cons = append(cons, construction{mi: v.(*ssa.MakeInterface), tn: tn, site: in})
					}
				}
				call, isCall := in.(*ssa.Call)
				if !isCall {
					continue
				}
				h := staticCallee(call.Common())
				if h == nil || h == f || !p.inlinable(h) {
					continue
				}
				returned := map[*ssa.MakeInterface]bool{}
				for _, hrc := range p.c17ReturnCases(h) {
					for i, r := range hrc.Results {
						for _, pv := range p.possibleValues(r) {
							if tn, ok := isProbeMI(pv); ok {
								returned[pv.(*ssa.MakeInterface)] = true
								cons = append(cons, construction{mi: pv.(*ssa.MakeInterface), tn: tn, site: call, via: call, idx: i, given: hrc.Results})
							}
						}
					}
				}
				for _, hb := range h.Blocks {
					for _, hin := range hb.Instrs {
						if v, isV := hin.(ssa.Value); isV {
							if tn, ok := isProbeMI(v); ok && !returned[v.(*ssa.MakeInterface)] {
								pr = append(pr, fmt.Sprintf("the %s built at %s is not handed back by %s", tn[len(pkgProbing)+1:], p.IPos(hin), h.Name()))
							}
						}
					}
				}
			}
		}
		nProbes := 0
		for _, k := range cons {
			nProbes++
			tn := k.tn
			listed := inList[k.mi]
			if k.via != nil {
				for v := range inList {
					if src, i := asCall(v); src == k.via && i == k.idx {
						listed = true
					}
				}
			}
			if !listed {
				pr = append(pr, fmt.Sprintf("the %s built at %s never reaches the returned list", tn[len(pkgProbing)+1:], p.IPos(k.mi)))
				continue
			}
			// path-sensitive part: once built, the probe cannot reach the next iteration (or the
			// end of the loop) without passing an append. For a probe handed out by a helper, only
			// the paths consistent with the other results of that return of the helper count.
			infeasible := func(from, to *ssa.BasicBlock) bool {
				if k.via == nil {
					return false
				}
				for _, fc := range p.edgeFacts(from, to) {
					if src, i := asCall(fc.Cond); src == k.via && i >= 0 && i < len(k.given) {
						if v, isConst := c17ConstBoolResult(k.given[i]); isConst && v != fc.Pol {
							return true
						}
					}
					if x, trueMeansNonNil, ok := errNilTest(fc.Cond); ok {
						if src, i := asCall(x); src == k.via && i >= 0 && i < len(k.given) && c17IsNilResult(k.given[i]) && fc.Pol == trueMeansNonNil {
							return true
						}
					}
				}
				return false
			}
			reaches := false
			for _, ap := range appends {
				l := innermostLoop(f, ap.Block())
				if l == nil {
					continue
				}
				if k.site.Block() == ap.Block() || !c17ReachAvoidingGiven(k.site.Block(), l.Head, ap.Block(), infeasible) {
					reaches = true
				}
			}
			if !reaches {
				pr = append(pr, fmt.Sprintf("the %s built at %s can reach the next iteration without being appended to the list", tn[len(pkgProbing)+1:], p.IPos(k.mi)))
			}
		}
		if nProbes == 0 {
			pr = append(pr, "no probe construction found")
		}
		if len(pr) == 0 && okFlow {
			o2.OK(fmt.Sprintf("%d probe constructions flow into the list", nProbes))
		} else {
			o2.Fail("%s", strings.Join(pr, "; "))
		}
	}

	// (c) Parse
	nParse := 0
	for _, f := range p.FuncsIn(pkgIntProbing) {
		pp := c17SliceParamOf(f, pkgCoreV1+".ObjectSetProbe")
		if pp == nil || f.Parent() != nil {
			continue
		}
		nParse++
		c.Visit(f)
		o := c.Ob(f, "entries-wrapped-and-indexed", nil, "entry i becomes ParseSelector(entry.Selector, ParseProbes(entry.Probes)) at index i of a list of len(entries); only exhaustion returns the list")
		var ppCall, psCall *ssa.Call
		for _, cl := range callsIn(f) {
			call, ok := cl.Instr.(*ssa.Call)
			if !ok {
				continue
			}
			if isIn(staticCallee(cl.Common), parseProbes) {
				ppCall = call
			}
			if isIn(staticCallee(cl.Common), parseSelector) {
				psCall = call
			}
		}
		if ppCall == nil || psCall == nil {
			o.Fail("does not call both the probe-list parser and the selector parser")
			continue
		}
		var pr []string
		// the store
		var store *ssa.Store
		var list *ssa.MakeSlice
		var sidx ssa.Value
		ps0 := c16Extract(psCall, 0)
		for _, b := range f.Blocks {
			for _, in := range b.Instrs {
				st, ok := in.(*ssa.Store)
				if !ok || ps0 == nil || !p.sameValue(st.Val, ps0) {
					continue
				}
				if ia, ok := st.Addr.(*ssa.IndexAddr); ok {
					if ms, ok := ia.X.(*ssa.MakeSlice); ok {
						store, list, sidx = st, ms, ia.Index
					}
				}
			}
		}
		if store == nil {
			o.Fail("the result of the selector parser is not stored into a freshly made list")
			continue
		}
		if lc, _ := asCall(list.Len); lc == nil || !isCallTo(lc.Common(), "builtin:len") || lc.Call.Args[0] != ssa.Value(pp) {
			pr = append(pr, "the list has length "+p.describe(list.Len)+", not len(entries)")
		}
		l := innermostLoop(f, store.Block())
		if l == nil {
			pr = append(pr, "entries are not processed in a loop")
		} else {
			if ok, why := p.c17LoopOverSlice(l, pp, sidx); !ok {
				pr = append(pr, why)
			}
			if !p.mustPrecedeInLoop(l, store) {
				pr = append(pr, "an iteration can continue without storing its prober")
			}
			rcs := p.c17ReturnCases(f)
			for b := range l.Body {
				for _, s := range b.Succs {
					if l.Body[s] || b == l.Head {
						continue
					}
					for _, in := range reachableFromEdge(s, nil) {
						ret, ok := in.(*ssa.Return)
						if !ok {
							continue
						}
						for _, rc := range rcs {
							if rc.Ret == ret && !p.c17NonNilErr(rc, rc.Results[len(rc.Results)-1]) {
								pr = append(pr, fmt.Sprintf("the loop can be left early at %s and return without an error", p.IPos(ret)))
							}
						}
					}
				}
			}
			for _, rc := range rcs {
				if !c17ErrResultIsNil(rc) {
					continue
				}
				if stripConv(rc.Results[0]) != ssa.Value(list) {
					pr = append(pr, fmt.Sprintf("error-free return at %s yields %s, not the list of all entries", p.IPos(rc.Ret), p.describe(rc.Results[0])))
				}
			}
		}
		// arguments
		if len(ppCall.Call.Args) < 2 {
			pr = append(pr, "probe-list parser call has no list argument")
		} else if idx, path, ok := c17ElemOf(ppCall.Call.Args[len(ppCall.Call.Args)-1], pp); !ok || stripConv(idx) != stripConv(sidx) || strings.Join(path, ".") != "Probes" {
			pr = append(pr, "the parsed probes are "+p.describe(ppCall.Call.Args[len(ppCall.Call.Args)-1])+", not entries[i].Probes of the entry stored at i")
		}
		selPrm := c17ParamOfNamedType(staticCallee(psCall.Common()), pkgCoreV1+".ProbeSelector")
		prbPrm := c17ParamOfNamedType(staticCallee(psCall.Common()), c17TypeProber)
		for i, fp := range staticCallee(psCall.Common()).Params {
			if i >= len(psCall.Call.Args) {
				break
			}
			arg := psCall.Call.Args[i]
			if fp == selPrm {
				if idx, path, ok := c17ElemOf(arg, pp); !ok || stripConv(idx) != stripConv(sidx) || strings.Join(path, ".") != "Selector" {
					pr = append(pr, "the selector handed to the selector parser is "+p.describe(arg)+", not entries[i].Selector")
				}
			}
			if fp == prbPrm {
				if pp0 := c16Extract(ppCall, 0); pp0 == nil || !p.sameValue(arg, pp0) {
					pr = append(pr, "the prober handed to the selector parser is "+p.describe(arg)+", not the parsed probe list of this entry")
				}
			}
		}
		fs := p.FactsAt(store.Block())
		if !p.errOfCallIsNil(fs, ppCall) || !p.errOfCallIsNil(fs, psCall) {
			pr = append(pr, "the store is not dominated by the error-free edges of both parsers")
		}
		if len(pr) == 0 {
			o.OK()
		} else {
			o.Fail("%s", strings.Join(pr, "; "))
		}
	}
	if nParse == 0 {
		c.AnchorLost("function of " + pkgIntProbing + " taking []corev1alpha1.ObjectSetProbe")
	}

	// ParseSelector
	for _, f := range parseSelector {
		c.Visit(f)
		o := c.Ob(f, "selectors-applied", nil, "the prober is returned bare only when neither kind nor label selector is set; a set kind wraps it in the kind selector (group/kind from the spec), a set label selector wraps that in the label selector")
		sel := c17ParamOfNamedType(f, pkgCoreV1+".ProbeSelector")
		prb := c17ParamOfNamedType(f, c17TypeProber)
		var pr []string
		var checkLeaf func(lf c17Leaf, needSelNil bool, depth int)
		checkLeaf = func(lf c17Leaf, needSelNil bool, depth int) {
			v := lf.V
			if v == ssa.Value(prb) {
				if c17FieldNil(lf.Facts, sel, "Kind") != yesTri {
					pr = append(pr, "the bare prober can be used although selector.Kind may be set: objects of other kinds would be probed")
				}
				if needSelNil && c17FieldNil(lf.Facts, sel, "Selector") != yesTri {
					pr = append(pr, "the prober can be returned without the label selector although selector.Selector may be set")
				}
				return
			}
			a, ok := v.(*ssa.Alloc)
			if !ok || depth > 3 {
				pr = append(pr, "returned prober may be "+p.describe(v)+", which is neither the input prober nor a selector wrapper")
				return
			}
			fields, _, _ := compositeFields(a)
			nested := c17NestedStores(a)
			switch kindOfType[namedTypeString(a.Type())] {
			case "kind-selector":
				if needSelNil && c17FieldNil(lf.Facts, sel, "Selector") != yesTri {
					pr = append(pr, "the kind selector can be returned without the label selector although selector.Selector may be set")
				}
				for _, fn := range []string{"Group", "Kind"} {
					v, ok := nested["GroupKind."+fn]
					root, path := c17FieldPath(v)
					if !ok || !c17IsParamOrSpill(root, sel) || strings.Join(path, ".") != "Kind."+fn {
						pr = append(pr, "kind selector's GroupKind."+fn+" is "+p.describe(v)+", not selector.Kind."+fn)
					}
				}
				if fields["Prober"] == nil {
					pr = append(pr, "kind selector wraps nothing")
					return
				}
				for _, in := range p.c17Expand(fields["Prober"], p.FactsAt(a.Block()), 0) {
					if in.V != ssa.Value(prb) {
						pr = append(pr, "kind selector wraps "+p.describe(in.V)+", not the input prober")
					}
				}
			case "label-selector":
				call, idx := asCall(fields["Selector"])
				if call == nil || idx != 0 || !isCallTo(call.Common(), pkgMetaV1+".LabelSelectorAsSelector") || !p.errOfCallIsNil(p.FactsAt(a.Block()), call) {
					pr = append(pr, "label selector's Selector is "+p.describe(fields["Selector"])+", not the error-free result of metav1.LabelSelectorAsSelector")
				} else if root, path := c17FieldPath(call.Call.Args[0]); !c17IsParamOrSpill(root, sel) || strings.Join(path, ".") != "Selector" {
					pr = append(pr, "the label selector is built from "+p.describe(call.Call.Args[0])+", not selector.Selector")
				}
				if fields["Prober"] == nil {
					pr = append(pr, "label selector wraps nothing")
					return
				}
				for _, in := range p.c17Expand(fields["Prober"], p.FactsAt(a.Block()), 0) {
					checkLeaf(in, false, depth+1)
				}
			default:
				pr = append(pr, "returned prober may be "+p.describe(v)+", which is not a selector wrapper")
			}
		}
		nOK := 0
		for _, rc := range p.c17ReturnCases(f) {
			if !c17ErrResultIsNil(rc) {
				continue
			}
			nOK++
			for _, lf := range p.c17Expand(rc.Results[0], rc.Facts, 0) {
				checkLeaf(lf, true, 0)
			}
		}
		if nOK == 0 || sel == nil || prb == nil {
			o.Unknown("no error-free return recognised")
			continue
		}
		seen := map[string]bool{}
		var uniq []string
		for _, s := range pr {
			if !seen[s] {
				seen[s] = true
				uniq = append(uniq, s)
			}
		}
		if len(uniq) == 0 {
			o.OK()
		} else {
			o.Fail("%s", strings.Join(uniq, "; "))
		}
	}
}
