package main

import (
	"fmt"
	"go/constant"
	"go/token"
	"go/types"
	"sort"
	"strings"

	"golang.org/x/tools/go/ssa"
)

// C16 — Only valid, admissible packages roll out; unchanged packages are left alone.

const (
	pkgPkgManifestValid = modPKO + "/internal/packages/internal/packagemanifestvalidation"
	pkgIntManifests     = modPKO + "/internal/apis/manifests"

	c16TypePackageAccessor = pkgAdapters + ".GenericPackageAccessor"
	c16TypeDeployAccessor  = pkgAdapters + ".ObjectDeploymentAccessor"
	c16TypeRawPackage      = pkgPkgTypes + ".RawPackage"
)

func init() {
	register(&Property{
		ID: "C16",
		Explanation: "Decides the structural core of C16 on every path of the current source. (R1) In every implementation of the package " +
			"deployer interface the call that hands the desired ObjectDeployment on is dominated by the error-free edges of LoadComponent, the " +
			"constraint check, AdmitPackageConfiguration (and an empty validation-error list), RenderPackageInstance (called with the deployer's " +
			"package validators, which the constructors build from DefaultPackageValidators, and DefaultObjectValidators) and of the function " +
			"that builds the desired deployment, whose template is RenderObjectSetTemplateSpec of this very render. (R2) From every site that " +
			"sets Invalid=True — directly or through a helper that may set it and return — no path (pruned by the helper's return values) " +
			"reaches the deployment hand-over or a removal of the Invalid condition, and for the load-failure and unmet-constraint sites every " +
			"path returns a nil error so that the controller persists the status. (R3) A pull error sets Unpacked=False, returns a nil error and " +
			"never reaches Deploy. (R4) Pull and Deploy are only reachable when status.unpackedHash differs from the spec hash, the hash stored " +
			"is that same value, is stored only after Deploy returned nil, and derives from GetSpecHash over the whole Spec. (R5) The package " +
			"controller writes the status only when the sub-reconciler that ran last returned no error, and every return after a sub-reconciler " +
			"ran either carries that error or the result of the status write.",
		NotDecided: []string{
			"validity of concrete packages, schemas and constraints (what LoadComponent / AdmitPackageConfiguration / the validators accept)",
			"that a changed spec yields a changed hash (value level) and that equal hashes mean equal specs",
			"what the deployment reconciler does with the desired ObjectDeployment (C07/C14)",
			"whether callers of Deploy other than the unpack reconciler touch the Invalid condition afterwards",
		},
		Technique: "SSA guard-dominance dataflow + value identity + return classification + path reachability pruned by helper return summaries (typestate A8)",
		Rules: []Rule{
			{ID: "C16.R1", Min: 3, Run: c16r1, Statement: "the ObjectDeployment hand-over in Deploy is dominated by the error-free edges of load, constraint check, config admission (no validation errors), render (with package and object validators) and desired-deployment construction; the deployed template is RenderObjectSetTemplateSpec of this render"},
			{ID: "C16.R2", Min: 12, Run: c16r2, Statement: "once Invalid=True is set (directly or through a helper that sets it and returns), no path reaches the ObjectDeployment hand-over nor removes/withdraws the Invalid condition; load-failure and unmet-constraint paths return a nil error so the status is persisted"},
			{ID: "C16.R3", Min: 3, Run: c16r3, Statement: "a pull error sets Unpacked=False, every return under the pull error is preceded by it and returns a nil error, and Deploy is only reached when the pull returned no error"},
			{ID: "C16.R4", Min: 5, Run: c16r4, Statement: "Pull and Deploy are reached only when status.unpackedHash != spec hash; the unpacked hash is set to that same spec hash only after Deploy returned nil; the spec hash derives from GetSpecHash, which hashes the whole Spec"},
			{ID: "C16.R5", Min: 4, Run: c16r5, Statement: "the package controller writes the status only when the last sub-reconciler returned no error, and every return after a sub-reconciler ran carries either that non-nil error or the result of the status write"},
		},
	})
}

// ---------------------------------------------------------------------------------------------
// anchors

// c16ConstString returns the value of a string constant of package-operator.run/apis/core/v1alpha1.
func c16ConstString(p *Program, name string) (string, bool) {
	pk := p.ByPath[pkgCoreV1]
	if pk == nil || pk.Types == nil {
		return "", false
	}
	obj := pk.Types.Scope().Lookup(name)
	cn, ok := obj.(*types.Const)
	if !ok || cn.Val().Kind() != constant.String {
		return "", false
	}
	return constant.StringVal(cn.Val()), true
}

func c16Signature(cc *ssa.CallCommon) *types.Signature {
	if cc.IsInvoke() {
		s, _ := cc.Method.Type().(*types.Signature)
		return s
	}
	return cc.Signature()
}

// c16ParamOfType returns the argument passed for the first parameter whose declared type is the
// named type `typ`.
func c16ParamOfType(cc *ssa.CallCommon, typ string) (ssa.Value, bool) {
	sig := c16Signature(cc)
	if sig == nil {
		return nil, false
	}
	args := cc.Args
	if !cc.IsInvoke() && sig.Recv() != nil && len(args) == sig.Params().Len()+1 {
		args = args[1:]
	}
	for i := 0; i < sig.Params().Len() && i < len(args); i++ {
		if namedTypeString(sig.Params().At(i).Type()) == typ {
			return args[i], true
		}
	}
	return nil, false
}

func c16ResultTypes(cc *ssa.CallCommon) []string {
	sig := c16Signature(cc)
	var out []string
	if sig == nil {
		return nil
	}
	for i := 0; i < sig.Results().Len(); i++ {
		t := sig.Results().At(i).Type()
		if n := namedTypeString(t); n != "" {
			out = append(out, n)
		} else {
			out = append(out, t.String())
		}
	}
	return out
}

func c16ErrIndex(sig *types.Signature) int {
	idx := -1
	for i := 0; i < sig.Results().Len(); i++ {
		if sig.Results().At(i).Type().String() == "error" {
			idx = i
		}
	}
	return idx
}

// c16PullCalls: calls named Pull returning (*RawPackage, error).
func c16PullCalls(fn *ssa.Function) []*ssa.Call {
	var out []*ssa.Call
	for _, c := range callsIn(fn) {
		call, ok := c.Instr.(*ssa.Call)
		if !ok || calleeName(c.Common) != "Pull" {
			continue
		}
		rt := c16ResultTypes(c.Common)
		if len(rt) == 2 && rt[0] == c16TypeRawPackage && rt[1] == "error" {
			out = append(out, call)
		}
	}
	return out
}

// c16DeployCalls: calls named Deploy that take the package accessor and a raw package and return error.
func c16DeployCalls(fn *ssa.Function) []*ssa.Call {
	var out []*ssa.Call
	for _, c := range callsIn(fn) {
		call, ok := c.Instr.(*ssa.Call)
		if !ok || calleeName(c.Common) != "Deploy" {
			continue
		}
		if _, ok := c16ParamOfType(c.Common, c16TypePackageAccessor); !ok {
			continue
		}
		if _, ok := c16ParamOfType(c.Common, c16TypeRawPackage); !ok {
			continue
		}
		if rt := c16ResultTypes(c.Common); len(rt) != 1 || rt[0] != "error" {
			continue
		}
		out = append(out, call)
	}
	return out
}

// c16UnpackFuncs: product functions of the packages controller that pull the image.
func c16UnpackFuncs(p *Program) []*ssa.Function {
	var out []*ssa.Function
	for _, fn := range p.FuncsIn(pkgPackagesCtl) {
		if len(c16PullCalls(fn)) > 0 {
			out = append(out, fn)
		}
	}
	return out
}

// c16DeployRoots: every product implementation of the interface the unpack reconciler invokes
// Deploy on (or the static callee when the field has a concrete type).
func c16DeployRoots(p *Program) []*ssa.Function {
	seen := map[*ssa.Function]bool{}
	var out []*ssa.Function
	add := func(f *ssa.Function) {
		if f != nil && !seen[f] && f.Blocks != nil && !isNonProductPkg(funcPkgPath(f)) {
			seen[f] = true
			out = append(out, f)
		}
	}
	for _, fn := range c16UnpackFuncs(p) {
		for _, dc := range c16DeployCalls(fn) {
			cc := dc.Common()
			if !cc.IsInvoke() {
				add(staticCallee(cc))
				continue
			}
			iface, ok := cc.Value.Type().Underlying().(*types.Interface)
			if !ok {
				continue
			}
			for _, f := range p.Funcs {
				if f.Name() != cc.Method.Name() || f.Signature.Recv() == nil || f.Parent() != nil {
					continue
				}
				if types.Implements(f.Signature.Recv().Type(), iface) {
					add(f)
				}
			}
		}
	}
	sort.Slice(out, func(i, j int) bool { return funcID(out[i]) < funcID(out[j]) })
	return out
}

// c16DeploySinks: instructions that hand a desired ObjectDeployment on (a call with a parameter of
// type adapters.ObjectDeploymentAccessor) or write an object through a controller-runtime client.
func c16DeploySinks(fn *ssa.Function) []Call {
	var out []Call
	for _, c := range callsIn(fn) {
		if _, ok := c16ParamOfType(c.Common, c16TypeDeployAccessor); ok {
			out = append(out, c)
			continue
		}
		if ws, ok := classifyWriter(c); ok && !strings.HasPrefix(ws.Verb, "Status.") {
			out = append(out, c)
		}
	}
	return out
}

func c16IsDeploySink(in ssa.Instruction) bool {
	ci, ok := in.(ssa.CallInstruction)
	if !ok {
		return false
	}
	if _, ok := c16ParamOfType(ci.Common(), c16TypeDeployAccessor); ok {
		return true
	}
	if ws, ok := classifyWriter(Call{Instr: ci, Common: ci.Common(), Fn: in.Parent()}); ok && !strings.HasPrefix(ws.Verb, "Status.") {
		return true
	}
	return false
}

// c16ReadsConstraints: fn (or a static workspace callee, bounded) reads PackageManifestSpec.Constraints.
func (p *Program) c16ReadsConstraints(fn *ssa.Function, depth int) bool {
	if fn == nil || fn.Blocks == nil {
		return false
	}
	for _, b := range fn.Blocks {
		for _, in := range b.Instrs {
			var x ssa.Value
			var idx int
			switch v := in.(type) {
			case *ssa.FieldAddr:
				x, idx = v.X, v.Field
			case *ssa.Field:
				x, idx = v.X, v.Field
			default:
				continue
			}
			if namedTypeString(x.Type()) == pkgIntManifests+".PackageManifestSpec" && fieldName(x.Type(), idx) == "Constraints" {
				return true
			}
		}
	}
	if depth <= 0 {
		return false
	}
	for _, c := range callsIn(fn) {
		if cal := staticCallee(c.Common); cal != nil && cal != fn && strings.HasPrefix(funcPkgPath(cal), modPKO) {
			if p.c16ReadsConstraints(cal, depth-1) {
				return true
			}
		}
	}
	return false
}

// ---------------------------------------------------------------------------------------------
// R1

func c16Extract(call *ssa.Call, idx int) ssa.Value {
	if call == nil {
		return nil
	}
	return tupleExtract(call, idx)
}

// tupleExtract returns the Extract of index idx of a tuple-valued instruction (call, comma-ok).
func tupleExtract(call ssa.Value, idx int) ssa.Value {
	for _, r := range referrersOf(call) {
		if e, ok := r.(*ssa.Extract); ok && e.Index == idx {
			return e
		}
	}
	return nil
}

func c16r1(c *Ctx) {
	p := c.P
	roots := c16DeployRoots(p)
	if len(roots) == 0 {
		c.AnchorLost("implementation of the package deployer interface (Deploy(ctx, GenericPackageAccessor, *RawPackage, env) error)")
		return
	}
	for _, root := range roots {
		c.Visit(root)
		var sinks []Call
		for _, s := range c16DeploySinks(root) {
			if _, ok := c16ParamOfType(s.Common, c16TypeDeployAccessor); ok {
				sinks = append(sinks, s)
			}
		}
		if len(sinks) == 0 {
			c.AnchorLost("call taking an adapters.ObjectDeploymentAccessor in " + shortFuncID(root))
			continue
		}
		for _, s := range sinks {
			c16r1Sink(c, root, s)
		}
	}
}

func c16r1Sink(c *Ctx, root *ssa.Function, sink Call) {
	p := c.P
	fs := p.FactsAt(sink.Instr.Block())
	name := calleeName(sink.Common)
	o := c.Ob(root, "handover-"+name+":pipeline", sink.Instr, "hand-over of the desired ObjectDeployment is dominated by the error-free edge of every pipeline stage")
	o.Require("err==nil of LoadComponent", "err==nil of the constraint check", "err==nil of AdmitPackageConfiguration", "len(validationErrors)==0",
		"err==nil of RenderPackageInstance", "err==nil of the desired-deployment constructor")
	var problems []string

	findNil := func(what string, match func(cc *ssa.CallCommon) bool) *ssa.Call {
		var cands []*ssa.Call
		for _, cl := range callsIn(root) {
			call, ok := cl.Instr.(*ssa.Call)
			if !ok || !match(cl.Common) {
				continue
			}
			cands = append(cands, call)
		}
		if len(cands) == 0 {
			problems = append(problems, "no call of "+what+" in "+root.Name())
			return nil
		}
		for _, call := range cands {
			if p.errOfCallIsNil(fs, call) {
				o.Note(what + " err==nil dominates (" + p.IPos(call) + ")")
				return call
			}
		}
		problems = append(problems, "hand-over is not dominated by the err==nil edge of "+what+" ("+p.IPos(cands[0])+")")
		return nil
	}

	load := findNil("LoadComponent", func(cc *ssa.CallCommon) bool { return calleeName(cc) == "LoadComponent" })
	findNil("the constraint check (callee reading PackageManifestSpec.Constraints)", func(cc *ssa.CallCommon) bool {
		cal := staticCallee(cc)
		return cal != nil && c16ErrIndex(cal.Signature) >= 0 && p.c16ReadsConstraints(cal, 2)
	})
	admit := findNil("AdmitPackageConfiguration", func(cc *ssa.CallCommon) bool {
		return isCallTo(cc, pkgPkgManifestValid+".AdmitPackageConfiguration")
	})
	if admit != nil {
		ve := c16Extract(admit, 0)
		if ve == nil {
			problems = append(problems, "the validation errors returned by AdmitPackageConfiguration are ignored")
		} else if p.emptinessFromFacts(fs, ve) != yesTri {
			problems = append(problems, "hand-over is not dominated by len(validationErrors)==0 of AdmitPackageConfiguration")
		} else {
			o.Note("len(validationErrors)==0 dominates")
		}
	}
	render := findNil("RenderPackageInstance", func(cc *ssa.CallCommon) bool {
		return isCallTo(cc, pkgPkgRender+".RenderPackageInstance")
	})
	// desired deployment value
	dv, _ := c16ParamOfType(sink.Common, c16TypeDeployAccessor)
	q, qi := asCall(dv)
	if q == nil {
		problems = append(problems, "the deployed object is not the result of a constructor call: "+p.describe(dv))
	} else if c16ErrIndex(q.Common().Signature()) >= 0 {
		if !p.errOfCallIsNil(fs, q) {
			problems = append(problems, "hand-over is not dominated by the err==nil edge of "+calleeName(q.Common())+" which builds the desired deployment")
		} else {
			o.Note(calleeName(q.Common()) + " err==nil dominates")
		}
	}
	_ = qi
	if len(problems) == 0 {
		o.OK()
	} else {
		o.Fail("%s", strings.Join(problems, "; "))
	}

	// validators
	ov := c.Ob(root, "handover-"+name+":validators", sink.Instr, "the render that is deployed ran the deployer's package validators (built from DefaultPackageValidators) and DefaultObjectValidators on the loaded package")
	switch {
	case render == nil:
		ov.Fail("no RenderPackageInstance call whose success dominates the hand-over")
	case len(render.Call.Args) != 5:
		ov.Unknown("RenderPackageInstance has %d arguments, 5 expected (ctx, pkg, renderCtx, packageValidators, objectValidators)", len(render.Call.Args))
	default:
		var vp []string
		if load != nil {
			if l0 := c16Extract(load, 0); l0 == nil || !p.sameValue(render.Call.Args[1], l0) {
				vp = append(vp, "rendered package is "+p.describe(render.Call.Args[1])+", not the package returned by the LoadComponent call whose success dominates")
			}
		}
		field, ok := c16RecvFieldLoad(root, render.Call.Args[3])
		if !ok {
			vp = append(vp, "package validators argument is "+p.describe(render.Call.Args[3])+", not a field of the deployer")
		} else {
			ov.Note("package validators = receiver field " + field)
			vp = append(vp, c16CheckValidatorWiring(c, root, field)...)
		}
		if g, ok := c16GlobalLoad(render.Call.Args[4]); !ok || g.Name() != "DefaultObjectValidators" || g.Pkg == nil || g.Pkg.Pkg.Path() != pkgPkgValid {
			vp = append(vp, "object validators argument is "+p.describe(render.Call.Args[4])+", not packagevalidation.DefaultObjectValidators")
		} else {
			ov.Note("object validators = packagevalidation.DefaultObjectValidators")
		}
		if len(vp) == 0 {
			ov.OK()
		} else {
			ov.Fail("%s", strings.Join(vp, "; "))
		}
	}

	// template identity
	ot := c.Ob(root, "handover-"+name+":template", sink.Instr, "the template of the deployed ObjectDeployment is RenderObjectSetTemplateSpec of the package instance returned by this render")
	switch {
	case render == nil:
		ot.Fail("no RenderPackageInstance call whose success dominates the hand-over")
	case q == nil:
		ot.Fail("the deployed object is not the result of a constructor call")
	default:
		inst := c16Extract(render, 0)
		ok, why := p.c16TemplateFromRender(root, sink, dv, q, inst)
		switch ok {
		case yesTri:
			ot.OK(why)
		case noTri:
			ot.Fail("%s", why)
		default:
			ot.Unknown("%s", why)
		}
	}
}

// c16RecvFieldLoad: v is a load of a field of root's receiver → field name.
func c16RecvFieldLoad(root *ssa.Function, v ssa.Value) (string, bool) {
	v = stripConv(v)
	u, ok := v.(*ssa.UnOp)
	if !ok || u.Op != token.MUL {
		return "", false
	}
	fa, ok := u.X.(*ssa.FieldAddr)
	if !ok || len(root.Params) == 0 || fa.X != ssa.Value(root.Params[0]) || root.Signature.Recv() == nil {
		return "", false
	}
	return fieldName(fa.X.Type(), fa.Field), true
}

func c16GlobalLoad(v ssa.Value) (*ssa.Global, bool) {
	v = stripConv(v)
	u, ok := v.(*ssa.UnOp)
	if !ok || u.Op != token.MUL {
		return nil, false
	}
	g, ok := u.X.(*ssa.Global)
	return g, ok
}

// c16CheckValidatorWiring: every composite literal of the deployer type initialises `field` with
// append(packagevalidation.DefaultPackageValidators, ...) (or the global itself).
func c16CheckValidatorWiring(c *Ctx, root *ssa.Function, field string) (problems []string) {
	p := c.P
	recvT := namedTypeString(root.Signature.Recv().Type())
	lits := 0
	for _, fn := range p.productFuncs() {
		for _, b := range fn.Blocks {
			for _, in := range b.Instrs {
				a, ok := in.(*ssa.Alloc)
				if !ok || namedTypeString(a.Type()) != recvT {
					continue
				}
				if _, isPtrToStruct := a.Type().Underlying().(*types.Pointer).Elem().Underlying().(*types.Struct); !isPtrToStruct {
					continue
				}
				fields, _, ok := compositeFields(a)
				if !ok {
					continue
				}
				lits++
				c.Visit(fn)
				v, set := fields[field]
				if !set {
					problems = append(problems, fmt.Sprintf("%s (%s) builds a %s without %s: no package validator runs", shortFuncID(fn), p.IPos(a), recvT, field))
					continue
				}
				base := v
				if call, _ := asCall(v); call != nil && isCallTo(call.Common(), "builtin:append") && len(call.Call.Args) > 0 {
					base = call.Call.Args[0]
				}
				g, ok := c16GlobalLoad(base)
				if !ok || g.Name() != "DefaultPackageValidators" || g.Pkg == nil || g.Pkg.Pkg.Path() != pkgPkgValid {
					problems = append(problems, fmt.Sprintf("%s (%s) sets %s to %s, which does not start from packagevalidation.DefaultPackageValidators", shortFuncID(fn), p.IPos(a), field, p.describe(v)))
				}
			}
		}
	}
	if lits == 0 {
		problems = append(problems, "no composite literal of "+recvT+" found: cannot tell what "+field+" holds")
	}
	return problems
}

// c16TemplateFromRender: the deployed value dv (result of call q) carries
// RenderObjectSetTemplateSpec(inst) as its template.
func (p *Program) c16TemplateFromRender(root *ssa.Function, sink Call, dv ssa.Value, q *ssa.Call, inst ssa.Value) (tri, string) {
	if inst == nil {
		return noTri, "the package instance returned by RenderPackageInstance is not used"
	}
	isTemplateOf := func(v ssa.Value, want func(x ssa.Value) bool) bool {
		call, _ := asCall(v)
		if call == nil || !isCallTo(call.Common(), pkgPkgRender+".RenderObjectSetTemplateSpec") || len(call.Call.Args) != 1 {
			return false
		}
		return want(call.Call.Args[0])
	}
	// case B: SetTemplateSpec directly in root on the deployed value
	for _, cl := range callsIn(root) {
		if calleeName(cl.Common) != "SetTemplateSpec" || !p.sameValue(callRecv(cl.Common), dv) {
			continue
		}
		args := callArgs(cl.Common)
		if len(args) == 1 && isTemplateOf(args[0], func(x ssa.Value) bool { return p.sameValue(x, inst) }) &&
			p.mustPrecede(sink.Instr, func(in ssa.Instruction) bool { return in == cl.Instr }) {
			return yesTri, "SetTemplateSpec(RenderObjectSetTemplateSpec(<this render>)) precedes the hand-over in " + root.Name()
		}
	}
	// case A: constructor helper
	f := staticCallee(q.Common())
	if f == nil || f.Blocks == nil {
		return unknownTri, "the deployed object comes from " + p.describe(q) + ", which is not a static workspace function, and no SetTemplateSpec on it precedes the hand-over"
	}
	errIdx := c16ErrIndex(f.Signature)
	okReturns := 0
	for _, rc := range p.returnCases(f) {
		if errIdx >= 0 {
			if k, isC := stripConv(rc.Results[errIdx]).(*ssa.Const); !isC || k.Value != nil {
				continue // error return
			}
		}
		okReturns++
		v := rc.Results[0]
		found := false
		for _, cl := range callsIn(f) {
			if calleeName(cl.Common) != "SetTemplateSpec" || !p.sameValue(callRecv(cl.Common), v) {
				continue
			}
			args := callArgs(cl.Common)
			if len(args) != 1 {
				continue
			}
			good := isTemplateOf(args[0], func(x ssa.Value) bool {
				prm, isP := stripConv(x).(*ssa.Parameter)
				if !isP {
					return false
				}
				for i, fp := range f.Params {
					if fp == prm && i < len(q.Call.Args) {
						return p.sameValue(q.Call.Args[i], inst)
					}
				}
				return false
			})
			if !good {
				return noTri, fmt.Sprintf("%s sets the template to %s (%s), which is not RenderObjectSetTemplateSpec of the package instance rendered in %s", f.Name(), p.describe(args[0]), p.IPos(cl.Instr), root.Name())
			}
			if p.mustPrecede(rc.Ret, func(in ssa.Instruction) bool { return in == cl.Instr }) {
				found = true
			}
		}
		if !found {
			return noTri, fmt.Sprintf("%s can return a deployment (%s) whose template was not set from RenderObjectSetTemplateSpec(<this render>)", f.Name(), p.IPos(rc.Ret))
		}
	}
	if okReturns == 0 {
		return unknownTri, f.Name() + " has no recognisable error-free return"
	}
	return yesTri, f.Name() + " sets RenderObjectSetTemplateSpec(<instance of this render>) before every error-free return"
}

// ---------------------------------------------------------------------------------------------
// R2: path property with helper return summaries

type c16Kind int

const (
	c16Unk c16Kind = iota
	c16Nil
	c16NonNil
	c16True
	c16False
)

// c16Ret: what is known about a helper's results on a return that may follow a set of Invalid=True.
type c16Ret struct {
	Val     map[int]c16Kind
	Verdict bool // the set was a non-error verdict about the manifest's constraints
}

func (r c16Ret) String() string {
	var parts []string
	var idx []int
	for i := range r.Val {
		idx = append(idx, i)
	}
	sort.Ints(idx)
	names := map[c16Kind]string{c16Nil: "nil", c16NonNil: "non-nil", c16True: "true", c16False: "false", c16Unk: "?"}
	for _, i := range idx {
		parts = append(parts, fmt.Sprintf("#%d=%s", i, names[r.Val[i]]))
	}
	s := "(" + strings.Join(parts, ",") + ")"
	if r.Verdict {
		s += "verdict"
	}
	return s
}

type c16Origin struct {
	At      ssa.Instruction
	Name    string
	Call    *ssa.Call // helper call; nil for a direct SetStatusCondition
	Rets    []c16Ret  // one walk per alternative (direct: a single empty one)
	Verdict bool      // direct site only
}

type c16Analysis struct {
	p       *Program
	invalid string
	maySet  map[*ssa.Function]int // 0 unknown, 1 yes, 2 no
}

// isInvalidTrueSet: SetStatusCondition of the Invalid type with a status that may be True.
func (a *c16Analysis) isInvalidSet(cs ConditionSet) (isInvalid bool, mayBeTrue bool) {
	if cs.Fields == nil {
		return true, true // shape not recognised: conservatively a possible set
	}
	if _, ok := constString(cs.Fields["Type"]); !ok {
		return true, true
	}
	if cs.Type != a.invalid {
		return false, false
	}
	if st, ok := constString(cs.Fields["Status"]); ok && st != "True" {
		return true, false
	}
	return true, true
}

func (a *c16Analysis) inScope(f *ssa.Function) bool {
	return f != nil && f.Blocks != nil && strings.HasPrefix(funcPkgPath(f), modPKO)
}

func (a *c16Analysis) maySetInvalid(f *ssa.Function, depth int) bool {
	if !a.inScope(f) {
		return false
	}
	if v := a.maySet[f]; v != 0 {
		return v == 1
	}
	a.maySet[f] = 2 // cycle guard
	res := false
	for _, cs := range conditionSets(f) {
		if inv, t := a.isInvalidSet(cs); inv && t {
			res = true
		}
	}
	if !res && depth > 0 {
		for _, cl := range callsIn(f) {
			if _, isCall := cl.Instr.(*ssa.Call); !isCall {
				continue
			}
			if cal := staticCallee(cl.Common); cal != nil && cal != f && a.maySetInvalid(cal, depth-1) {
				res = true
			}
		}
	}
	if res {
		a.maySet[f] = 1
	}
	return res
}

// hasErrNonNilFact: some guard fact says an error value is non-nil.
func (p *Program) c16HasErrNonNilFact(fs []Fact) bool {
	for _, f := range fs {
		if x, trueMeansNonNil, ok := errNilTest(f.Cond); ok && f.Pol == trueMeansNonNil && x.Type().String() == "error" {
			return true
		}
	}
	return false
}

func (a *c16Analysis) origins(fn *ssa.Function, depth int) []c16Origin {
	p := a.p
	var out []c16Origin
	for _, cs := range conditionSets(fn) {
		inv, t := a.isInvalidSet(cs)
		if !inv || !t {
			continue
		}
		verdict := p.c16ReadsConstraints(fn, 0) && !p.c16HasErrNonNilFact(p.FactsAt(cs.Call.Instr.Block()))
		out = append(out, c16Origin{At: cs.Call.Instr, Name: "set-Invalid", Rets: []c16Ret{{Val: map[int]c16Kind{}}}, Verdict: verdict})
	}
	if depth <= 0 {
		return out
	}
	for _, cl := range callsIn(fn) {
		call, ok := cl.Instr.(*ssa.Call)
		if !ok {
			continue
		}
		cal := staticCallee(cl.Common)
		if cal == nil || cal == fn || !a.maySetInvalid(cal, depth-1) {
			continue
		}
		rets := a.afterSetReturns(cal, depth-1)
		if len(rets) == 0 {
			continue
		}
		out = append(out, c16Origin{At: call, Name: "via-" + stableName(cal), Call: call, Rets: rets})
	}
	return out
}

// afterSetReturns summarises helper h: the result knowledge of every return that may follow a set.
func (a *c16Analysis) afterSetReturns(h *ssa.Function, depth int) []c16Ret {
	p := a.p
	seen := map[string]bool{}
	var out []c16Ret
	rcs := p.returnCases(h)
	for _, o := range a.origins(h, depth) {
		for _, r := range o.Rets {
			w := p.c16Walk(o.At, o.Call, r)
			for _, rc := range rcs {
				if !w.reachesReturn(rc) {
					continue
				}
				ret := c16Ret{Val: map[int]c16Kind{}, Verdict: o.Verdict || r.Verdict}
				for i, res := range rc.Results {
					ret.Val[i] = p.c16Classify(res, rc)
				}
				// an error-returning path is not a verdict
				if ei := c16ErrIndex(h.Signature); ei >= 0 && ret.Val[ei] != c16Nil {
					ret.Verdict = false
				}
				if k := ret.String(); !seen[k] {
					seen[k] = true
					out = append(out, ret)
				}
			}
		}
	}
	return out
}

func (p *Program) c16Classify(v ssa.Value, rc ReturnCase) c16Kind {
	if v == nil {
		return c16Unk
	}
	s := stripConv(v)
	if k, ok := s.(*ssa.Const); ok {
		if k.Value == nil {
			if _, isBasic := k.Type().Underlying().(*types.Basic); !isBasic {
				return c16Nil
			}
			return c16Unk
		}
		if b, ok := constBool(k); ok {
			if b {
				return c16True
			}
			return c16False
		}
		return c16Unk
	}
	switch p.nilnessFromFacts(rc.Facts, v) {
	case yesTri:
		return c16Nil
	case noTri:
		return c16NonNil
	}
	switch p.boolFromFacts(rc.Facts, v) {
	case yesTri:
		return c16True
	case noTri:
		return c16False
	}
	return c16Unk
}

// c16InvalidType is the value of corev1alpha1.PackageInvalid (set by c16r2 before any walk).
var c16InvalidType string

type c16WalkRes struct {
	Start  *ssa.BasicBlock
	Instrs []ssa.Instruction
	Blocks map[*ssa.BasicBlock]bool
	Edges  map[[2]*ssa.BasicBlock]bool
}

func (w *c16WalkRes) reachesReturn(rc ReturnCase) bool {
	rb := rc.Ret.Block()
	if rb == w.Start {
		return true
	}
	if !w.Blocks[rb] {
		return false
	}
	if rc.Pred != nil {
		return w.Edges[[2]*ssa.BasicBlock{rc.Pred, rb}]
	}
	return true
}

// c16Walk explores everything that may execute after `start`. When start is a helper call with
// known result kinds, branch edges that contradict them are not taken.
func (p *Program) c16Walk(start ssa.Instruction, call *ssa.Call, ret c16Ret) *c16WalkRes {
	w := &c16WalkRes{Start: start.Block(), Blocks: map[*ssa.BasicBlock]bool{}, Edges: map[[2]*ssa.BasicBlock]bool{}}
	var work []*ssa.BasicBlock
	leave := func(b *ssa.BasicBlock) {
		if len(b.Instrs) == 0 {
			return
		}
		if iff, ok := b.Instrs[len(b.Instrs)-1].(*ssa.If); ok && len(b.Succs) == 2 && b.Succs[0] != b.Succs[1] {
			t := p.c16Eval(iff.Cond, call, ret)
			if t != noTri {
				w.Edges[[2]*ssa.BasicBlock{b, b.Succs[0]}] = true
				work = append(work, b.Succs[0])
			}
			if t != yesTri {
				w.Edges[[2]*ssa.BasicBlock{b, b.Succs[1]}] = true
				work = append(work, b.Succs[1])
			}
			return
		}
		for _, s := range b.Succs {
			w.Edges[[2]*ssa.BasicBlock{b, s}] = true
			work = append(work, s)
		}
	}
	after := false
	for _, in := range start.Block().Instrs {
		if in == start {
			after = true
			continue
		}
		if after {
			w.Instrs = append(w.Instrs, in)
		}
	}
	leave(start.Block())
	for len(work) > 0 {
		b := work[len(work)-1]
		work = work[:len(work)-1]
		if w.Blocks[b] {
			continue
		}
		w.Blocks[b] = true
		w.Instrs = append(w.Instrs, b.Instrs...)
		leave(b)
	}
	return w
}

// c16Eval: truth of a branch condition given what is known about the results of `call`.
func (p *Program) c16Eval(cond ssa.Value, call *ssa.Call, ret c16Ret) tri {
	pol := true
	for {
		if u, ok := cond.(*ssa.UnOp); ok && u.Op == token.NOT {
			cond = u.X
			pol = !pol
			continue
		}
		break
	}
	flip := func(t tri) tri {
		if pol || t == unknownTri {
			return t
		}
		if t == yesTri {
			return noTri
		}
		return yesTri
	}
	// after Invalid=True was set, meta.IsStatusConditionTrue(conds, Invalid) is true (a withdrawal in
	// between is reported separately by the :survives obligation)
	if cc, _ := asCall(cond); cc != nil && isCallTo(cc.Common(), pkgMeta+".IsStatusConditionTrue") && len(cc.Call.Args) == 2 {
		if t, ok := constString(cc.Call.Args[1]); ok && c16InvalidType != "" && t == c16InvalidType {
			return flip(yesTri)
		}
	}
	if call == nil || len(ret.Val) == 0 {
		return unknownTri
	}
	kindOf := func(x ssa.Value) c16Kind {
		pv := p.possibleValues(x)
		if len(pv) != 1 {
			return c16Unk
		}
		cc, idx := asCall(pv[0])
		if cc != call {
			return c16Unk
		}
		if idx < 0 {
			idx = 0
		}
		return ret.Val[idx]
	}
	if x, trueMeansNonNil, ok := errNilTest(cond); ok {
		switch kindOf(x) {
		case c16Nil:
			if trueMeansNonNil {
				return flip(noTri)
			}
			return flip(yesTri)
		case c16NonNil:
			if trueMeansNonNil {
				return flip(yesTri)
			}
			return flip(noTri)
		}
		return unknownTri
	}
	switch kindOf(cond) {
	case c16True:
		return flip(yesTri)
	case c16False:
		return flip(noTri)
	}
	return unknownTri
}

// c16WithdrawsInvalid: the instruction removes the Invalid condition or sets it to a non-True
// status, directly or inside a static workspace callee (bounded).
func (a *c16Analysis) withdrawsInvalid(in ssa.Instruction, depth int) bool {
	ci, ok := in.(ssa.CallInstruction)
	if !ok {
		return false
	}
	cc := ci.Common()
	if isCallTo(cc, pkgMeta+".RemoveStatusCondition") && len(cc.Args) == 2 {
		t, isConst := constString(cc.Args[1])
		return !isConst || t == a.invalid
	}
	if isCallTo(cc, pkgMeta+".SetStatusCondition") && len(cc.Args) == 2 {
		if f, _, ok := compositeFields(cc.Args[1]); ok {
			cs := ConditionSet{Fields: f}
			cs.Type, _ = constString(f["Type"])
			inv, mayTrue := a.isInvalidSet(cs)
			return inv && !mayTrue
		}
		return false
	}
	if depth > 0 {
		if cal := staticCallee(cc); a.inScope(cal) && cal != in.Parent() {
			for _, b := range cal.Blocks {
				for _, x := range b.Instrs {
					if a.withdrawsInvalid(x, depth-1) {
						return true
					}
				}
			}
		}
	}
	return false
}

func c16r2(c *Ctx) {
	p := c.P
	inv, ok := c16ConstString(p, "PackageInvalid")
	if !ok {
		c.AnchorLost(pkgCoreV1 + ".PackageInvalid (string constant)")
		return
	}
	roots := c16DeployRoots(p)
	if len(roots) == 0 {
		c.AnchorLost("implementation of the package deployer interface (Deploy(ctx, GenericPackageAccessor, *RawPackage, env) error)")
		return
	}
	a := &c16Analysis{p: p, invalid: inv, maySet: map[*ssa.Function]int{}}
	c16InvalidType = inv
	for _, root := range roots {
		c.Visit(root)
		origins := a.origins(root, 3)
		if len(origins) == 0 {
			c.AnchorLost("a site in " + shortFuncID(root) + " that sets the Invalid condition")
			continue
		}
		errIdx := c16ErrIndex(root.Signature)
		rcs := p.returnCases(root)
		haveLoadFailure, haveVerdict := false, false
		for _, o := range origins {
			fs := p.FactsAt(o.At.Block())
			loadFailure := false
			for _, cl := range callsIn(root) {
				if call, isCall := cl.Instr.(*ssa.Call); isCall && calleeName(cl.Common) == "LoadComponent" && p.errOfCall(fs, call) == noTri {
					loadFailure = true
				}
			}
			verdict := o.Verdict
			var deployHits, withdrawHits, badReturns, retNotes []string
			seenHit := map[string]bool{}
			addHit := func(dst *[]string, s string) {
				if !seenHit[s] {
					seenHit[s] = true
					*dst = append(*dst, s)
				}
			}
			for _, r := range o.Rets {
				w := p.c16Walk(o.At, o.Call, r)
				mustPersist := loadFailure || o.Verdict || r.Verdict
				if r.Verdict {
					verdict = true
				}
				if o.Call != nil {
					retNotes = append(retNotes, "helper may return "+r.String()+" after setting Invalid")
				}
				for _, in := range w.Instrs {
					if c16IsDeploySink(in) {
						addHit(&deployHits, fmt.Sprintf("%s at %s", p.c16DescribeInstr(in), p.IPos(in)))
					}
					if a.withdrawsInvalid(in, 2) {
						addHit(&withdrawHits, fmt.Sprintf("%s at %s", p.c16DescribeInstr(in), p.IPos(in)))
					}
				}
				if mustPersist && errIdx >= 0 {
					for _, rc := range rcs {
						if !w.reachesReturn(rc) {
							continue
						}
						if k, isC := stripConv(rc.Results[errIdx]).(*ssa.Const); isC && k.Value == nil {
							continue
						}
						addHit(&badReturns, fmt.Sprintf("return %s at %s", p.describe(rc.Results[errIdx]), p.IPos(rc.Ret)))
					}
				}
			}
			c.Visit(o.At.Parent())
			if o.Call != nil {
				c.Visit(staticCallee(o.Call.Common()))
			}
			od := c.Ob(root, o.Name+":no-deploy", o.At, "after Invalid=True was set the desired ObjectDeployment is not handed on and nothing is written")
			od.Note(retNotes...)
			if len(deployHits) == 0 {
				od.OK("no hand-over/write reachable after the set")
			} else {
				od.Fail("after Invalid=True is set here the package is still deployed: reachable %s", strings.Join(deployHits, ", "))
			}
			os := c.Ob(root, o.Name+":survives", o.At, "after Invalid=True was set the condition is neither removed nor set to a non-True status in the same pass")
			if len(withdrawHits) == 0 {
				os.OK("no removal reachable after the set")
			} else {
				os.Fail("the Invalid condition set here is withdrawn again on a continuing path: reachable %s", strings.Join(withdrawHits, ", "))
			}
			if loadFailure || verdict {
				what := "unmet constraints"
				if loadFailure {
					what = "load failure"
					haveLoadFailure = true
				} else {
					haveVerdict = true
				}
				op := c.Ob(root, o.Name+":persisted", o.At, "the path that reports "+what+" in the Invalid condition returns a nil error, so that the controller persists the status")
				if len(badReturns) == 0 {
					op.OK("every reachable return has a nil error")
				} else {
					sort.Strings(badReturns)
					if len(badReturns) > 4 {
						badReturns = append(badReturns[:4], fmt.Sprintf("… (%d more)", len(badReturns)-4))
					}
					op.Fail("after reporting %s the function can still return a non-nil error (status update skipped, condition not shown): %s", what, strings.Join(badReturns, "; "))
				}
			}
		}
		if !haveLoadFailure {
			c.AnchorLost("a site in " + shortFuncID(root) + " that sets Invalid=True under a LoadComponent error")
		}
		if !haveVerdict {
			c.AnchorLost("a site reachable from " + shortFuncID(root) + " that sets Invalid=True for unmet manifest constraints")
		}
	}
}

// c16FuncsX: fn and the extracted helpers it calls (transitively, see callsInX).
func (p *Program) c16FuncsX(fn *ssa.Function) []*ssa.Function {
	out := []*ssa.Function{fn}
	seen := map[*ssa.Function]bool{fn: true}
	for _, xc := range p.callsInX(fn) {
		for _, ch := range xc.Chain {
			if h := staticCallee(ch.Common); h != nil && !seen[h] {
				seen[h] = true
				out = append(out, h)
			}
		}
	}
	return out
}

func (p *Program) c16DescribeInstr(in ssa.Instruction) string {
	if ci, ok := in.(ssa.CallInstruction); ok {
		cc := ci.Common()
		if r := callRecv(cc); r != nil {
			return p.describe(r) + "." + calleeName(cc) + "(…)"
		}
		return calleeName(cc) + "(…)"
	}
	return in.String()
}

// ---------------------------------------------------------------------------------------------
// R3 / R4

func c16r3(c *Ctx) {
	p := c.P
	unpacked, ok := c16ConstString(p, "PackageUnpacked")
	if !ok {
		c.AnchorLost(pkgCoreV1 + ".PackageUnpacked (string constant)")
		return
	}
	fns := c16UnpackFuncs(p)
	if len(fns) == 0 {
		c.AnchorLost("function of " + pkgPackagesCtl + " calling Pull(ctx, image) (*RawPackage, error)")
		return
	}
	for _, fn := range fns {
		c.Visit(fn)
		for _, pull := range c16PullCalls(fn) {
			// (a) Unpacked=False under the pull error
			var shown []ssa.Instruction
			// (inlined view: the error handling may live in an extracted helper, whose blocks carry the
			// facts of its call sites)
			for _, g := range p.c16FuncsX(fn) {
				for _, cs := range conditionSets(g) {
					if cs.Type == unpacked && cs.Status == "False" && p.errOfCall(p.FactsAtX(cs.Call.Instr.Block()), pull) == noTri {
						shown = append(shown, cs.Call.Instr)
					}
				}
			}
			oa := c.Ob(fn, "pull-error:Unpacked=False", pull, "a pull error is reported as Unpacked=False")
			if len(shown) == 0 {
				oa.Fail("no SetStatusCondition(Type=%s, Status=False) guarded by the non-nil error of %s", unpacked, p.describe(pull))
			} else {
				oa.OK("set at " + p.IPos(shown[0]))
			}
			// (b) returns under the pull error
			ob := c.Ob(fn, "pull-error:returns-nil", pull, "every return under the pull error is preceded by Unpacked=False and returns a nil error (status persisted, requeue)")
			errIdx := c16ErrIndex(fn.Signature)
			n := 0
			var problems []string
			for _, rc := range p.returnCases(fn) {
				if p.errOfCall(rc.Facts, pull) != noTri {
					continue
				}
				n++
				if errIdx >= 0 {
					if k, isC := stripConv(rc.Results[errIdx]).(*ssa.Const); !isC || k.Value != nil {
						problems = append(problems, fmt.Sprintf("return at %s under the pull error returns error %s: the controller skips the status update", p.IPos(rc.Ret), p.describe(rc.Results[errIdx])))
					}
				}
				if !p.mustPrecedeX(rc.Ret, func(in ssa.Instruction) bool {
					for _, s := range shown {
						if s == in {
							return true
						}
					}
					return false
				}) {
					problems = append(problems, fmt.Sprintf("return at %s under the pull error is not preceded by Unpacked=False", p.IPos(rc.Ret)))
				}
			}
			switch {
			case n == 0:
				ob.Unknown("no return of %s is classified as 'pull error non-nil' by the guard facts", fn.Name())
			case len(problems) > 0:
				ob.Fail("%s", strings.Join(problems, "; "))
			default:
				ob.OK(fmt.Sprintf("%d return(s) under the pull error", n))
			}
			// (c) Deploy only after a successful pull
			dcs := c16DeployCalls(fn)
			if len(dcs) == 0 {
				c.AnchorLost("Deploy call in " + shortFuncID(fn))
			}
			for _, dc := range dcs {
				oc := c.Ob(fn, "Deploy:after-pull-ok", dc, "Deploy is reached only when the pull returned no error, with the pulled package")
				var pr []string
				if !p.errOfCallIsNil(p.FactsAt(dc.Block()), pull) {
					pr = append(pr, "Deploy is not dominated by the err==nil edge of the pull")
				}
				if raw, ok := c16ParamOfType(dc.Common(), c16TypeRawPackage); !ok || !p.sameValue(raw, c16Extract(pull, 0)) {
					pr = append(pr, "the package handed to Deploy is "+p.describe(raw)+", not the result of this pull")
				}
				if len(pr) == 0 {
					oc.OK()
				} else {
					oc.Fail("%s", strings.Join(pr, "; "))
				}
			}
		}
	}
}

// c16HashGuard: facts contain `pkg.GetUnpackedHash() != H`; returns H.
func (p *Program) c16HashGuard(fs []Fact) (ssa.Value, bool) {
	for _, f := range fs {
		b, ok := f.Cond.(*ssa.BinOp)
		if !ok || (b.Op != token.EQL && b.Op != token.NEQ) {
			continue
		}
		differs := (b.Op == token.NEQ) == f.Pol
		if !differs {
			continue
		}
		for _, pr := range [][2]ssa.Value{{b.X, b.Y}, {b.Y, b.X}} {
			call, _ := asCall(pr[0])
			if call == nil || calleeName(call.Common()) != "GetUnpackedHash" {
				continue
			}
			if _, isParam := stripConv(callRecv(call.Common())).(*ssa.Parameter); !isParam {
				continue
			}
			return pr[1], true
		}
	}
	return nil, false
}

func c16r4(c *Ctx) {
	p := c.P
	fns := c16UnpackFuncs(p)
	if len(fns) == 0 {
		c.AnchorLost("function of " + pkgPackagesCtl + " calling Pull(ctx, image) (*RawPackage, error)")
		return
	}
	for _, fn := range fns {
		c.Visit(fn)
		var hashes []ssa.Value
		guard := func(call *ssa.Call, what string) {
			o := c.Ob(fn, what+":hash-differs", call, what+" is reached only when status.unpackedHash differs from the spec hash")
			h, ok := p.c16HashGuard(p.FactsAt(call.Block()))
			if !ok {
				o.Fail("%s is not guarded by pkg.GetUnpackedHash() != <spec hash>: an unchanged package is processed again", what)
				return
			}
			hashes = append(hashes, h)
			o.OK("guarded by unpackedHash != " + p.describe(h))
		}
		for _, pull := range c16PullCalls(fn) {
			guard(pull, "Pull")
		}
		dcs := c16DeployCalls(fn)
		for _, dc := range dcs {
			guard(dc, "Deploy")
		}
		// SetUnpackedHash
		nset := 0
		for _, xcl := range p.callsInX(fn) {
			cl := xcl.Call
			if calleeName(cl.Common) != "SetUnpackedHash" || len(callArgs(cl.Common)) != 1 {
				continue
			}
			nset++
			o := c.Ob(fn, "SetUnpackedHash", cl.Instr, "the unpacked hash is set to the guarded spec hash, only after Deploy returned nil")
			var pr []string
			arg := callArgs(cl.Common)[0]
			for _, h := range hashes {
				if !p.sameValue(arg, h) {
					pr = append(pr, "stored hash "+p.describe(arg)+" is not the value the short-circuit compares ("+p.describe(h)+")")
					break
				}
			}
			if len(hashes) == 0 {
				pr = append(pr, "no guarded spec hash to compare with")
			}
			okDeploy := false
			fs := p.FactsAtX(cl.Instr.Block())
			for _, dc := range dcs {
				if p.errOfCallIsNil(fs, dc) {
					okDeploy = true
				}
			}
			if !okDeploy {
				pr = append(pr, "SetUnpackedHash is not dominated by the err==nil edge of Deploy: a failed deployment would be marked as processed")
			}
			if len(pr) == 0 {
				o.OK()
			} else {
				o.Fail("%s", strings.Join(pr, "; "))
			}
		}
		if nset == 0 {
			c.AnchorLost("SetUnpackedHash call in " + shortFuncID(fn))
		}
		// derivation of the hash
		if len(hashes) > 0 {
			o := c.Ob(fn, "spec-hash:derivation", nil, "the spec hash is pkg.GetSpecHash(modifier), optionally extended by a suffix")
			var pr []string
			// (the computation may live in an extracted helper: look through its results)
			for _, v := range p.possibleValuesX(hashes[0]) {
				if !c16IsSpecHash(v) {
					if b, ok := v.(*ssa.BinOp); ok && b.Op == token.ADD && (c16IsSpecHash(b.X) || c16IsSpecHash(b.Y)) {
						continue
					}
					pr = append(pr, "spec hash may be "+p.describe(v)+", which is not derived from pkg.GetSpecHash(…)")
				}
			}
			if len(pr) == 0 {
				o.OK(p.describe(hashes[0]))
			} else {
				o.Fail("%s", strings.Join(pr, "; "))
			}
		}
	}
	// GetSpecHash implementations hash the whole Spec
	n := 0
	for _, f := range p.FuncsIn(pkgAdapters) {
		if f.Name() != "GetSpecHash" || f.Signature.Recv() == nil || f.Parent() != nil {
			continue
		}
		n++
		o := c.Ob(f, "whole-Spec", nil, "GetSpecHash hashes the whole Spec of the package (image, config, component, …) together with the modifier")
		var pr []string
		for _, rc := range p.returnCases(f) {
			call, _ := asCall(rc.Results[0])
			if call == nil || !isCallTo(call.Common(), pkgUtils+".ComputeSHA256Hash") || len(call.Call.Args) != 2 {
				pr = append(pr, "returns "+p.describe(rc.Results[0])+", not utils.ComputeSHA256Hash(<Spec>, modifier)")
				continue
			}
			if !c16IsWholeSpecOfRecv(f, call.Call.Args[0]) {
				pr = append(pr, "hashes "+p.describe(call.Call.Args[0])+", not the receiver's whole Spec")
			}
			if prm, ok := stripConv(call.Call.Args[1]).(*ssa.Parameter); !ok || len(f.Params) < 2 || prm != f.Params[1] {
				pr = append(pr, "the hash modifier parameter is not passed on")
			}
		}
		if len(pr) == 0 {
			o.OK()
		} else {
			o.Fail("%s", strings.Join(pr, "; "))
		}
	}
	if n == 0 {
		c.AnchorLost("GetSpecHash implementations in " + pkgAdapters)
	}
}

func c16IsSpecHash(v ssa.Value) bool {
	call, _ := asCall(v)
	if call == nil || calleeName(call.Common()) != "GetSpecHash" {
		return false
	}
	_, isParam := stripConv(callRecv(call.Common())).(*ssa.Parameter)
	return isParam
}

// c16IsWholeSpecOfRecv: v is a load of <recv>(.<embedded>)*.Spec.
func c16IsWholeSpecOfRecv(f *ssa.Function, v ssa.Value) bool {
	u, ok := stripConv(v).(*ssa.UnOp)
	if !ok || u.Op != token.MUL {
		return false
	}
	fa, ok := u.X.(*ssa.FieldAddr)
	if !ok || fieldName(fa.X.Type(), fa.Field) != "Spec" {
		return false
	}
	x := fa.X
	for {
		switch y := x.(type) {
		case *ssa.FieldAddr:
			st, ok := y.X.Type().Underlying().(*types.Pointer).Elem().Underlying().(*types.Struct)
			if !ok || !st.Field(y.Field).Embedded() {
				return false
			}
			x = y.X
			continue
		case *ssa.Parameter:
			return len(f.Params) > 0 && y == f.Params[0]
		}
		return false
	}
}

// ---------------------------------------------------------------------------------------------
// R5

// c16StatusWriters: functions of the packages controller that (transitively, bounded) perform a
// Status().Update / Patch.
func (p *Program) c16WritesStatus(f *ssa.Function, depth int) bool {
	if f == nil || f.Blocks == nil {
		return false
	}
	for _, ws := range allWriterSites([]*ssa.Function{f}) {
		if strings.HasPrefix(ws.Verb, "Status.") {
			return true
		}
	}
	if depth <= 0 {
		return false
	}
	for _, cl := range callsIn(f) {
		if cal := staticCallee(cl.Common); cal != nil && cal != f && funcPkgPath(cal) == funcPkgPath(f) && p.c16WritesStatus(cal, depth-1) {
			return true
		}
	}
	return false
}

// c16SubReconcilerCalls: calls named Reconcile taking the package accessor and returning (Result, error).
func c16SubReconcilerCalls(fn *ssa.Function) []*ssa.Call {
	var out []*ssa.Call
	for _, cl := range callsIn(fn) {
		call, ok := cl.Instr.(*ssa.Call)
		if !ok || calleeName(cl.Common) != "Reconcile" {
			continue
		}
		if _, ok := c16ParamOfType(cl.Common, c16TypePackageAccessor); !ok {
			continue
		}
		if rt := c16ResultTypes(cl.Common); len(rt) != 2 || rt[1] != "error" {
			continue
		}
		out = append(out, call)
	}
	return out
}

func containsInstr(list []ssa.Instruction, x ssa.Instruction) bool {
	for _, in := range list {
		if in == x {
			return true
		}
	}
	return false
}

// c16ErrNilAt: the error returned by the most recent execution of call r is known nil at site s.
// Handles registers and error variables that live in memory (named results captured by a deferred
// closure): the test must be executed on every path from r to s, on the value r stored, and the
// variable must not be overwritten in between.
func (p *Program) c16ErrState(s ssa.Instruction, fs []Fact, r *ssa.Call) (tri, string) {
	errIdx := c16ErrIndex(r.Common().Signature())
	var rErr ssa.Value
	if r.Common().Signature().Results().Len() == 1 {
		rErr = r
	} else {
		rErr = c16Extract(r, errIdx)
	}
	if rErr == nil {
		return unknownTri, "the error of " + p.describe(r) + " is discarded"
	}
	for _, f := range fs {
		x, trueMeansNonNil, ok := errNilTest(f.Cond)
		if !ok {
			continue
		}
		isNil := f.Pol != trueMeansNonNil
		state := noTri
		if isNil {
			state = yesTri
		}
		// the If instruction(s) testing this condition
		testAt := func(in ssa.Instruction) bool {
			iff, ok := in.(*ssa.If)
			return ok && p.mkFact(iff.Cond, true).key[2:] == f.key[2:]
		}
		xs := stripConv(x)
		if xs == rErr {
			if !containsInstr(reachableAfter(r, testAt), s) {
				return state, "tested directly"
			}
			continue
		}
		ld, ok := xs.(*ssa.UnOp)
		if !ok || ld.Op != token.MUL {
			continue
		}
		al, ok := ld.X.(*ssa.Alloc)
		if !ok {
			continue
		}
		// the store of r's error into the variable
		var st *ssa.Store
		for _, ref := range referrersOf(rErr) {
			if s2, ok := ref.(*ssa.Store); ok && s2.Addr == ssa.Value(al) && s2.Val == rErr {
				st = s2
			}
		}
		if st == nil {
			continue
		}
		if af := p.allocInfo(al); af.unknown {
			continue
		}
		isOtherStore := func(in ssa.Instruction) bool {
			s2, ok := in.(*ssa.Store)
			if !ok || s2.Addr != ssa.Value(al) || s2 == st {
				return false
			}
			// `return x, err` with named results re-stores the value it just loaded: harmless
			if l2, isLoad := s2.Val.(*ssa.UnOp); isLoad && l2.Op == token.MUL && l2.X == ssa.Value(al) && l2.Block() == s2.Block() {
				selfCopy := true
				seenLoad := false
				for _, x := range s2.Block().Instrs {
					if x == ssa.Instruction(l2) {
						seenLoad = true
						continue
					}
					if x == in {
						break
					}
					if s3, isSt := x.(*ssa.Store); isSt && seenLoad && s3.Addr == ssa.Value(al) {
						selfCopy = false
					}
				}
				if selfCopy {
					return false
				}
			}
			return true
		}
		// every path from the store to s passes the load+test
		afterStore := reachableAfter(st, func(in ssa.Instruction) bool { return in == ssa.Instruction(ld) })
		if containsInstr(afterStore, s) {
			continue
		}
		clean := true
		for _, in := range afterStore {
			if isOtherStore(in) {
				clean = false
			}
		}
		// the load is followed by its test without a store in between, and nothing overwrites the variable before s
		for _, in := range between(ld, s) {
			if isOtherStore(in) || in == ssa.Instruction(st) {
				clean = false
			}
		}
		if !clean {
			continue
		}
		return state, "tested through variable " + al.Comment
	}
	return unknownTri, "no guard fact about the error of " + p.describe(r)
}

func c16r5(c *Ctx) {
	p := c.P
	// controller Reconcile functions of the packages controller: Reconcile(ctx, ctrl.Request)
	var ctrls []*ssa.Function
	for _, fn := range p.FuncsIn(pkgPackagesCtl) {
		if fn.Name() != "Reconcile" || fn.Signature.Recv() == nil || fn.Parent() != nil || fn.Signature.Params().Len() != 2 {
			continue
		}
		if !strings.HasSuffix(namedTypeString(fn.Signature.Params().At(1).Type()), "reconcile.Request") {
			continue
		}
		if len(c16SubReconcilerCalls(fn)) == 0 {
			continue
		}
		ctrls = append(ctrls, fn)
	}
	if len(ctrls) == 0 {
		c.AnchorLost("Reconcile(ctx, reconcile.Request) of " + pkgPackagesCtl + " that runs package sub-reconcilers")
		return
	}
	for _, fn := range ctrls {
		c.Visit(fn)
		subs := c16SubReconcilerCalls(fn)
		// status write sites in fn
		var writes []ssa.Instruction
		for _, cl := range callsIn(fn) {
			if ws, ok := classifyWriter(cl); ok && strings.HasPrefix(ws.Verb, "Status.") {
				writes = append(writes, cl.Instr)
				continue
			}
			if cal := staticCallee(cl.Common); cal != nil && cal != fn && funcPkgPath(cal) == pkgPackagesCtl && p.c16WritesStatus(cal, 2) {
				if _, ok := c16ParamOfType(cl.Common, c16TypePackageAccessor); ok && !isSubReconcile(cl, subs) {
					writes = append(writes, cl.Instr)
				}
			}
		}
		if len(writes) == 0 {
			c.AnchorLost("status write in " + shortFuncID(fn))
			continue
		}
		for _, w := range writes {
			o := c.Ob(fn, "status-write", w, "the status is written only when every sub-reconciler that may have run last returned no error")
			fs := p.FactsAt(w.Block())
			var pr, notes []string
			n := 0
			for _, r := range subs {
				if !containsInstr(reachableAfter(r, nil), w) {
					continue
				}
				n++
				st, why := p.c16ErrState(w, fs, r)
				if st == yesTri {
					notes = append(notes, "err==nil of "+p.describe(r)+" ("+why+")")
				} else {
					pr = append(pr, "status write is reachable after "+p.describe(r)+" ("+p.IPos(r)+") without its error being known nil: "+why)
				}
			}
			switch {
			case n == 0:
				o.Unknown("no sub-reconciler call precedes this status write")
			case len(pr) > 0:
				o.Fail("%s", strings.Join(pr, "; "))
			default:
				o.OK(notes...)
			}
		}
		// every return after a sub-reconciler ran: error of that reconciler (non-nil) or the status write's result
		errIdx := c16ErrIndex(fn.Signature)
		for _, r := range subs {
			o := c.Ob(fn, "returns-after-"+p.c16RecvName(r), r, "every return after this sub-reconciler ran carries its non-nil error or the result of the status write")
			after := reachableAfter(r, nil)
			var pr []string
			n := 0
			for _, rc := range p.returnCases(fn) {
				if !containsInstr(after, rc.Ret) {
					continue
				}
				n++
				res := rc.Results[errIdx]
				if call, _ := asCall(res); call != nil && containsInstr(writes, call) {
					continue
				}
				if st, _ := p.c16ErrState(rc.Ret, rc.Facts, r); st == noTri {
					// the returned error must be that error variable
					if p.c16ReturnsErrOf(res, r) {
						continue
					}
					pr = append(pr, fmt.Sprintf("return at %s happens under a sub-reconciler error but returns %s", p.IPos(rc.Ret), p.describe(res)))
					continue
				}
				pr = append(pr, fmt.Sprintf("return at %s (error result %s) ends the pass without writing the status although no sub-reconciler error is known: conditions and unpackedHash computed in this pass are lost", p.IPos(rc.Ret), p.describe(res)))
			}
			switch {
			case n == 0:
				o.Unknown("no return reachable after the call")
			case len(pr) > 0:
				o.Fail("%s", strings.Join(pr, "; "))
			default:
				o.OK(fmt.Sprintf("%d return(s)", n))
			}
		}
	}
}

func isSubReconcile(cl Call, subs []*ssa.Call) bool {
	for _, s := range subs {
		if ssa.Instruction(s) == cl.Instr {
			return true
		}
	}
	return false
}

func (p *Program) c16RecvName(r *ssa.Call) string {
	cc := r.Common()
	base := func(s string) string {
		if i := strings.LastIndexByte(s, '.'); i >= 0 {
			return s[i+1:]
		}
		return s
	}
	if cc.IsInvoke() {
		if n := namedTypeString(cc.Value.Type()); n != "" {
			return "invoke-" + base(n) + ".Reconcile"
		}
		return "invoke.Reconcile"
	}
	if f := staticCallee(cc); f != nil && f.Signature.Recv() != nil {
		if n := namedTypeString(f.Signature.Recv().Type()); n != "" {
			return base(n) + ".Reconcile"
		}
	}
	return "Reconcile"
}

// c16ReturnsErrOf: res is (a load of the variable holding) the error of r, or wraps it.
func (p *Program) c16ReturnsErrOf(res ssa.Value, r *ssa.Call) bool {
	errIdx := c16ErrIndex(r.Common().Signature())
	for _, v := range p.possibleValues(res) {
		// a load that was re-stored on return: look through one more level
		for _, vv := range p.possibleValues(v) {
			if cc, idx := asCall(vv); cc == r && (idx == errIdx || idx == -1) {
				return true
			}
		}
	}
	return false
}
