package main

import (
	"fmt"
	"go/token"
	"go/types"
	"strings"

	"golang.org/x/tools/go/ssa"
)

// C04 — Teardown runs in reverse phase order and holds the finalizer until done.

func init() {
	register(&Property{
		ID: "C04",
		Explanation: "Decides, on every path of the current source, the structural core of ordered teardown: the teardown loop of the ObjectSet visits GetPhases() last phase " +
			"first (in-place reversal that dominates an ascending loop, or a descending index) and starts the next iteration only after this iteration's phase reported " +
			"done with a nil error; a phase is done only when every object of it reported done (counter == len(phase.Objects) incremented under done only); an object is done " +
			"only when the preflight refused it, the fresh read or the delete answered NotFound, or the owner is not its controller (and was released); after a successful " +
			"Delete the answer is 'not done'; the delegated phase is done only on NotFound / not controlled; the cached finalizer is removed and Archived=True written only " +
			"under done==true of this pass's Teardown (or when the finalizer is already gone), Archived=False otherwise; and every consumer of the phases' objects in the " +
			"controller activation is preceded by the slice-load reconciler (violated on the deletion/archival path: D6).",
		NotDecided: []string{"asynchronous deletion over repeated passes (finalizers of managed objects, garbage collector interplay)", "operator restarts between passes",
			"that the API server honours the delete preconditions"},
		Technique: "SSA guard-fact dataflow on loop back edges + return classification with per-return justification sets + induction-variable direction + constructor wiring of interface fields",
		Rules: []Rule{
			{ID: "C04.R1", Min: 1, Run: c04r1, Statement: "the teardown loop visits objectSet.GetPhases() last phase first: a descending index, or an ascending walk after exactly one dominating in-place reversal of that same slice"},
			{ID: "C04.R2", Min: 2, Run: c04r2, Statement: "the teardown loop starts the next (earlier) phase only after this phase reported done with nil error; done is returned only after the loop is exhausted or under the orphan guard"},
			{ID: "C04.R3", Min: 1, Run: c04r3, Statement: "TeardownPhase reports done only if every object of the phase reported done (counter incremented under done only, compared with len(phase.Objects)); errors return not-done"},
			{ID: "C04.R4", Min: 1, Run: c04r4, Statement: "an object is reported done only when preflight refused it, the uncached read or the delete returned NotFound, or the owner is not its controller (not an owner, or released by an error-free patch); after an error-free Delete the result is not-done"},
			{ID: "C04.R5", Min: 1, Run: c04r5, Statement: "a delegated phase is reported done only when the phase object is NotFound (read or delete) or not controlled by the ObjectSet (or together with a non-nil error); after an error-free Delete the result is not-done"},
			{ID: "C04.R6", Min: 6, Run: c04r6, Statement: "the cached finalizer is removed and Archived=True is written only under done==true of this pass's Teardown (or an already absent finalizer); while not done an archived ObjectSet reports Archived=False; no other code path removes finalizers of the reconciled object"},
			{ID: "C04.R7", Min: 2, Run: c04r7, Statement: "every consumer of the phases' objects (Reconcile/Teardown implementations reading GetPhases()) wired into the ObjectSet controller runs only after the slice-load reconciler ran on the same accessor in this activation"},
		},
	})
}

func pfExtractOf(call *ssa.Call, idx int) ssa.Value {
	for _, r := range referrersOf(call) {
		if ex, ok := r.(*ssa.Extract); ok && ex.Index == idx {
			return ex
		}
	}
	return nil
}

// c04BoolResult: is result idx of call known true/false under the facts? The tested value is the
// result itself or a variable that carries it after the call (c04Carries).
func (p *Program) c04BoolResult(fs []Fact, call *ssa.Call, idx int, region map[*ssa.BasicBlock]bool) tri {
	for _, f := range fs {
		if p.pfIsResultOf(f.Cond, call, idx) || p.c04Carries(f.Cond, call, idx, region, 0) {
			if f.Pol {
				return yesTri
			}
			return noTri
		}
	}
	return unknownTri
}

// c04ErrOfCall: is the error result of call known nil (yes) / non-nil (no) under the facts? Like
// errOfCall, and additionally through a variable that carries the error after the call.
func (p *Program) c04ErrOfCall(fs []Fact, call *ssa.Call, region map[*ssa.BasicBlock]bool) tri {
	if t := p.errOfCall(fs, call); t != unknownTri {
		return t
	}
	errIdx := pfResultIndex(call.Common().Signature(), "error")
	if errIdx < 0 {
		return unknownTri
	}
	for _, f := range fs {
		x, trueMeansNonNil, ok := errNilTest(f.Cond)
		if !ok || !p.c04Carries(x, call, errIdx, region, 0) {
			continue
		}
		if f.Pol == trueMeansNonNil {
			return noTri
		}
		return yesTri
	}
	return unknownTri
}

// c04Carries: whenever `call` has executed and control has not yet left `region` (the blocks that
// can run after the call in the same loop iteration, pfIterRegion), v holds result idx of that
// execution of the call. True for the result itself and for a variable into which the result is
// merged with the results of alternative branches that do NOT run the call:
//
//	var done bool; var err error
//	if remote { done, err = a.Teardown(x) } else { done, err = b.TeardownPhase(x) }
//	if err != nil {…}          // a test of err is a test of b's error wherever b was called
//
// SSA: a Phi that is evaluated after the call (its block lies in the region and is not the call's own
// block) carries the result when every incoming edge that can be taken after the call (predecessor
// in the region) carries it; the other edges belong to paths on which the call did not run in this
// iteration. A spilled local carries it when every path from the call to the load stores to it and
// every store that can run after the call and reaches the load stores a carrying value.
func (p *Program) c04Carries(v ssa.Value, call *ssa.Call, idx int, region map[*ssa.BasicBlock]bool, depth int) bool {
	if v == nil || depth > 6 {
		return false
	}
	v = stripConv(v)
	if c, i := asCall(v); c != nil {
		n := call.Common().Signature().Results().Len()
		return c == call && (i == idx || (i == -1 && n == 1 && idx == 0))
	}
	after := func(in ssa.Instruction) bool {
		b := in.Block()
		if !region[b] {
			return false
		}
		return b != call.Block() || instrIndex(in) > instrIndex(call)
	}
	switch x := v.(type) {
	case *ssa.Phi:
		b := x.Block()
		if !region[b] || b == call.Block() {
			return false
		}
		any := false
		for i, e := range x.Edges {
			if i >= len(b.Preds) {
				return false
			}
			if !region[b.Preds[i]] {
				continue
			}
			if !p.c04Carries(e, call, idx, region, depth+1) {
				return false
			}
			any = true
		}
		return any
	case *ssa.UnOp:
		if x.Op != token.MUL || !after(x) {
			return false
		}
		a, ok := x.X.(*ssa.Alloc)
		if !ok || p.allocInfo(a).unknown {
			return false
		}
		sts, _ := p.storesReaching(a, x)
		any := false
		for _, st := range sts {
			if !after(st) {
				continue
			}
			if !p.c04Carries(st.Val, call, idx, region, depth+1) {
				return false
			}
			any = true
		}
		if !any {
			return false
		}
		// every path from the call to the load overwrites the variable
		seen := map[*ssa.BasicBlock]bool{}
		var walk func(b *ssa.BasicBlock, start int) bool
		walk = func(b *ssa.BasicBlock, start int) bool {
			for i := start; i < len(b.Instrs); i++ {
				in := b.Instrs[i]
				if st, isSt := in.(*ssa.Store); isSt && st.Addr == ssa.Value(a) {
					return true
				}
				if in == ssa.Instruction(call) {
					return true // a new execution of the call
				}
				if in == ssa.Instruction(x) {
					return false
				}
			}
			for _, sc := range b.Succs {
				if seen[sc] {
					continue
				}
				seen[sc] = true
				if !walk(sc, 0) {
					return false
				}
			}
			return true
		}
		return walk(call.Block(), instrIndex(call)+1)
	}
	return false
}

// c04ValueFalse: v is the constant false, or known false under the facts.
func (p *Program) c04ValueFalse(fs []Fact, v ssa.Value) bool {
	vals := p.possibleValues(v)
	if len(vals) == 0 {
		return false
	}
	for _, pv := range vals {
		if b, ok := constBool(pv); ok {
			if b {
				return false
			}
			continue
		}
		if p.boolFromFacts(fs, pv) != noTri {
			return false
		}
	}
	return true
}

type c04TeardownLoop struct {
	Fn     *ssa.Function
	Call   *ssa.Call
	Loop   *Loop
	ErrIdx int
}

// c04TeardownLoops: calls inside a loop, returning (bool, error), that reach a TeardownPhase call.
func (p *Program) c04TeardownLoops(pkgs ...string) []c04TeardownLoop {
	var out []c04TeardownLoop
	for _, fn := range p.pfFuncsInPkgs(pkgs...) {
		for _, cc := range callsIn(fn) {
			cv, ok := cc.Instr.(*ssa.Call)
			if !ok {
				continue
			}
			sig := cc.Common.Signature()
			if sig.Results().Len() != 2 || sig.Results().At(0).Type().String() != "bool" || sig.Results().At(1).Type().String() != "error" {
				continue
			}
			reaches := calleeName(cc.Common) == "TeardownPhase"
			if callee := staticCallee(cc.Common); callee != nil && callee.Blocks != nil && pfReachesCallNamed(callee, 2, "TeardownPhase") {
				reaches = true
			}
			if !reaches {
				continue
			}
			loop := innermostLoop(fn, cv.Block())
			if loop == nil {
				continue
			}
			out = append(out, c04TeardownLoop{Fn: fn, Call: cv, Loop: loop, ErrIdx: 1})
		}
	}
	// Alternatives: a call of the same (bool, error) shape in the same loop whose results are merged
	// with the results of a teardown call into the same variables (`if remote { done, err = A(x) }
	// else { done, err = B(x) }`, the shape a dispatch helper takes once it is written out at its
	// call site) tears the element down on the other branch and is held to the same obligations.
	known := map[*ssa.Call]bool{}
	for _, tl := range out {
		known[tl.Call] = true
	}
	for i := 0; i < len(out); i++ {
		tl := out[i]
		for _, r := range referrersOf(tl.Call) {
			ex, ok := r.(*ssa.Extract)
			if !ok {
				continue
			}
			for _, r2 := range referrersOf(ex) {
				ph, ok := r2.(*ssa.Phi)
				if !ok || !tl.Loop.Body[ph.Block()] || ph.Block() == tl.Loop.Head {
					continue
				}
				for _, e := range ph.Edges {
					alt, idx := asCall(e)
					if alt == nil || known[alt] || idx != ex.Index || !tl.Loop.Body[alt.Block()] {
						continue
					}
					sig := alt.Common().Signature()
					if sig.Results().Len() != 2 || sig.Results().At(0).Type().String() != "bool" || sig.Results().At(1).Type().String() != "error" {
						continue
					}
					if l := innermostLoop(tl.Fn, alt.Block()); l == nil || l.Head != tl.Loop.Head {
						continue
					}
					known[alt] = true
					out = append(out, c04TeardownLoop{Fn: tl.Fn, Call: alt, Loop: tl.Loop, ErrIdx: 1})
				}
			}
		}
	}
	return out
}

// pfIsInPlaceReverse recognises the two-index swap reversal of a slice parameter.
func (p *Program) pfIsInPlaceReverse(fn *ssa.Function) bool {
	if fn == nil || fn.Blocks == nil || len(fn.Params) != 1 {
		return false
	}
	s := ssa.Value(fn.Params[0])
	if _, ok := s.Type().Underlying().(*types.Slice); !ok {
		return false
	}
	loops := loopsOf(fn)
	if len(loops) != 1 {
		return false
	}
	l := loops[0]
	var stores []*ssa.Store
	for _, b := range fn.Blocks {
		for _, in := range b.Instrs {
			if st, ok := in.(*ssa.Store); ok {
				if !l.Body[b] {
					return false
				}
				stores = append(stores, st)
			}
		}
	}
	if len(stores) != 2 || stores[0].Block() != stores[1].Block() {
		return false
	}
	type acc struct{ idx ssa.Value }
	idxOfAddr := func(v ssa.Value) ssa.Value {
		ia, ok := v.(*ssa.IndexAddr)
		if !ok || ia.X != s {
			return nil
		}
		return ia.Index
	}
	loadIdx := func(v ssa.Value) (ssa.Value, ssa.Instruction) {
		u, ok := v.(*ssa.UnOp)
		if !ok || u.Op != token.MUL {
			return nil, nil
		}
		return idxOfAddr(u.X), u
	}
	a0, a1 := idxOfAddr(stores[0].Addr), idxOfAddr(stores[1].Addr)
	v0, l0 := loadIdx(stores[0].Val)
	v1, l1 := loadIdx(stores[1].Val)
	if a0 == nil || a1 == nil || v0 == nil || v1 == nil || a0 == a1 {
		return false
	}
	if !(v0 == a1 && v1 == a0) {
		return false
	}
	first := instrIndex(stores[0])
	if instrIndex(l0) > first || instrIndex(l1) > first || l0.Block() != stores[0].Block() || l1.Block() != stores[0].Block() {
		return false
	}
	// a0/a1 are header phis: one from 0 upwards, one from len(s)-1 downwards
	dirOf := func(idx ssa.Value) int {
		d, ok := p.pfIndexDirection(idx, s, l)
		if !ok {
			return 0
		}
		return d
	}
	d0, d1 := dirOf(a0), dirOf(a1)
	if d0*d1 != -1 {
		return false
	}
	lo, hi := a0, a1
	if d0 == -1 {
		lo, hi = a1, a0
	}
	// loop condition lo < hi guards the body
	iff, ok := l.Head.Instrs[len(l.Head.Instrs)-1].(*ssa.If)
	if !ok {
		return false
	}
	cond, ok := iff.Cond.(*ssa.BinOp)
	if !ok {
		return false
	}
	okCond := (cond.Op == token.LSS && cond.X == lo && cond.Y == hi) || (cond.Op == token.GTR && cond.X == hi && cond.Y == lo)
	return okCond && l.Body[l.Head.Succs[0]]
}

func (p *Program) c04IsReversalCall(cc *ssa.CallCommon) bool {
	if isCallTo(cc, "slices.Reverse") {
		return len(cc.Args) == 1
	}
	callee := staticCallee(cc)
	if callee == nil || len(cc.Args) != 1 {
		return false
	}
	return p.pfIsInPlaceReverse(callee)
}

func c04r1(c *Ctx) {
	p := c.P
	for _, tl := range p.c04TeardownLoops(pkgObjectSets, pkgObjSetPhases) {
		fn, cv := tl.Fn, tl.Call
		o := c.Ob(fn, "teardown-order:"+calleeName(cv.Common()), cv, c.rule.Statement)
		pix := pfParamIndexOfType(cv.Common().Signature(), pfTypPhase)
		if pix < 0 {
			o.Unknown("teardown call has no ObjectSetTemplatePhase parameter")
			continue
		}
		arg := callArgs(cv.Common())[pix]
		w, ok := p.pfElementWalk(arg, tl.Loop)
		if !ok {
			o.Unknown("the phase argument %s is not recognised as the element of a slice indexed by the loop variable", p.describe(arg))
			continue
		}
		if pfAccessorOnParam(w.Slice, "GetPhases") == nil {
			o.Fail("the teardown loop walks %s, not <owner>.GetPhases()", p.describe(w.Slice))
			continue
		}
		var dominating, other []string
		for _, cc := range callsIn(fn) {
			if !p.c04IsReversalCall(cc.Common) || !p.sameValue(cc.Common.Args[0], w.Slice) {
				continue
			}
			first := tl.Loop.Head.Instrs[0]
			if !tl.Loop.Body[cc.Instr.Block()] && p.mustPrecede(first, func(in ssa.Instruction) bool { return in == cc.Instr }) {
				dominating = append(dominating, p.IPos(cc.Instr))
			} else {
				other = append(other, p.IPos(cc.Instr))
			}
		}
		switch {
		case len(other) > 0:
			o.Fail("a reversal of the phases at %s happens only on some paths or inside the loop", strings.Join(other, ", "))
		case w.Dir == -1 && len(dominating) == 0:
			o.OK("descending index over " + p.describe(w.Slice))
		case w.Dir == 1 && len(dominating) == 1:
			o.OK("ascending walk after in-place reversal at " + dominating[0])
		case w.Dir == 1 && len(dominating) == 0:
			o.Fail("the loop walks GetPhases() first phase first and the slice is not reversed before (teardown in rollout order)")
		default:
			o.Fail("walk direction %+d combined with %d reversal(s) at %s visits the first phase first", w.Dir, len(dominating), strings.Join(dominating, ", "))
		}
	}
}

// c04CheckStopLoop: back edges of the loop after cv require err==nil and done==true; returns from
// inside the iteration are not-done. Returns the problems found.
func (p *Program) c04CheckStopLoop(fn *ssa.Function, cv *ssa.Call, loop *Loop) (bad []string, tails int) {
	ts := loopTailsAfter(cv, loop)
	iter := iterRegionOf(cv, loop)
	for _, t := range ts {
		fs := p.FactsOnEdge(t, loop.Head)
		if p.c04ErrOfCall(fs, cv, iter) != yesTri {
			bad = append(bad, fmt.Sprintf("back edge from block %d (%s): the call's error is not known to be nil", t.Index, p.blockPos(t)))
		}
		if p.c04BoolResult(fs, cv, 0, iter) != yesTri {
			bad = append(bad, fmt.Sprintf("back edge from block %d (%s): the call is not known to have reported done (the next element is torn down while this one is unfinished)", t.Index, p.blockPos(t)))
		}
	}
	// bottom-tested loop: the last iteration ends over the latch's exit edge, not over a back edge;
	// what is returned behind the loop rests on that edge in the same way
	if rot := rotatedLoop(loop); rot != nil && iter[rot.Latch] {
		fs := p.FactsOnEdge(rot.Latch, rot.Exit)
		if p.c04ErrOfCall(fs, cv, iter) != yesTri {
			bad = append(bad, fmt.Sprintf("loop exit from block %d (%s): the call's error is not known to be nil", rot.Latch.Index, p.blockPos(rot.Latch)))
		}
		if p.c04BoolResult(fs, cv, 0, iter) != yesTri {
			bad = append(bad, fmt.Sprintf("loop exit from block %d (%s): the last call is not known to have reported done", rot.Latch.Index, p.blockPos(rot.Latch)))
		}
	}
	region := iter
	for _, rc := range p.pfReturnCases(fn) {
		if !pfReturnInRegion(rc, region) {
			continue
		}
		if !p.c04ValueFalse(rc.Facts, rc.Results[0]) {
			bad = append(bad, "return at "+p.IPos(rc.Ret)+" leaves the loop early and may report done (found "+p.describe(rc.Results[0])+")")
		}
	}
	return bad, len(ts)
}

func c04r2(c *Ctx) {
	p := c.P
	doneJudged := map[*ssa.BasicBlock]bool{}
	for _, tl := range p.c04TeardownLoops(pkgObjectSets, pkgObjSetPhases) {
		fn, cv := tl.Fn, tl.Call
		o := c.Ob(fn, "teardown-stop:"+calleeName(cv.Common()), cv, "the next phase is torn down only after this one reported done with nil error; in-loop returns are not-done")
		bad, tails := p.c04CheckStopLoop(fn, cv, tl.Loop)
		if tails == 0 {
			o.Unknown("no back edge reachable from the teardown call")
		} else if len(bad) > 0 {
			o.Fail("%s", pfJoin(bad))
		} else {
			o.OK(fmt.Sprintf("%d back edge(s) guarded", tails))
		}

		if doneJudged[tl.Loop.Head] {
			continue // an alternative teardown call of a loop whose done-returns were judged already
		}
		doneJudged[tl.Loop.Head] = true
		o2 := c.Ob(fn, "teardown-done-returns", nil, "done is returned only after the loop is exhausted or under the orphan-finalizer guard")
		region := iterRegionOf(cv, tl.Loop)
		var bad2 []string
		n := 0
		for _, rc := range p.pfReturnCases(fn) {
			if pfReturnInRegion(rc, region) || p.c04ValueFalse(rc.Facts, rc.Results[0]) {
				continue
			}
			n++
			from := rc.Ret.Block()
			if rc.Pred != nil {
				from = rc.Pred
			}
			if behindLoop(tl.Loop, from) {
				continue // after the loop ran to completion (every iteration passed the back-edge guard)
			}
			if _, orphan := p.findFactCall(rc.Facts, true, []string{pkgCtrlUtil + ".ContainsFinalizer"}, func(cc *ssa.CallCommon) bool {
				return len(cc.Args) == 2 && isStringConst(cc.Args[1], "orphan")
			}); orphan {
				continue
			}
			bad2 = append(bad2, "return at "+p.IPos(rc.Ret)+" may report done before the teardown loop without the orphan guard")
		}
		if len(bad2) > 0 {
			o2.Fail("%s", pfJoin(bad2))
		} else if n == 0 {
			o2.Unknown("no return that may report done found")
		} else {
			o2.OK(fmt.Sprintf("%d done-return(s) justified", n))
		}
	}
}

func c04r3(c *Ctx) {
	p := c.P
	for _, fn := range p.productFuncs() {
		if fn.Name() != "TeardownPhase" || fn.Signature.Recv() == nil || fn.Blocks == nil {
			continue
		}
		var phaseParam *ssa.Parameter
		for _, prm := range fn.Params {
			if namedTypeString(prm.Type()) == pfTypPhase {
				phaseParam = prm
			}
		}
		if phaseParam == nil {
			continue
		}
		o := c.Ob(fn, "phase-done", nil, c.rule.Statement)
		// the per-object call in the loop over phase.Objects
		var cv *ssa.Call
		var loop *Loop
		for _, cc := range callsIn(fn) {
			x, ok := cc.Instr.(*ssa.Call)
			if !ok {
				continue
			}
			sig := cc.Common.Signature()
			if sig.Results().Len() != 2 || sig.Results().At(0).Type().String() != "bool" || sig.Results().At(1).Type().String() != "error" {
				continue
			}
			l := innermostLoop(fn, x.Block())
			if l == nil {
				continue
			}
			for _, a := range callArgs(cc.Common) {
				if w, ok := p.pfElementWalk(a, l); ok {
					if root, isF := p.pfFieldLoad(w.Slice, "Objects"); isF && p.pfRootValue(root) == ssa.Value(phaseParam) {
						cv, loop = x, l
					}
				}
			}
		}
		if cv == nil {
			o.Unknown("no per-object teardown call inside a loop over phase.Objects found")
			continue
		}
		region := iterRegionOf(cv, loop)
		var bad []string
		shapes := map[string]bool{}
		rot := rotatedLoop(loop)
		finalJudged := map[*ssa.Return]bool{}
		for _, rc := range p.pfReturnCases(fn) {
			r0 := rc.Results[0]
			// Bottom-tested loop whose exit block returns a phi (`return allDone`): the return was split
			// per incoming edge, i.e. into "no iteration" and "after the last iteration". Together these
			// are the loop's final value — what the head phi is behind a top-tested loop — and are
			// judged as that one value (once); a value arriving over a `break` edge keeps its own case.
			if rot != nil && rc.Pred != nil && rc.Ret.Block() == rot.Exit && rotExitEdge(rot, rc.Pred) && len(rc.Ret.Results) > 0 {
				if ph, isPhi := stripConv(rc.Ret.Results[0]).(*ssa.Phi); isPhi && ph.Block() == rot.Exit {
					if finalJudged[rc.Ret] {
						continue
					}
					finalJudged[rc.Ret] = true
					rc = ReturnCase{Ret: rc.Ret, Results: append([]ssa.Value{ph}, rc.Results[1:]...), Facts: p.FactsAt(rot.Exit)}
					r0 = ph
				}
			}
			if p.c04ValueFalse(rc.Facts, r0) {
				continue
			}
			at := p.IPos(rc.Ret)
			if pfReturnInRegion(rc, region) {
				bad = append(bad, "return at "+at+" leaves the object loop and may report the phase done")
				continue
			}
			from := rc.Ret.Block()
			if rc.Pred != nil {
				from = rc.Pred
			}
			if !behindLoop(loop, from) {
				bad = append(bad, "return at "+at+" may report done before the objects were visited")
				continue
			}
			if b, isConst := constBool(r0); isConst && b {
				// shape C: stop-at-first-unfinished loop
				if sb, _ := p.c04CheckStopLoop(fn, cv, loop); len(sb) > 0 {
					// … or a constant returned under a test of an every-object-done flag
					if p.c04FlagShape(r0, rc.Facts, cv, loop) == "" {
						shapes["flag"] = true
						continue
					}
					bad = append(bad, "constant done at "+at+" but "+pfJoin(sb))
				}
				shapes["stop-loop"] = true
				continue
			}
			why := p.c04CounterShape(r0, cv, loop, phaseParam)
			if why == "" {
				shapes["counter"] = true
				continue
			}
			if _, isCmp := r0.(*ssa.BinOp); !isCmp {
				if why = p.c04FlagShape(r0, rc.Facts, cv, loop); why == "" {
					shapes["flag"] = true
					continue
				}
			}
			bad = append(bad, "done value at "+at+": "+why)
		}
		if len(bad) > 0 {
			o.Fail("%s", pfJoin(bad))
		} else if len(shapes) == 0 {
			o.Unknown("no return that may report done")
		} else {
			var ss []string
			for s := range shapes {
				ss = append(ss, s)
			}
			o.OK("shape: " + strings.Join(ss, ","))
		}
	}
}

// c04CounterShape: v is `counter == len(phase.Objects)` (or >=) where counter is a loop-header phi
// (or its final value behind a bottom-tested loop, carriedAtExit) starting at 0 that is incremented by one only on the done==true, err==nil path of cv.
func (p *Program) c04CounterShape(v ssa.Value, cv *ssa.Call, loop *Loop, phaseParam *ssa.Parameter) string {
	b, ok := v.(*ssa.BinOp)
	if !ok {
		return "not a comparison of a done-counter with the number of objects (" + p.describe(v) + ")"
	}
	cnt, n := b.X, b.Y
	switch b.Op {
	case token.EQL:
		if _, isPhi := cnt.(*ssa.Phi); !isPhi {
			cnt, n = n, cnt
		}
	case token.GEQ:
	case token.LEQ:
		cnt, n = n, cnt
	default:
		return "comparison operator " + b.Op.String() + " does not express counter == number of objects"
	}
	// the head phi, or (bottom-tested loop, `for i := range n`) the exit-block phi that is its final value
	phi := carriedAtExit(cnt, loop)
	if phi == nil {
		return "the compared counter is not a variable carried by the object loop"
	}
	lc, isCall := n.(*ssa.Call)
	isLen := false
	if isCall {
		if bi, isB := lc.Call.Value.(*ssa.Builtin); isB && bi.Name() == "len" {
			if root, isF := p.pfFieldLoad(lc.Call.Args[0], "Objects"); isF && p.pfRootValue(root) == ssa.Value(phaseParam) {
				isLen = true
			}
		}
	}
	if !isLen {
		return "the counter is compared with " + p.describe(n) + ", not len(phase.Objects)"
	}
	iter := iterRegionOf(cv, loop)
	// update: the value e the counter takes over a back edge is the old count, the old count + 1
	// computed where this iteration's object is known done with a nil error, or a merge of such
	// values inside the iteration (several `continue`s / an if-else ending in one latch block).
	var update func(e ssa.Value, depth int) string
	update = func(e ssa.Value, depth int) string {
		if e == ssa.Value(phi) {
			return ""
		}
		if m, isPhi := e.(*ssa.Phi); isPhi && m.Block() != loop.Head && loop.Body[m.Block()] && depth < 6 {
			for _, me := range m.Edges {
				if w := update(me, depth+1); w != "" {
					return w
				}
			}
			return ""
		}
		eb, eo, ok := pfAddConst(e)
		inc, isBin := e.(*ssa.BinOp)
		if !ok || !isBin || eb != ssa.Value(phi) || eo != 1 {
			return "the counter is updated by " + p.describe(e) + ", not by +1"
		}
		fs := p.FactsAt(inc.Block())
		if p.c04BoolResult(fs, cv, 0, iter) != yesTri {
			return "the counter is incremented at " + p.IPos(inc) + " without the object having reported done"
		}
		if p.c04ErrOfCall(fs, cv, iter) != yesTri {
			return "the counter is incremented at " + p.IPos(inc) + " without the error being known nil"
		}
		return ""
	}
	for i, pred := range loop.Head.Preds {
		e := phi.Edges[i]
		if !loop.Body[pred] {
			if c0, isC := constInt(e); !isC || c0 != 0 {
				return "the counter does not start at 0"
			}
			continue
		}
		if w := update(e, 0); w != "" {
			return w
		}
	}
	return ""
}

// c04StripNot removes negations: v == NOT^k(x); even reports whether k is even.
func c04StripNot(v ssa.Value) (x ssa.Value, even bool) {
	even = true
	for {
		v = stripConv(v)
		u, ok := v.(*ssa.UnOp)
		if !ok || u.Op != token.NOT {
			return v, even
		}
		v, even = u.X, !even
	}
}

// c04FlagShape: the returned value v (evaluated after the object loop under the facts fs) can be
// true only if every executed iteration reported done with a nil error, by way of a boolean flag
// carried by the loop (`allDone := true; for … { if !done { allDone = false } }; return allDone`,
// its negated twin `pending`, `allDone = allDone && done`, or a constant returned under a test of
// the flag). Proved as a loop invariant "flag == pol ⇒ every iteration so far reported done":
//
//   - v == true implies flag == pol (v is the flag / its negation, or the facts say flag == pol);
//   - before the first iteration any value will do (no object has been visited);
//   - over every back edge the new flag value equals pol only if the old one did AND the iteration's
//     call reported done AND its error is nil, all judged from the facts of that edge; an iteration
//     that can reach the back edge without running the call breaks the invariant.
//
// Returns "" when proved, otherwise what is missing.
func (p *Program) c04FlagShape(v ssa.Value, fs []Fact, cv *ssa.Call, loop *Loop) string {
	var flags []*ssa.Phi
	for _, in := range loop.Head.Instrs {
		ph, ok := in.(*ssa.Phi)
		if !ok {
			break
		}
		if bt, isB := ph.Type().Underlying().(*types.Basic); isB && bt.Info()&types.IsBoolean != 0 {
			flags = append(flags, ph)
		}
	}
	if len(flags) == 0 {
		return "not derived from a counter or flag carried by the object loop (" + p.describe(v) + ")"
	}
	x, even := c04StripNot(v)
	iter := iterRegionOf(cv, loop)
	why := ""
	// behind a bottom-tested loop (`for i := range n`) the flag is read through the exit block's phi
	// (carriedAtExit): the value the head phi would have taken had the head been entered once more
	tested := func(flag *ssa.Phi) tri {
		if t := p.boolFromFacts(fs, flag); t != unknownTri {
			return t
		}
		if rot := rotatedLoop(loop); rot != nil {
			for _, in := range rot.Exit.Instrs {
				ph, isPhi := in.(*ssa.Phi)
				if !isPhi {
					break
				}
				if carriedAtExit(ph, loop) == flag {
					if t := p.boolFromFacts(fs, ph); t != unknownTri {
						return t
					}
				}
			}
		}
		return unknownTri
	}
	for _, flag := range flags {
		var pol bool
		switch {
		case x == ssa.Value(flag) || carriedAtExit(x, loop) == flag:
			pol = even
		case tested(flag) != unknownTri:
			if c, isC := constBool(x); !isC || c != even {
				// a value other than the constant true: not decided here
				why = "the returned value " + p.describe(v) + " is neither the loop's flag nor a constant under a test of it"
				continue
			}
			pol = tested(flag) == yesTri
		default:
			if why == "" {
				why = "the returned value " + p.describe(v) + " is not tied to the flag " + p.describe(flag) + " of the object loop"
			}
			continue
		}
		w := p.c04FlagInvariant(flag, pol, cv, loop, iter)
		if w == "" {
			return ""
		}
		why = w
	}
	return why
}

func (p *Program) c04FlagInvariant(flag *ssa.Phi, pol bool, cv *ssa.Call, loop *Loop, iter map[*ssa.BasicBlock]bool) string {
	tri2 := func(b bool) tri {
		if b {
			return yesTri
		}
		return noTri
	}
	// sound: under fs, e == want implies old flag == pol ∧ done ∧ err == nil
	var sound func(e ssa.Value, want bool, fs []Fact, depth int) string
	sound = func(e ssa.Value, want bool, fs []Fact, depth int) string {
		if pfDeadByFacts(fs) {
			return ""
		}
		x, even := c04StripNot(e)
		if !even {
			want = !want
		}
		if c, isC := constBool(x); isC && c != want {
			return ""
		}
		if t := p.boolFromFacts(fs, x); t != unknownTri && t != tri2(want) {
			return ""
		}
		needOld, needDone := true, true
		switch {
		case x == ssa.Value(flag):
			if want != pol {
				return "the flag is inverted at " + p.IPos(flag)
			}
			needOld = false
		case p.pfIsResultOf(x, cv, 0) || p.c04Carries(x, cv, 0, iter, 0):
			if !want {
				return "the flag takes the value that means every object is done when the object reported not-done"
			}
			needDone = false
		default:
			if _, isC := constBool(x); isC {
				break
			}
			if ph, isPhi := x.(*ssa.Phi); isPhi && ph.Block() != loop.Head && loop.Body[ph.Block()] && depth < 6 {
				for i, pr := range ph.Block().Preds {
					efs := append(append([]Fact{}, p.FactsOnEdge(pr, ph.Block())...), fs...)
					if w := sound(ph.Edges[i], want, efs, depth+1); w != "" {
						return w
					}
				}
				return ""
			}
			return "the flag is updated with " + p.describe(e) + ", which is not recognised"
		}
		if needOld && p.boolFromFacts(fs, flag) != tri2(pol) {
			return "the flag is set to the every-object-done value at " + p.describe(e) + " although an earlier object may have cleared it"
		}
		if needDone && p.c04BoolResult(fs, cv, 0, iter) != yesTri {
			return "the flag keeps/gets the every-object-done value without the object having reported done"
		}
		if p.c04ErrOfCall(fs, cv, iter) != yesTri {
			return "the flag keeps/gets the every-object-done value without the error being known nil"
		}
		return ""
	}
	for i, pred := range loop.Head.Preds {
		if !loop.Body[pred] {
			continue // before the first iteration: nothing visited yet
		}
		if !iter[pred] || !cv.Block().Dominates(pred) {
			return fmt.Sprintf("the iteration can reach the back edge from block %d (%s) without tearing down its object", pred.Index, p.blockPos(pred))
		}
		if w := sound(flag.Edges[i], pol, p.FactsOnEdge(pred, loop.Head), 0); w != "" {
			return fmt.Sprintf("back edge from block %d (%s): %s", pred.Index, p.blockPos(pred), w)
		}
		// bottom-tested loop: the last iteration hands the same value to the code behind the loop
		// over the latch's exit edge; it has to be justified under the facts of that edge as well
		if rot := rotatedLoop(loop); rot != nil && pred == rot.Latch {
			if w := sound(flag.Edges[i], pol, p.FactsOnEdge(rot.Latch, rot.Exit), 0); w != "" {
				return fmt.Sprintf("loop exit from block %d (%s): %s", pred.Index, p.blockPos(pred), w)
			}
		}
	}
	return ""
}

// ---------------------------------------------------------------------------------------------
// R4 / R5: "done only if justified"

type c04Justification struct {
	Name string
	Ok   func(rc ReturnCase) bool
}

// c04IsNotFoundOf: facts contain IsNotFound(<error of call>) == true.
func (p *Program) c04IsNotFoundOf(fs []Fact, call *ssa.Call) bool {
	if call == nil {
		return false
	}
	_, ok := p.findFactCall(fs, true, []string{pkgAPIErr + ".IsNotFound"}, func(cc *ssa.CallCommon) bool {
		return len(cc.Args) == 1 && p.pfIsResultOf(cc.Args[0], call, pfResultIndex(call.Common().Signature(), "error"))
	})
	return ok
}

// dels: the delete call(s) of the object — several when the code after a merged helper was copied
// per helper return (tail duplication); every copy is the same statement of the source.
func (p *Program) c04CheckDoneReturns(o *Obligation, fn *ssa.Function, justs []c04Justification, dels ...*ssa.Call) {
	var bad, found []string
	n := 0
	for _, rc := range p.pfReturnCases(fn) {
		if pfDeadByFacts(rc.Facts) {
			continue // copy of a continuation that the helper return it was made for never takes
		}
		at := p.IPos(rc.Ret)
		r0 := rc.Results[0]
		afterDelete := false
		for _, del := range dels {
			if del != nil && p.errOfCall(rc.Facts, del) == yesTri {
				afterDelete = true
			}
		}
		if afterDelete {
			if !p.c04ValueFalse(rc.Facts, r0) {
				bad = append(bad, "return at "+at+" reports done right after an error-free Delete (the object may still exist, e.g. held by a finalizer)")
			}
			continue
		}
		if p.c04ValueFalse(rc.Facts, r0) {
			continue
		}
		n++
		ok := false
		for _, j := range justs {
			if j.Ok(rc) {
				ok = true
				found = append(found, at+": "+j.Name)
				break
			}
		}
		if !ok {
			bad = append(bad, "return at "+at+" may report done ("+p.describe(r0)+") without any of the accepted reasons; facts: "+strings.Join(factStrings(p, rc.Facts), " ∧ "))
		}
	}
	switch {
	case len(bad) > 0:
		o.Note(found...).Fail("%s", pfJoin(bad))
	case n == 0:
		o.Unknown("no return that may report done")
	default:
		o.OK(found...)
	}
}

func c04r4(c *Ctx) {
	p := c.P
	for _, dc := range p.dynDeleteContexts() {
		fn := dc.Fn
		del := dc.ErrCall()
		x := dc.Obj
		if dc.Helper != nil {
			// the Delete was extracted into a helper: its call stands for the delete if the helper
			// returns exactly the delete's error
			ok := false
			for _, ws := range allWriterSites([]*ssa.Function{dc.Helper}) {
				if ws.Verb == "Delete" && p.helperReturnsOnly(dc.Helper, ws.Call.Instr) {
					ok = true
				}
			}
			if !ok {
				del = nil
			}
		}
		o := c.Ob(fn, "object-done", dc.Site, c.rule.Statement)
		if del == nil || fn.Signature.Results().Len() != 2 || fn.Signature.Results().At(0).Type().String() != "bool" {
			o.Unknown("the function containing the dynamic Delete does not return (done bool, err error)")
			continue
		}
		// inlined view: the read and the release patch may sit in extracted helpers of the teardown
		// function; their error is then known nil when the helper's error is (errNilX)
		var get, patch *ssa.Call
		var getChain, patchChain []Call
		for _, xc := range p.callsInX(fn) {
			cc := xc.Call
			cv, ok := cc.Instr.(*ssa.Call)
			if !ok {
				continue
			}
			if isReaderGet(cc.Common) && p.sameValue(callArgs(cc.Common)[2], x) {
				get, getChain = cv, xc.Chain
			}
			if w, isW := classifyWriter(cc); isW && w.Verb == "Patch" && p.sameValue(w.Obj, x) {
				patch, patchChain = cv, xc.Chain
			}
		}
		justs := []c04Justification{
			{"preflight refused the object", func(rc ReturnCase) bool {
				for _, f := range rc.Facts {
					v, nonEmptyWhenTrue, ok := lenCmp(f.Cond)
					if !ok || f.Pol != nonEmptyWhenTrue {
						continue
					}
					if call, idx := asCall(v); call != nil && idx == 0 && strings.Contains(v.Type().String(), pkgPreflight+".Violation") {
						return true
					}
				}
				return false
			}},
			{"inspected read returned NotFound", func(rc ReturnCase) bool { return p.c04IsNotFoundOf(rc.Facts, get) }},
			{"delete returned NotFound", func(rc ReturnCase) bool { return p.c04IsNotFoundOf(rc.Facts, del) }},
			{"owner is neither controller nor owner", func(rc ReturnCase) bool {
				return get != nil && p.errNilX(rc.Facts, get, getChain) && p.factOwnerTest(rc.Facts, "IsController", false, x) && p.factOwnerTest(rc.Facts, "IsOwner", false, x)
			}},
			{"not controller; ownership released by an error-free patch", func(rc ReturnCase) bool {
				return get != nil && patch != nil && p.errNilX(rc.Facts, get, getChain) && p.factOwnerTest(rc.Facts, "IsController", false, x) &&
					p.factOwnerTest(rc.Facts, "IsOwner", true, x) && p.errNilX(rc.Facts, patch, patchChain)
			}},
		}
		p.c04CheckDoneReturns(o, fn, justs, del)
	}
}

func c04r5(c *Ctx) {
	p := c.P
	for _, fn := range p.pfFuncsInPkgs(pkgObjectSets) {
		if fn.Name() != "Teardown" || fn.Signature.Recv() == nil || pfParamIndexOfType(fn.Signature, pfTypPhase) < 0 {
			continue
		}
		o := c.Ob(fn, "delegated-phase-done", nil, c.rule.Statement)
		if fn.Signature.Results().Len() != 2 || fn.Signature.Results().At(0).Type().String() != "bool" {
			o.Unknown("unexpected result signature")
			continue
		}
		var owner *ssa.Parameter
		for _, prm := range fn.Params {
			if strings.HasSuffix(namedTypeString(prm.Type()), ".ObjectSetAccessor") {
				owner = prm
			}
		}
		// the delete of a typed object and the read of the same object
		var dels, gets []*ssa.Call
		var obj ssa.Value
		oneObject := true
		for _, ws := range allWriterSites([]*ssa.Function{fn}) {
			if ws.Verb == "Delete" {
				if del, ok := ws.Call.Instr.(*ssa.Call); ok {
					if obj != nil && !p.sameValue(obj, ws.Obj) {
						oneObject = false
					}
					dels = append(dels, del)
					obj = ws.Obj
				}
			}
		}
		if len(dels) == 0 || owner == nil {
			o.Unknown("no Delete of the phase object / no ObjectSet accessor parameter found")
			continue
		}
		if !oneObject {
			o.Unknown("the function deletes several different objects")
			continue
		}
		for _, cc := range callsIn(fn) {
			if cv, ok := cc.Instr.(*ssa.Call); ok && isReaderGet(cc.Common) && p.sameValue(callArgs(cc.Common)[2], obj) {
				gets = append(gets, cv)
			}
		}
		anyCall := func(calls []*ssa.Call, pred func(*ssa.Call) bool) bool {
			for _, cv := range calls {
				if pred(cv) {
					return true
				}
			}
			return false
		}
		justs := []c04Justification{
			{"read of the phase object returned NotFound", func(rc ReturnCase) bool {
				return anyCall(gets, func(get *ssa.Call) bool { return p.c04IsNotFoundOf(rc.Facts, get) })
			}},
			{"delete of the phase object returned NotFound", func(rc ReturnCase) bool {
				return anyCall(dels, func(del *ssa.Call) bool { return p.c04IsNotFoundOf(rc.Facts, del) })
			}},
			{"phase object is not controlled by the ObjectSet", func(rc ReturnCase) bool {
				if !anyCall(gets, func(get *ssa.Call) bool { return p.errOfCall(rc.Facts, get) == yesTri }) {
					return false
				}
				// any spelling of !metav1.IsControlledBy(obj, owner.ClientObject()); the alternatives of a
				// written-out `no controller || other UID` arrive over different edges, so per path
				isObj := func(v ssa.Value) bool { return p.sameValue(v, obj) }
				isOwner := func(v ssa.Value) bool { return pfAccessorOnParam(v, "ClientObject") == owner }
				return p.holdsForReturn(rc, func(fs []Fact) bool {
					_, ok := p.factNotControlledBy(fs, isObj, isOwner)
					return ok
				}, 8)
			}},
			{"done only together with a non-nil error (callers test the error first, C04.R2)", func(rc ReturnCase) bool {
				b, ok := rc.Results[0].(*ssa.BinOp)
				if !ok || b.Op != token.NEQ {
					return false
				}
				e := b.X
				if isNilConst(e) {
					e = b.Y
				} else if !isNilConst(b.Y) {
					return false
				}
				return p.sameValue(e, rc.Results[1])
			}},
		}
		p.c04CheckDoneReturns(o, fn, justs, dels...)
	}
}

// ---------------------------------------------------------------------------------------------
// R6

// c04DoneValue: v is the `done` of a deletion handler: the first result of a Teardown call of
// this activation, or the constant true on an edge where the cached finalizer is known absent.
func (p *Program) c04DoneValue(v ssa.Value) (string, bool) {
	v = stripConv(v)
	if u, ok := v.(*ssa.UnOp); ok && u.Op == token.MUL {
		if src, ok := p.loadSource(u); ok {
			v = stripConv(src)
		}
	}
	isTeardown := func(x ssa.Value) bool {
		call, idx := asCall(x)
		return call != nil && idx == 0 && calleeName(call.Common()) == "Teardown"
	}
	switch x := v.(type) {
	case *ssa.Extract:
		if isTeardown(x) {
			return "Teardown(...)#0", true
		}
	case *ssa.Phi:
		for i, e := range x.Edges {
			if isTeardown(e) {
				continue
			}
			if b, isC := constBool(e); isC && b {
				fs := p.FactsOnEdge(x.Block().Preds[i], x.Block())
				if _, absent := p.findFactCall(fs, false, []string{pkgCtrlUtil + ".ContainsFinalizer"}, func(cc *ssa.CallCommon) bool {
					return len(cc.Args) == 2 && isStringConst(cc.Args[1], pfCachedFinalizer)
				}); absent {
					continue
				}
				return "", false
			}
			return "", false
		}
		return "phi(true [cached finalizer absent] | Teardown(...)#0)", true
	}
	return "", false
}

func (p *Program) c04DoneFact(fs []Fact, pol bool) (string, bool) {
	for _, f := range fs {
		if f.Pol != pol {
			continue
		}
		if d, ok := p.c04DoneValue(f.Cond); ok {
			return d, true
		}
	}
	return "", false
}

// c04DoneOrAbsent: the facts of one path establish done==true of this pass's Teardown, or that the
// cached finalizer is already absent (so Teardown was rightly skipped). Used as a disjunctive guard:
// different paths into the guarded block may establish different alternatives (`done := true; if
// Contains {done, err = Teardown()}; if !done {return}` and `if Contains {done, err := Teardown(); if
// !done {return}}` are the same program).
func (p *Program) c04DoneOrAbsent(fs []Fact) (string, bool) {
	if d, ok := p.c04DoneFact(fs, true); ok {
		return d, true
	}
	if _, absent := p.findFactCall(fs, false, []string{pkgCtrlUtil + ".ContainsFinalizer"}, func(cc *ssa.CallCommon) bool {
		return len(cc.Args) == 2 && isStringConst(cc.Args[1], pfCachedFinalizer)
	}); absent {
		return "cached finalizer absent", true
	}
	return "", false
}

// c04UnderDone: every path into b establishes c04DoneOrAbsent, and at least one establishes done==true.
func (p *Program) c04UnderDone(b *ssa.BasicBlock) (string, bool) {
	if d, ok := p.c04DoneFact(p.FactsAt(b), true); ok {
		return d, true
	}
	sawDone := false
	ok := p.holdsOnAllPaths(b, func(fs []Fact) bool {
		d, ok := p.c04DoneOrAbsent(fs)
		if ok && d != "cached finalizer absent" {
			sawDone = true
		}
		return ok
	}, 8)
	if ok && sawDone {
		return "on every path: Teardown(...)#0 == true, or the cached finalizer is absent", true
	}
	return "", false
}

func c04r6(c *Ctx) {
	p := c.P
	removers := []string{pkgControllers + ".FreeCacheAndRemoveFinalizer", pkgControllers + ".RemoveFinalizer", pkgCtrlUtil + ".RemoveFinalizer"}
	archivedFalse := 0
	for _, fn := range p.pfFuncsInPkgs(pkgObjectSets, pkgObjSetPhases) {
		for _, cc := range callsIn(fn) {
			switch {
			case isCallTo(cc.Common, removers...):
				o := c.Ob(fn, "finalizer-removal:"+calleeName(cc.Common), cc.Instr, "the finalizer of the reconciled object is removed only when this pass's teardown reported done")
				if d, ok := p.c04UnderDone(cc.Instr.Block()); ok {
					o.OK("done==true of this pass's Teardown (or absent finalizer): " + d)
				} else if ok, why := p.guardedInterproc(cc.Instr, func(fs []Fact) bool { _, ok := p.c04DoneFact(fs, true); return ok }, 2); ok {
					o.OK("done==true of this pass's Teardown (or absent finalizer): " + why)
				} else {
					o.Fail("finalizer removal is reachable without done==true of this pass's Teardown (%s); facts: %s", why, strings.Join(factStrings(p, p.FactsAt(cc.Instr.Block())), " ∧ "))
				}
			case calleeName(cc.Common) == "SetFinalizers" || calleeName(cc.Common) == "SetDeletionTimestamp":
				o := c.Ob(fn, "finalizers-overwritten:"+calleeName(cc.Common), cc.Instr, "finalizers are never overwritten on the reconciled (parameter) object, only on objects this function fetched itself")
				r := callRecv(cc.Common)
				if co, _ := asCall(r); co != nil && calleeName(co.Common()) == "ClientObject" {
					r = callRecv(co.Common())
				}
				root := p.pfRootValue(stripConv(r))
				if _, isParam := root.(*ssa.Parameter); isParam {
					o.Fail("%s is called on the reconciled object %s", calleeName(cc.Common), p.describe(r))
				} else if _, isFree := root.(*ssa.FreeVar); isFree {
					o.Fail("%s is called on a captured object %s", calleeName(cc.Common), p.describe(r))
				} else {
					o.OK("receiver " + p.describe(r) + " is local to the function (the delegated phase object)")
				}
			}
		}
		for _, cs := range conditionSets(fn) {
			if cs.Type != "Archived" {
				continue
			}
			fs := p.FactsAt(cs.Call.Instr.Block())
			switch cs.Status {
			case "True":
				o := c.Ob(fn, "Archived=True", cs.Call.Instr, "Archived=True is written only when this pass's teardown reported done")
				if d, ok := p.c04UnderDone(cs.Call.Instr.Block()); ok {
					o.OK("guarded by " + d)
				} else {
					o.Fail("Archived=True is reachable without done==true of this pass's Teardown")
				}
			case "False":
				o := c.Ob(fn, "Archived=False", cs.Call.Instr, "while teardown is not done an archived ObjectSet reports Archived=False")
				_, notDone := p.c04DoneFact(fs, false)
				_, archived := p.findFactCall(fs, true, []string{"method:IsArchived"}, nil)
				if notDone && archived {
					archivedFalse++
					o.OK("under done==false ∧ IsArchived()")
				} else {
					o.Fail("Archived=False is not written exactly on the not-done path of an archived ObjectSet")
				}
			default:
				c.Ob(fn, "Archived=?", cs.Call.Instr, "Archived is written with a constant status").Unknown("non-constant or unexpected status %q", cs.Status)
			}
		}
	}
	o := c.Ob(nil, "Archived=False-exists", nil, "while teardown is not done an archived ObjectSet reports Archived=False")
	if archivedFalse > 0 {
		o.OK(fmt.Sprintf("%d site(s)", archivedFalse))
	} else {
		o.Fail("no SetStatusCondition(Archived, False) on the not-done path of an archived ObjectSet")
	}
}

// ---------------------------------------------------------------------------------------------
// R7

type c04Wired struct {
	Type  types.Type
	Index int // position in a slice literal, 0 otherwise
}

// c04Wiring: for the struct type of recv, field name -> values stored into that field anywhere in pkg.
func (p *Program) c04Wiring(pkg string, recv types.Type) map[string][]c04Wired {
	out := map[string][]c04Wired{}
	for _, fn := range p.pfFuncsInPkgs(pkg) {
		for _, b := range fn.Blocks {
			for _, in := range b.Instrs {
				st, ok := in.(*ssa.Store)
				if !ok {
					continue
				}
				fa, ok := st.Addr.(*ssa.FieldAddr)
				if !ok || namedTypeString(fa.X.Type()) != namedTypeString(recv) {
					continue
				}
				name := fieldName(fa.X.Type(), fa.Field)
				if elems, isLit := sliceElems(st.Val); isLit && len(elems) > 0 {
					for i, e := range elems {
						out[name] = append(out[name], c04Wired{Type: stripConv(e).Type(), Index: i})
					}
					continue
				}
				v := stripConv(st.Val)
				if _, isIface := v.Type().Underlying().(*types.Interface); isIface {
					continue
				}
				out[name] = append(out[name], c04Wired{Type: v.Type()})
			}
		}
	}
	return out
}

func isObjectSetAccessorType(t types.Type) bool {
	return namedTypeString(t) == pkgAdapters+".ObjectSetAccessor"
}

// c04ReadsPhases: fn (or static callees) call GetPhases() on an ObjectSetAccessor parameter.
func c04ReadsPhases(fn *ssa.Function, depth int) bool {
	for _, f := range pfStaticCallees(fn, depth) {
		for _, cc := range callsIn(f) {
			if cc.Common.IsInvoke() && cc.Common.Method.Name() == "GetPhases" && isObjectSetAccessorType(cc.Common.Value.Type()) {
				if _, isParam := stripConv(cc.Common.Value).(*ssa.Parameter); isParam {
					return true
				}
			}
		}
	}
	return false
}

// c04IsSliceLoader: fn inlines ObjectSlices: it reads GetObjects() of an ObjectSlice accessor and
// writes the phases back through SetPhases on its accessor parameter.
func c04IsSliceLoader(fn *ssa.Function) bool {
	if fn == nil || fn.Blocks == nil {
		return false
	}
	sets, reads := false, false
	for _, cc := range callsIn(fn) {
		n := calleeName(cc.Common)
		if n == "SetPhases" && cc.Common.IsInvoke() && isObjectSetAccessorType(cc.Common.Value.Type()) {
			if _, isParam := stripConv(cc.Common.Value).(*ssa.Parameter); isParam {
				sets = true
			}
		}
		if n == "GetObjects" && cc.Common.IsInvoke() && strings.Contains(namedTypeString(cc.Common.Value.Type()), "ObjectSlice") {
			reads = true
		}
	}
	return sets && reads
}

func c04IsPhaseConsumer(fn *ssa.Function) bool {
	if fn == nil || fn.Blocks == nil || c04IsSliceLoader(fn) {
		return false
	}
	return c04ReadsPhases(fn, 3) && pfReachesCallNamed(fn, 3, "ReconcilePhase", "TeardownPhase")
}

func shortTypeName(t types.Type) string {
	s := namedTypeString(t)
	if i := strings.LastIndex(s, "."); i >= 0 {
		return s[i+1:]
	}
	return s
}

func c04r7(c *Ctx) {
	p := c.P
	for _, root := range p.pfFuncsInPkgs(pkgObjectSets) {
		if root.Name() != "Reconcile" || root.Signature.Recv() == nil || root.Parent() != nil {
			continue
		}
		isController := false
		for i := 0; i < root.Signature.Params().Len(); i++ {
			if strings.HasSuffix(namedTypeString(root.Signature.Params().At(i).Type()), "/reconcile.Request") {
				isController = true
			}
		}
		if !isController {
			continue
		}
		recvT := root.Signature.Recv().Type()
		wiring := p.c04Wiring(pkgObjectSets, recvT)
		// functions of the activation: Reconcile and the methods of the same receiver it calls (depth 2)
		var tree []*ssa.Function
		for _, f := range pfStaticCallees(root, 2) {
			if f == root || (f.Signature.Recv() != nil && namedTypeString(f.Signature.Recv().Type()) == namedTypeString(recvT)) {
				tree = append(tree, f)
			}
		}
		inTree := map[*ssa.Function]bool{}
		for _, f := range tree {
			inTree[f] = true
		}
		// fieldOf: v is c.<field> (or an element of it); returns field name and whether it is an element of a ranged list
		fieldOf := func(f *ssa.Function, v ssa.Value, at *ssa.BasicBlock) (string, *pfIndexWalk, *Loop) {
			if l := innermostLoop(f, at); l != nil {
				if w, ok := p.pfElementWalk(v, l); ok {
					if u, isLoad := w.Slice.(*ssa.UnOp); isLoad {
						if fa, isFA := u.X.(*ssa.FieldAddr); isFA {
							if prm, isP := p.pfRootValue(fa.X).(*ssa.Parameter); isP && prm == f.Params[0] {
								return fieldName(fa.X.Type(), fa.Field), &w, l
							}
						}
					}
				}
			}
			if u, isLoad := stripConv(v).(*ssa.UnOp); isLoad && u.Op == token.MUL {
				if fa, isFA := u.X.(*ssa.FieldAddr); isFA {
					if prm, isP := p.pfRootValue(fa.X).(*ssa.Parameter); isP && prm == f.Params[0] {
						return fieldName(fa.X.Type(), fa.Field), nil, nil
					}
				}
			}
			return "", nil, nil
		}
		methodOf := func(t types.Type, name string) *ssa.Function {
			return p.SSA.LookupMethod(t, root.Pkg.Pkg, name)
		}
		isLoaderCall := func(f *ssa.Function) func(ssa.Instruction) bool {
			return func(in ssa.Instruction) bool {
				ci, ok := in.(ssa.CallInstruction)
				if !ok {
					return false
				}
				cc := ci.Common()
				if callee := staticCallee(cc); callee != nil && c04IsSliceLoader(callee) {
					return true
				}
				if cc.IsInvoke() {
					field, walk, _ := fieldOf(f, cc.Value, in.Block())
					if field == "" || walk != nil || len(wiring[field]) == 0 {
						return false
					}
					for _, w := range wiring[field] {
						if !c04IsSliceLoader(methodOf(w.Type, cc.Method.Name())) {
							return false
						}
					}
					return true
				}
				return false
			}
		}
		var precededBy func(f *ssa.Function, site ssa.Instruction, depth int) (bool, string)
		precededBy = func(f *ssa.Function, site ssa.Instruction, depth int) (bool, string) {
			if p.mustPrecede(site, isLoaderCall(f)) {
				return true, "slice loader runs before " + p.IPos(site)
			}
			if f == root || depth == 0 {
				return false, "no slice-load call on the path from the start of " + shortFuncID(root) + " to " + p.IPos(site)
			}
			callers := 0
			for _, cs := range p.callersOf(f) {
				if !inTree[cs.Fn] {
					continue
				}
				callers++
				if ok, why := precededBy(cs.Fn, cs.Instr, depth-1); !ok {
					return false, why
				}
			}
			if callers == 0 {
				return false, "no caller inside the controller activation"
			}
			return true, "slice loader runs before every call of " + shortFuncID(f)
		}
		for _, f := range tree {
			for _, cc := range callsIn(f) {
				if !cc.Common.IsInvoke() {
					continue
				}
				hasAccessor := false
				for _, a := range cc.Common.Args {
					if isObjectSetAccessorType(a.Type()) {
						hasAccessor = true
					}
				}
				if !hasAccessor {
					continue
				}
				field, walk, loop := fieldOf(f, cc.Common.Value, cc.Instr.Block())
				if field == "" {
					continue
				}
				method := cc.Common.Method.Name()
				ws := wiring[field]
				if len(ws) == 0 {
					c.Ob(f, "phases-complete:"+method+":"+field, cc.Instr, c.rule.Statement).Unknown("no constructor wiring found for field %s", field)
					continue
				}
				loaderIdx := -1
				for _, w := range ws {
					if c04IsSliceLoader(methodOf(w.Type, method)) && (loaderIdx < 0 || w.Index < loaderIdx) {
						loaderIdx = w.Index
					}
				}
				for _, w := range ws {
					m := methodOf(w.Type, method)
					if m == nil {
						c.Ob(f, "phases-complete:"+method+":"+shortTypeName(w.Type), cc.Instr, c.rule.Statement).Unknown("method %s of wired type %s not found", method, w.Type)
						continue
					}
					c.Visit(m)
					if !c04IsPhaseConsumer(m) {
						continue
					}
					o := c.Ob(f, "phases-complete:"+method+":"+shortTypeName(w.Type), cc.Instr,
						"("+shortTypeName(w.Type)+")."+method+" reads GetPhases() and hands the phases' objects to ReconcilePhase/TeardownPhase; the slice-load reconciler must have inlined ObjectSlices into the same accessor before")
					o.Require("slice-load reconciler (reads ObjectSlice.GetObjects(), calls SetPhases) runs before on every path of the activation")
					if walk != nil {
						cv, _ := cc.Instr.(*ssa.Call)
						var bad []string
						if walk.Dir != 1 {
							bad = append(bad, "the reconciler list is not walked first element first")
						}
						if loaderIdx < 0 || loaderIdx >= w.Index {
							bad = append(bad, fmt.Sprintf("no slice loader is wired before position %d of %s", w.Index, field))
						}
						if cv == nil {
							bad = append(bad, "call is deferred or spawned")
						} else {
							for _, t := range loopTailsAfter(cv, loop) {
								if p.errOfCall(p.FactsOnEdge(t, loop.Head), cv) != yesTri {
									bad = append(bad, "the list loop continues after a failed reconciler (a failed slice load would not stop the consumer)")
								}
							}
						}
						if len(bad) == 0 {
							o.OK(fmt.Sprintf("wired at position %d of %s after the slice loader at position %d; loop stops at the first error", w.Index, field, loaderIdx))
						} else {
							o.Fail("%s", pfJoin(bad))
						}
						continue
					}
					if ok, why := precededBy(f, cc.Instr, 3); ok {
						o.OK(why)
					} else {
						o.Fail("phases may be incomplete: %s; phases that keep their objects in ObjectSlices reach %s with empty .Objects", why, method)
					}
				}
			}
		}
	}
}
