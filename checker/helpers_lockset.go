package main

// A7 — lockset analysis.
//
// Per function: forward MUST dataflow of the set of held sync.Mutex / sync.RWMutex locks. A lock is
// identified by the struct field that holds the mutex ("<pkgpath>.<Type>.<field>") plus the A3 value
// key of the struct pointer it is reached through (so `a.mu` and `b.mu` are different locks), plus
// the mode (read / write).
//
//   x.mu.Lock()/RLock()           adds the lock
//   x.mu.Unlock()/RUnlock()       (not deferred) removes it
//   defer x.mu.Unlock()           keeps the lock held up to the function's `rundefers`
//   call of a static callee       removes every lock (any base) the callee may release (transitively,
//                                 bounded), so helpers that unlock are not mistaken for lock holders
//   unidentified Unlock           clears the whole set
//   join                          intersection
//
// Deferred calls run LIFO at `rundefers`: a deferred call d executes while the locks held at the
// rundefers are still held, except those released by deferred calls that may have been registered
// *after* d (they run before d). This is what makes `defer mu.Unlock(); defer c.sampleMetrics()`
// run sampleMetrics under the lock, and the swapped order not.
//
// Inter-procedural ("callee requires lock L"): an access inside an unexported helper or a closure is
// under L when L is held at every static call site (bounded depth), provided the helper cannot be
// reached dynamically (interface invoke, method value, address taken), does not itself release L,
// and — for closures — is only ever invoked immediately or deferred (never `go`, never stored).
//
// Direction of approximation: the analysis only ever claims *fewer* locks than are really held.
// Not modelled (stated limits): TryLock, sync.Locker values, locks acquired inside a callee and
// returned held, interface/dynamic callees releasing the caller's lock, panics.

import (
	"go/token"
	"go/types"
	"sort"
	"strings"

	"golang.org/x/tools/go/ssa"
)

// locksetCaches: per-Program memo tables of this file (kept out of the Program struct so that the
// engine files stay untouched).
type locksetCaches struct {
	lockRel       map[*ssa.Function]*releaseSet
	locksets      map[*ssa.Function]*locksetInfo
	invokedIfaces map[string][]*types.Interface
	boundMethods  map[types.Object]bool
}

var locksetCacheOf = map[*Program]*locksetCaches{}

func (p *Program) lsc() *locksetCaches {
	c, ok := locksetCacheOf[p]
	if !ok {
		c = &locksetCaches{}
		locksetCacheOf[p] = c
	}
	return c
}

type LockMode int

const (
	LockRead  LockMode = 1
	LockWrite LockMode = 2
)

func (m LockMode) String() string {
	if m == LockWrite {
		return "W"
	}
	return "R"
}

// HeldLock is one element of a lockset.
type HeldLock struct {
	Field string // "<pkgpath>.<Type>.<field>" or "global:<name>"
	Base  string // A3 key of the struct pointer ("" for globals)
	Mode  LockMode
}

func (h HeldLock) id() string     { return h.Field + "|" + h.Base + "|" + h.Mode.String() }
func (h HeldLock) String() string { return shortPkg(h.Field) + "[" + h.Mode.String() + "]" }

func shortPkg(s string) string { return strings.ReplaceAll(s, "package-operator.run/", "") }

type lockState map[string]HeldLock

func (s lockState) clone() lockState {
	o := lockState{}
	for k, v := range s {
		o[k] = v
	}
	return o
}

func (s lockState) list() []HeldLock {
	var out []HeldLock
	for _, h := range s {
		out = append(out, h)
	}
	sort.Slice(out, func(i, j int) bool { return out[i].id() < out[j].id() })
	return out
}

// lockOp is a direct Lock/Unlock call on an identified (or unidentified) mutex.
type lockOp struct {
	Acquire bool
	Mode    LockMode
	Field   string
	Base    string
	Known   bool // mutex identified
}

var syncLockMethods = map[string]struct {
	acquire bool
	mode    LockMode
}{
	"(*sync.Mutex).Lock":      {true, LockWrite},
	"(*sync.Mutex).Unlock":    {false, LockWrite},
	"(*sync.RWMutex).Lock":    {true, LockWrite},
	"(*sync.RWMutex).Unlock":  {false, LockWrite},
	"(*sync.RWMutex).RLock":   {true, LockRead},
	"(*sync.RWMutex).RUnlock": {false, LockRead},
}

// mutexFieldOf identifies the mutex a pointer value denotes.
func (p *Program) mutexFieldOf(v ssa.Value) (field, base string, ok bool) {
	switch x := v.(type) {
	case *ssa.FieldAddr:
		tn := namedTypeString(x.X.Type())
		if tn == "" {
			return "", "", false
		}
		return tn + "." + fieldName(x.X.Type(), x.Field), p.key(x.X), true
	case *ssa.Global:
		return "global:" + x.String(), "", true
	}
	return "", "", false
}

// lockOpOf recognises a direct lock operation.
func (p *Program) lockOpOf(cc *ssa.CallCommon) (lockOp, bool) {
	if cc.IsInvoke() {
		// sync.Locker and friends: an unidentified release.
		if n := cc.Method.Name(); n == "Unlock" || n == "RUnlock" {
			if namedTypeString(cc.Value.Type()) == "sync.Locker" {
				return lockOp{Acquire: false}, true
			}
		}
		return lockOp{}, false
	}
	f := staticCallee(cc)
	if f == nil {
		return lockOp{}, false
	}
	m, ok := syncLockMethods[f.String()]
	if !ok || len(cc.Args) == 0 {
		return lockOp{}, false
	}
	op := lockOp{Acquire: m.acquire, Mode: m.mode}
	op.Field, op.Base, op.Known = p.mutexFieldOf(cc.Args[0])
	return op, true
}

// releaseSet: fields a function may release (directly, deferred, or through static callees).
type releaseSet struct {
	fields map[string]bool
	all    bool // an unidentified unlock
}

func (p *Program) lockReleases(fn *ssa.Function) *releaseSet {
	if p.lsc().lockRel == nil {
		p.lsc().lockRel = map[*ssa.Function]*releaseSet{}
	}
	if rs, ok := p.lsc().lockRel[fn]; ok {
		return rs
	}
	rs := &releaseSet{fields: map[string]bool{}}
	p.lsc().lockRel[fn] = rs // cycles: partial result is fine, callers add their own
	p.collectReleases(fn, rs, 0, map[*ssa.Function]bool{})
	return rs
}

func (p *Program) collectReleases(fn *ssa.Function, rs *releaseSet, depth int, seen map[*ssa.Function]bool) {
	if fn == nil || seen[fn] || len(fn.Blocks) == 0 {
		return
	}
	seen[fn] = true
	for _, c := range callsIn(fn) {
		if op, ok := p.lockOpOf(c.Common); ok {
			if !op.Acquire {
				if op.Known {
					rs.fields[op.Field] = true
				} else {
					rs.all = true
				}
			}
			continue
		}
		if callee := staticCallee(c.Common); callee != nil {
			if depth < 4 {
				p.collectReleases(callee, rs, depth+1, seen)
			} else if len(callee.Blocks) > 0 {
				rs.all = true
			}
		}
	}
}

// applyReleases removes what a call instruction may release (direct op or callee effect).
func (p *Program) applyCallReleases(st lockState, cc *ssa.CallCommon) {
	if op, ok := p.lockOpOf(cc); ok {
		if op.Acquire {
			return
		}
		if !op.Known {
			for k := range st {
				delete(st, k)
			}
			return
		}
		delete(st, HeldLock{op.Field, op.Base, op.Mode}.id())
		// an Unlock through a base we cannot relate: drop same-field locks of the same mode too
		for k, h := range st {
			if h.Field == op.Field && h.Mode == op.Mode && h.Base != op.Base {
				delete(st, k)
			}
		}
		return
	}
	callee := staticCallee(cc)
	if callee == nil || len(callee.Blocks) == 0 {
		return
	}
	rs := p.lockReleases(callee)
	if rs.all {
		for k := range st {
			delete(st, k)
		}
		return
	}
	for k, h := range st {
		if rs.fields[h.Field] {
			delete(st, k)
		}
	}
}

type locksetInfo struct {
	in     map[*ssa.BasicBlock]lockState // absent = unreachable (TOP)
	defers []*ssa.Defer
	reach  map[ssa.Instruction]map[ssa.Instruction]bool // defer -> instructions reachable after it
}

func (p *Program) lockset(fn *ssa.Function) *locksetInfo {
	if p.lsc().locksets == nil {
		p.lsc().locksets = map[*ssa.Function]*locksetInfo{}
	}
	if li, ok := p.lsc().locksets[fn]; ok {
		return li
	}
	li := &locksetInfo{in: map[*ssa.BasicBlock]lockState{}, reach: map[ssa.Instruction]map[ssa.Instruction]bool{}}
	p.lsc().locksets[fn] = li
	if len(fn.Blocks) == 0 {
		return li
	}
	for _, b := range fn.Blocks {
		for _, in := range b.Instrs {
			if d, ok := in.(*ssa.Defer); ok {
				li.defers = append(li.defers, d)
				set := map[ssa.Instruction]bool{}
				for _, r := range reachableAfter(d, nil) {
					set[r] = true
				}
				li.reach[d] = set
			}
		}
	}
	out := map[*ssa.BasicBlock]lockState{}
	li.in[fn.Blocks[0]] = lockState{}
	changed := true
	for iter := 0; changed && iter < 1000; iter++ {
		changed = false
		for _, b := range fn.Blocks {
			var in lockState
			if b == fn.Blocks[0] {
				in = lockState{}
			} else {
				first := true
				for _, pr := range b.Preds {
					po, ok := out[pr]
					if !ok {
						continue // TOP
					}
					if first {
						in = po.clone()
						first = false
					} else {
						for k := range in {
							if _, ok := po[k]; !ok {
								delete(in, k)
							}
						}
					}
				}
				if first {
					continue
				}
			}
			st := in.clone()
			for _, ins := range b.Instrs {
				p.lockTransfer(li, st, ins)
			}
			if old, ok := out[b]; !ok || !sameLockState(old, st) || !sameLockState(li.in[b], in) {
				out[b] = st
				li.in[b] = in
				changed = true
			}
		}
	}
	return li
}

func sameLockState(a, b lockState) bool {
	if len(a) != len(b) {
		return false
	}
	for k := range a {
		if _, ok := b[k]; !ok {
			return false
		}
	}
	return true
}

func (p *Program) lockTransfer(li *locksetInfo, st lockState, ins ssa.Instruction) {
	switch x := ins.(type) {
	case *ssa.Call:
		if op, ok := p.lockOpOf(x.Common()); ok && op.Acquire {
			if op.Known {
				h := HeldLock{op.Field, op.Base, op.Mode}
				st[h.id()] = h
			}
			return
		}
		p.applyCallReleases(st, x.Common())
	case *ssa.RunDefers:
		// every deferred call that may have been registered on a path to here has run afterwards
		for _, d := range li.defers {
			if li.reach[d][ins] {
				p.applyCallReleases(st, d.Common())
			}
		}
	}
}

// LocksHeldAt: the locks that are held on every path immediately before `at` executes (for a
// *ssa.Defer / *ssa.Go instruction: before the statement itself, i.e. at registration / spawn).
func (p *Program) LocksHeldAt(at ssa.Instruction) []HeldLock {
	fn := at.Parent()
	li := p.lockset(fn)
	in, ok := li.in[at.Block()]
	if !ok {
		return nil
	}
	st := in.clone()
	for _, ins := range at.Block().Instrs {
		if ins == at {
			break
		}
		p.lockTransfer(li, st, ins)
	}
	return st.list()
}

// LocksHeldDuringDefer: the locks held whenever the deferred call d actually runs (normal returns
// only): for every rundefers reachable from d, the locks held there minus the releases of deferred
// calls that may have been registered after d.
func (p *Program) LocksHeldDuringDefer(d *ssa.Defer) []HeldLock {
	fn := d.Parent()
	li := p.lockset(fn)
	var acc lockState
	found := false
	for _, b := range fn.Blocks {
		for _, ins := range b.Instrs {
			rd, ok := ins.(*ssa.RunDefers)
			if !ok || !li.reach[d][rd] {
				continue
			}
			st := lockState{}
			for _, h := range p.LocksHeldAt(rd) {
				st[h.id()] = h
			}
			for _, later := range li.defers {
				if later == d && !li.reach[d][d] {
					continue
				}
				if li.reach[d][later] && li.reach[later][rd] {
					p.applyCallReleases(st, later.Common())
				}
			}
			if !found {
				acc = st
				found = true
			} else {
				for k := range acc {
					if _, ok := st[k]; !ok {
						delete(acc, k)
					}
				}
			}
		}
	}
	return acc.list()
}

// locksWhenExecuted: lock state in which the *callee* of a call instruction runs.
func (p *Program) locksWhenExecuted(ci ssa.Instruction) (held []HeldLock, newGoroutine bool) {
	switch x := ci.(type) {
	case *ssa.Go:
		return nil, true
	case *ssa.Defer:
		return p.LocksHeldDuringDefer(x), false
	}
	return p.LocksHeldAt(ci), false
}

// LockReq: "lock Field (of the struct Base points to) is held, in write mode if Write".
type LockReq struct {
	Field string
	Write bool
	Base  ssa.Value // struct pointer in the function of the queried site; nil = any instance
}

func (p *Program) lockSatisfied(held []HeldLock, req LockReq) (HeldLock, bool) {
	bk := ""
	if req.Base != nil {
		bk = p.key(req.Base)
	}
	for _, h := range held {
		if h.Field != req.Field {
			continue
		}
		if req.Write && h.Mode != LockWrite {
			continue
		}
		if req.Base != nil && h.Base != bk {
			continue
		}
		return h, true
	}
	return HeldLock{}, false
}

// LockHeld answers the A7 query: when instruction `site` executes, is the lock of req held?
// It looks at the function's own lockset first and then (bounded by depth) at every static caller
// of an unexported helper, or at the invocation points of a closure.
func (p *Program) LockHeld(site ssa.Instruction, req LockReq, depth int) (bool, string) {
	held := p.LocksHeldAt(site)
	if h, ok := p.lockSatisfied(held, req); ok {
		return true, h.String() + " held in " + shortFuncID(site.Parent())
	}
	return p.lockHeldByContext(site.Parent(), req, depth)
}

func describeHeld(hs []HeldLock) string {
	if len(hs) == 0 {
		return "{}"
	}
	var s []string
	for _, h := range hs {
		s = append(s, h.String())
	}
	return "{" + strings.Join(s, ",") + "}"
}

// lockHeldByContext: every way of entering fn holds the lock (and fn does not drop it itself).
func (p *Program) lockHeldByContext(fn *ssa.Function, req LockReq, depth int) (bool, string) {
	want := shortPkg(req.Field)
	if req.Write {
		want += "[W]"
	}
	if depth <= 0 {
		return false, want + " not held in " + shortFuncID(fn) + " (caller depth bound reached)"
	}
	if rs := p.lockReleases(fn); rs.all || rs.fields[req.Field] {
		return false, want + " not held at the access in " + shortFuncID(fn) + ", which itself unlocks it (cannot rely on callers)"
	}
	if fn.Parent() != nil {
		return p.lockHeldAtClosureUses(fn, req, depth)
	}
	if token.IsExported(fn.Name()) {
		return false, want + " not held in exported " + shortFuncID(fn) + " (only unexported helpers inherit their callers' locks)"
	}
	if why := p.mayBeCalledDynamically(fn); why != "" {
		return false, want + " not held in " + shortFuncID(fn) + ", which " + why
	}
	callers := p.callersOf(fn)
	if len(callers) == 0 {
		return false, want + " not held in " + shortFuncID(fn) + " and it has no static callers"
	}
	var notes []string
	for _, c := range callers {
		creq := req
		if req.Base != nil {
			idx := paramIndex(fn, req.Base)
			if idx < 0 || c.Common.IsInvoke() || idx >= len(c.Common.Args) {
				return false, want + ": cannot relate the locked instance in " + shortFuncID(fn) + " to its callers (guarded struct is not a parameter)"
			}
			creq.Base = c.Common.Args[idx]
		}
		ok, why := p.lockHeldWhenCalled(c.Instr, creq, depth-1)
		if !ok {
			return false, "caller " + shortFuncID(c.Fn) + " at " + p.IPos(c.Instr) + ": " + why
		}
		notes = append(notes, why)
	}
	return true, "held at every caller of " + fn.Name() + ": " + strings.Join(dedupStrings(notes), "; ")
}

func dedupStrings(in []string) []string {
	seen := map[string]bool{}
	var out []string
	for _, s := range in {
		if !seen[s] {
			seen[s] = true
			out = append(out, s)
		}
	}
	return out
}

// lockHeldWhenCalled: the lock is held while the callee of call instruction ci runs.
func (p *Program) lockHeldWhenCalled(ci ssa.Instruction, req LockReq, depth int) (bool, string) {
	held, isGo := p.locksWhenExecuted(ci)
	if isGo {
		return false, "started with `go`: runs in a new goroutine that holds no lock"
	}
	if h, ok := p.lockSatisfied(held, req); ok {
		how := "call"
		if _, isDefer := ci.(*ssa.Defer); isDefer {
			how = "deferred call (runs before the deferred unlock registered earlier)"
		}
		return true, h.String() + " held at " + how + " in " + shortFuncID(ci.Parent())
	}
	if _, isDefer := ci.(*ssa.Defer); isDefer {
		// the deferred call runs at function exit; the enclosing function's own callers may hold the lock
		ok, why := p.lockHeldByContext(ci.Parent(), req, depth)
		if ok {
			return true, why
		}
		return false, "deferred call runs with " + describeHeld(held) + " (deferred calls registered later, e.g. an Unlock, run first); " + why
	}
	return p.lockHeldByContext(ci.Parent(), req, depth)
}

func paramIndex(fn *ssa.Function, v ssa.Value) int {
	v = stripConv(v)
	for i, prm := range fn.Params {
		if ssa.Value(prm) == v {
			return i
		}
	}
	return -1
}

// lockHeldAtClosureUses: fn is a closure; every MakeClosure of it must be invoked immediately or
// deferred, and the lock must be held there.
func (p *Program) lockHeldAtClosureUses(fn *ssa.Function, req LockReq, depth int) (bool, string) {
	parent := fn.Parent()
	var notes []string
	found := false
	for _, b := range parent.Blocks {
		for _, in := range b.Instrs {
			mc, ok := in.(*ssa.MakeClosure)
			if !ok || mc.Fn != ssa.Value(fn) {
				continue
			}
			found = true
			for _, r := range referrersOf(mc) {
				if _, isDbg := r.(*ssa.DebugRef); isDbg {
					continue
				}
				ci, isCall := r.(ssa.CallInstruction)
				if !isCall || ci.Common().Value != ssa.Value(mc) {
					return false, "closure " + shortFuncID(fn) + " escapes (stored or passed on) at " + p.IPos(r) + ": its lock context is unknown"
				}
				creq := req
				if req.Base != nil {
					nb, ok := p.translateClosureBase(fn, mc, ci, req.Base)
					if !ok {
						return false, "cannot relate the locked instance inside closure " + shortFuncID(fn) + " to its creation site"
					}
					creq.Base = nb
				}
				ok, why := p.lockHeldWhenCalled(ci, creq, depth-1)
				if !ok {
					return false, "closure invoked at " + p.IPos(ci) + ": " + why
				}
				notes = append(notes, why)
			}
		}
	}
	if !found {
		return false, "creation site of closure " + shortFuncID(fn) + " not found"
	}
	return true, "closure invoked under lock: " + strings.Join(dedupStrings(notes), "; ")
}

// translateClosureBase maps a value of the closure (parameter, or load of a captured variable)
// to the corresponding value at the invocation site in the parent.
func (p *Program) translateClosureBase(fn *ssa.Function, mc *ssa.MakeClosure, ci ssa.CallInstruction, base ssa.Value) (ssa.Value, bool) {
	base = stripConv(base)
	if i := paramIndex(fn, base); i >= 0 {
		if i < len(ci.Common().Args) {
			return ci.Common().Args[i], true
		}
		return nil, false
	}
	if u, ok := base.(*ssa.UnOp); ok && u.Op == token.MUL {
		if fv, ok := u.X.(*ssa.FreeVar); ok {
			for j, f := range fn.FreeVars {
				if f != fv || j >= len(mc.Bindings) {
					continue
				}
				switch bnd := mc.Bindings[j].(type) {
				case *ssa.Alloc:
					sts, known := p.storesReaching(bnd, mc)
					if known && len(sts) == 1 {
						return sts[0].Val, true
					}
				}
			}
		}
	}
	return nil, false
}

// mayBeCalledDynamically: "" when fn is only reachable through its static call sites.
func (p *Program) mayBeCalledDynamically(fn *ssa.Function) string {
	if p.addressTaken(fn) {
		return "is used as a function value"
	}
	p.buildDynIndex()
	if obj := fn.Object(); obj != nil && p.lsc().boundMethods[obj] {
		return "is used as a method value"
	}
	if recv := fn.Signature.Recv(); recv != nil {
		for _, iface := range p.lsc().invokedIfaces[fn.Name()] {
			if types.Implements(recv.Type(), iface) {
				return "can be reached through an interface call of " + fn.Name()
			}
			if pt, ok := recv.Type().(*types.Pointer); !ok {
				if types.Implements(types.NewPointer(recv.Type()), iface) {
					return "can be reached through an interface call of " + fn.Name()
				}
			} else {
				_ = pt
			}
		}
	}
	return ""
}

func (p *Program) buildDynIndex() {
	if p.lsc().invokedIfaces != nil {
		return
	}
	p.lsc().invokedIfaces = map[string][]*types.Interface{}
	p.lsc().boundMethods = map[types.Object]bool{}
	seenIface := map[*types.Interface]bool{}
	for _, f := range p.Funcs {
		for _, b := range f.Blocks {
			for _, in := range b.Instrs {
				switch x := in.(type) {
				case ssa.CallInstruction:
					cc := x.Common()
					if cc.IsInvoke() {
						if it, ok := cc.Value.Type().Underlying().(*types.Interface); ok && !seenIface[it] {
							seenIface[it] = true
							for i := 0; i < it.NumMethods(); i++ {
								n := it.Method(i).Name()
								p.lsc().invokedIfaces[n] = append(p.lsc().invokedIfaces[n], it)
							}
						}
					}
				case *ssa.MakeClosure:
					if g, ok := x.Fn.(*ssa.Function); ok && g.Synthetic != "" && g.Object() != nil {
						p.lsc().boundMethods[g.Object()] = true
					}
				}
			}
		}
	}
}

// lockNotReleasedBetween: no instruction that may execute between a and b releases the lock field
// (explicit Unlock/RUnlock or a callee that may). Together with "held at a" and "held at b" this
// states that a and b are in one critical section.
func (p *Program) lockNotReleasedBetween(a, b ssa.Instruction, field string) (bool, string) {
	for _, in := range between(a, b) {
		ci, ok := in.(*ssa.Call)
		if !ok {
			continue
		}
		if op, isOp := p.lockOpOf(ci.Common()); isOp {
			if !op.Acquire && (!op.Known || op.Field == field) {
				return false, "unlocked at " + p.IPos(in)
			}
			continue
		}
		if callee := staticCallee(ci.Common()); callee != nil && len(callee.Blocks) > 0 {
			if rs := p.lockReleases(callee); rs.all || rs.fields[field] {
				return false, "callee " + shortFuncID(callee) + " at " + p.IPos(in) + " may unlock"
			}
		}
	}
	return true, ""
}

// ---------------------------------------------------------------------------------------------
// Accesses of a guarded struct field

// FieldAccess is one read or write of a guarded field or of the map/slice it holds.
type FieldAccess struct {
	Fn      *ssa.Function
	Instr   ssa.Instruction
	Kind    string // load | store | lookup | mapupdate | delete | range | next | len | index | elem-store | append | slice | compare | escape | copy
	Write   bool
	Base    ssa.Value // struct pointer the field was reached through (nil when unknown)
	Derived bool      // access of a container stored *inside* the guarded map (e.g. the per-kind owner set)
}

// fieldAccesses enumerates, over the whole workspace, every access of field `field` of the named
// struct type `typ` ("<pkgpath>.<Type>"). Accesses through a struct that was allocated in the same
// function (constructor initialisation before publication) are skipped.
func (p *Program) fieldAccesses(typ, field string) []FieldAccess {
	var out []FieldAccess
	for _, fn := range p.Funcs {
		for _, b := range fn.Blocks {
			for _, in := range b.Instrs {
				switch x := in.(type) {
				case *ssa.FieldAddr:
					if namedTypeString(x.X.Type()) != typ || fieldName(x.X.Type(), x.Field) != field {
						continue
					}
					if _, fresh := x.X.(*ssa.Alloc); fresh {
						continue
					}
					out = append(out, p.fieldAddrAccesses(fn, x)...)
				case *ssa.Field:
					if namedTypeString(x.X.Type()) != typ || fieldName(x.X.Type(), x.Field) != field {
						continue
					}
					out = append(out, FieldAccess{Fn: fn, Instr: x, Kind: "copy"})
				}
			}
		}
	}
	return out
}

func (p *Program) fieldAddrAccesses(fn *ssa.Function, fa *ssa.FieldAddr) []FieldAccess {
	var out []FieldAccess
	for _, r := range referrersOf(fa) {
		switch y := r.(type) {
		case *ssa.DebugRef:
		case *ssa.Store:
			if y.Addr == ssa.Value(fa) {
				out = append(out, FieldAccess{Fn: fn, Instr: y, Kind: "store", Write: true, Base: fa.X})
			} else {
				out = append(out, FieldAccess{Fn: fn, Instr: y, Kind: "escape", Base: fa.X})
			}
		case *ssa.UnOp:
			if y.Op != token.MUL {
				continue
			}
			out = append(out, FieldAccess{Fn: fn, Instr: y, Kind: "load", Base: fa.X})
			if isRefContainer(y.Type()) {
				out = append(out, p.containerUses(fn, y, fa.X, false, 0, map[ssa.Value]bool{})...)
			}
		default:
			out = append(out, FieldAccess{Fn: fn, Instr: r, Kind: "escape", Base: fa.X})
		}
	}
	return out
}

func isRefContainer(t types.Type) bool {
	switch t.Underlying().(type) {
	case *types.Map, *types.Slice:
		return true
	}
	return false
}

// containerUses lists the uses of a map/slice value that read or write shared state.
func (p *Program) containerUses(fn *ssa.Function, v ssa.Value, base ssa.Value, derived bool, depth int, seen map[ssa.Value]bool) []FieldAccess {
	if seen[v] || depth > 3 {
		return nil
	}
	seen[v] = true
	var out []FieldAccess
	add := func(in ssa.Instruction, kind string, write bool) {
		out = append(out, FieldAccess{Fn: fn, Instr: in, Kind: kind, Write: write, Base: base, Derived: derived})
	}
	for _, r := range referrersOf(v) {
		switch y := r.(type) {
		case *ssa.DebugRef:
		case *ssa.Lookup:
			if y.X != v {
				continue // used as a key
			}
			add(y, "lookup", false)
			var res ssa.Value = y
			if y.CommaOk {
				res = nil
				for _, rr := range referrersOf(y) {
					if e, ok := rr.(*ssa.Extract); ok && e.Index == 0 {
						res = e
					}
				}
			}
			if res != nil && isRefContainer(res.Type()) {
				out = append(out, p.containerUses(fn, res, base, true, depth+1, seen)...)
			}
		case *ssa.MapUpdate:
			if y.Map == v {
				add(y, "mapupdate", true)
			} else if y.Value == v {
				add(y, "escape", false)
			}
		case *ssa.Range:
			add(y, "range", false)
			for _, rr := range referrersOf(y) {
				nx, ok := rr.(*ssa.Next)
				if !ok {
					continue
				}
				add(nx, "next", false)
				for _, e := range referrersOf(nx) {
					if ex, ok := e.(*ssa.Extract); ok && ex.Index == 2 && isRefContainer(ex.Type()) {
						out = append(out, p.containerUses(fn, ex, base, true, depth+1, seen)...)
					}
				}
			}
		case *ssa.IndexAddr:
			if y.X != v {
				continue
			}
			wrote := false
			for _, rr := range referrersOf(y) {
				if st, ok := rr.(*ssa.Store); ok && st.Addr == ssa.Value(y) {
					add(st, "elem-store", true)
					wrote = true
				}
			}
			if !wrote {
				add(y, "index", false)
			}
		case *ssa.Index:
			add(y, "index", false)
		case *ssa.Slice:
			add(y, "slice", false)
		case *ssa.BinOp:
			add(y, "compare", false)
		case *ssa.Phi:
			out = append(out, p.containerUses(fn, y, base, derived, depth+1, seen)...)
		case *ssa.Store:
			if y.Val == v {
				if fa, ok := y.Addr.(*ssa.FieldAddr); ok && base != nil && p.sameValue(fa.X, base) {
					continue // written back into the same guarded struct (counted as a store of that field)
				}
				add(y, "escape", false)
			}
		case ssa.CallInstruction:
			cc := y.Common()
			if bi, ok := cc.Value.(*ssa.Builtin); ok {
				switch bi.Name() {
				case "len", "cap":
					add(y, "len", false)
				case "delete":
					if len(cc.Args) > 0 && cc.Args[0] == v {
						add(y, "delete", true)
					}
				case "append":
					add(y, "append", false)
				case "copy":
					add(y, "copy", len(cc.Args) > 0 && cc.Args[0] == v)
				case "clear":
					add(y, "clear", true)
				default:
					add(y, "escape", false)
				}
				continue
			}
			// standard-library container helpers: what a hand-written loop over the container did
			// before it was replaced by a slices/maps call
			id := calleeID(cc)
			call, plain := y.(*ssa.Call)
			elemIsContainer := false
			switch t := v.Type().Underlying().(type) {
			case *types.Map:
				elemIsContainer = isRefContainer(t.Elem())
			case *types.Slice:
				elemIsContainer = isRefContainer(t.Elem())
			}
			switch {
			case plain && stdContainerReaders[id]:
				// reads the container during the call and keeps nothing of it
				add(y, "read-call", false)
			case plain && stdContainerIterators[id] && len(cc.Args) == 1 && (id == "maps.Keys" || !elemIsContainer):
				// a lazy iterator over the container: the container is read where the iterator is
				// consumed; an iterator that is kept or handed on is an alias
				out = append(out, seqUses(fn, call, base, derived)...)
			case plain && p.containerPassedToHelper(y, v, base) != nil:
				// handed to an unexported, only statically called helper together with the guarded
				// struct (an extracted block): the helper's accesses through the parameter are accesses
				// of the container, judged where they happen (the lock is inherited from the callers)
				hp := p.containerPassedToHelper(y, v, base)
				out = append(out, p.containerUses(hp.fn, hp.container, hp.base, derived, depth+1, seen)...)
			default:
				add(y, "escape", false)
			}
		default:
			add(r, "escape", false)
		}
	}
	return out
}

type helperContainerParam struct {
	fn              *ssa.Function
	container, base ssa.Value
}

// containerPassedToHelper: call passes the guarded container v exactly once, and the struct that
// guards it (base), as arguments to an inlinable helper; returns the helper's parameters for both.
func (p *Program) containerPassedToHelper(call ssa.CallInstruction, v, base ssa.Value) *helperContainerParam {
	cc := call.Common()
	h := staticCallee(cc)
	if h == nil || base == nil || cc.IsInvoke() || !p.inlinable(h) || h == call.Parent() {
		return nil
	}
	ci, bi := -1, -1
	for i, a := range cc.Args {
		if i >= len(h.Params) {
			return nil
		}
		if a == v {
			if ci >= 0 {
				return nil
			}
			ci = i
		} else if bi < 0 && p.sameValue(a, base) {
			bi = i
		}
	}
	if ci < 0 || bi < 0 {
		return nil
	}
	return &helperContainerParam{fn: h, container: h.Params[ci], base: h.Params[bi]}
}

// stdContainerReaders: generic standard-library functions that only read their container arguments
// while they run and return nothing that aliases them.
var stdContainerReaders = map[string]bool{
	"maps.Equal": true, "maps.EqualFunc": true,
	"slices.Contains": true, "slices.ContainsFunc": true, "slices.Index": true, "slices.IndexFunc": true,
	"slices.Equal": true, "slices.EqualFunc": true, "slices.Compare": true, "slices.CompareFunc": true,
	"slices.Max": true, "slices.Min": true, "slices.IsSorted": true, "slices.BinarySearch": true,
}

// stdContainerIterators: functions returning an iter.Seq/Seq2 that reads the container lazily.
var stdContainerIterators = map[string]bool{
	"maps.Keys": true, "maps.Values": true, "maps.All": true,
	"slices.All": true, "slices.Values": true, "slices.Backward": true,
}

// stdSeqConsumers: functions that run an iterator to its end before they return.
var stdSeqConsumers = map[string]bool{
	"slices.Collect": true, "slices.AppendSeq": true, "slices.Sorted": true, "slices.SortedFunc": true,
	"slices.SortedStableFunc": true, "maps.Collect": true, "maps.Insert": true,
}

// seqUses: the accesses made through a lazy iterator over a guarded container. Each consumption — the
// iterator called directly (range-over-func) or passed to a function that drains it — reads the
// container at that instruction; every other use lets the iterator outlive the critical section.
func seqUses(fn *ssa.Function, seq *ssa.Call, base ssa.Value, derived bool) []FieldAccess {
	var out []FieldAccess
	for _, r := range referrersOf(seq) {
		if _, isDbg := r.(*ssa.DebugRef); isDbg {
			continue
		}
		kind := "escape"
		if c, ok := r.(*ssa.Call); ok {
			cc := c.Common()
			switch {
			case !cc.IsInvoke() && cc.Value == ssa.Value(seq):
				kind = "iterate"
			case stdSeqConsumers[calleeID(cc)]:
				kind = "iterate"
			}
		}
		out = append(out, FieldAccess{Fn: fn, Instr: r, Kind: kind, Base: base, Derived: derived})
	}
	if len(out) == 0 {
		// an iterator nobody consumes reads nothing
		return nil
	}
	return out
}

// GuardedField: field `Field` of struct `Type` is protected by mutex field `Mutex` of the same struct.
type GuardedField struct {
	Type  string // "<pkgpath>.<Type>"
	Field string
	Mutex string
}

func (g GuardedField) lockField() string { return g.Type + "." + g.Mutex }

// checkLockDiscipline creates one obligation per access of the guarded field: the protecting mutex
// of the same instance is held (write mode for writes).
func checkLockDiscipline(c *Ctx, g GuardedField) int {
	p := c.P
	tshort := g.Type[strings.LastIndex(g.Type, ".")+1:]
	n := 0
	for _, a := range p.fieldAccesses(g.Type, g.Field) {
		n++
		kind := a.Kind
		if a.Derived {
			kind = "elem-" + kind
		}
		o := c.Ob(a.Fn, tshort+"."+g.Field+":"+kind, a.Instr,
			"every access of "+tshort+"."+g.Field+" happens with "+tshort+"."+g.Mutex+" of the same instance held (write-locked for writes)")
		mode := "read or write lock"
		if a.Write {
			mode = "write lock"
		}
		o.Require(mode + " on " + tshort + "." + g.Mutex)
		switch a.Kind {
		case "escape":
			o.Unknown("the guarded %s (or its address) is stored, returned or passed to a call here; accesses through the alias cannot be tracked", g.Field)
			continue
		case "copy":
			o.Unknown("the struct holding the guarded field is used by value")
			continue
		}
		ok, why := p.LockHeld(a.Instr, LockReq{Field: g.lockField(), Write: a.Write, Base: a.Base}, 4)
		if ok {
			o.OK(why)
		} else {
			if a.Write {
				// tell apart "not locked at all" from "only read-locked"
				if rok, _ := p.LockHeld(a.Instr, LockReq{Field: g.lockField(), Base: a.Base}, 4); rok {
					why = "only the read lock is held for a write; " + why
				}
			}
			o.Fail("%s of %s.%s without the lock: %s", a.Kind, tshort, g.Field, why)
		}
	}
	return n
}

// ---------------------------------------------------------------------------------------------
// A8 — typestate pairing on paths

// afterEventEveryReturnPasses: starting immediately after `start`, on every path to a Return for
// which needs(ret) is true, all `events` have been executed (forward must-dataflow, intersection at
// joins; re-executing `start` resets the state). Returns the offending returns with the indices of
// the missing events.
func afterEventEveryReturnPasses(start ssa.Instruction, events []func(ssa.Instruction) bool, needs func(*ssa.Return) bool) map[*ssa.Return][]int {
	fn := start.Parent()
	type set = uint64
	full := set(1)<<uint(len(events)) - 1
	out := map[*ssa.BasicBlock]set{}
	reached := map[*ssa.BasicBlock]bool{}
	bad := map[*ssa.Return][]int{}
	transfer := func(b *ssa.BasicBlock, in set, live bool) (set, bool) {
		st := in
		for _, ins := range b.Instrs {
			if ins == start {
				st = 0
				live = true
				continue
			}
			if !live {
				continue
			}
			for i, ev := range events {
				if ev(ins) {
					st |= 1 << uint(i)
				}
			}
		}
		return st, live
	}
	changed := true
	for iter := 0; changed && iter < 1000; iter++ {
		changed = false
		for _, b := range fn.Blocks {
			in := full
			live := false
			for _, pr := range b.Preds {
				if reached[pr] {
					in &= out[pr]
					live = true
				}
			}
			if !live {
				in = 0
			}
			st, lv := transfer(b, in, live)
			if !lv {
				continue
			}
			if !reached[b] || out[b] != st {
				reached[b] = true
				out[b] = st
				changed = true
			}
		}
	}
	for _, b := range fn.Blocks {
		if !reached[b] || len(b.Instrs) == 0 {
			continue
		}
		ret, ok := b.Instrs[len(b.Instrs)-1].(*ssa.Return)
		if !ok || !needs(ret) {
			continue
		}
		var missing []int
		for i := range events {
			if out[b]&(1<<uint(i)) == 0 {
				missing = append(missing, i)
			}
		}
		if len(missing) > 0 {
			bad[ret] = missing
		}
	}
	return bad
}

// errResultIndex returns the index of the (last) result of type error, -1 if none.
func errResultIndex(fn *ssa.Function) int {
	res := fn.Signature.Results()
	for i := res.Len() - 1; i >= 0; i-- {
		if res.At(i).Type().String() == "error" {
			return i
		}
	}
	return -1
}

// errorValueNilness classifies an error value: yesTri = certainly nil, noTri = certainly non-nil.
func (p *Program) errorValueNilness(v ssa.Value, fs []Fact) tri {
	if v == nil {
		return unknownTri
	}
	if isNilConst(v) {
		return yesTri
	}
	if mi, ok := v.(*ssa.MakeInterface); ok {
		if _, isAlloc := mi.X.(*ssa.Alloc); isAlloc {
			return noTri
		}
		if _, isPtr := mi.X.Type().Underlying().(*types.Pointer); !isPtr {
			return noTri // a non-pointer concrete value boxed into error is never a nil interface
		}
	}
	if call, _ := asCall(v); call != nil {
		switch calleeID(call.Common()) {
		case "fmt.Errorf", "errors.New":
			return noTri
		}
	}
	switch p.nilnessFromFacts(fs, v) {
	case yesTri:
		return yesTri
	case noTri:
		return noTri
	}
	return unknownTri
}

// returnErrNilness: over all cases of ret, is the error result certainly nil / certainly non-nil?
func (p *Program) returnErrNilness(ret *ssa.Return) tri {
	fn := ret.Parent()
	idx := errResultIndex(fn)
	if idx < 0 {
		return yesTri
	}
	res := unknownTri
	first := true
	for _, rc := range p.returnCases(fn) {
		if rc.Ret != ret {
			continue
		}
		t := p.errorValueNilness(rc.Results[idx], rc.Facts)
		if first {
			res = t
			first = false
		} else if res != t {
			res = unknownTri
		}
	}
	return res
}

// everyReturnPreceded: every normal return of fn is preceded by an instruction satisfying match.
func (p *Program) everyReturnPreceded(fn *ssa.Function, match func(ssa.Instruction) bool) bool {
	n := 0
	for _, b := range fn.Blocks {
		if len(b.Instrs) == 0 {
			continue
		}
		ret, ok := b.Instrs[len(b.Instrs)-1].(*ssa.Return)
		if !ok {
			continue
		}
		if fn.Recover == b {
			continue
		}
		n++
		if !p.mustPrecede(ret, match) {
			return false
		}
	}
	return n > 0
}

// ---------------------------------------------------------------------------------------------
// Small shared matchers

// guardedFieldLoad: v is a load of field `field` of struct type `typ`; returns the struct pointer.
func guardedFieldLoad(v ssa.Value, typ, field string) (base ssa.Value, ok bool) {
	u, isU := stripConv(v).(*ssa.UnOp)
	if !isU || u.Op != token.MUL {
		return nil, false
	}
	fa, isFA := u.X.(*ssa.FieldAddr)
	if !isFA || namedTypeString(fa.X.Type()) != typ || fieldName(fa.X.Type(), fa.Field) != field {
		return nil, false
	}
	return fa.X, true
}

// commaOkLookup: cond is the ok result of `m[k]` (comma-ok form); returns the lookup.
func commaOkLookup(cond ssa.Value) *ssa.Lookup {
	e, ok := cond.(*ssa.Extract)
	if !ok || e.Index != 1 {
		return nil
	}
	lk, ok := e.Tuple.(*ssa.Lookup)
	if !ok || !lk.CommaOk {
		return nil
	}
	return lk
}

// lookupFact finds, among facts, the comma-ok result (with polarity pol) of a lookup satisfying m.
func lookupFact(fs []Fact, pol bool, m func(lk *ssa.Lookup) bool) *ssa.Lookup {
	for _, f := range fs {
		cond, fpol := normBoolCond(f.Cond, f.Pol)
		if fpol != pol {
			continue
		}
		if lk := commaOkLookup(cond); lk != nil && m(lk) {
			return lk
		}
	}
	return nil
}

// normBoolCond folds `x == true/false`, `x != true/false` into (x, polarity).
func normBoolCond(cond ssa.Value, pol bool) (ssa.Value, bool) {
	for i := 0; i < 4; i++ {
		b, ok := cond.(*ssa.BinOp)
		if !ok || (b.Op != token.EQL && b.Op != token.NEQ) {
			break
		}
		x, k := b.X, b.Y
		if _, isC := constBool(x); isC {
			x, k = k, x
		}
		kv, isC := constBool(k)
		if !isC {
			break
		}
		// cond is (x == kv) or (x != kv)
		same := (b.Op == token.EQL) == kv // true when cond ⇔ x
		if !same {
			pol = !pol
		}
		cond = x
	}
	return cond, pol
}

// builtinCall: in is a call (not go/defer) of the named builtin; returns its arguments.
func builtinCall(in ssa.Instruction, name string) ([]ssa.Value, bool) {
	c, ok := in.(*ssa.Call)
	if !ok {
		return nil, false
	}
	b, ok := c.Call.Value.(*ssa.Builtin)
	if !ok || b.Name() != name {
		return nil, false
	}
	return c.Call.Args, true
}

// isBlockInLoopExitOnlyVia: every edge leaving loop l other than from its head leads only to returns
// for which okExit(ret) holds. Returns the offending return position otherwise.
func (p *Program) loopEarlyExitsOnly(l *Loop, okExit func(*ssa.Return) bool) (bool, string) {
	for b := range l.Body {
		if b == l.Head {
			continue
		}
		for _, s := range b.Succs {
			if l.Body[s] {
				continue
			}
			for _, in := range reachableFromEdge(s, nil) {
				if ret, ok := in.(*ssa.Return); ok && !okExit(ret) {
					return false, p.IPos(ret)
				}
			}
		}
	}
	return true, ""
}

// loopEarlyExitsFail: every way of leaving loop l other than through its head ends in a return whose
// error result is certainly non-nil (or in a panic). Unlike loopEarlyExitsOnly this is decided per
// path: `break` + `return result` is the same as `return err` inside the loop, although the
// return instruction is then shared with the regular end of the loop. Each early-exit edge is followed
// along simple paths; Phis of blocks on the path take the value of the edge the path came in through,
// branches whose condition is decided by those values or by the facts collected on the path are not
// followed (`if result != nil { return result }` after the loop), and the returned error is judged
// with the facts of the path. A path that revisits a block (another loop after the exit) or reaches a
// block from which l can be entered again (l is nested in another loop: values the facts and Phis
// speak about could be re-evaluated there) is judged the coarse way from that point on: all returns
// reachable from there must fail unconditionally.
func (p *Program) loopEarlyExitsFail(l *Loop) (bool, string) {
	type pedge struct{ from, to *ssa.BasicBlock }
	budget := 4000
	bad := ""
	reachesHead := map[*ssa.BasicBlock]bool{}
	for work := []*ssa.BasicBlock{l.Head}; len(work) > 0; {
		b := work[len(work)-1]
		work = work[:len(work)-1]
		if reachesHead[b] {
			continue
		}
		reachesHead[b] = true
		work = append(work, b.Preds...)
	}
	coarse := func(b *ssa.BasicBlock) bool {
		for _, in := range reachableFromEdge(b, nil) {
			if ret, ok := in.(*ssa.Return); ok && p.mayReturnNilErr(ret) {
				bad = p.IPos(ret)
				return false
			}
		}
		return true
	}
	// value of v for an execution that followed path (most recent edge last)
	var resolve func(v ssa.Value, at ssa.Instruction, path []pedge, exact bool, depth int) (vals []ssa.Value, exacts []bool)
	resolve = func(v ssa.Value, at ssa.Instruction, path []pedge, exact bool, depth int) ([]ssa.Value, []bool) {
		if depth > 8 {
			return []ssa.Value{v}, []bool{false}
		}
		switch x := v.(type) {
		case *ssa.Phi:
			for i := len(path) - 1; i >= 0; i-- {
				if path[i].to != x.Block() {
					continue
				}
				idx := -1
				for j, pr := range x.Block().Preds {
					if pr == path[i].from {
						if idx >= 0 {
							idx = -2
							break
						}
						idx = j
					}
				}
				if idx >= 0 && idx < len(x.Edges) {
					return resolve(x.Edges[idx], at, path[:i], exact, depth+1)
				}
				break
			}
			// merge that the path does not decide: the facts of the path may speak about the merge
			// itself (`if err != nil { return err }` after a merged helper body), but not about its
			// operands — those may stem from earlier iterations, while facts describe the latest
			// evaluation
			if exact {
				return []ssa.Value{x}, []bool{true}
			}
			var vals []ssa.Value
			var exs []bool
			for _, e := range x.Edges {
				vs, es := resolve(e, at, nil, false, depth+1)
				vals = append(vals, vs...)
				for range es {
					exs = append(exs, false)
				}
			}
			return vals, exs
		case *ssa.UnOp:
			if x.Op != token.MUL {
				break
			}
			a, ok := x.X.(*ssa.Alloc)
			if !ok {
				break
			}
			sts, known := p.storesReaching(a, x)
			zero := p.mayHoldZero(a, x)
			if ai := p.allocInfo(a); ai.unknown || len(ai.stores) == 0 || !(known || zero) {
				break
			}
			var vals []ssa.Value
			var exs []bool
			for _, st := range sts {
				// a store made on the path itself stores the value as the path sees it
				onPath := -1
				for i := len(path) - 1; i >= 0; i-- {
					if path[i].to == st.Block() {
						onPath = i
						break
					}
				}
				if onPath >= 0 {
					vs, es := resolve(st.Val, st, path[:onPath+1], exact, depth+1)
					vals, exs = append(vals, vs...), append(exs, es...)
				} else {
					vs, es := resolve(st.Val, st, nil, false, depth+1)
					vals = append(vals, vs...)
					for range es {
						exs = append(exs, false)
					}
				}
			}
			if zero {
				vals, exs = append(vals, zeroConst(x.Type())), append(exs, true)
			}
			return vals, exs
		}
		return []ssa.Value{v}, []bool{exact}
	}
	nilness := func(v ssa.Value, at ssa.Instruction, path []pedge, facts []Fact) tri {
		vals, exs := resolve(v, at, path, true, 0)
		res := unknownTri
		n := 0
		var classify func(x ssa.Value, exact bool, depth int) bool
		classify = func(x ssa.Value, exact bool, depth int) bool {
			var fs []Fact
			if exact {
				fs = facts
			}
			t := p.errorValueNilness(x, fs)
			if t == unknownTri && definitelyNonNil(x) {
				t = noTri
			}
			if t == unknownTri && depth < 4 {
				if ph, isPhi := x.(*ssa.Phi); isPhi && len(ph.Edges) > 0 {
					for _, e := range ph.Edges {
						vs, _ := resolve(e, at, nil, false, 0)
						for _, y := range vs {
							if !classify(y, false, depth+1) {
								return false
							}
						}
					}
					return true
				}
			}
			if t == unknownTri || (n > 0 && t != res) {
				return false
			}
			res = t
			n++
			return true
		}
		for i, x := range vals {
			if !classify(x, exs[i], 0) {
				return unknownTri
			}
		}
		return res
	}
	var walk func(path []pedge, facts []Fact) bool
	walk = func(path []pedge, facts []Fact) bool {
		b := path[len(path)-1].to
		budget--
		if budget < 0 || l.Body[b] || reachesHead[b] {
			return coarse(b)
		}
		for _, e := range path[:len(path)-1] {
			if e.to == b {
				return coarse(b)
			}
		}
		if isPanicBlock(b) || len(b.Instrs) == 0 {
			return true
		}
		switch last := b.Instrs[len(b.Instrs)-1].(type) {
		case *ssa.Return:
			idx := errResultIndex(b.Parent())
			if idx < 0 || idx >= len(last.Results) {
				bad = p.IPos(last)
				return false
			}
			if nilness(last.Results[idx], last, path, facts) != noTri {
				bad = p.IPos(last)
				return false
			}
			return true
		case *ssa.If:
			f := p.mkFact(last.Cond, true)
			val := unknownTri // value of f.Cond on this path
			if x, trueMeansNonNil, isNilTest := errNilTest(f.Cond); isNilTest {
				switch nilness(x, last, path, facts) {
				case yesTri:
					val = noTri
					if !trueMeansNonNil {
						val = yesTri
					}
				case noTri:
					val = yesTri
					if !trueMeansNonNil {
						val = noTri
					}
				}
			} else {
				vals, exs := resolve(f.Cond, last, path, true, 0)
				if len(vals) == 1 {
					if bv, isConst := constBool(vals[0]); isConst {
						val = noTri
						if bv {
							val = yesTri
						}
					} else if exs[0] {
						val = p.boolFromFacts(facts, vals[0])
					}
				}
			}
			for i, s := range b.Succs {
				if val != unknownTri && b.Succs[0] != b.Succs[1] {
					if taken := (val == yesTri) == f.Pol; taken != (i == 0) {
						continue
					}
				}
				if p.edgeContradicts(b, s, facts) {
					continue
				}
				nf := append(append([]Fact{}, facts...), p.FactsOnEdge(b, s)...)
				if !walk(append(append([]pedge{}, path...), pedge{b, s}), nf) {
					return false
				}
			}
			return true
		}
		for _, s := range b.Succs {
			nf := append(append([]Fact{}, facts...), p.FactsOnEdge(b, s)...)
			if !walk(append(append([]pedge{}, path...), pedge{b, s}), nf) {
				return false
			}
		}
		return true
	}
	for _, b := range l.Head.Parent().Blocks {
		if !l.Body[b] || b == l.Head {
			continue
		}
		for _, s := range b.Succs {
			if l.Body[s] {
				continue
			}
			if !walk([]pedge{{b, s}}, p.FactsOnEdge(b, s)) {
				return false, bad
			}
		}
	}
	return true, ""
}

// dominatesAllTails: block b is executed on every iteration of loop l.
func dominatesAllTails(b *ssa.BasicBlock, l *Loop) bool {
	if !l.Body[b] {
		return false
	}
	for _, t := range l.Tails {
		if !b.Dominates(t) {
			return false
		}
	}
	return true
}

// strictSame: sameValue, but robust against the engine's deliberate blindness for partial stores
// into local struct variables (`gvk.Kind = …`): if either value is a load of a local that is
// partially written somewhere, both must be loads of that same local with no partial store between.
func (p *Program) strictSame(a, b ssa.Value) bool {
	if !p.sameValue(a, b) {
		return false
	}
	la, aa := partiallyWrittenLocalLoad(a)
	lb, ab := partiallyWrittenLocalLoad(b)
	if aa == nil && ab == nil {
		return true
	}
	if la == nil || lb == nil {
		// one side is a partially written local, the other is not a load at all
		return false
	}
	xa, _ := la.X.(*ssa.Alloc)
	xb, _ := lb.X.(*ssa.Alloc)
	if xa == nil || xa != xb {
		return false
	}
	if la == lb {
		return true
	}
	for _, pair := range [][2]ssa.Instruction{{la, lb}, {lb, la}} {
		for _, in := range between(pair[0], pair[1]) {
			if st, ok := in.(*ssa.Store); ok {
				if allocOf(st.Addr) == xa {
					return false
				}
			}
		}
	}
	return true
}

// partiallyWrittenLocalLoad: v is `*local`; second result is the alloc when some field/element of
// it is stored to separately.
func partiallyWrittenLocalLoad(v ssa.Value) (*ssa.UnOp, *ssa.Alloc) {
	u, ok := stripConv(v).(*ssa.UnOp)
	if !ok || u.Op != token.MUL {
		return nil, nil
	}
	a, ok := u.X.(*ssa.Alloc)
	if !ok {
		return nil, nil
	}
	for _, r := range referrersOf(a) {
		switch x := r.(type) {
		case *ssa.FieldAddr:
			if derivedAddrWritten(x) {
				return u, a
			}
		case *ssa.IndexAddr:
			if derivedAddrWritten(x) {
				return u, a
			}
		}
	}
	return u, nil
}

// ---------------------------------------------------------------------------------------------
// Edge-sensitive successor pruning (for results of merged helper bodies)

// feasibleSuccs: the successors of b that control can take when b was entered from `from`. When b
// ends in an `If` whose condition is decided by the value a Phi of b receives over that edge — a nil
// test of an error Phi whose incoming value is a freshly built error or the nil constant, or a boolean
// Phi whose incoming value is a constant or is known from the facts of the edge — only the matching
// successor is returned. This is the shape `if err := helper(); err != nil {…}` takes once the
// helper's body has been merged into its caller (phi(Errorf(..), nil) tested right after the merge):
// the error edge never continues on the success branch. Everything else keeps both successors.
func (p *Program) feasibleSuccs(from, b *ssa.BasicBlock) []*ssa.BasicBlock {
	if from == nil || len(b.Instrs) == 0 || len(b.Succs) != 2 || b.Succs[0] == b.Succs[1] {
		return b.Succs
	}
	iff, ok := b.Instrs[len(b.Instrs)-1].(*ssa.If)
	if !ok {
		return b.Succs
	}
	idx := -1
	for i, pr := range b.Preds {
		if pr == from {
			if idx >= 0 {
				return b.Succs // two edges from the same block: cannot tell them apart
			}
			idx = i
		}
	}
	if idx < 0 {
		return b.Succs
	}
	edgeVal := func(v ssa.Value) (ssa.Value, bool) {
		ph, isPhi := stripConv(v).(*ssa.Phi)
		if !isPhi || ph.Block() != b || idx >= len(ph.Edges) {
			return nil, false
		}
		return ph.Edges[idx], true
	}
	f := p.mkFact(iff.Cond, true) // folds `!`, `== true` … into the polarity
	res := unknownTri             // value of f.Cond
	if x, trueMeansNonNil, isNilTest := errNilTest(f.Cond); isNilTest {
		if e, isPhi := edgeVal(x); isPhi {
			n := unknownTri // yes = nil
			switch {
			case isNilConst(stripConv(e)):
				n = yesTri
			case definitelyNonNil(e):
				n = noTri
			default:
				n = p.nilnessFromFacts(p.FactsOnEdge(from, b), e)
			}
			switch n {
			case yesTri:
				res = noTri
				if !trueMeansNonNil {
					res = yesTri
				}
			case noTri:
				res = yesTri
				if !trueMeansNonNil {
					res = noTri
				}
			}
		}
	} else if e, isPhi := edgeVal(f.Cond); isPhi {
		if bv, isConst := constBool(e); isConst {
			res = noTri
			if bv {
				res = yesTri
			}
		} else {
			res = p.boolFromFacts(p.FactsOnEdge(from, b), e)
		}
	}
	if res == unknownTri {
		return b.Succs
	}
	taken := (res == yesTri) == f.Pol // does iff.Cond evaluate to true?
	if taken {
		return b.Succs[:1]
	}
	return b.Succs[1:2]
}

// mustFollowF: mustFollow that does not walk infeasible branch combinations (see feasibleSuccs): on
// every feasible path from `site` to a normal return, an instruction satisfying match (or stop) is
// executed after site. The analysis runs over CFG edges instead of blocks, so that a block entered
// from different predecessors is judged per incoming edge.
func (p *Program) mustFollowF(site ssa.Instruction, match func(ssa.Instruction) bool, stop func(ssa.Instruction) bool) bool {
	fn := site.Parent()
	sb := site.Block()
	after := false
	for _, in := range sb.Instrs {
		if in == site {
			after = true
			continue
		}
		if !after {
			continue
		}
		if match(in) || (stop != nil && stop(in)) {
			return true
		}
		if _, ok := in.(*ssa.Return); ok {
			return false
		}
	}
	kind := map[*ssa.BasicBlock]int{} // 1 = match/stop/panic first, 2 = returns without match, 0 = passes through
	for _, b := range fn.Blocks {
		for _, in := range b.Instrs {
			if match(in) || (stop != nil && stop(in)) {
				kind[b] = 1
				break
			}
			if _, ok := in.(*ssa.Return); ok {
				kind[b] = 2
				break
			}
		}
		if kind[b] == 0 && isPanicBlock(b) {
			kind[b] = 1
		}
	}
	type edge struct{ from, to *ssa.BasicBlock }
	holds := map[edge]bool{} // greatest fixpoint; absent = true
	get := func(e edge) bool {
		v, ok := holds[e]
		return !ok || v
	}
	eval := func(e edge) bool {
		switch kind[e.to] {
		case 1:
			return true
		case 2:
			return false
		}
		succs := p.feasibleSuccs(e.from, e.to)
		if len(succs) == 0 {
			return false
		}
		for _, s := range succs {
			if !get(edge{e.to, s}) {
				return false
			}
		}
		return true
	}
	changed := true
	for iter := 0; changed && iter < 1000; iter++ {
		changed = false
		for i := len(fn.Blocks) - 1; i >= 0; i-- {
			b := fn.Blocks[i]
			for _, pr := range b.Preds {
				e := edge{pr, b}
				if v := eval(e); v != get(e) {
					holds[e] = v
					changed = true
				}
			}
		}
	}
	if len(sb.Succs) == 0 {
		return isPanicBlock(sb)
	}
	for _, s := range sb.Succs {
		if !get(edge{sb, s}) {
			return false
		}
	}
	return true
}
