package main

func init() {
	const (
		objects  = "internal/packages/internal/packagerender/objects.go"
		ostmpl   = "internal/packages/internal/packagerender/objectsettemplate.go"
		sprigf   = "internal/transform/transformfiles_funcs.go"
		filef    = "internal/transform/file_funcs.go"
		hashf    = "internal/utils/hash.go"
		objvalid = "internal/packages/internal/packagevalidation/objectvalidation.go"
		tmplf    = "internal/packages/internal/packagerender/template.go"
	)
	addMutants(
		// ---- R1 map-order lint
		Mutant{Prop: "C13", Name: "paths-not-sorted", File: objects,
			Why:    "sorting an empty prefix = no sort: objects are concatenated in map iteration order",
			Old:    "sort.Slice(paths, func(i, j int) bool {",
			New:    "sort.Slice(paths[:0], func(i, j int) bool {",
			Expect: []string{"C13.R1@internal/packages/internal/packagerender.RenderObjectsWithFilter#unsorted-collect", "C13.R5@"}},
		Mutant{Prop: "C13", Name: "collector-not-sorted", File: ostmpl,
			Why:    "phases leave the collector in map iteration order",
			Old:    "sort.Slice(entries, func(i, j int) bool {",
			New:    "sort.Slice(entries[:0], func(i, j int) bool {",
			Expect: []string{"C13.R1@(internal/packages/internal/packagerender.phaseCollector).Collect#unsorted-collect", "C13.R3@(internal/packages/internal/packagerender.phaseCollector).Collect#order-by-manifest-index"}},
		Mutant{Prop: "C13", Name: "glob-first-match-only", File: filef,
			Why:    "getFileGlob stops at the first match: which file is returned depends on map order",
			Old:    "\t\t\tif g.Match(path) {\n\t\t\t\tout[path] = string(content)\n\t\t\t}",
			New:    "\t\t\tif g.Match(path) {\n\t\t\t\tout[path] = string(content)\n\t\t\t\tbreak\n\t\t\t}",
			Expect: []string{"C13.R1@internal/transform.getFileGlob$1#early-exit"}},
		Mutant{Prop: "C13", Name: "glob-index-string-in-map-order", File: filef,
			Why:    "a string is concatenated in map iteration order and handed to templates",
			Old:    "\t\tout := map[string]string{}\n\t\tfor path, content := range files {\n\t\t\tif g.Match(path) {\n\t\t\t\tout[path] = string(content)\n\t\t\t}\n\t\t}",
			New:    "\t\tout := map[string]string{}\n\t\tall := \"\"\n\t\tfor path, content := range files {\n\t\t\tif g.Match(path) {\n\t\t\t\tout[path] = string(content)\n\t\t\t\tall += path + \"\\n\"\n\t\t\t}\n\t\t}\n\t\tout[\"index\"] = all",
			Expect: []string{"C13.R1@internal/transform.getFileGlob$1#loop-carried"}},
		Mutant{Prop: "C13", Name: "b64-map-last-writer-wins", File: sprigf,
			Why:    "keys are normalised before insertion: two source keys can collide and the survivor depends on map order",
			Old:    "\t\tdecodedData[k] = string(decodedV)",
			New:    "\t\tdecodedData[strings.ToLower(k)] = string(decodedV)",
			Expect: []string{"C13.R1@internal/transform.base64decodeMap#map-write-other-key"}},
		Mutant{Prop: "C13", Name: "filter-deletes-other-path", File: objects,
			Why:    "deleting a different key of the ranged map changes which entries are still visited",
			Old:    "\t\t\tdelete(pathObjectMap, path)\n\t\t\tpathFilteredIndex[path] = nil",
			New:    "\t\t\tdelete(pathObjectMap, filepath.Dir(path))\n\t\t\tpathFilteredIndex[path] = nil",
			Expect: []string{"C13.R1@internal/packages/internal/packagerender.filterWithCEL#range-delete-other"}},

		Mutant{Prop: "C13", Name: "glob-iterates-through-maps-keys", File: filef,
			Why:    "map iteration hidden behind maps.Keys (no ssa.Range): first match depends on map order; the lint must not silently accept the form",
			Old:    "import (\n\t\"errors\"\n\t\"text/template\"\n\n\t\"github.com/gobwas/glob\"\n)\n\nfunc FileFuncs(files map[string][]byte) template.FuncMap {\n\treturn template.FuncMap{\n\t\t\"getFile\":     getFile(files),\n\t\t\"getFileGlob\": getFileGlob(files),\n\t}\n}\n\nvar ErrFileNotFound = errors.New(\"file not found\")\n\nfunc getFile(files map[string][]byte) func(path string) (string, error) {\n\treturn func(path string) (string, error) {\n\t\tc, ok := files[path]\n\t\tif !ok {\n\t\t\treturn \"\", ErrFileNotFound\n\t\t}\n\t\treturn string(c), nil\n\t}\n}\n\nfunc getFileGlob(files map[string][]byte) func(pattern string) (\n\tmap[string]string, error,\n) {\n\treturn func(pattern string) (map[string]string, error) {\n\t\tg, err := glob.Compile(pattern, '/')\n\t\tif err != nil {\n\t\t\treturn nil, err\n\t\t}\n\n\t\tout := map[string]string{}\n\t\tfor path, content := range files {\n\t\t\tif g.Match(path) {\n\t\t\t\tout[path] = string(content)\n\t\t\t}\n\t\t}\n\t\treturn out, nil\n\t}\n}\n",
			New:    "import (\n\t\"errors\"\n\t\"maps\"\n\t\"slices\"\n\t\"text/template\"\n\n\t\"github.com/gobwas/glob\"\n)\n\nfunc FileFuncs(files map[string][]byte) template.FuncMap {\n\treturn template.FuncMap{\n\t\t\"getFile\":     getFile(files),\n\t\t\"getFileGlob\": getFileGlob(files),\n\t}\n}\n\nvar ErrFileNotFound = errors.New(\"file not found\")\n\nfunc getFile(files map[string][]byte) func(path string) (string, error) {\n\treturn func(path string) (string, error) {\n\t\tc, ok := files[path]\n\t\tif !ok {\n\t\t\treturn \"\", ErrFileNotFound\n\t\t}\n\t\treturn string(c), nil\n\t}\n}\n\nfunc getFileGlob(files map[string][]byte) func(pattern string) (\n\tmap[string]string, error,\n) {\n\treturn func(pattern string) (map[string]string, error) {\n\t\tg, err := glob.Compile(pattern, '/')\n\t\tif err != nil {\n\t\t\treturn nil, err\n\t\t}\n\n\t\tout := map[string]string{}\n\t\tvar first string\n\t\tfor _, path := range slices.Collect(maps.Keys(files)) {\n\t\t\tif g.Match(path) {\n\t\t\t\tout[path] = string(files[path])\n\t\t\t\tif first == \"\" {\n\t\t\t\t\tfirst = path\n\t\t\t\t}\n\t\t\t}\n\t\t}\n\t\tout[\"first\"] = first\n\t\treturn out, nil\n\t}\n}\n",
			Expect: []string{"C13.R1@internal/transform.getFileGlob$1#map-iteration-helper:Keys"}},

		// ---- R2 hermetic templates
		Mutant{Prop: "C13", Name: "allow-now", File: sprigf,
			Old:    "\t\"hello\": {},\n",
			New:    "\t\"hello\": {},\n\t\"now\":   {},\n",
			Expect: []string{"C13.R2@internal/transform.SprigFuncs#allowedFuncNames!now"}},
		Mutant{Prop: "C13", Name: "allow-randAlphaNum-and-env", File: sprigf,
			Old:    "\t\"urlJoin\":  {},\n",
			New:    "\t\"urlJoin\":  {},\n\t\"randAlphaNum\": {},\n\t\"env\": {},\n",
			Expect: []string{"C13.R2@internal/transform.SprigFuncs#allowedFuncNames!randAlphaNum", "C13.R2@internal/transform.SprigFuncs#allowedFuncNames!env"}},
		Mutant{Prop: "C13", Name: "allow-list-used-as-deny-list", File: sprigf,
			Old:    "\t\tif _, exists := allowedFuncNames[key]; exists {\n",
			New:    "\t\tif _, exists := allowedFuncNames[key]; !exists {\n",
			Expect: []string{"C13.R2@internal/transform.SprigFuncs#funcmap-constructor"}},
		Mutant{Prop: "C13", Name: "raw-sprig-table-handed-to-template", File: sprigf,
			Old:    "\treturn tmpl.Funcs(SprigFuncs(tmpl)).Parse(content)",
			New:    "\treturn tmpl.Funcs(SprigFuncs(tmpl)).Funcs(sprig.FuncMap()).Parse(content)",
			Expect: []string{"C13.R2@internal/transform.TemplateWithSprigFuncs#Template.Funcs"}},
		Mutant{Prop: "C13", Name: "explicit-sprig-addition", File: sprigf,
			Why:    "an external (sprig) function is added to the table next to the repository's own",
			Old:    "\tallowedFuncs[\"b64decMap\"] = base64decodeMap\n",
			New:    "\tallowedFuncs[\"b64decMap\"] = base64decodeMap\n\tallowedFuncs[\"uuid\"] = sprig.FuncMap()[\"uuidv4\"]\n",
			Expect: []string{"C13.R2@internal/transform.SprigFuncs#funcmap-constructor"}},
		Mutant{Prop: "C13", Name: "hash-salted-with-random", File: hashf,
			Old:    "\treturn rand.SafeEncodeString(strconv.FormatUint(uint64(hasher.Sum32()), 10))",
			New:    "\treturn rand.SafeEncodeString(strconv.FormatUint(uint64(hasher.Sum32()), 10)) + rand.String(0)",
			Expect: []string{"C13.R2@internal/utils.ComputeFNV32Hash#sink:"}},

		// ---- R3 conservation
		Mutant{Prop: "C13", Name: "skip-objects-without-condition-map", File: ostmpl,
			Old:    "\t\tc.addObjects(phaseAnnotation, objSetObj)\n",
			New:    "\t\tif len(conditionMapping) == 0 && len(collisionProtectionAnnotation) == 0 && i > 0 {\n\t\t\tcontinue\n\t\t}\n\t\tc.addObjects(phaseAnnotation, objSetObj)\n",
			Expect: []string{"C13.R3@(internal/packages/internal/packagerender.phaseCollector).AddObjects#addObjects-once-per-object"}},
		Mutant{Prop: "C13", Name: "phase-capped", File: ostmpl,
			Old:    "\tentry, ok := c[phaseName]\n\tif !ok {\n\t\treturn\n\t}",
			New:    "\tentry, ok := c[phaseName]\n\tif !ok || len(entry.Phase.Objects) > 1000 {\n\t\treturn\n\t}",
			Expect: []string{"C13.R3@(internal/packages/internal/packagerender.phaseCollector).addObjects#drop-only-unknown-phase"}},
		Mutant{Prop: "C13", Name: "collect-skips-single-object-phases", File: ostmpl,
			Old:    "\t\tif len(entry.Phase.Objects) == 0 {",
			New:    "\t\tif len(entry.Phase.Objects) <= 1 {",
			Expect: []string{"C13.R3@(internal/packages/internal/packagerender.phaseCollector).Collect#skip-only-empty"}},
		Mutant{Prop: "C13", Name: "phase-validator-not-wired", File: objvalid,
			Old:    "\t&ObjectLabelsValidator{}, &ObjectPhaseAnnotationValidator{},\n}",
			New:    "\t&ObjectLabelsValidator{},\n}",
			Expect: []string{"C13.R3@-#phase-validator-wired"}},
		Mutant{Prop: "C13", Name: "phase-validator-accepts-unknown-phase", File: objvalid,
			Old:    "\t\tif phase.Name == obj.GetAnnotations()[manifests.PackagePhaseAnnotation] {\n\t\t\treturn nil\n\t\t}",
			New:    "\t\tif phase.Name == obj.GetAnnotations()[manifests.PackagePhaseAnnotation] || len(phase.Class) > 0 {\n\t\t\treturn nil\n\t\t}",
			Expect: []string{"C13.R3@-#phase-validator-wired"}},
		Mutant{Prop: "C13", Name: "phases-ordered-by-name", File: ostmpl,
			Old:    "\t\treturn entries[i].Index < entries[j].Index",
			New:    "\t\treturn entries[i].Phase.Name < entries[j].Phase.Name",
			Expect: []string{"C13.R3@(internal/packages/internal/packagerender.phaseCollector).Collect#order-by-manifest-index"}},

		// ---- R4 annotations / labels
		Mutant{Prop: "C13", Name: "cel-annotation-not-stripped", File: ostmpl,
			Old:    "\t\tdelete(annotations, manifestsv1alpha1.PackageCELConditionAnnotation)\n",
			New:    "",
			Expect: []string{"C13.R4@(internal/packages/internal/packagerender.phaseCollector).AddObjects#strip:PackageCELConditionAnnotation"}},
		Mutant{Prop: "C13", Name: "strip-only-sometimes", File: ostmpl,
			Why:    "the condition-map annotation is removed only on some paths",
			Old:    "\t\tdelete(annotations, manifestsv1alpha1.PackageConditionMapAnnotation)\n",
			New:    "\t\tif len(collisionProtectionAnnotation) > 0 {\n\t\t\tdelete(annotations, manifestsv1alpha1.PackageConditionMapAnnotation)\n\t\t}\n",
			Expect: []string{"C13.R4@(internal/packages/internal/packagerender.phaseCollector).AddObjects#strip:PackageConditionMapAnnotation"}},
		Mutant{Prop: "C13", Name: "labels-after-append", File: objects,
			Why:    "the copy appended to the result does not carry the package labels",
			Old:    "\t\t\tobj.SetLabels(labels.Merge(obj.GetLabels(), commonLabels(manifest, tmplCtx.Package.Name)))\n\t\t\tobjects = append(objects, obj)",
			New:    "\t\t\tobjects = append(objects, obj)\n\t\t\tobj = *obj.DeepCopy()\n\t\t\tobj.SetLabels(labels.Merge(obj.GetLabels(), commonLabels(manifest, tmplCtx.Package.Name)))",
			Expect: []string{"C13.R4@internal/packages/internal/packagerender.parseObjects#labels-merged-before-append"}},
		Mutant{Prop: "C13", Name: "instance-label-dropped", File: objects,
			Old:    "\t\tmanifests.PackageInstanceLabel: packageName,\n",
			New:    "\t\tmanifests.PackageLabel + \"-instance\": packageName,\n",
			Expect: []string{"C13.R4@internal/packages/internal/packagerender.commonLabels#commonLabels-keys"}},

		// ---- R5 stable order
		Mutant{Prop: "C13", Name: "prepend-per-path", File: objects,
			Old:    "\t\tobjects = append(objects, objs...)",
			New:    "\t\tobjects = append(objs, objects...)",
			Expect: []string{"C13.R5@internal/packages/internal/packagerender.RenderObjectsWithFilter#concat-in-sorted-path-order"}},
		Mutant{Prop: "C13", Name: "collector-gets-tail-only", File: ostmpl,
			Old:    "\tcollector.AddObjects(pkgInstance.Objects...)",
			New:    "\tcollector.AddObjects(pkgInstance.Objects[:len(pkgInstance.Objects)/2]...)\n\tcollector.AddObjects(pkgInstance.Objects[len(pkgInstance.Objects)/2+1:]...)",
			Expect: []string{"C13.R5@internal/packages/internal/packagerender.RenderObjectSetTemplateSpec#objects-to-collector"}},

		// ---- R6 hash
		Mutant{Prop: "C13", Name: "hash-unsorted-map-keys", File: hashf,
			Old:    "\t\tSortKeys:       true,",
			New:    "\t\tSortKeys:       false,",
			Expect: []string{"C13.R6@internal/utils.DeepHashObject#spew-config"}},
		Mutant{Prop: "C13", Name: "hash-with-methods", File: hashf,
			Old:    "\t\tDisableMethods: true,\n",
			New:    "",
			Expect: []string{"C13.R6@internal/utils.DeepHashObject#spew-config"}},
		Mutant{Prop: "C13", Name: "hash-extra-random-input", File: hashf,
			Old:    "\thasher := fnv.New32a()\n\tDeepHashObject(hasher, obj)\n",
			New:    "\thasher := fnv.New32a()\n\tDeepHashObject(hasher, obj)\n\thasher.Write([]byte(rand.String(4)))\n",
			Expect: []string{"C13.R6@internal/utils.ComputeFNV32Hash#hash-inputs", "C13.R2@internal/utils.ComputeFNV32Hash#sink:"}},

		// ---- benign variants
		Mutant{Prop: "C13", Name: "benign-collect-paths-by-append-stable-sort", File: objects, Benign: true,
			Old: "\tpaths := make([]string, len(pathObjectMap))\n\tvar i int\n\tfor path := range pathObjectMap {\n\t\tpaths[i] = path\n\t\ti++\n\t}\n\t// sorts a list of file paths ascending.\n\t// e.g. a, a/b, a/b/c, b, b/x, bat.\n\tsort.Slice(paths, func(i, j int) bool {",
			New: "\tpaths := make([]string, 0, len(pathObjectMap))\n\tfor path := range pathObjectMap {\n\t\tpaths = append(paths, path)\n\t}\n\tsort.SliceStable(paths, func(i, j int) bool {"},
		Mutant{Prop: "C13", Name: "benign-guard-as-continue", File: sprigf, Benign: true,
			Old: "\t\tif _, exists := allowedFuncNames[key]; exists {\n\t\t\tallowedFuncs[key] = value\n\t\t}",
			New: "\t\tif _, allowed := allowedFuncNames[key]; !allowed {\n\t\t\tcontinue\n\t\t}\n\t\tallowedFuncs[key] = value"},
		Mutant{Prop: "C13", Name: "benign-collector-restructured", File: ostmpl, Benign: true,
			Old: "\tentry, ok := c[phaseName]\n\tif !ok {\n\t\treturn\n\t}\n\n\tentry.Phase.Objects = append(entry.Phase.Objects, objs...)\n\n\tc[phaseName] = entry",
			New: "\tif entry, found := c[phaseName]; found {\n\t\tentry.Phase.Objects = append(entry.Phase.Objects, objs...)\n\t\tc[phaseName] = entry\n\t}"},
		Mutant{Prop: "C13", Name: "benign-collect-equivalent-tests", File: ostmpl, Benign: true,
			Old: "\t\tif len(entry.Phase.Objects) == 0 {\n\t\t\t// empty phases may happen due to templating for scope or topology restrictions.\n\t\t\tcontinue\n\t\t}\n\n\t\tentries = append(entries, entry)\n\t}\n\n\t// Ensure ordering remains consistent with manifest\n\tsort.Slice(entries, func(i, j int) bool {\n\t\treturn entries[i].Index < entries[j].Index",
			New: "\t\tif len(entry.Phase.Objects) > 0 {\n\t\t\tentries = append(entries, entry)\n\t\t}\n\t}\n\n\tsort.SliceStable(entries, func(a, b int) bool {\n\t\treturn entries[b].Index > entries[a].Index"},
		Mutant{Prop: "C13", Name: "benign-deletes-reordered-commaok-lookup", File: ostmpl, Benign: true,
			Old: "\t\tphaseAnnotation := annotations[manifestsv1alpha1.PackagePhaseAnnotation]\n\t\tcollisionProtectionAnnotation := annotations[manifestsv1alpha1.PackageCollisionProtectionAnnotation]\n\t\tdelete(annotations, manifestsv1alpha1.PackagePhaseAnnotation)\n\t\tdelete(annotations, manifestsv1alpha1.PackageConditionMapAnnotation)\n\t\tdelete(annotations, manifestsv1alpha1.PackageCollisionProtectionAnnotation)\n\t\tdelete(annotations, manifestsv1alpha1.PackageCELConditionAnnotation)",
			New: "\t\tphaseAnnotation, _ := annotations[manifestsv1alpha1.PackagePhaseAnnotation]\n\t\tcollisionProtectionAnnotation := annotations[manifestsv1alpha1.PackageCollisionProtectionAnnotation]\n\t\tdelete(annotations, manifestsv1alpha1.PackageCELConditionAnnotation)\n\t\tdelete(annotations, manifestsv1alpha1.PackageCollisionProtectionAnnotation)\n\t\tdelete(annotations, manifestsv1alpha1.PackageConditionMapAnnotation)\n\t\tdelete(annotations, manifestsv1alpha1.PackagePhaseAnnotation)"},
		Mutant{Prop: "C13", Name: "benign-glob-counts-matches", File: filef, Benign: true,
			Old: "\t\tout := map[string]string{}\n\t\tfor path, content := range files {\n\t\t\tif g.Match(path) {\n\t\t\t\tout[path] = string(content)\n\t\t\t}\n\t\t}\n\t\treturn out, nil",
			New: "\t\tout := map[string]string{}\n\t\tmatched := 0\n\t\tfor p, c := range files {\n\t\t\tif !g.Match(p) {\n\t\t\t\tcontinue\n\t\t\t}\n\t\t\tmatched++\n\t\t\tout[p] = string(c)\n\t\t}\n\t\tif matched == 0 {\n\t\t\treturn out, nil\n\t\t}\n\t\treturn out, nil"},
		Mutant{Prop: "C13", Name: "benign-render-objects-helper-and-continue", File: objects, Benign: true,
			Old: "\t\tswitch {\n\t\tcase strings.HasPrefix(filepath.Base(path), \"_\"):\n\t\t\t// skip template helper files.\n\t\tcase !packagetypes.IsYAMLFile(path):\n\t\t\t// skip non YAML files\n\t\tdefault:\n\t\t\tobjects, err := parseObjects(pkg.Manifest, tmplCtx, path, content)\n\t\t\tif err != nil {\n\t\t\t\treturn nil, err\n\t\t\t}\n\t\t\tif len(objects) != 0 {\n\t\t\t\tpathObject[path] = objects\n\t\t\t}\n\t\t}",
			New: "\t\tif strings.HasPrefix(filepath.Base(path), \"_\") || !packagetypes.IsYAMLFile(path) {\n\t\t\tcontinue\n\t\t}\n\t\tobjects, perr := parseObjects(pkg.Manifest, tmplCtx, path, content)\n\t\tif perr != nil {\n\t\t\treturn nil, fmt.Errorf(\"parsing %s: %w\", path, perr)\n\t\t}\n\t\tif len(objects) > 0 {\n\t\t\tpathObject[path] = objects\n\t\t}"},
		Mutant{Prop: "C13", Name: "benign-hash-config-reordered", File: hashf, Benign: true,
			Old: "\t\tIndent:         \" \",\n\t\tSortKeys:       true,\n\t\tDisableMethods: true,\n\t\tSpewKeys:       true,",
			New: "\t\tSpewKeys:       true,\n\t\tDisableMethods: true,\n\t\tSortKeys:       true,\n\t\tIndent:         \" \","},
		Mutant{Prop: "C13", Name: "benign-labels-via-local", File: objects, Benign: true,
			Old: "\t\t\tobj.SetLabels(labels.Merge(obj.GetLabels(), commonLabels(manifest, tmplCtx.Package.Name)))\n\t\t\tobjects = append(objects, obj)",
			New: "\t\t\tmerged := labels.Merge(obj.GetLabels(), commonLabels(manifest, tmplCtx.Package.Name))\n\t\t\tobj.SetLabels(merged)\n\t\t\tobjects = append(objects, obj)"},
		// single-use helpers merged into their callers (corpus J7-2): the label map and the function
		// table are judged where they are built
		Mutant{Prop: "C13", Name: "benign-common-labels-in-place", File: objects, Benign: true,
			Old: "commonLabels(manifest, tmplCtx.Package.Name)))\n",
			New: "map[string]string{\n\t\t\t\tmanifests.PackageLabel:         manifest.Name,\n\t\t\t\tmanifests.PackageInstanceLabel: tmplCtx.Package.Name,\n\t\t\t}))\n"},
		Mutant{Prop: "C13", Name: "labels-in-place-instance-label-missing", File: objects,
			Old:    "commonLabels(manifest, tmplCtx.Package.Name)))\n",
			New:    "map[string]string{\n\t\t\t\tmanifests.PackageLabel: manifest.Name,\n\t\t\t}))\n",
			Expect: []string{"C13.R4@internal/packages/internal/packagerender.parseObjects#commonLabels-keys"}},
		Mutant{Prop: "C13", Name: "labels-in-place-instance-label-only-sometimes", File: objects,
			Old:    "\t\t\tobj.SetLabels(labels.Merge(obj.GetLabels(), commonLabels(manifest, tmplCtx.Package.Name)))\n",
			New:    "\t\t\tlbl := map[string]string{manifests.PackageLabel: manifest.Name}\n\t\t\tif idx == 0 {\n\t\t\t\tlbl[manifests.PackageInstanceLabel] = tmplCtx.Package.Name\n\t\t\t}\n\t\t\tobj.SetLabels(labels.Merge(obj.GetLabels(), lbl))\n",
			Expect: []string{"C13.R4@internal/packages/internal/packagerender.parseObjects#commonLabels-keys"}},
		Mutant{Prop: "C13", Name: "benign-cel-function-table-in-place", File: tmplf, Benign: true,
			Old: "\tcelFn, err := celTemplateFunction(pkg.Manifest.Spec.Filters.Conditions, tmplCtx)\n",
			New: "\tcc, err := celctx.New(pkg.Manifest.Spec.Filters.Conditions, tmplCtx)\n",
			More: []Edit{{File: tmplf, Old: "\ttempl = templ.Funcs(celFn)\n",
				New: "\ttempl = templ.Funcs(template.FuncMap{\n\t\t\"cel\": func(expression string) (bool, error) {\n\t\t\treturn cc.Evaluate(expression)\n\t\t},\n\t})\n"}}},
		Mutant{Prop: "C13", Name: "function-table-in-place-admits-getenv", File: tmplf,
			Why: "a table built at the Funcs call is judged like a constructor's: os.Getenv is not a repository function",
			Old: "\tcelFn, err := celTemplateFunction(pkg.Manifest.Spec.Filters.Conditions, tmplCtx)\n",
			New: "\tcc, err := celctx.New(pkg.Manifest.Spec.Filters.Conditions, tmplCtx)\n",
			More: []Edit{{File: tmplf, Old: "\ttempl = templ.Funcs(celFn)\n",
				New: "\ttempl = templ.Funcs(template.FuncMap{\n\t\t\"env\": os.Getenv,\n\t\t\"cel\": func(expression string) (bool, error) {\n\t\t\treturn cc.Evaluate(expression)\n\t\t},\n\t})\n"},
				{File: tmplf, Old: "\t\"fmt\"\n", New: "\t\"fmt\"\n\t\"os\"\n"}},
			Expect: []string{"C13.R2@internal/packages/internal/packagerender.RenderTemplates#funcmap-constructor"}},
	)
}

// Round two: map keys collected through the library (maps.Keys + slices.Collect) instead of a
// hand-written loop are judged like the loop: the slice has to be sorted before any other use.
func init() {
	const objects = "internal/packages/internal/packagerender/objects.go"
	const imports = "\t\"fmt\"\n\t\"path/filepath\"\n\t\"sort\"\n\t\"strings\"\n"
	const importsLib = "\t\"fmt\"\n\t\"maps\"\n\t\"path/filepath\"\n\t\"slices\"\n\t\"sort\"\n\t\"strings\"\n"
	const collect = "\tpaths := make([]string, len(pathObjectMap))\n\tvar i int\n\tfor path := range pathObjectMap {\n\t\tpaths[i] = path\n\t\ti++\n\t}\n"
	addMutants(
		Mutant{Prop: "C13", Name: "benign-paths-through-slices-collect-then-sorted", File: objects, Benign: true,
			Old: collect, New: "\tpaths := slices.Collect(maps.Keys(pathObjectMap))\n",
			More: []Edit{{File: objects, Old: imports, New: importsLib}}},
		Mutant{Prop: "C13", Name: "benign-paths-through-slices-sorted", File: objects, Benign: true, OwnOnly: true,
			Why: "slices.Sorted(maps.Keys(m)) is ordered; the later sort.Slice re-sorts with the path comparator",
			Old: collect, New: "\tpaths := slices.Sorted(maps.Keys(pathObjectMap))\n",
			More: []Edit{{File: objects, Old: imports, New: importsLib}}},
		Mutant{Prop: "C13", Name: "paths-through-slices-collect-not-sorted", File: objects,
			Why: "the keys collected by slices.Collect(maps.Keys(m)) are used in map iteration order",
			Old: collect, New: "\tpaths := slices.Collect(maps.Keys(pathObjectMap))\n",
			More: []Edit{{File: objects, Old: imports, New: importsLib},
				{File: objects, Old: "sort.Slice(paths, func(i, j int) bool {", New: "sort.Slice(paths[:0], func(i, j int) bool {"}},
			Expect: []string{"C13.R1@internal/packages/internal/packagerender.RenderObjectsWithFilter#map-iteration-helper:Keys", "C13.R5@"}},
	)
}

// Round four (corpus G*): library forms of the sort comparators and of the validator's find loop.
func init() {
	const (
		objects  = "internal/packages/internal/packagerender/objects.go"
		ostmpl   = "internal/packages/internal/packagerender/objectsettemplate.go"
		objvalid = "internal/packages/internal/packagevalidation/objectvalidation.go"
	)
	const ostImports = "import (\n\t\"sort\"\n"
	const collectSort = "\tsort.Slice(entries, func(i, j int) bool {\n\t\treturn entries[i].Index < entries[j].Index\n\t})\n"
	sortFunc := func(body string) string {
		return "\tslices.SortFunc(entries, func(a, b phaseCollectorEntry) int {\n" + body + "\t})\n"
	}
	const objImports = "\t\"path/filepath\"\n\t\"sort\"\n\t\"strings\"\n"
	const objImportsLib = "\t\"path/filepath\"\n\t\"slices\"\n\t\"strings\"\n"
	const pathSort = "\tsort.Slice(paths, func(i, j int) bool {\n\t\tp1 := strings.ReplaceAll(paths[i], \"/\", \"\\x00\")\n\t\tp2 := strings.ReplaceAll(paths[j], \"/\", \"\\x00\")\n\t\treturn p1 < p2\n\t})\n"
	const valImports = "\t\"fmt\"\n\n\t\"k8s.io/apimachinery/pkg/apis/meta/v1/unstructured\"\n"
	const valImportsLib = "\t\"fmt\"\n\t\"slices\"\n\n\t\"k8s.io/apimachinery/pkg/apis/meta/v1/unstructured\"\n"
	const findLoop = "\tfor _, phase := range manifest.Spec.Phases {\n\t\tif phase.Name == obj.GetAnnotations()[manifests.PackagePhaseAnnotation] {\n\t\t\treturn nil\n\t\t}\n\t}\n"
	containsFunc := func(pred string) string {
		return "\tif slices.ContainsFunc(manifest.Spec.Phases, func(phase manifests.PackageManifestPhase) bool {\n\t\treturn " + pred + "\n\t}) {\n\t\treturn nil\n\t}\n"
	}
	const orderR3 = "C13.R3@(internal/packages/internal/packagerender.phaseCollector).Collect#order-by-manifest-index"
	addMutants(
		Mutant{Prop: "C13", Name: "benign-collect-sortfunc-cmp-compare", File: ostmpl, Benign: true,
			Old: collectSort, New: sortFunc("\t\treturn cmp.Compare(a.Index, b.Index)\n"),
			More: []Edit{{File: ostmpl, Old: ostImports, New: "import (\n\t\"cmp\"\n\t\"slices\"\n"}}},
		Mutant{Prop: "C13", Name: "benign-collect-sortfunc-if-chain", File: ostmpl, Benign: true,
			Old: collectSort, New: sortFunc("\t\tif a.Index < b.Index {\n\t\t\treturn -1\n\t\t} else if a.Index > b.Index {\n\t\t\treturn 1\n\t\t}\n\t\treturn 0\n"),
			More: []Edit{{File: ostmpl, Old: ostImports, New: "import (\n\t\"slices\"\n"}}},
		Mutant{Prop: "C13", Name: "collect-sortfunc-by-name", File: ostmpl,
			Why: "phases leave the collector ordered by name, not by manifest position",
			Old: collectSort, New: sortFunc("\t\treturn cmp.Compare(a.Phase.Name, b.Phase.Name)\n"),
			More:   []Edit{{File: ostmpl, Old: ostImports, New: "import (\n\t\"cmp\"\n\t\"slices\"\n"}},
			Expect: []string{orderR3}},
		Mutant{Prop: "C13", Name: "collect-sortfunc-descending", File: ostmpl,
			Old: collectSort, New: sortFunc("\t\treturn cmp.Compare(b.Index, a.Index)\n"),
			More:   []Edit{{File: ostmpl, Old: ostImports, New: "import (\n\t\"cmp\"\n\t\"slices\"\n"}},
			Expect: []string{orderR3}},
		Mutant{Prop: "C13", Name: "collect-sortfunc-equal-for-distinct-keys", File: ostmpl,
			Why: "the three-way comparator answers 0 for a later phase before an earlier one: not an order, the unstable sort keeps map iteration order",
			Old: collectSort, New: sortFunc("\t\tif a.Index < b.Index {\n\t\t\treturn -1\n\t\t}\n\t\treturn 0\n"),
			More:   []Edit{{File: ostmpl, Old: ostImports, New: "import (\n\t\"slices\"\n"}},
			Expect: []string{orderR3, "C13.R7@"}},
		Mutant{Prop: "C13", Name: "collect-less-descending", File: ostmpl,
			Old:    "\t\treturn entries[i].Index < entries[j].Index",
			New:    "\t\treturn entries[i].Index > entries[j].Index",
			Expect: []string{orderR3}},
		Mutant{Prop: "C13", Name: "benign-collect-less-operands-swapped", File: ostmpl, Benign: true,
			Old: "\t\treturn entries[i].Index < entries[j].Index",
			New: "\t\treturn entries[j].Index > entries[i].Index"},
		Mutant{Prop: "C13", Name: "benign-paths-sortfunc-strings-compare", File: objects, Benign: true,
			Old:  pathSort,
			New:  "\tslices.SortFunc(paths, func(a, b string) int {\n\t\tp1 := strings.ReplaceAll(a, \"/\", \"\\x00\")\n\t\tp2 := strings.ReplaceAll(b, \"/\", \"\\x00\")\n\t\treturn strings.Compare(p1, p2)\n\t})\n",
			More: []Edit{{File: objects, Old: objImports, New: objImportsLib}}},
		Mutant{Prop: "C13", Name: "paths-sortfunc-lossy-key", File: objects,
			Why:    "paths that differ only in case compare equal and keep map iteration order",
			Old:    pathSort,
			New:    "\tslices.SortFunc(paths, func(a, b string) int {\n\t\treturn strings.Compare(strings.ToLower(a), strings.ToLower(b))\n\t})\n",
			More:   []Edit{{File: objects, Old: objImports, New: objImportsLib}},
			Expect: []string{"C13.R7@internal/packages/internal/packagerender.RenderObjectsWithFilter#sort-comparator"}},
		Mutant{Prop: "C13", Name: "paths-sortfunc-zero-unless-less", File: objects,
			Old:    pathSort,
			New:    "\tslices.SortFunc(paths, func(a, b string) int {\n\t\tif a < b {\n\t\t\treturn -1\n\t\t}\n\t\treturn 0\n\t})\n",
			More:   []Edit{{File: objects, Old: objImports, New: objImportsLib}},
			Expect: []string{"C13.R7@internal/packages/internal/packagerender.RenderObjectsWithFilter#sort-comparator"}},
		Mutant{Prop: "C13", Name: "benign-phase-validator-containsfunc", File: objvalid, Benign: true,
			Old: findLoop, New: containsFunc("phase.Name == obj.GetAnnotations()[manifests.PackagePhaseAnnotation]"),
			More: []Edit{{File: objvalid, Old: valImports, New: valImportsLib}}},
		Mutant{Prop: "C13", Name: "phase-validator-containsfunc-any-named-phase", File: objvalid,
			Why: "the predicate accepts any phase: an object annotated with an unknown phase passes validation and is dropped by the collector",
			Old: findLoop, New: containsFunc("phase.Name != \"\""),
			More:   []Edit{{File: objvalid, Old: valImports, New: valImportsLib}},
			Expect: []string{"C13.R3@-#phase-validator-wired"}},
		Mutant{Prop: "C13", Name: "phase-validator-containsfunc-or-class", File: objvalid,
			Old: findLoop, New: containsFunc("phase.Name == obj.GetAnnotations()[manifests.PackagePhaseAnnotation] || len(phase.Class) > 0"),
			More:   []Edit{{File: objvalid, Old: valImports, New: valImportsLib}},
			Expect: []string{"C13.R3@-#phase-validator-wired"}},
	)
}

// Round seven (corpus N*): Collect builds its result with append into a pre-sized slice instead of
// an index-filled one.
func init() {
	const ostmpl = "internal/packages/internal/packagerender/objectsettemplate.go"
	const copyLoop = "\tphases := make([]corev1alpha1.ObjectSetTemplatePhase, len(entries))\n\n\tfor i, e := range entries {\n\t\tphases[i] = e.Phase\n\t}\n"
	const presized = "\tphases := make([]corev1alpha1.ObjectSetTemplatePhase, 0, len(entries))\n\n"
	const skipR3 = "C13.R3@(internal/packages/internal/packagerender.phaseCollector).Collect#skip-only-empty"
	addMutants(
		Mutant{Prop: "C13", Name: "benign-collect-result-built-by-append-index-range", File: ostmpl, Benign: true,
			Old: copyLoop, New: presized + "\tfor i := range entries {\n\t\tphases = append(phases, entries[i].Phase)\n\t}\n"},
		Mutant{Prop: "C13", Name: "benign-collect-result-built-by-append-value-range", File: ostmpl, Benign: true,
			Old: copyLoop, New: presized + "\tfor _, e := range entries {\n\t\tphases = append(phases, e.Phase)\n\t}\n"},
		Mutant{Prop: "C13", Name: "collect-append-copy-skips-single-object-phases", File: ostmpl,
			Why: "the copy loop leaves out collected phases that hold exactly one object",
			Old: copyLoop, New: presized + "\tfor i := range entries {\n\t\tif len(entries[i].Phase.Objects) > 1 {\n\t\t\tphases = append(phases, entries[i].Phase)\n\t\t}\n\t}\n",
			Expect: []string{skipR3}},
		Mutant{Prop: "C13", Name: "collect-append-copy-starts-at-second-entry", File: ostmpl,
			Why: "the copy loop drops the first phase of the manifest",
			Old: copyLoop, New: presized + "\tfor i := 1; i < len(entries); i++ {\n\t\tphases = append(phases, entries[i].Phase)\n\t}\n",
			Expect: []string{skipR3}},
		Mutant{Prop: "C13", Name: "collect-append-copy-repeats-first-entry", File: ostmpl,
			Why: "every result element is the first collected phase",
			Old: copyLoop, New: presized + "\tfor range entries {\n\t\tphases = append(phases, entries[0].Phase)\n\t}\n",
			Expect: []string{skipR3}},
	)
}
