package main

func init() {
	const (
		tr  = "internal/controllers/objecttemplate/template_reconciler.go"
		tc  = "internal/controllers/objecttemplate/objecttemplate_controller.go"
		tt  = "internal/controllers/objecttemplate/template_transformer.go"
		enq = "internal/dynamiccache/enqueue_watching.go"
		ctl = "internal/controllers/controllers.go"
		nse = "internal/preflight/namespace_escalation_protection.go"
	)
	srcWatch := "\tif err := r.dynamicCache.Watch(\n\t\tctx, objectTemplate, sourceObj); err != nil {\n\t\treturn nil, false, fmt.Errorf(\"watching new source: %w\", err)\n\t}\n\n\tobjectKey := client.ObjectKeyFromObject(sourceObj)\n"
	nsOverride := "\tif len(objectTemplate.ClientObject().GetNamespace()) > 0 {\n\t\tobject.SetNamespace(objectTemplate.ClientObject().GetNamespace())\n\t}\n"
	freeBlock := "\t\tif err := controllers.FreeCacheAndRemoveFinalizer(\n\t\t\tctx, c.client, objectTemplate.ClientObject(), c.dynamicCache); err != nil {\n\t\t\treturn ctrl.Result{}, err\n\t\t}\n\t\treturn ctrl.Result{}, nil\n"
	// the Invalid-condition literal of the mapper for one error class, and a helper that builds it
	invLit := func(reason, errVar string) string {
		return "\t\tmeta.SetStatusCondition(objectTemplate.GetConditions(), metav1.Condition{\n\t\t\tType:               corev1alpha1.ObjectTemplateInvalid,\n\t\t\tStatus:             metav1.ConditionTrue,\n\t\t\tObservedGeneration: objectTemplate.GetGeneration(),\n\t\t\tReason:             \"" + reason + "\",\n\t\t\tMessage:            " + errVar + ".Error(),\n\t\t})\n"
	}
	const invHelperAt = "var jsonRegexp = regexp.MustCompile("
	invHelper := func(status, prologue string) string {
		return "func invalidCondition(observedGeneration int64, reason, message string) metav1.Condition {\n" + prologue + "\treturn metav1.Condition{\n\t\tType:               corev1alpha1.ObjectTemplateInvalid,\n\t\tStatus:             " + status + ",\n\t\tObservedGeneration: observedGeneration,\n\t\tReason:             reason,\n\t\tMessage:            message,\n\t}\n}\n\n"
	}
	addMutants(
		// ---- R1
		Mutant{Prop: "C18", Name: "r1-source-read-without-watch", File: tr,
			Old:    srcWatch,
			New:    "\tobjectKey := client.ObjectKeyFromObject(sourceObj)\n",
			Expect: []string{"C18.R1@"}},
		Mutant{Prop: "C18", Name: "r1-watch-error-ignored", File: tr,
			Old:    srcWatch,
			New:    "\t_ = r.dynamicCache.Watch(ctx, objectTemplate, sourceObj)\n\n\tobjectKey := client.ObjectKeyFromObject(sourceObj)\n",
			Expect: []string{"C18.R1@"}},
		Mutant{Prop: "C18", Name: "r1-source-read-before-watch", File: tr,
			Old:    srcWatch + "\n\tif err := r.dynamicCache.Get(ctx, objectKey, sourceObj); apimachineryerrors.IsNotFound(err) {",
			New:    "\tobjectKey := client.ObjectKeyFromObject(sourceObj)\n\n\terr = r.dynamicCache.Get(ctx, objectKey, sourceObj)\n\tif werr := r.dynamicCache.Watch(ctx, objectTemplate, sourceObj); werr != nil {\n\t\treturn nil, false, fmt.Errorf(\"watching new source: %w\", werr)\n\t}\n\tif apimachineryerrors.IsNotFound(err) {",
			Expect: []string{"C18.R1@(*internal/controllers/objecttemplate.templateReconciler).getSourceObject#read-Get"}},
		Mutant{Prop: "C18", Name: "r1-only-first-watcher-enqueued", File: enq,
			Old:    "\t\t\t\tNamespace: ownerRef.Namespace,\n\t\t\t},\n\t\t})\n",
			New:    "\t\t\t\tNamespace: ownerRef.Namespace,\n\t\t\t},\n\t\t})\n\t\tbreak\n",
			Expect: []string{"C18.R1@"}},
		Mutant{Prop: "C18", Name: "r1-watchers-in-other-namespaces-skipped", File: enq,
			Old:    "\t\tif ownerRef.Kind != e.groupKind.Kind ||\n\t\t\townerRef.Group != e.groupKind.Group {",
			New:    "\t\tif ownerRef.Kind != e.groupKind.Kind ||\n\t\t\townerRef.Group != e.groupKind.Group || ownerRef.Namespace != obj.GetNamespace() {",
			Expect: []string{"C18.R1@"}},
		Mutant{Prop: "C18", Name: "r1-create-events-dropped", File: enq,
			Old:    "func (e *EnqueueWatchingObjects) Create(_ context.Context, evt event.CreateEvent,\n\tq workqueue.TypedRateLimitingInterface[reconcile.Request],\n) {\n\te.enqueueWatchers(evt.Object, q)\n}",
			New:    "func (e *EnqueueWatchingObjects) Create(_ context.Context, evt event.CreateEvent,\n\tq workqueue.TypedRateLimitingInterface[reconcile.Request],\n) {\n\tif len(evt.Object.GetOwnerReferences()) > 0 {\n\t\te.enqueueWatchers(evt.Object, q)\n\t}\n}",
			Expect: []string{"C18.R1@"}},
		Mutant{Prop: "C18", Name: "r1-optional-missing-not-requeued", File: tr,
			Old:    "\tif retryLater {\n\t\tres.RequeueAfter = r.optionalResourceRetryInterval\n\t}\n",
			New:    "\t_ = retryLater\n",
			Expect: []string{"C18.R1@"}},
		Mutant{Prop: "C18", Name: "r1-collector-forgets-absent-source", File: tr,
			Old:    "\t\t\tretryLater = true\n\t\t\tcontinue\n",
			New:    "\t\t\tcontinue\n",
			Expect: []string{"C18.R1@"}},
		Mutant{Prop: "C18", Name: "r1-required-source-treated-as-optional", File: tr,
			Old:    "\t\tif src.Optional {\n\t\t\t// just skip this one if it's optional.\n\t\t\treturn false, nil\n\t\t}\n\t\treturn false, &SourceError{Source: obj, Err: err}\n",
			New:    "\t\treturn false, nil\n",
			Expect: []string{"C18.R1@"}},
		Mutant{Prop: "C18", Name: "r1-benign-watch-error-local", File: tr, Benign: true,
			Old: srcWatch,
			New: "\twatchErr := r.dynamicCache.Watch(ctx, objectTemplate, sourceObj)\n\tif watchErr != nil {\n\t\treturn nil, false, fmt.Errorf(\"watching new source: %w\", watchErr)\n\t}\n\n\tobjectKey := client.ObjectKeyFromObject(sourceObj)\n"},
		Mutant{Prop: "C18", Name: "r1-benign-enqueue-positive-condition", File: enq, Benign: true,
			Old: "\t\tif ownerRef.Kind != e.groupKind.Kind ||\n\t\t\townerRef.Group != e.groupKind.Group {\n\t\t\tcontinue\n\t\t}\n",
			New: "\t\tif e.groupKind.Kind != ownerRef.Kind {\n\t\t\tcontinue\n\t\t}\n\t\tif !(ownerRef.Group == e.groupKind.Group) {\n\t\t\tcontinue\n\t\t}\n"},
		Mutant{Prop: "C18", Name: "r1-benign-optional-check-order", File: tr, Benign: true,
			Old: "\tif err := r.uncachedClient.Get(ctx, key, obj); apimachineryerrors.IsNotFound(err) {\n\t\tif src.Optional {\n\t\t\t// just skip this one if it's optional.\n\t\t\treturn false, nil\n\t\t}\n\t\treturn false, &SourceError{Source: obj, Err: err}\n",
			New: "\tif err := r.uncachedClient.Get(ctx, key, obj); apimachineryerrors.IsNotFound(err) {\n\t\tif !src.Optional {\n\t\t\treturn false, &SourceError{Source: obj, Err: err}\n\t\t}\n\t\treturn false, nil\n"},

		// ---- R2
		Mutant{Prop: "C18", Name: "r2-render-error-only-logged", File: tr,
			Old:    "\tif err := r.templateObject(ctx, sourcesConfig, objectTemplate, obj); err != nil {\n\t\treturn res, err\n\t}\n",
			New:    "\tif err := r.templateObject(ctx, sourcesConfig, objectTemplate, obj); err != nil {\n\t\tlogr.FromContextOrDiscard(ctx).Error(err, \"templating\")\n\t}\n",
			Expect: []string{"C18.R2@"}},
		Mutant{Prop: "C18", Name: "r2-target-violations-ignored", File: tr,
			Old:    "\tif len(violations) > 0 {\n\t\treturn &SourceError{Source: object, Err: &preflight.Error{Violations: violations}}\n\t}\n",
			New:    "\t_ = violations\n",
			Expect: []string{"C18.R2@"}},
		Mutant{Prop: "C18", Name: "r2-source-violations-ignored", File: tr,
			Old:    "\tif len(violations) > 0 {\n\t\treturn nil, false, &SourceError{Source: sourceObj, Err: &preflight.Error{Violations: violations}}\n\t}\n",
			New:    "\t_ = violations\n",
			Expect: []string{"C18.R2@"}},
		Mutant{Prop: "C18", Name: "r2-target-readdressed-after-preflight", File: tr,
			Old:    nsOverride,
			New:    "\tif ns := object.GetAnnotations()[\"target-namespace\"]; len(ns) > 0 {\n\t\tobject.SetNamespace(ns)\n\t}\n",
			Expect: []string{"C18.R2@"}},
		Mutant{Prop: "C18", Name: "r2-source-error-only-logged", File: tr,
			Old:    "\t\treturn res, fmt.Errorf(\"retrieving values from sources: %w\", err)\n",
			New:    "\t\tlogr.FromContextOrDiscard(ctx).Error(err, \"retrieving values from sources\")\n",
			Expect: []string{"C18.R2@"}},
		Mutant{Prop: "C18", Name: "r2-preflight-before-rendering", File: tr,
			Old:    "\tif err := yaml.Unmarshal(renderedTemplate, object); err != nil {\n\t\treturn fmt.Errorf(\"unmarshalling yaml of rendered template: %w\", err)\n\t}\n\tviolations, err := r.preflightChecker.Check(ctx, objectTemplate.ClientObject(), object)\n\tif err != nil {\n\t\treturn err\n\t}\n",
			New:    "\tviolations, err := r.preflightChecker.Check(ctx, objectTemplate.ClientObject(), object)\n\tif err != nil {\n\t\treturn err\n\t}\n\tif err := yaml.Unmarshal(renderedTemplate, object); err != nil {\n\t\treturn fmt.Errorf(\"unmarshalling yaml of rendered template: %w\", err)\n\t}\n",
			Expect: []string{"C18.R2@"}},
		Mutant{Prop: "C18", Name: "r2-benign-named-error-result", File: tr, Benign: true,
			Old: "\tif err := r.templateObject(ctx, sourcesConfig, objectTemplate, obj); err != nil {\n\t\treturn res, err\n\t}\n",
			New: "\terr = r.templateObject(ctx, sourcesConfig, objectTemplate, obj)\n\tif err != nil {\n\t\treturn res, err\n\t}\n"},
		Mutant{Prop: "C18", Name: "r2-benign-violation-guard-style", File: tr, Benign: true,
			Old: "\tif len(violations) > 0 {\n\t\treturn &SourceError{Source: object, Err: &preflight.Error{Violations: violations}}\n\t}\n\n" + nsOverride,
			New: "\tif len(violations) != 0 {\n\t\treturn &SourceError{Source: object, Err: &preflight.Error{Violations: violations}}\n\t}\n\n\tif ns := objectTemplate.ClientObject().GetNamespace(); ns != \"\" {\n\t\tobject.SetNamespace(objectTemplate.ClientObject().GetNamespace())\n\t}\n"},

		// ---- R3
		Mutant{Prop: "C18", Name: "r3-template-without-namespace-escalation", File: tc,
			Old:    "\t\t\t\t\tpreflight.NewNamespaceEscalation(restMapper),\n",
			New:    "",
			Expect: []string{"C18.R3@internal/controllers/objecttemplate.newGenericObjectTemplateController"}},
		Mutant{Prop: "C18", Name: "r3-revert-d1-fix-same-namespace-skips-scope-test", File: nse,
			Old:    "\tif len(obj.GetNamespace()) > 0 && obj.GetNamespace() != owner.GetNamespace() {\n\t\tviolations = append(violations, Violation{\n\t\t\tPosition: \"Object \" + obj.GetName(),\n\t\t\tError:    \"Must stay within the same namespace.\",\n\t\t})\n\t\treturn\n\t}\n",
			New:    "\tif len(obj.GetNamespace()) > 0 {\n\t\tif obj.GetNamespace() != owner.GetNamespace() {\n\t\t\tviolations = append(violations, Violation{\n\t\t\t\tPosition: \"Object \" + obj.GetName(),\n\t\t\t\tError:    \"Must stay within the same namespace.\",\n\t\t\t})\n\t\t}\n\t\treturn\n\t}\n",
			Expect: []string{"C18.R3@(*internal/preflight.NamespaceEscalation).Check#scope-rule"}},
		Mutant{Prop: "C18", Name: "r3-benign-reordered-template-checks", File: tc, Benign: true,
			Old: "\t\t\t\t\tpreflight.NewNoOwnerReferences(restMapper),\n\t\t\t\t\tpreflight.NewEmptyNamespaceNoDefault(restMapper),\n\t\t\t\t\tpreflight.NewNamespaceEscalation(restMapper),\n",
			New: "\t\t\t\t\tpreflight.NewNamespaceEscalation(restMapper),\n\t\t\t\t\tpreflight.NewNoOwnerReferences(restMapper),\n\t\t\t\t\tpreflight.NewEmptyNamespaceNoDefault(restMapper),\n"},

		// ---- R4
		Mutant{Prop: "C18", Name: "r4-source-error-returned-unmapped", File: tr,
			Old:    "\t\t\tMessage:            sourceError.Error(),\n\t\t})\n\t\treturn nil // don't retry error\n",
			New:    "\t\t\tMessage:            sourceError.Error(),\n\t\t})\n\t\treturn err\n",
			Expect: []string{"C18.R4@"}},
		Mutant{Prop: "C18", Name: "r4-invalid-removed-unconditionally", File: tr,
			Old:    "\tif err == nil {\n\t\tmeta.RemoveStatusCondition(objectTemplate.GetConditions(), corev1alpha1.ObjectTemplateInvalid)\n\t}\n",
			New:    "\tmeta.RemoveStatusCondition(objectTemplate.GetConditions(), corev1alpha1.ObjectTemplateInvalid)\n",
			Expect: []string{"C18.R4@"}},
		Mutant{Prop: "C18", Name: "r4-wrapping-drops-the-chain", File: tr,
			Old:    "fmt.Errorf(\"retrieving values from sources: %w\", err)",
			New:    "fmt.Errorf(\"retrieving values from sources: %v\", err)",
			Expect: []string{"C18.R4@"}},
		Mutant{Prop: "C18", Name: "r4-execute-error-is-plain", File: tt,
			Old:    "\tif err := template.Execute(&doc, t.tctx); err != nil {\n\t\treturn nil, &TemplateError{Err: err}\n",
			New:    "\tif err := template.Execute(&doc, t.tctx); err != nil {\n\t\treturn nil, err\n",
			Expect: []string{"C18.R4@"}},
		Mutant{Prop: "C18", Name: "r4-target-violation-is-plain-preflight-error", File: tr,
			Old:    "\t\treturn &SourceError{Source: object, Err: &preflight.Error{Violations: violations}}\n",
			New:    "\t\treturn &preflight.Error{Violations: violations}\n",
			Expect: []string{"C18.R4@"}},
		Mutant{Prop: "C18", Name: "r4-mapper-not-deferred", File: tr,
			Old:    "\tdefer func() {\n\t\terr = setObjectTemplateConditionBasedOnError(objectTemplate, err)\n\t}()\n",
			New:    "",
			Expect: []string{"C18.R4@"}},
		Mutant{Prop: "C18", Name: "r4-mapper-result-dropped", File: tr,
			Old:    "\t\terr = setObjectTemplateConditionBasedOnError(objectTemplate, err)\n",
			New:    "\t\t_ = setObjectTemplateConditionBasedOnError(objectTemplate, err)\n",
			Expect: []string{"C18.R4@"}},
		Mutant{Prop: "C18", Name: "r4-missing-required-loses-notfound", File: tr,
			Old:    "\t\treturn false, &SourceError{Source: obj, Err: err}\n",
			New:    "\t\treturn false, &SourceError{Source: obj, Err: errors.New(\"source not found\")}\n",
			Expect: []string{"C18.R4@"}, Why: "isMissingResourceError no longer recognises it: no missing-resource requeue"},
		Mutant{Prop: "C18", Name: "r4-benign-nil-comparison-order", File: tr, Benign: true,
			Old: "\tif err == nil {\n\t\tmeta.RemoveStatusCondition(objectTemplate.GetConditions(), corev1alpha1.ObjectTemplateInvalid)\n\t}\n\treturn err\n",
			New: "\tif nil != err {\n\t\treturn err\n\t}\n\tmeta.RemoveStatusCondition(objectTemplate.GetConditions(), corev1alpha1.ObjectTemplateInvalid)\n\treturn nil\n"},
		Mutant{Prop: "C18", Name: "r4-benign-unrelated-wrap-verb", File: tr, Benign: true,
			Old: "fmt.Errorf(\"handling creation: %w\", err)",
			New: "fmt.Errorf(\"handling creation: %v\", err)",
			Why: "handleCreation cannot return a SourceError/TemplateError"},

		// the Invalid condition built by a helper / by field assignments instead of a literal at the call
		Mutant{Prop: "C18", Name: "r4-benign-invalid-condition-from-helper", File: tr, Benign: true,
			Old: invLit("SourceError", "sourceError"),
			New: "\t\tmeta.SetStatusCondition(objectTemplate.GetConditions(),\n\t\t\tinvalidCondition(objectTemplate.GetGeneration(), \"SourceError\", sourceError.Error()))\n",
			More: []Edit{{File: tr, Old: invLit("TemplateError", "templateError"), New: "\t\tmeta.SetStatusCondition(objectTemplate.GetConditions(),\n\t\t\tinvalidCondition(objectTemplate.GetGeneration(), \"TemplateError\", templateError.Error()))\n"},
				{File: tr, Old: invHelperAt, New: invHelper("metav1.ConditionTrue", "") + invHelperAt}}},
		Mutant{Prop: "C18", Name: "r4-benign-invalid-condition-field-assigned", File: tr, Benign: true,
			Old: invLit("SourceError", "sourceError"),
			New: "\t\tconds := objectTemplate.GetConditions()\n\t\tvar cond metav1.Condition\n\t\tcond.Type = corev1alpha1.ObjectTemplateInvalid\n\t\tcond.Status = metav1.ConditionTrue\n\t\tcond.ObservedGeneration = objectTemplate.GetGeneration()\n\t\tcond.Reason = \"SourceError\"\n\t\tcond.Message = sourceError.Error()\n\t\tmeta.SetStatusCondition(conds, cond)\n"},
		Mutant{Prop: "C18", Name: "r4-helper-built-condition-is-false", File: tr,
			Old: invLit("SourceError", "sourceError"),
			New: "\t\tmeta.SetStatusCondition(objectTemplate.GetConditions(),\n\t\t\tinvalidCondition(objectTemplate.GetGeneration(), \"SourceError\", sourceError.Error()))\n",
			More: []Edit{{File: tr, Old: invLit("TemplateError", "templateError"), New: "\t\tmeta.SetStatusCondition(objectTemplate.GetConditions(),\n\t\t\tinvalidCondition(objectTemplate.GetGeneration(), \"TemplateError\", templateError.Error()))\n"},
				{File: tr, Old: invHelperAt, New: invHelper("metav1.ConditionFalse", "") + invHelperAt}},
			Expect: []string{"C18.R4@internal/controllers/objecttemplate.setObjectTemplateConditionBasedOnError#Invalid-SourceError", "C18.R4@internal/controllers/objecttemplate.setObjectTemplateConditionBasedOnError#Invalid-TemplateError"}},
		Mutant{Prop: "C18", Name: "r4-helper-built-condition-of-another-type-on-one-return", File: tr,
			Old:    invLit("SourceError", "sourceError"),
			New:    "\t\tmeta.SetStatusCondition(objectTemplate.GetConditions(),\n\t\t\tinvalidCondition(objectTemplate.GetGeneration(), \"SourceError\", sourceError.Error()))\n",
			More:   []Edit{{File: tr, Old: invHelperAt, New: invHelper("metav1.ConditionTrue", "\tif len(message) > 1024 {\n\t\treturn metav1.Condition{Type: corev1alpha1.ObjectTemplateInvalid + \"Message\", Status: metav1.ConditionTrue, ObservedGeneration: observedGeneration, Reason: reason}\n\t}\n") + invHelperAt}},
			Expect: []string{"C18.R4@internal/controllers/objecttemplate.setObjectTemplateConditionBasedOnError#Invalid-SourceError"}},
		Mutant{Prop: "C18", Name: "r4-field-assigned-condition-status-not-on-every-path", File: tr,
			Old:    invLit("SourceError", "sourceError"),
			New:    "\t\tconds := objectTemplate.GetConditions()\n\t\tvar cond metav1.Condition\n\t\tcond.Type = corev1alpha1.ObjectTemplateInvalid\n\t\tif sourceError.Err != nil {\n\t\t\tcond.Status = metav1.ConditionTrue\n\t\t}\n\t\tcond.ObservedGeneration = objectTemplate.GetGeneration()\n\t\tcond.Reason = \"SourceError\"\n\t\tcond.Message = sourceError.Error()\n\t\tmeta.SetStatusCondition(conds, cond)\n",
			Expect: []string{"C18.R4@internal/controllers/objecttemplate.setObjectTemplateConditionBasedOnError#Invalid-SourceError"}},

		// ---- R5
		Mutant{Prop: "C18", Name: "r5-finalizer-removed-without-free", File: tc,
			Old:    freeBlock,
			New:    "\t\tif err := controllers.RemoveFinalizer(\n\t\t\tctx, c.client, objectTemplate.ClientObject(), \"package-operator.run/cached\"); err != nil {\n\t\t\treturn ctrl.Result{}, err\n\t\t}\n\t\treturn ctrl.Result{}, nil\n",
			Expect: []string{"C18.R5@"}},
		Mutant{Prop: "C18", Name: "r5-deleted-template-still-reconciled", File: tc,
			Old:    freeBlock,
			New:    "\t\tif err := controllers.FreeCacheAndRemoveFinalizer(\n\t\t\tctx, c.client, objectTemplate.ClientObject(), c.dynamicCache); err != nil {\n\t\t\treturn ctrl.Result{}, err\n\t\t}\n",
			Expect: []string{"C18.R5@"}},
		Mutant{Prop: "C18", Name: "r5-finalizer-removed-before-free", File: ctl,
			Old:    "\tif err := cache.Free(ctx, obj); err != nil {\n\t\treturn fmt.Errorf(\"free cache: %w\", err)\n\t}\n\n\treturn RemoveFinalizer(ctx, c, obj, constants.CachedFinalizer)\n",
			New:    "\tif err := RemoveFinalizer(ctx, c, obj, constants.CachedFinalizer); err != nil {\n\t\treturn err\n\t}\n\tif err := cache.Free(ctx, obj); err != nil {\n\t\treturn fmt.Errorf(\"free cache: %w\", err)\n\t}\n\treturn nil\n",
			Expect: []string{"C18.R5@"}},
		Mutant{Prop: "C18", Name: "r5-free-error-ignored", File: ctl,
			Old:    "\tif err := cache.Free(ctx, obj); err != nil {\n\t\treturn fmt.Errorf(\"free cache: %w\", err)\n\t}\n\n\treturn RemoveFinalizer(ctx, c, obj, constants.CachedFinalizer)\n",
			New:    "\t_ = cache.Free(ctx, obj)\n\n\treturn RemoveFinalizer(ctx, c, obj, constants.CachedFinalizer)\n",
			Expect: []string{"C18.R5@"}},
		Mutant{Prop: "C18", Name: "r5-benign-timestamp-local", File: tc, Benign: true,
			Old: "\tif !objectTemplate.ClientObject().GetDeletionTimestamp().IsZero() {\n\t\tif err := controllers.FreeCacheAndRemoveFinalizer(",
			New: "\tif ts := objectTemplate.ClientObject().GetDeletionTimestamp(); !ts.IsZero() {\n\t\tif err := controllers.FreeCacheAndRemoveFinalizer("},
	)

	// ---- shapes met in the refactoring corpus (round two): a lookup that became a plain function
	// (merged into its caller by the normaliser), an extracted boolean predicate in the enqueue loop,
	// a rendering step whose error is swallowed inside the templating function
	const lookupCall = "\t\tfound, err := r.lookupUncached(ctx, src, objectKey, sourceObj)\n"
	const lookupCallFn = "\t\tfound, err := lookupUncached(ctx, r.uncachedClient, src, objectKey, sourceObj)\n"
	const lookupHead = "func (r *templateReconciler) lookupUncached(\n\tctx context.Context, src corev1alpha1.ObjectTemplateSource, key client.ObjectKey, obj client.Object,\n) (found bool, err error) {\n\tif err := r.uncachedClient.Get(ctx, key, obj); apimachineryerrors.IsNotFound(err) {\n"
	const lookupHeadFn = "func lookupUncached(\n\tctx context.Context, uncachedClient client.Reader,\n\tsrc corev1alpha1.ObjectTemplateSource, key client.ObjectKey, obj client.Object,\n) (found bool, err error) {\n\tif err := uncachedClient.Get(ctx, key, obj); apimachineryerrors.IsNotFound(err) {\n"
	const optionalOrError = "\t\tif src.Optional {\n\t\t\t// just skip this one if it's optional.\n\t\t\treturn false, nil\n\t\t}\n\t\treturn false, &SourceError{Source: obj, Err: err}\n"
	const gkFilter = "\t\tif ownerRef.Kind != e.groupKind.Kind ||\n\t\t\townerRef.Group != e.groupKind.Group {\n\t\t\tcontinue\n\t\t}\n"
	const enqueueDoc = "// parseOwnerTypeGroupKind parses the WatcherType into a Group and Kind and caches the result."
	predicate := func(extra string) string {
		return "// isWatcherType reports whether the owner has the Group and Kind of WatcherType.\nfunc (e *EnqueueWatchingObjects) isWatcherType(ownerRef OwnerReference) bool {\n\treturn ownerRef.Kind == e.groupKind.Kind &&\n\t\townerRef.Group == e.groupKind.Group" + extra + "\n}\n\n" + enqueueDoc
	}
	addMutants(
		Mutant{Prop: "C18", Name: "r1-benign-lookup-as-plain-function", File: tr, Benign: true,
			Old:  lookupCall,
			New:  lookupCallFn,
			More: []Edit{{File: tr, Old: lookupHead, New: lookupHeadFn}}},
		Mutant{Prop: "C18", Name: "r1-plain-function-lookup-treats-required-as-optional", File: tr,
			Old:    lookupCall,
			New:    lookupCallFn,
			More:   []Edit{{File: tr, Old: lookupHead, New: lookupHeadFn}, {File: tr, Old: optionalOrError, New: "\t\treturn false, nil\n"}},
			Expect: []string{"C18.R1@"}},
		Mutant{Prop: "C18", Name: "r4-plain-function-lookup-loses-notfound", File: tr,
			Old:    lookupCall,
			New:    lookupCallFn,
			More:   []Edit{{File: tr, Old: lookupHead, New: lookupHeadFn}, {File: tr, Old: "\t\treturn false, &SourceError{Source: obj, Err: err}\n", New: "\t\treturn false, &SourceError{Source: obj, Err: errors.New(\"source not found\")}\n"}},
			Expect: []string{"C18.R4@"}},
		Mutant{Prop: "C18", Name: "r1-plain-function-lookup-found-on-notfound", File: tr,
			Old:    lookupCall,
			New:    lookupCallFn,
			More:   []Edit{{File: tr, Old: lookupHead, New: lookupHeadFn}, {File: tr, Old: "\t\t\t// just skip this one if it's optional.\n\t\t\treturn false, nil\n", New: "\t\t\treturn true, nil\n"}},
			Expect: []string{"C18.R1@"}},
		Mutant{Prop: "C18", Name: "r1-benign-enqueue-predicate-helper", File: enq, Benign: true,
			Old:  gkFilter,
			New:  "\t\tif !e.isWatcherType(ownerRef) {\n\t\t\tcontinue\n\t\t}\n",
			More: []Edit{{File: enq, Old: enqueueDoc, New: predicate("")}}},
		Mutant{Prop: "C18", Name: "r1-enqueue-predicate-helper-also-filters-namespace", File: enq,
			Old:    gkFilter,
			New:    "\t\tif !e.isWatcherType(ownerRef) {\n\t\t\tcontinue\n\t\t}\n",
			More:   []Edit{{File: enq, Old: enqueueDoc, New: predicate(" && ownerRef.Namespace != \"\"")}},
			Expect: []string{"C18.R1@"}},
		Mutant{Prop: "C18", Name: "r1-enqueue-predicate-helper-inverted", File: enq,
			Old:    gkFilter,
			New:    "\t\tif e.isWatcherType(ownerRef) {\n\t\t\tcontinue\n\t\t}\n",
			More:   []Edit{{File: enq, Old: enqueueDoc, New: predicate("")}},
			Expect: []string{"C18.R1@"}},
		Mutant{Prop: "C18", Name: "r2-transform-error-only-logged", File: tr,
			Old:    "\tif err != nil {\n\t\treturn fmt.Errorf(\"rendering template: %w\", err)\n\t}\n",
			New:    "\tif err != nil {\n\t\tlogr.FromContextOrDiscard(ctx).Error(err, \"rendering template\")\n\t}\n",
			Expect: []string{"C18.R2@"}},
		// ---- round T: the group/kind filter as one struct comparison
		Mutant{Prop: "C18", Name: "r1-benign-enqueue-groupkind-struct-compare", File: enq, Benign: true,
			Old: gkFilter,
			New: "\t\tif ownerRef.GroupKind != e.groupKind {\n\t\t\tcontinue\n\t\t}\n"},
		Mutant{Prop: "C18", Name: "r1-struct-compare-plus-namespace-filter", File: enq,
			Old:    gkFilter,
			New:    "\t\tif ownerRef.GroupKind != e.groupKind || ownerRef.Namespace != obj.GetNamespace() {\n\t\t\tcontinue\n\t\t}\n",
			Expect: []string{"C18.R1@"}},
		Mutant{Prop: "C18", Name: "r1-struct-compare-with-event-kind", File: enq,
			Old:    gkFilter,
			New:    "\t\tif ownerRef.GroupKind != gvk.GroupKind() {\n\t\t\tcontinue\n\t\t}\n",
			Expect: []string{"C18.R1@"}, Why: "owners are filtered by the kind of the event object instead of the watcher type: no ObjectTemplate is ever enqueued"},
	)
}

// Round seven (X1): the template checker list built by make + append instead of a literal.
func init() {
	const tc = "internal/controllers/objecttemplate/objecttemplate_controller.go"
	list := "\t\t\tpreflight.NewAPIExistence(\n\t\t\t\trestMapper,\n\t\t\t\tpreflight.List{\n\t\t\t\t\tpreflight.NewNoOwnerReferences(restMapper),\n\t\t\t\t\tpreflight.NewEmptyNamespaceNoDefault(restMapper),\n\t\t\t\t\tpreflight.NewNamespaceEscalation(restMapper),\n\t\t\t\t},\n\t\t\t),\n"
	ctl := "\tcontroller := &GenericObjectTemplateController{\n\t\tnewObjectTemplate: newObjectTemplate,\n"
	appended := func(name, build string, expect ...string) Mutant {
		return Mutant{Prop: "C18", Name: name, File: tc, Old: list, New: "\t\t\tpreflight.NewAPIExistence(restMapper, checks),\n",
			More: []Edit{{File: tc, Old: ctl, New: build + ctl}}, Benign: len(expect) == 0, Expect: expect}
	}
	wiring := "C18.R3@internal/controllers/objecttemplate.newGenericObjectTemplateController#checker-wiring"
	addMutants(
		appended("r3-benign-template-checks-appended-to-made-list", "\tchecks := make(preflight.List, 0, 3)\n\tchecks = append(checks,\n\t\tpreflight.NewNoOwnerReferences(restMapper),\n\t\tpreflight.NewEmptyNamespaceNoDefault(restMapper),\n\t\tpreflight.NewNamespaceEscalation(restMapper),\n\t)\n"),
		appended("r3-benign-template-checks-appended-one-by-one", "\tchecks := make(preflight.List, 0, len(cfg.OptionalResourceRetryInterval.String()))\n\tchecks = append(checks, preflight.NewNoOwnerReferences(restMapper))\n\tchecks = append(checks, preflight.NewEmptyNamespaceNoDefault(restMapper))\n\tchecks = append(checks, preflight.NewNamespaceEscalation(restMapper))\n"),
		appended("r3-appended-template-checks-without-namespace-escalation", "\tchecks := make(preflight.List, 0, 3)\n\tchecks = append(checks,\n\t\tpreflight.NewNoOwnerReferences(restMapper),\n\t\tpreflight.NewEmptyNamespaceNoDefault(restMapper),\n\t)\n", wiring),
		appended("r3-template-checks-appended-in-a-loop-that-may-not-run", "\tchecks := make(preflight.List, 0, 3)\n\tfor i := 0; i < int(cfg.ResourceRetryInterval.Seconds()); i++ {\n\t\tchecks = append(checks,\n\t\t\tpreflight.NewNoOwnerReferences(restMapper),\n\t\t\tpreflight.NewEmptyNamespaceNoDefault(restMapper),\n\t\t\tpreflight.NewNamespaceEscalation(restMapper),\n\t\t)\n\t}\n", wiring),
		appended("r3-appended-template-checks-overwritten-through-shared-array", "\tbase := make(preflight.List, 0, 3)\n\tchecks := append(base,\n\t\tpreflight.NewNoOwnerReferences(restMapper),\n\t\tpreflight.NewEmptyNamespaceNoDefault(restMapper),\n\t\tpreflight.NewNamespaceEscalation(restMapper),\n\t)\n\t_ = append(base, preflight.NewEmptyNamespaceNoDefault(restMapper), preflight.NewEmptyNamespaceNoDefault(restMapper), preflight.NewEmptyNamespaceNoDefault(restMapper))\n", wiring),
	)
}
