package main

import (
	"fmt"
	"go/token"
	"go/types"
	"sort"
	"strings"

	"golang.org/x/tools/go/ssa"
)

// C13 — Rendering is deterministic and loses/duplicates nothing.

const (
	pkgSprig     = "github.com/Masterminds/sprig/v3"
	pkgCelCtx    = pkgPkgRender + "/celctx"
	pkgTextTmpl  = "text/template"
	pkgAPIManif  = modPKO + "/apis/manifests/v1alpha1"
	pkgPkgStruct = modPKO + "/internal/packages/internal/packagestructure"
)

func init() {
	register(&Property{
		ID: "C13",
		Explanation: "Decides structural necessary conditions of deterministic, conserving rendering on the current source: (R1) every range over a Go map in the render call graph " +
			"(static closure of RenderPackageInstance / RenderObjectSetTemplateSpec / RenderTemplates / RenderObjects*, internal/transform, celctx, ComputeFNV32Hash, desiredObjectDeployment and the " +
			"validators wired into DefaultPackageValidators / DefaultObjectValidators) is order-insensitive by construction or sorts what it collected before use; the sprig functions known to " +
			"iterate maps unsorted are not admitted; (R2) text/template function tables are built only by the repository's constructors, sprig functions enter only through the allow-list " +
			"guard, the allow-list is disjoint from the frozen list of non-hermetic sprig names, and no function in the render call graph (thorough tier: nor any admitted sprig function, through " +
			"third-party code down to the standard library boundary) calls clock / randomness / environment / network / host-file APIs; (R3) the phase collector adds every object exactly once to the " +
			"phase its annotation names, drops only what the phase-annotation validator rejects, skips only empty phases and orders phases by manifest index; (R4) every control annotation the " +
			"renderer reads is deleted from the stored copy and both package labels are merged into every parsed object; (R5) objects are concatenated per sorted path in document order and " +
			"not reordered afterwards; (R6) the template hash is computed with sorted map keys and without pointer addresses. " +
			"Assumes (trusted): external callees not named like mutators only read shared arguments; call results computed inside an iteration are fresh.",
		NotDecided: []string{"equality of two renders as values", "CEL / go-template evaluation results", "YAML decoding and document splitting (sigs.k8s.io/yaml, SplitYAMLDocuments)",
			"interface dispatch inside third-party libraries (A10 follows static calls, closures and function values only)",
			"template names defined more than once (excluded by the property's quantifier)"},
		Technique: "SSA map-iteration-order lint (A9) + static call-graph effect reachability (A10) + guard-dominance dataflow + constructor wiring (A11) + must-follow path analysis",
		Rules: []Rule{
			{ID: "C13.R1", Min: 15, Run: c13r1, Statement: "every range over a map in the render call graph is order-insensitive or sorts what it collected before use; admitted sprig functions do not expose map iteration order"},
			{ID: "C13.R2", Min: 10, Run: c13r2, Statement: "template function tables come only from the repository's constructors; sprig functions are copied only under the allow-list guard; the allow-list names no non-hermetic sprig function; the render call graph reaches no clock / randomness / environment / network / host-file API"},
			{ID: "C13.R2d", Min: 150, Deep: true, Run: c13r2deep, Statement: "(thorough) every sprig function admitted by the allow-list, followed through sprig and third-party code to the standard-library boundary, reaches no clock / randomness / environment / network / host-file API, is not in sprig's own non-hermetic list, and has no order-sensitive map iteration that the frozen table misses"},
			{ID: "C13.R3", Min: 5, Run: c13r3, Statement: "phase collection conserves objects: addObjects runs exactly once per object, drops only objects whose phase is not in the manifest (rejected by ObjectPhaseAnnotationValidator, which is wired in), Collect skips only empty phases and orders by manifest index"},
			{ID: "C13.R4", Min: 6, Run: c13r4, Statement: "every control annotation read while rendering is deleted from the annotations stored on the collected object; both package labels are merged into every non-empty parsed document"},
			{ID: "C13.R5", Min: 3, Run: c13r5, Statement: "objects are concatenated per sorted path, documents in split order, and are not reordered between concatenation and phase collection"},
			{ID: "C13.R6", Min: 2, Run: c13r6, Statement: "the template hash prints maps with sorted keys, without methods and pointer addresses, and adds only the collision counter"},
		},
	})
}

// ---------------------------------------------------------------------------------------------
// The render function set

type c13Set struct {
	roots   []*ssa.Function
	closure *closureResult
}

// c13ValidatorRoots resolves (A11) the validators that rendering actually runs: the elements of
// DefaultPackageValidators / DefaultObjectValidators plus the list types and the scope validator
// appended in NewPackageDeployer.
func c13ValidatorRoots(c *Ctx) []*ssa.Function {
	p := c.P
	var out []*ssa.Function
	for _, spec := range []struct{ global, method string }{
		{"DefaultPackageValidators", "ValidatePackage"},
		{"DefaultObjectValidators", "ValidateObjects"},
	} {
		ts, ok := p.ifaceListElemTypes(pkgPkgValid, spec.global)
		if !ok || len(ts) == 0 {
			c.AnchorLost(pkgPkgValid + "." + spec.global + " (slice literal of validators)")
			continue
		}
		for _, t := range ts {
			m := p.methodOf(t, spec.method)
			if m == nil {
				c.AnchorLost(fmt.Sprintf("%s.%s of %s", pkgPkgValid, spec.method, t))
				continue
			}
			out = append(out, m)
		}
	}
	for _, n := range []string{"(PackageValidatorList).ValidatePackage", "(ObjectValidatorList).ValidateObjects", "(PackageScopeValidator).ValidatePackage"} {
		if f := c.MustFunc(pkgPkgValid, n); f != nil {
			out = append(out, f)
		}
	}
	return out
}

func c13RenderSet(c *Ctx) *c13Set {
	p := c.P
	var roots []*ssa.Function
	for _, n := range []string{"RenderPackageInstance", "RenderObjectSetTemplateSpec", "RenderTemplates", "RenderObjects", "RenderObjectsWithFilterInfo", "RenderObjectsWithFilter"} {
		if f := c.MustFunc(pkgPkgRender, n); f != nil {
			roots = append(roots, f)
		}
	}
	if f := c.MustFunc(pkgUtils, "ComputeFNV32Hash"); f != nil {
		roots = append(roots, f)
	}
	if f := c.MustFunc(pkgPkgDeploy, "(*PackageDeployer).desiredObjectDeployment"); f != nil {
		roots = append(roots, f)
	}
	for _, pk := range []string{pkgTransform, pkgCelCtx} {
		fs := p.FuncsIn(pk)
		if len(fs) == 0 {
			c.AnchorLost("package " + pk)
		}
		roots = append(roots, fs...)
	}
	roots = append(roots, c13ValidatorRoots(c)...)
	cl := callClosure(roots, func(f *ssa.Function) bool { return p.isWorkspaceFunc(f) && !isNonProductPkg(funcPkgPathAny(f)) })
	for f := range cl.Set {
		c.Visit(f)
	}
	return &c13Set{roots: roots, closure: cl}
}

// ---------------------------------------------------------------------------------------------
// R1 — map-order lint

// sprigMapOrderDependent: sprig functions (v3) whose result exposes Go map iteration order, from
// reading dict.go: keys/values append while ranging over the dict(s) and return unsorted.
// The thorough tier re-derives this table from sprig's source (C13.R2d).
var sprigMapOrderDependent = map[string]string{
	"keys":   "sprig.keys appends the keys of each dict while ranging over it and returns them unsorted",
	"values": "sprig.values appends the values while ranging over the dict and returns them unsorted",
}

func c13r1(c *Ctx) {
	p := c.P
	set := c13RenderSet(c)
	for _, fn := range set.closure.Order {
		for _, mr := range mapRangesIn(fn) {
			notes, probs := p.classifyMapRange(mr)
			construct := "range(" + p.describe(mr.Range.X) + ")"
			if len(probs) == 0 {
				c.Ob(fn, construct, mr.Range, c.rule.Statement).OK(notes...)
				continue
			}
			for _, pr := range probs {
				o := c.Ob(fn, pr.Kind, pr.At, c.rule.Statement).Note("loop: " + construct + " at " + p.IPos(mr.Range)).Note(notes...)
				if pr.Unknown {
					o.Unknown("%s", pr.Detail)
				} else {
					o.Fail("%s", pr.Detail)
				}
			}
		}
	}
	// map iteration that does not show up as ssa.Range (library helpers, reflection): every reference
	// is one site. Iterators that are sorted or collected into a slice are judged like the hand-written
	// loop (sorted before use); every other form is not analysed, so not accepted
	for _, fn := range set.closure.Order {
		for _, b := range fn.Blocks {
			for _, in := range b.Instrs {
				for _, g := range referencedFuncs(in) {
					id := g.String()
					if o := g.Origin(); o != nil {
						id = o.String()
					}
					if _, isHelper := mapIterHelpers[id]; !isHelper {
						continue
					}
					notes, probs := p.classifyMapIterHelper(in, id)
					o := c.Ob(fn, "map-iteration-helper:"+g.Name(), in, c.rule.Statement).Note(notes...)
					switch {
					case len(probs) == 0:
						o.OK()
					case probs[0].Unknown:
						o.Unknown("%s", probs[0].Detail)
					default:
						o.Fail("%s", probs[0].Detail)
					}
				}
			}
		}
	}
	// admitted sprig functions that expose map order (frozen table; source-checked in the thorough tier)
	allow, anchor := c13AllowList(c)
	if allow == nil {
		return
	}
	names := make([]string, 0, len(sprigMapOrderDependent))
	for n := range sprigMapOrderDependent {
		names = append(names, n)
	}
	sort.Strings(names)
	for _, n := range names {
		if allow[n] {
			c.Ob(anchor, "allowedFuncNames#"+n, nil, "no admitted sprig function exposes map iteration order").Fail("template function %q is admitted: %s", n, sprigMapOrderDependent[n])
		}
	}
	c.Ob(anchor, "allowedFuncNames-map-order-table", nil, "allow-list literal resolved and compared with the table of map-order-dependent sprig functions").OK(fmt.Sprintf("%d admitted names", len(allow)))
}

// c13AllowList resolves the allowedFuncNames literal (package-level map initialised in init) and
// returns the anchor function used for obligation keys (SprigFuncs).
func c13AllowList(c *Ctx) (map[string]bool, *ssa.Function) {
	p := c.P
	anchor := c.MustFunc(pkgTransform, "SprigFuncs")
	if anchor == nil {
		return nil, nil
	}
	v, _ := p.globalInitValue(pkgTransform, c13AllowListName(p))
	if v == nil {
		c.AnchorLost(pkgTransform + ".allowedFuncNames (package-level map literal)")
		return nil, anchor
	}
	kv, ok := mapLiteral(v)
	if !ok || len(kv) == 0 {
		c.AnchorLost(pkgTransform + ".allowedFuncNames is not a map literal with constant string keys")
		return nil, anchor
	}
	// the map must not be modified anywhere else
	for _, fn := range p.FuncsIn(pkgTransform) {
		for _, b := range fn.Blocks {
			for _, in := range b.Instrs {
				var m ssa.Value
				switch x := in.(type) {
				case *ssa.MapUpdate:
					m = x.Map
				case ssa.CallInstruction:
					if bi, isB := x.Common().Value.(*ssa.Builtin); isB && (bi.Name() == "delete" || bi.Name() == "clear") && len(x.Common().Args) > 0 {
						m = x.Common().Args[0]
					}
				}
				if m != nil && c13IsGlobalLoad(m, pkgTransform, c13AllowListName(p)) {
					c.Ob(fn, "allowedFuncNames-modified", in, "the allow-list is a literal").Fail("allow-list is modified at run time")
				}
			}
		}
	}
	out := map[string]bool{}
	for k := range kv {
		out[k] = true
	}
	return out, anchor
}

// c13AllowListName resolves the current name of the allow-list variable semantically (a rename of
// the package-level variable must not lose the anchor): the package-level map with string keys of
// internal/transform that SprigFuncs (resolved with rename tracking) consults with a comma-ok lookup.
// Falls back to the recorded name when that is not unique. Obligation keys keep the recorded label.
func c13AllowListName(p *Program) string {
	const recorded = "allowedFuncNames"
	anchor := p.Func(pkgTransform, "SprigFuncs")
	if anchor == nil {
		return recorded
	}
	names := map[string]bool{}
	var walk func(f *ssa.Function)
	walk = func(f *ssa.Function) {
		for _, b := range f.Blocks {
			for _, in := range b.Instrs {
				lk, ok := in.(*ssa.Lookup)
				if !ok || !lk.CommaOk {
					continue
				}
				u, ok := stripConv(lk.X).(*ssa.UnOp)
				if !ok || u.Op != token.MUL {
					continue
				}
				g, ok := u.X.(*ssa.Global)
				if !ok || g.Pkg == nil || g.Pkg.Pkg.Path() != pkgTransform {
					continue
				}
				if mt, isMap := g.Type().(*types.Pointer).Elem().Underlying().(*types.Map); isMap {
					if bt, isB := mt.Key().Underlying().(*types.Basic); isB && bt.Info()&types.IsString != 0 {
						names[g.Name()] = true
					}
				}
			}
		}
		for _, af := range f.AnonFuncs {
			walk(af)
		}
	}
	walk(anchor)
	if len(names) == 1 {
		for n := range names {
			return n
		}
	}
	return recorded
}

func c13IsGlobalLoad(v ssa.Value, pkg, name string) bool {
	u, ok := stripConv(v).(*ssa.UnOp)
	if !ok || u.Op != token.MUL {
		return false
	}
	g, ok := u.X.(*ssa.Global)
	return ok && g.Name() == name && g.Pkg != nil && g.Pkg.Pkg.Path() == pkg
}

// ---------------------------------------------------------------------------------------------
// R2 — hermetic templates

// sprigNonHermetic: frozen deny-list of sprig (v3.2/v3.3) template function names that read the
// clock, randomness, the environment, the network, or generate key material.
var sprigNonHermetic = []string{
	"now", "date", "dateInZone", "date_in_zone", "dateModify", "date_modify", "mustDateModify", "must_date_modify", "ago", "toDate", "mustToDate",
	"unixEpoch", "htmlDate", "htmlDateInZone", "duration", "durationRound",
	"randAlphaNum", "randAlpha", "randAscii", "randNumeric", "randBytes", "randInt", "uuidv4", "shuffle",
	"env", "expandenv", "getHostByName",
	"genPrivateKey", "derivePassword", "buildCustomCert", "genCA", "genCAWithKey", "genSelfSignedCert", "genSelfSignedCertWithKey",
	"genSignedCert", "genSignedCertWithKey", "encryptAES", "decryptAES", "htpasswd", "bcrypt",
	"osBase", "osClean", "osDir", "osExt", "osIsAbs",
}

// sprigMapFuncs: sprig entry points returning the template function table.
var sprigMapFuncs = []string{pkgSprig + ".FuncMap", pkgSprig + ".TxtFuncMap", pkgSprig + ".GenericFuncMap", pkgSprig + ".HermeticTxtFuncMap", pkgSprig + ".HtmlFuncMap", pkgSprig + ".HermeticHtmlFuncMap"}

func c13r2(c *Ctx) {
	p := c.P
	// (a) every (*template.Template).Funcs call site takes the result of a repository constructor
	ctors := map[*ssa.Function]bool{}
	for _, fn := range p.productFuncs() {
		for _, call := range callsIn(fn) {
			if !isCallTo(call.Common, "(*"+pkgTextTmpl+".Template).Funcs", "(*html/template.Template).Funcs") {
				continue
			}
			o := c.Ob(fn, "Template.Funcs", call.Instr, "the function table handed to the template comes from a repository constructor (SprigFuncs / FileFuncs / celTemplateFunction)")
			args := callArgs(call.Common)
			if len(args) != 1 {
				o.Unknown("unexpected arity")
				continue
			}
			src, _ := asCall(args[0])
			if src == nil {
				// the table may be built in place (a single-use constructor merged into its caller):
				// then this function is the constructor and the entries of the literal are judged here
				if maps, okLit := c13LocalFuncMaps(p, args[0]); okLit {
					o.OK("built in place in " + shortFuncID(fn))
					c13CheckFuncMapEntries(c, c.Ob(fn, "funcmap-constructor", call.Instr, "a template function table contains only repository functions and allow-listed sprig functions"), fn, maps, call.Instr)
					continue
				}
				o.Fail("function table %s is not the direct result of a constructor call", p.describe(args[0]))
				continue
			}
			g := staticCallee(src.Common())
			if g == nil || !p.isWorkspaceFunc(g) || !funcHasBody(g) {
				o.Fail("function table comes from %s, which is not a repository function", calleeID(src.Common()))
				continue
			}
			ctors[g] = true
			o.OK("built by " + shortFuncID(g))
		}
	}
	// each constructor builds its map only from repository functions and the guarded sprig copy
	var ctorList []*ssa.Function
	for g := range ctors {
		ctorList = append(ctorList, g)
	}
	sort.Slice(ctorList, func(i, j int) bool { return ctorList[i].String() < ctorList[j].String() })
	allow, anchor := c13AllowList(c)
	for _, g := range ctorList {
		c13CheckFuncMapCtor(c, g)
	}
	// (c quick) allow-list vs frozen deny-list
	if allow != nil {
		bad := 0
		for _, n := range sprigNonHermetic {
			if allow[n] {
				bad++
				c.Ob(anchor, "allowedFuncNames!"+n, nil, "the allow-list names no non-hermetic sprig function").Fail("non-hermetic sprig function %q is on the allow-list", n)
			}
		}
		if bad == 0 {
			c.Ob(anchor, "allowedFuncNames-vs-denylist", nil, "the allow-list names no non-hermetic sprig function").OK(fmt.Sprintf("%d admitted names, none of the %d frozen non-hermetic sprig names", len(allow), len(sprigNonHermetic)))
		}
	}
	// (d) repository functions of the render call graph reach no sink
	set := c13RenderSet(c)
	hits := set.closure.sinksReachable()
	for _, h := range hits {
		c.Ob(h.Site.Parent(), "sink:"+h.name(), h.Site, "no function of the render call graph calls a non-hermetic API").Fail("%s (%s) is reachable: %s", h.name(), h.Why, h.Path)
	}
	// positive control for the sink matcher: the same matcher must find time.Now in the workspace
	ctrl := false
	for _, f := range p.FuncsIn(pkgObjectSets) {
		for _, call := range callsIn(f) {
			if g := staticCallee(call.Common); g != nil && sinkOf(g) != "" {
				ctrl = true
			}
		}
	}
	o := c.Ob(nil, "render-call-graph-sinks", nil, "no function of the render call graph calls a non-hermetic API")
	switch {
	case !ctrl:
		o.Fail("reason=anchor-lost: positive control failed — the sink matcher no longer finds time.Now in %s", pkgObjectSets)
	case len(hits) == 0:
		o.OK(fmt.Sprintf("%d functions in the render call graph, %d external callees, no sink; control: matcher finds time.Now in objectsets", len(set.closure.Set), len(set.closure.Leaves)))
	default:
		o.Fail("%d sink(s) reachable", len(hits))
	}
}

// c13CheckFuncMapCtor: the constructor returns a map whose entries are repository functions
// (functions, closures, results of repository closure factories) or come from the guarded copy of
// sprig's table.
func c13CheckFuncMapCtor(c *Ctx, g *ssa.Function) {
	p := c.P
	o := c.Ob(g, "funcmap-constructor", nil, "a template function table contains only repository functions and allow-listed sprig functions")
	var maps []*ssa.MakeMap
	okShape := true
	for _, rc := range p.returnCases(g) {
		if len(rc.Results) == 0 {
			continue
		}
		v := stripConv(rc.Results[0])
		if isNilConst(v) {
			continue
		}
		mm, ok := v.(*ssa.MakeMap)
		if !ok {
			okShape = false
			o.Unknown("returns %s, which is not a map built in the constructor", p.describe(v))
			break
		}
		maps = append(maps, mm)
	}
	if !okShape {
		return
	}
	if len(maps) == 0 {
		o.Unknown("no returned map literal found")
		return
	}
	c13CheckFuncMapEntries(c, o, g, maps, nil)
}

// c13LocalFuncMaps: every value v can stand for is a map made in v's own function (`template.FuncMap{…}`
// or `m := template.FuncMap{}; m[k] = f` handed on directly, possibly converted or merged by a Phi).
func c13LocalFuncMaps(p *Program, v ssa.Value) ([]*ssa.MakeMap, bool) {
	var maps []*ssa.MakeMap
	seen := map[ssa.Value]bool{}
	var walk func(v ssa.Value, d int) bool
	walk = func(v ssa.Value, d int) bool {
		v = stripConv(v)
		if seen[v] {
			return true
		}
		seen[v] = true
		switch x := v.(type) {
		case *ssa.MakeMap:
			maps = append(maps, x)
			return true
		case *ssa.Phi:
			if d <= 0 {
				return false
			}
			for _, e := range x.Edges {
				if !walk(e, d-1) {
					return false
				}
			}
			return true
		}
		return false
	}
	if !walk(v, 3) || len(maps) == 0 {
		return nil, false
	}
	return maps, true
}

// c13CheckFuncMapEntries judges the function tables `maps` built in g. sink == nil: g is a
// constructor that returns the table. sink != nil: the table is built in place and handed to the
// call `sink` ((*template.Template).Funcs); then every other way the map could leave g or be filled
// elsewhere (another call, a store, a capture) is a problem.
func c13CheckFuncMapEntries(c *Ctx, o *Obligation, g *ssa.Function, maps []*ssa.MakeMap, sink ssa.Instruction) {
	p := c.P
	var problems, notes []string
	guarded := 0
	for _, mm := range maps {
		// the map and its value-preserving conversions (map[string]any <-> template.FuncMap)
		aliases := []ssa.Value{mm}
		isAlias := map[ssa.Value]bool{mm: true}
		for i := 0; i < len(aliases); i++ {
			for _, r := range referrersOf(aliases[i]) {
				switch x := r.(type) {
				case *ssa.ChangeType:
					if !isAlias[x] {
						isAlias[x] = true
						aliases = append(aliases, x)
					}
				case *ssa.Phi:
					if sink != nil && !isAlias[x] {
						isAlias[x] = true
						aliases = append(aliases, x)
					}
				}
			}
		}
		for _, a := range aliases {
			for _, r := range referrersOf(a) {
				switch x := r.(type) {
				case *ssa.MapUpdate:
					if !isAlias[x.Map] {
						if sink != nil {
							problems = append(problems, "the table is stored into another map at "+p.IPos(x))
						}
						continue
					}
					kind, why := c13FuncMapValue(p, g, x)
					switch kind {
					case "repo":
					case "sprig-guarded":
						guarded++
						notes = append(notes, why)
					default:
						problems = append(problems, why+" at "+p.IPos(x))
					}
				case *ssa.DebugRef, *ssa.ChangeType, *ssa.Lookup, *ssa.Phi:
				case *ssa.Return, *ssa.MakeInterface:
					if sink != nil {
						problems = append(problems, "the table built in place also leaves "+shortFuncID(g)+" at "+p.IPos(x))
					}
				case ssa.CallInstruction:
					if sink != nil && x == sink {
						continue
					}
					if sink != nil {
						if isCallTo(x.Common(), "(*"+pkgTextTmpl+".Template).Funcs", "(*html/template.Template).Funcs") {
							continue // another registration of the same table, judged at its own site
						}
						problems = append(problems, "map is passed to "+calleeID(x.Common())+" at "+p.IPos(x))
						continue
					}
					problems = append(problems, "map is passed to "+calleeID(x.Common())+" before being returned at "+p.IPos(x))
				default:
					if sink != nil {
						problems = append(problems, "the table built in place escapes at "+p.IPos(r))
					}
				}
			}
		}
	}
	if len(problems) > 0 {
		o.Fail("%s", strings.Join(problems, "; "))
		return
	}
	o.OK(notes...)
	if guarded > 0 {
		c.Ob(g, "sprig-copy-guard", nil, "sprig functions are copied only when their name is on the allow-list").OK(notes...)
	}
}

// c13FuncMapValue classifies one `m[k] = v` of a function-table constructor.
func c13FuncMapValue(p *Program, g *ssa.Function, mu *ssa.MapUpdate) (kind, why string) {
	v := stripConv(mu.Value)
	// value taken from ranging over sprig's table?
	if ex, ok := v.(*ssa.Extract); ok {
		if nx, isNext := ex.Tuple.(*ssa.Next); isNext && ex.Index == 2 {
			rg, _ := nx.Iter.(*ssa.Range)
			if rg != nil {
				src, _ := asCall(rg.X)
				if src != nil && isCallTo(src.Common(), sprigMapFuncs...) {
					// key must be the iteration key, and the update must be dominated by membership in the allow-list
					var key ssa.Value
					for _, r := range referrersOf(nx) {
						if e, isE := r.(*ssa.Extract); isE && e.Index == 1 {
							key = e
						}
					}
					if key == nil || stripConv(mu.Key) != key {
						return "bad", "sprig function stored under a key that is not its sprig name"
					}
					for _, f := range p.FactsAt(mu.Block()) {
						if !f.Pol {
							continue
						}
						e, isE := f.Cond.(*ssa.Extract)
						if !isE || e.Index != 1 {
							continue
						}
						lk, isL := e.Tuple.(*ssa.Lookup)
						if !isL || !lk.CommaOk {
							continue
						}
						if c13IsGlobalLoad(lk.X, pkgTransform, c13AllowListName(p)) && stripConv(lk.Index) == key {
							return "sprig-guarded", "copy of " + calleeName(src.Common()) + "()[key] is dominated by `_, ok := allowedFuncNames[key]; ok`"
						}
					}
					return "bad", "sprig function copied without a dominating allow-list membership test of its name"
				}
			}
		}
	}
	fns, ok := c13FuncValues(p, v, 3)
	if !ok {
		return "bad", "entry " + p.describe(mu.Key) + " = " + p.describe(v) + " is not a repository function, closure, or closure factory result"
	}
	for _, f := range fns {
		if !p.isWorkspaceFunc(f) {
			return "bad", "entry " + p.describe(mu.Key) + " is bound to external function " + f.String()
		}
	}
	return "repo", ""
}

// c13FuncValues resolves a function-typed map entry: function, closure, or the result of a
// repository factory that returns closures.
func c13FuncValues(p *Program, v ssa.Value, depth int) ([]*ssa.Function, bool) {
	v = stripConv(v)
	switch x := v.(type) {
	case *ssa.Function:
		return []*ssa.Function{x}, true
	case *ssa.MakeClosure:
		if f, ok := x.Fn.(*ssa.Function); ok {
			return []*ssa.Function{f}, true
		}
	case *ssa.Call:
		g := staticCallee(x.Common())
		if g == nil || !funcHasBody(g) || !p.isWorkspaceFunc(g) || depth <= 0 {
			return nil, false
		}
		var out []*ssa.Function
		for _, rc := range p.returnCases(g) {
			if len(rc.Results) != 1 {
				return nil, false
			}
			sub, ok := c13FuncValues(p, rc.Results[0], depth-1)
			if !ok {
				return nil, false
			}
			out = append(out, sub...)
		}
		return out, len(out) > 0
	}
	return nil, false
}

// c13r2deep — thorough tier: follow the admitted sprig functions into sprig and third-party code.
func c13r2deep(c *Ctx) {
	p := c.P
	allow, anchor := c13AllowList(c)
	if allow == nil {
		return
	}
	if p.Tier != "deep" {
		c.AnchorLost("deep load (dependency sources) required for C13.R2d")
		return
	}
	v, sprigInit := p.globalInitValue(pkgSprig, "genericMap")
	if v == nil {
		c.AnchorLost(pkgSprig + ".genericMap (function table literal)")
		return
	}
	table, ok := mapLiteral(v)
	if !ok {
		c.AnchorLost(pkgSprig + ".genericMap is not a map literal with constant keys")
		return
	}
	_ = sprigInit
	// sprig's own list of non-hermetic functions
	own := map[string]bool{}
	if nh, _ := p.globalInitValue(pkgSprig, "nonhermeticFunctions"); nh != nil {
		if elems, ok := sliceElems(nh); ok {
			for _, e := range elems {
				if s, isS := constString(e); isS {
					own[s] = true
				}
			}
		}
	}
	if len(own) == 0 {
		c.AnchorLost(pkgSprig + ".nonhermeticFunctions")
	}
	names := make([]string, 0, len(allow))
	for n := range allow {
		names = append(names, n)
	}
	sort.Strings(names)
	for _, n := range names {
		o := c.Ob(anchor, "sprig:"+n, nil, "admitted sprig function is hermetic and exposes no map order")
		if own[n] {
			o.Fail("%q is in sprig's own nonhermeticFunctions list", n)
			continue
		}
		val, found := table[n]
		if !found {
			o.OK("not a sprig function name (no effect: the copy loop only copies existing sprig entries)")
			continue
		}
		fns, ok := c13FuncValues(p, val, 0)
		if !ok {
			o.Unknown("sprig binds %q to %s, which is not a function or closure", n, p.describe(val))
			continue
		}
		cl := callClosure(fns, func(f *ssa.Function) bool {
			pk := funcPkgPathAny(f)
			return pk != "" && !isStdlibPkg(pk)
		})
		var problems []string
		for _, h := range cl.sinksReachable() {
			problems = append(problems, fmt.Sprintf("reaches %s (%s): %s", h.name(), h.Why, h.Path))
		}
		for f := range cl.Set {
			if why := sinkOf(f); why != "" {
				problems = append(problems, fmt.Sprintf("is/reaches %s (%s)", f.String(), why))
			}
		}
		// map-order lint one level into sprig: the bound function and the sprig functions it calls
		orderDep := false
		for _, f := range cl.Order {
			if funcPkgPathAny(f) != pkgSprig {
				continue
			}
			for _, mr := range mapRangesIn(f) {
				_, probs := p.classifyMapRange(mr)
				for _, pr := range probs {
					if !pr.Unknown {
						orderDep = true
						if _, listed := sprigMapOrderDependent[n]; !listed {
							problems = append(problems, fmt.Sprintf("exposes map iteration order (%s: %s) and is missing from the frozen table sprigMapOrderDependent", pr.Kind, pr.Detail))
						}
					}
				}
			}
		}
		if _, listed := sprigMapOrderDependent[n]; listed && !orderDep {
			o.Note("frozen table lists this function as map-order dependent but the lint no longer finds it (table stale; harmless)")
		}
		if len(problems) > 0 {
			sort.Strings(problems)
			o.Fail("%s", strings.Join(problems, "; "))
			continue
		}
		o.OK(fmt.Sprintf("%d function(s) followed", len(cl.Set)))
	}
}

// ---------------------------------------------------------------------------------------------
// R3 — conservation in phase collection

// c13Coll: the functions of the phase collector of packagerender.
type c13Coll struct{ addObjs, addOne, collect, newColl *ssa.Function }

// c13Collector resolves the collector's functions. The recorded names are tried first (function
// renames are tracked by the engine); when that fails — e.g. the unexported receiver type itself was
// renamed — they are found by role: AddObjects is the method taking ...unstructured.Unstructured,
// Collect the method of that name on the same receiver type, addObjects the method of that type
// which AddObjects calls with ...ObjectSetObject, the constructor the function returning that type.
// A role that cannot be filled uniquely is a lost anchor (fails loudly).
func c13Collector(c *Ctx) c13Coll {
	p := c.P
	r := c13Coll{
		addObjs: p.Func(pkgPkgRender, "(phaseCollector).AddObjects"),
		addOne:  p.Func(pkgPkgRender, "(phaseCollector).addObjects"),
		collect: p.Func(pkgPkgRender, "(phaseCollector).Collect"),
		newColl: p.Func(pkgPkgRender, "newPhaseCollector"),
	}
	top := func() []*ssa.Function {
		var out []*ssa.Function
		for _, fn := range p.FuncsIn(pkgPkgRender) {
			if fn.Parent() == nil && fn.Synthetic == "" && len(fn.Blocks) > 0 {
				out = append(out, fn)
			}
		}
		return out
	}
	variadicOf := func(sig *types.Signature, elem string) bool {
		if !sig.Variadic() || sig.Params().Len() == 0 {
			return false
		}
		sl, ok := sig.Params().At(sig.Params().Len() - 1).Type().Underlying().(*types.Slice)
		return ok && namedTypeString(sl.Elem()) == elem
	}
	unique := func(cands []*ssa.Function) *ssa.Function {
		if len(cands) == 1 {
			return cands[0]
		}
		return nil
	}
	if r.addObjs == nil {
		var cands []*ssa.Function
		for _, fn := range top() {
			if fn.Name() == "AddObjects" && fn.Signature.Recv() != nil && variadicOf(fn.Signature, pkgUnstr+".Unstructured") {
				cands = append(cands, fn)
			}
		}
		r.addObjs = unique(cands)
	}
	if r.addObjs != nil && r.addObjs.Signature.Recv() != nil {
		recv := r.addObjs.Signature.Recv().Type()
		if r.collect == nil {
			var cands []*ssa.Function
			for _, fn := range top() {
				if fn.Name() == "Collect" && fn.Signature.Recv() != nil && types.Identical(fn.Signature.Recv().Type(), recv) {
					cands = append(cands, fn)
				}
			}
			r.collect = unique(cands)
		}
		if r.addOne == nil {
			seen := map[*ssa.Function]bool{}
			var cands []*ssa.Function
			for _, call := range callsIn(r.addObjs) {
				h := staticCallee(call.Common)
				if h == nil || seen[h] || h.Signature.Recv() == nil || !types.Identical(h.Signature.Recv().Type(), recv) {
					continue
				}
				if variadicOf(h.Signature, pkgCoreV1+".ObjectSetObject") {
					seen[h] = true
					cands = append(cands, h)
				}
			}
			r.addOne = unique(cands)
		}
		if r.newColl == nil {
			var cands []*ssa.Function
			for _, fn := range top() {
				if fn.Signature.Recv() == nil && fn.Signature.Results().Len() == 1 && types.Identical(fn.Signature.Results().At(0).Type(), recv) {
					cands = append(cands, fn)
				}
			}
			r.newColl = unique(cands)
		}
	}
	for _, e := range []struct {
		fn   *ssa.Function
		name string
	}{{r.addObjs, "(phaseCollector).AddObjects"}, {r.addOne, "(phaseCollector).addObjects"}, {r.collect, "(phaseCollector).Collect"}, {r.newColl, "newPhaseCollector"}} {
		if e.fn == nil {
			c.AnchorLost(pkgPkgRender + "." + e.name)
		} else {
			c.Visit(e.fn)
		}
	}
	return r
}

func c13r3(c *Ctx) {
	p := c.P
	coll := c13Collector(c)
	addObjs, addOne, collect, newColl := coll.addObjs, coll.addOne, coll.collect, coll.newColl
	if addObjs == nil || addOne == nil || collect == nil || newColl == nil {
		return
	}
	// (1) AddObjects: one loop over the objs parameter; on every iteration addObjects is called exactly once
	{
		o := c.Ob(addObjs, "addObjects-once-per-object", nil, "every object handed to AddObjects is passed to addObjects exactly once, under the phase named by its phase annotation")
		var calls []Call
		for _, call := range callsIn(addObjs) {
			if staticCallee(call.Common) == addOne {
				calls = append(calls, call)
			}
		}
		loops := loopsOf(addObjs)
		switch {
		case len(calls) != 1:
			o.Fail("expected exactly one call of addObjects in AddObjects, found %d", len(calls))
		case len(loops) != 1:
			o.Unknown("expected exactly one loop in AddObjects, found %d", len(loops))
		default:
			call := calls[0]
			l := loops[0]
			var problems []string
			if il := innermostLoop(addObjs, call.Block()); !l.Body[call.Block()] || il == nil || il.Head != l.Head {
				problems = append(problems, "addObjects is not called inside the loop over the objects")
			}
			// loop iterates over the whole objs parameter by index 0..len-1
			if why := c13FullIndexLoop(p, l, addObjs.Params[len(addObjs.Params)-1]); why != "" {
				problems = append(problems, why)
			}
			// every path from the loop body's entry back to the header passes the call
			bodyEntry := c13BodyEntry(l)
			if bodyEntry == nil {
				problems = append(problems, "loop body entry not found")
			} else {
				if !c13EveryIterationPasses(l, bodyEntry, call.Instr) {
					problems = append(problems, "some path through the loop body reaches the next iteration (or leaves the loop normally) without calling addObjects (object dropped)")
				}
			}
			// the object passed derives from the iteration element, the phase from its phase annotation
			args := callArgs(call.Common)
			if len(args) != 2 {
				problems = append(problems, "unexpected addObjects arity")
			} else {
				if !c13IsAnnotationLookup(args[0], "PackagePhaseAnnotation", pkgAPIManif) {
					problems = append(problems, "phase name passed to addObjects is "+p.describe(args[0])+", not the value of the phase annotation")
				}
				elems, ok := sliceElems(args[1])
				if !ok || len(elems) != 1 {
					problems = append(problems, "addObjects does not receive exactly one object per iteration")
				}
			}
			if len(problems) == 0 {
				o.OK("single call post-dominating the loop body entry; loop covers objs[0..len)")
			} else {
				o.Fail("%s", strings.Join(problems, "; "))
			}
		}
	}
	// (2) addObjects: drops only under !ok of the phase lookup; otherwise appends all objs and writes the entry back under the same key
	{
		o := c.Ob(addOne, "drop-only-unknown-phase", nil, "addObjects drops objects only when the named phase is not in the manifest; otherwise appends them to that phase and stores the entry back")
		var problems []string
		var lookup *ssa.Lookup
		for _, b := range addOne.Blocks {
			for _, in := range b.Instrs {
				if lk, ok := in.(*ssa.Lookup); ok && lk.CommaOk && lk.X == ssa.Value(addOne.Params[0]) && lk.Index == ssa.Value(addOne.Params[1]) {
					lookup = lk
				}
			}
		}
		if lookup == nil {
			o.Unknown("comma-ok lookup c[phaseName] not found")
		} else {
			var okVal ssa.Value
			for _, r := range referrersOf(lookup) {
				if e, isE := r.(*ssa.Extract); isE && e.Index == 1 {
					okVal = e
				}
			}
			nUpd := 0
			for _, b := range addOne.Blocks {
				for _, in := range b.Instrs {
					switch x := in.(type) {
					case *ssa.MapUpdate:
						nUpd++
						if x.Map != ssa.Value(addOne.Params[0]) || x.Key != ssa.Value(addOne.Params[1]) {
							problems = append(problems, "entry is stored under a different key/map")
						}
						if okVal == nil || p.boolFromFacts(p.FactsAt(b), okVal) != yesTri {
							problems = append(problems, "entry is written even though the phase lookup failed")
						}
					}
				}
			}
			if nUpd != 1 {
				problems = append(problems, fmt.Sprintf("expected one store of the entry, found %d", nUpd))
			}
			// on the ok==true edge of the lookup test, every path to a return appends the objects and stores the entry
			tested := false
			for _, b := range addOne.Blocks {
				iff, isIf := lastIf(b)
				if !isIf || okVal == nil {
					continue
				}
				var okSucc *ssa.BasicBlock
				if iff.Cond == okVal {
					okSucc = b.Succs[0]
				} else if u, isU := iff.Cond.(*ssa.UnOp); isU && u.Op == token.NOT && u.X == okVal {
					okSucc = b.Succs[1]
				}
				if okSucc == nil || len(okSucc.Instrs) == 0 {
					continue
				}
				tested = true
				isUpd := func(in ssa.Instruction) bool { _, is := in.(*ssa.MapUpdate); return is }
				first := okSucc.Instrs[0]
				if !isUpd(first) && !p.mustFollow(first, isUpd, nil) {
					problems = append(problems, "returns without storing the objects on a path where the phase exists")
				}
			}
			if !tested {
				problems = append(problems, "the result of the phase lookup is not tested")
			}
			for _, b := range addOne.Blocks {
				for _, in := range b.Instrs {
					if mu, isMU := in.(*ssa.MapUpdate); isMU {
						if !p.mustPrecede(mu, func(x ssa.Instruction) bool { return c13IsAppendOfParam(x, addOne.Params[2]) }) {
							problems = append(problems, "entry stored without appending the objects")
						}
					}
				}
			}
			if len(problems) == 0 {
				o.OK("drop only under !ok of c[phaseName]")
			} else {
				o.Fail("%s", strings.Join(problems, "; "))
			}
		}
	}
	// (3) the dropped case is exactly what ObjectPhaseAnnotationValidator rejects, and that validator is wired in
	{
		o := c.Ob(nil, "phase-validator-wired", nil, "ObjectPhaseAnnotationValidator is an element of DefaultObjectValidators, which Deploy passes to RenderPackageInstance, and RenderObjects runs the validator before returning objects")
		var problems []string
		ts, ok := p.ifaceListElemTypes(pkgPkgValid, "DefaultObjectValidators")
		found := false
		if ok {
			for _, t := range ts {
				if namedTypeString(t) == pkgPkgValid+".ObjectPhaseAnnotationValidator" {
					found = true
				}
			}
		}
		if !found {
			problems = append(problems, "ObjectPhaseAnnotationValidator is not an element of DefaultObjectValidators")
		}
		// Deploy passes DefaultObjectValidators as the object validator
		deploy := c.MustFunc(pkgPkgDeploy, "(*PackageDeployer).Deploy")
		wired := false
		if deploy != nil {
			for _, call := range callsIn(deploy) {
				if !isCallTo(call.Common, pkgPkgRender+".RenderPackageInstance") {
					continue
				}
				a := call.Common.Args
				if len(a) == 5 && c13IsGlobalLoad(a[4], pkgPkgValid, "DefaultObjectValidators") {
					wired = true
				}
			}
		}
		if !wired {
			problems = append(problems, "Deploy does not pass packagevalidation.DefaultObjectValidators to RenderPackageInstance")
		}
		// the validator returns a violation unless some manifest phase name equals the annotation
		val := c.MustFunc(pkgPkgValid, "(*ObjectPhaseAnnotationValidator).validate")
		if val != nil {
			nilRets, guarded := 0, 0
			for _, rc := range p.returnCases(val) {
				if len(rc.Results) != 1 || !isNilConst(stripConv(rc.Results[0])) {
					continue
				}
				nilRets++
				for _, f := range rc.Facts {
					if f.Pol && c13IsPhaseNameTest(f.Cond) {
						guarded++
						break
					}
					// slices.ContainsFunc(phases, pred) answered true: pred accepted some element, so what
					// every true-return of pred establishes holds for a manifest phase
					if call, _ := asCall(f.Cond); call != nil && f.Pol && isCallTo(call.Common(), "slices.ContainsFunc") && len(call.Common().Args) == 2 {
						if pred, _ := sortComparatorFn(call.Common().Args[1]); pred != nil && p.c13PredImpliesPhaseNameTest(pred) {
							guarded++
							break
						}
					}
				}
			}
			if nilRets == 0 || nilRets != guarded {
				problems = append(problems, fmt.Sprintf("validator accepts an object on %d path(s) of which only %d are guarded by phase.Name == annotation", nilRets, guarded))
			}
		}
		// RenderObjects: the validator call precedes the successful return
		ro := c.MustFunc(pkgPkgRender, "RenderObjects")
		if ro != nil {
			for _, rc := range p.returnCases(ro) {
				if len(rc.Results) != 2 || !isNilConst(stripConv(rc.Results[1])) {
					continue
				}
				validated := p.mustPrecede(rc.Ret, func(in ssa.Instruction) bool {
					ci, ok := in.(ssa.CallInstruction)
					return ok && ci.Common().IsInvoke() && ci.Common().Method.Name() == "ValidateObjects"
				})
				if !validated {
					// allowed only when the validator parameter is nil
					nilValidator := false
					for _, f := range rc.Facts {
						if x, nonNil, ok := errNilTest(f.Cond); ok && f.Pol != nonNil {
							if _, isParam := stripConv(x).(*ssa.Parameter); isParam {
								nilValidator = true
							}
						}
					}
					if !nilValidator {
						// path-insensitive fallback: accept when the call is guarded only by validator != nil
						nilValidator = c13ValidateGuardedOnlyByNil(p, ro)
					}
					if !nilValidator {
						problems = append(problems, "RenderObjects can return objects without running the validator")
					}
				}
			}
		}
		if len(problems) == 0 {
			o.OK()
		} else {
			o.Fail("%s", strings.Join(problems, "; "))
		}
	}
	// (4) Collect: skip only empty phases; sort by Index; Index is the manifest index
	{
		o := c.Ob(collect, "skip-only-empty", nil, "Collect leaves out only phases without objects")
		var appends []*ssa.Call
		for _, call := range callsIn(collect) {
			if b, ok := call.Common.Value.(*ssa.Builtin); ok && b.Name() == "append" {
				if cv, isCall := call.Instr.(*ssa.Call); isCall {
					appends = append(appends, cv)
				}
			}
		}
		mrs := mapRangesIn(collect)
		// The appends that decide which phases are kept are the ones inside the map range. An append
		// behind it that only copies the collected entries one by one into the result (a full index
		// range over the collected slice whose every iteration appends an element of that slice at
		// the loop index) is the append-built spelling of `result[i] = entries[i].Phase`: it drops
		// and duplicates nothing. Any other extra append stays undecided.
		copyWhy := ""
		if len(mrs) == 1 {
			var inRange []*ssa.Call
			for _, ap := range appends {
				if mrs[0].Body[ap.Block()] {
					inRange = append(inRange, ap)
					continue
				}
				if why := c13IsFullCopyAppend(p, collect, ap, mrs[0]); why != "" && copyWhy == "" {
					copyWhy = "append at " + p.IPos(ap) + " outside the map range is not a one-to-one copy of the collected entries: " + why
				}
			}
			if copyWhy == "" {
				appends = inRange
			}
		}
		if len(mrs) != 1 || len(appends) != 1 {
			if copyWhy != "" {
				o.Unknown("expected one map range and one append in Collect (found %d, %d; %s)", len(mrs), len(appends), copyWhy)
			} else {
				o.Unknown("expected one map range and one append in Collect (found %d, %d)", len(mrs), len(appends))
			}
		} else {
			mr := mrs[0]
			ap := appends[0]
			// the edge that skips the append must be guarded by len(entry.Phase.Objects) == 0
			bad := ""
			entry := c13BodyEntry(&Loop{Head: mr.Head, Body: mr.Body})
			if entry == nil {
				bad = "loop body entry not found"
			} else {
				for b := range mr.Body {
					for _, s := range b.Succs {
						if s != mr.Head || b == mr.Head {
							continue
						}
						// back edge b -> head: either the append precedes on this path or the path is the empty-skip
						if b == ap.Block() || ap.Block().Dominates(b) {
							continue
						}
						fs := p.FactsOnEdge(b, s)
						okSkip := false
						for _, f := range fs {
							if x, nonEmpty, isLen := lenCmp(f.Cond); isLen && f.Pol != nonEmpty && strings.HasSuffix(p.describe(x), "Phase.Objects") {
								okSkip = true
							}
						}
						if !okSkip {
							bad = "an entry can be skipped on a path not guarded by len(entry.Phase.Objects) == 0"
						}
					}
				}
			}
			if bad != "" {
				o.Fail("%s", bad)
			} else {
				o.OK("every back edge that bypasses the append is on the len(Objects)==0 branch")
			}
		}
		o2 := c.Ob(collect, "order-by-manifest-index", nil, "phases are returned ordered by the manifest index recorded in newPhaseCollector, element i of the result is entry i")
		var problems []string
		// comparator of the sort call compares .Index fields with <
		sorted := false
		sortWhy := ""
		for _, call := range callsIn(collect) {
			if !sortFuncs[calleeID(call.Common)] {
				continue
			}
			if len(call.Common.Args) == 0 {
				continue
			}
			if _, resliced := stripConv(call.Common.Args[0]).(*ssa.Slice); resliced {
				continue // sorts only a sub-slice
			}
			// less function (sort.Slice*) or three-way function (slices.Sort*Func): a strict ascending
			// order by the element's Index
			m, why := p.sortComparatorModel(call.Common)
			switch {
			case m == nil:
				sortWhy = why
			case m.Desc:
				sortWhy = "the comparator orders by descending " + m.Shape
			case m.Shape != "$.Index":
				sortWhy = "the comparator orders by " + m.Shape + ", not by the element's Index"
			default:
				sorted = true
			}
		}
		if !sorted {
			msg := "no sort of the entries by .Index with a strict < comparator"
			if sortWhy != "" {
				msg += " (" + sortWhy + ")"
			}
			problems = append(problems, msg)
		}
		// newPhaseCollector stores Index = loop index of the phases parameter, keyed by phase.Name
		idxOK := false
		for _, b := range newColl.Blocks {
			for _, in := range b.Instrs {
				mu, ok := in.(*ssa.MapUpdate)
				if !ok {
					continue
				}
				fields, _, okc := compositeFields(mu.Value)
				if !okc {
					continue
				}
				if iv, has := fields["Index"]; has {
					if ph, isPhi := iv.(*ssa.Phi); isPhi && c13IsLoopIndexPhi(ph) {
						idxOK = true
					} else if bo, isBO := iv.(*ssa.BinOp); isBO && bo.Op == token.ADD {
						if ph, isPhi := bo.X.(*ssa.Phi); isPhi && c13IsLoopIndexPhi(ph) {
							idxOK = true
						}
					}
				}
			}
		}
		if !idxOK {
			problems = append(problems, "newPhaseCollector does not record the manifest position of each phase as Index")
		}
		if len(problems) == 0 {
			o2.OK()
		} else {
			o2.Fail("%s", strings.Join(problems, "; "))
		}
	}
}

// c13IsPhaseNameTest: cond is `<x>.Name == <obj>.GetAnnotations()[PackagePhaseAnnotation]`.
func c13IsPhaseNameTest(cond ssa.Value) bool {
	bo, isB := cond.(*ssa.BinOp)
	if !isB || bo.Op != token.EQL {
		return false
	}
	return (c13IsFieldLoad(bo.X, "Name") && c13IsAnnotationLookup(bo.Y, "PackagePhaseAnnotation", "")) ||
		(c13IsFieldLoad(bo.Y, "Name") && c13IsAnnotationLookup(bo.X, "PackagePhaseAnnotation", ""))
}

// c13PredImpliesPhaseNameTest: the search predicate (body of a find loop turned into a function)
// answers true only when the phase-name test on its element holds: every return is the test itself,
// the constant false, or lies behind the test.
func (p *Program) c13PredImpliesPhaseNameTest(pred *ssa.Function) bool {
	if pred.Blocks == nil || len(pred.Params) != 1 {
		return false
	}
	elem := pred.Params[0]
	ofElem := func(cond ssa.Value) bool {
		// the Name compared is the one of the predicate's element
		bo := cond.(*ssa.BinOp)
		for _, side := range []ssa.Value{bo.X, bo.Y} {
			if !c13IsFieldLoad(side, "Name") {
				continue
			}
			var base ssa.Value
			switch x := stripConv(side).(type) {
			case *ssa.UnOp:
				base = x.X.(*ssa.FieldAddr).X
			case *ssa.Field:
				base = x.X
			}
			if base == ssa.Value(elem) {
				return true
			}
			if a, isAlloc := base.(*ssa.Alloc); isAlloc {
				n := 0
				var val ssa.Value
				for _, r := range referrersOf(a) {
					if st, ok := r.(*ssa.Store); ok && st.Addr == ssa.Value(a) {
						n++
						val = st.Val
					}
				}
				return n == 1 && val == ssa.Value(elem)
			}
		}
		return false
	}
	cases := p.returnCases(pred)
	trues := 0
	for _, rc := range cases {
		if len(rc.Results) != 1 || rc.Results[0] == nil {
			return false
		}
		r := stripConv(rc.Results[0])
		if b, isC := constBool(r); isC && !b {
			continue
		}
		trues++
		if c13IsPhaseNameTest(r) && ofElem(r) {
			continue
		}
		ok := false
		for _, f := range rc.Facts {
			if f.Pol && c13IsPhaseNameTest(f.Cond) && ofElem(f.Cond) {
				ok = true
			}
		}
		if !ok {
			return false
		}
	}
	return trues > 0
}

// c13BodyEntry: the successor of the loop header that lies inside the loop.
func c13BodyEntry(l *Loop) *ssa.BasicBlock {
	for _, s := range l.Head.Succs {
		if l.Body[s] && s != l.Head {
			return s
		}
	}
	return nil
}

// c13EveryIterationPasses: inside loop l, every path from `entry` that comes back to the header
// executes `must` (paths leaving the loop through a panic are ignored; any other exit from
// inside the body counts as a drop).
func c13EveryIterationPasses(l *Loop, entry *ssa.BasicBlock, must ssa.Instruction) bool {
	seen := map[*ssa.BasicBlock]bool{}
	var walk func(b *ssa.BasicBlock) bool
	walk = func(b *ssa.BasicBlock) bool {
		if b == must.Block() {
			return true
		}
		if b == l.Head {
			return false // reached next iteration without the call
		}
		if !l.Body[b] {
			return isPanicBlock(b) // left the loop without the call
		}
		if seen[b] {
			return true
		}
		seen[b] = true
		if len(b.Succs) == 0 {
			return isPanicBlock(b)
		}
		for _, s := range b.Succs {
			if !walk(s) {
				return false
			}
		}
		return true
	}
	return walk(entry)
}

// c13IsFullCopyAppend: ap (an append of Collect outside the map range mr) copies the slice collected
// by the map range element by element: its innermost loop is a full index range over a slice S that
// is fed by the appends of the map range, every iteration executes ap, ap appends exactly one value,
// that value is S[i] (or a field of it) at the loop index, and ap extends its own accumulator.
// Returns "" when recognised, otherwise the reason.
func c13IsFullCopyAppend(p *Program, fn *ssa.Function, ap *ssa.Call, mr *mapRange) string {
	l := innermostLoop(fn, ap.Block())
	if l == nil {
		return "it is not in a loop"
	}
	if l.Head == mr.Head || mr.Body[l.Head] {
		return "its loop is not behind the map range"
	}
	iff, ok := l.Head.Instrs[len(l.Head.Instrs)-1].(*ssa.If)
	if !ok {
		return "loop header has no condition"
	}
	bo, ok := iff.Cond.(*ssa.BinOp)
	if !ok || bo.Op != token.LSS {
		return "loop condition is not i < len(entries)"
	}
	lc, ok := bo.Y.(*ssa.Call)
	if !ok {
		return "loop bound is not len(entries)"
	}
	if b, isB := lc.Call.Value.(*ssa.Builtin); !isB || b.Name() != "len" || len(lc.Call.Args) != 1 {
		return "loop bound is not len(entries)"
	}
	src := lc.Call.Args[0]
	if why := c13FullIndexLoop(p, l, src); why != "" {
		return why
	}
	// the ranged slice is the one the map range collects into
	collected := false
	var seen = map[ssa.Value]bool{}
	var fed func(v ssa.Value) bool
	fed = func(v ssa.Value) bool {
		if seen[v] {
			return false
		}
		seen[v] = true
		switch x := v.(type) {
		case *ssa.Phi:
			for _, e := range x.Edges {
				if fed(e) {
					return true
				}
			}
		case *ssa.Call:
			if b, isB := x.Call.Value.(*ssa.Builtin); isB && b.Name() == "append" && mr.Body[x.Block()] {
				return true
			}
		case *ssa.UnOp:
			// the slice lives in a variable (captured by the sort closure): any value stored into it
			if al, isAl := x.X.(*ssa.Alloc); isAl && x.Op == token.MUL {
				for _, ref := range referrersOf(al) {
					if st, isSt := ref.(*ssa.Store); isSt && st.Addr == ssa.Value(al) && fed(st.Val) {
						return true
					}
				}
			}
		}
		return false
	}
	// two reads of the collected slice: the same SSA value, or two loads of the same variable that
	// is not assigned inside the copy loop
	sameSlice := func(a, b ssa.Value) bool {
		if a == b {
			return true
		}
		la, okA := a.(*ssa.UnOp)
		lb, okB := b.(*ssa.UnOp)
		if !okA || !okB || la.Op != token.MUL || lb.Op != token.MUL || la.X != lb.X {
			return false
		}
		al, isAl := la.X.(*ssa.Alloc)
		if !isAl {
			return false
		}
		for _, ref := range referrersOf(al) {
			if st, isSt := ref.(*ssa.Store); isSt && st.Addr == ssa.Value(al) && l.Body[st.Block()] {
				return false
			}
		}
		return true
	}
	collected = fed(src)
	if !collected {
		return "the ranged slice is not the one filled inside the map range"
	}
	entry := c13BodyEntry(l)
	if entry == nil {
		return "loop body entry not found"
	}
	if !c13EveryIterationPasses(l, entry, ap) {
		return "an iteration can come back to the loop header without appending"
	}
	// the accumulator: append(acc, …) with acc = phi at the loop header fed by this append
	acc, isPhi := ap.Call.Args[0].(*ssa.Phi)
	if !isPhi || acc.Block() != l.Head {
		return "it does not extend the slice built by the same loop"
	}
	self := false
	for _, e := range acc.Edges {
		self = self || e == ssa.Value(ap)
	}
	if !self {
		return "it does not extend the slice built by the same loop"
	}
	if len(ap.Call.Args) != 2 {
		return "unexpected append form"
	}
	elems, okE := sliceElems(ap.Call.Args[1])
	if !okE || len(elems) != 1 {
		return "it does not append exactly one element per iteration"
	}
	// the element: S[i] or a field path of it, i the loop index
	isIdx := func(v ssa.Value) bool {
		switch x := v.(type) {
		case *ssa.Phi:
			return x.Block() == l.Head && c13IsLoopIndexPhi(x)
		case *ssa.BinOp:
			if ph, isP := x.X.(*ssa.Phi); isP && x.Op == token.ADD && ph.Block() == l.Head && c13IsLoopIndexPhi(ph) {
				one, isC := constInt(x.Y)
				return isC && one == 1
			}
		}
		return false
	}
	v := stripConv(elems[0])
	for i := 0; i < 8; i++ {
		switch x := v.(type) {
		case *ssa.UnOp:
			if x.Op != token.MUL {
				return "the appended element is not read from the collected slice"
			}
			v = x.X
		case *ssa.Alloc:
			// range-by-value copy `e := S[i]`: the single store into the local
			var st *ssa.Store
			n := 0
			for _, ref := range referrersOf(x) {
				if s, isS := ref.(*ssa.Store); isS && s.Addr == ssa.Value(x) {
					st = s
					n++
				}
			}
			if n != 1 || !l.Body[st.Block()] {
				return "the appended element is not read from the collected slice"
			}
			v = stripConv(st.Val)
		case *ssa.FieldAddr:
			v = x.X
		case *ssa.Field:
			v = x.X
		case *ssa.IndexAddr:
			if sameSlice(x.X, src) && isIdx(x.Index) {
				return ""
			}
			return "the appended element is not the collected slice's element at the loop index"
		default:
			return "the appended element is not read from the collected slice"
		}
	}
	return "the appended element is not read from the collected slice"
}

// c13FullIndexLoop: loop l is `for i := range s` over the whole slice s (a parameter, or a local
// slice value): header tests i < len(s) with i = phi(-1|0, i+1). Returns "" when recognised.
func c13FullIndexLoop(p *Program, l *Loop, s ssa.Value) string {
	iff, ok := l.Head.Instrs[len(l.Head.Instrs)-1].(*ssa.If)
	if !ok {
		return "loop header has no condition"
	}
	bo, ok := iff.Cond.(*ssa.BinOp)
	if !ok || bo.Op != token.LSS {
		return "loop condition is not i < len(objs)"
	}
	lc, ok := bo.Y.(*ssa.Call)
	if !ok {
		return "loop bound is not len(objs)"
	}
	if b, isB := lc.Call.Value.(*ssa.Builtin); !isB || b.Name() != "len" || lc.Call.Args[0] != s {
		return "loop bound is not len of the objs parameter"
	}
	// index: either phi(0, i+1) tested directly or i+1 of phi(-1, ·) (go/ssa range lowering)
	var ph *ssa.Phi
	switch x := bo.X.(type) {
	case *ssa.Phi:
		ph = x
	case *ssa.BinOp:
		if x.Op == token.ADD {
			ph, _ = x.X.(*ssa.Phi)
		}
	}
	if ph == nil || !c13IsLoopIndexPhi(ph) {
		return "loop index is not a unit-step counter from the first element"
	}
	return ""
}

// c13IsLoopIndexPhi: phi(const -1|0, phi+1).
func c13IsLoopIndexPhi(ph *ssa.Phi) bool {
	if len(ph.Edges) < 2 {
		return false
	}
	init, step := 0, 0
	for _, e := range ph.Edges {
		if n, ok := constInt(e); ok && (n == 0 || n == -1) {
			init++
			continue
		}
		if bo, ok := e.(*ssa.BinOp); ok && bo.Op == token.ADD {
			if one, isC := constInt(bo.Y); isC && one == 1 && bo.X == ssa.Value(ph) {
				step++
				continue
			}
		}
		return false
	}
	return init == 1 && step >= 1
}

// c13IsAnnotationLookup: v is `<x>.GetAnnotations()[<const named constName>]` (possibly through a
// local holding the annotations map). pkg "" accepts the constant from any manifests package.
func c13IsAnnotationLookup(v ssa.Value, constName, pkg string) bool {
	v = stripConv(v)
	var m, idx ssa.Value
	switch x := v.(type) {
	case *ssa.Lookup:
		m, idx = x.X, x.Index
	case *ssa.Extract:
		if lk, ok := x.Tuple.(*ssa.Lookup); ok && x.Index == 0 {
			m, idx = lk.X, lk.Index
		}
	}
	if m == nil {
		return false
	}
	call, _ := asCall(m)
	if call == nil || calleeName(call.Common()) != "GetAnnotations" {
		return false
	}
	s, ok := constString(idx)
	if !ok {
		return false
	}
	want, ok := c13AnnotationConsts()[constName]
	return ok && s == want
}

// c13AnnotationConsts: values of the package annotation / label constants (frozen from
// apis/manifests/v1alpha1; cross-checked against the type-checked constants in R4).
func c13AnnotationConsts() map[string]string {
	return map[string]string{
		"PackagePhaseAnnotation":               "package-operator.run/phase",
		"PackageConditionMapAnnotation":        "package-operator.run/condition-map",
		"PackageCollisionProtectionAnnotation": "package-operator.run/collision-protection",
		"PackageCELConditionAnnotation":        "package-operator.run/condition",
		"PackageLabel":                         "package-operator.run/package",
		"PackageInstanceLabel":                 "package-operator.run/instance",
	}
}

func c13IsFieldLoad(v ssa.Value, field string) bool {
	v = stripConv(v)
	switch x := v.(type) {
	case *ssa.UnOp:
		if fa, ok := x.X.(*ssa.FieldAddr); ok && x.Op == token.MUL {
			return fieldName(fa.X.Type(), fa.Field) == field
		}
	case *ssa.Field:
		return fieldName(x.X.Type(), x.Field) == field
	}
	return false
}

func c13IsAppendOfParam(in ssa.Instruction, prm *ssa.Parameter) bool {
	c, ok := in.(*ssa.Call)
	if !ok {
		return false
	}
	b, isB := c.Call.Value.(*ssa.Builtin)
	return isB && b.Name() == "append" && len(c.Call.Args) == 2 && c.Call.Args[1] == ssa.Value(prm)
}

// c13ValidateGuardedOnlyByNil: in RenderObjects the ValidateObjects call is skipped only on the
// `validator == nil` edge.
func c13ValidateGuardedOnlyByNil(p *Program, fn *ssa.Function) bool {
	for _, call := range callsIn(fn) {
		if !call.Common.IsInvoke() || call.Common.Method.Name() != "ValidateObjects" {
			continue
		}
		fs := p.FactsAt(call.Block())
		// all facts at the call that are not inherited from the loop must be `validator != nil`
		recv := call.Common.Value
		if p.nilnessFromFacts(fs, recv) != noTri {
			return false
		}
		// the block where the guard is tested must dominate every successful return
		for _, b := range fn.Blocks {
			iff, ok := lastIf(b)
			if !ok {
				continue
			}
			if x, _, isNil := errNilTest(iff.Cond); isNil && p.sameValue(x, recv) {
				okAll := true
				for _, rc := range p.returnCases(fn) {
					if len(rc.Results) == 2 && isNilConst(stripConv(rc.Results[1])) && !b.Dominates(rc.Ret.Block()) {
						okAll = false
					}
				}
				return okAll
			}
		}
	}
	return false
}

func lastIf(b *ssa.BasicBlock) (*ssa.If, bool) {
	if len(b.Instrs) == 0 {
		return nil, false
	}
	iff, ok := b.Instrs[len(b.Instrs)-1].(*ssa.If)
	return iff, ok
}

// ---------------------------------------------------------------------------------------------
// R4 — control annotations stripped, labels added

func c13r4(c *Ctx) {
	p := c.P
	consts := c13AnnotationConsts()
	// cross-check the frozen constant values against the type-checked package
	if pk := p.ByPath[pkgAPIManif]; pk != nil {
		for name, want := range consts {
			obj := pk.Types.Scope().Lookup(name)
			cst, ok := obj.(*types.Const)
			if !ok || strings.Trim(cst.Val().ExactString(), "\"") != want {
				c.AnchorLost(fmt.Sprintf("%s.%s == %q", pkgAPIManif, name, want))
			}
		}
	} else {
		c.AnchorLost("package " + pkgAPIManif)
	}
	byValue := map[string]string{}
	for n, v := range consts {
		if strings.HasSuffix(n, "Annotation") {
			byValue[v] = n
		}
	}
	addObjs := c13Collector(c).addObjs
	if addObjs == nil {
		return
	}
	// which control annotations does the render call graph read from objects?
	set := c13RenderSet(c)
	read := map[string]ssa.Instruction{}
	for _, fn := range set.closure.Order {
		if pk := funcPkgPathAny(fn); pk != pkgPkgRender && pk != pkgPkgValid {
			continue
		}
		for _, b := range fn.Blocks {
			for _, in := range b.Instrs {
				lk, ok := in.(*ssa.Lookup)
				if !ok {
					continue
				}
				s, isC := constString(lk.Index)
				if !isC {
					continue
				}
				if _, isAnn := byValue[s]; !isAnn {
					continue
				}
				if call, _ := asCall(lk.X); call == nil || calleeName(call.Common()) != "GetAnnotations" {
					continue
				}
				if _, dup := read[s]; !dup {
					read[s] = in
				}
			}
		}
	}
	// the SetAnnotations call in AddObjects and the map it stores
	var setAnn *Call
	for _, call := range callsIn(addObjs) {
		if calleeName(call.Common) == "SetAnnotations" {
			cc := call
			if setAnn != nil {
				c.Ob(addObjs, "SetAnnotations", call.Instr, "one SetAnnotations call stores the stripped annotations").Unknown("more than one SetAnnotations call in AddObjects")
				return
			}
			setAnn = &cc
		}
	}
	if setAnn == nil {
		c.AnchorLost("SetAnnotations call in (phaseCollector).AddObjects")
		return
	}
	stored := callArgs(setAnn.Common)[0]
	// stored is phi(annotations, nil) where annotations = object.GetAnnotations(); find the underlying map value
	// (the stripping may live in an extracted helper that returns the map or nil: values are resolved
	// through helper results and helper parameters to the map object itself)
	var base ssa.Value
	for _, pv := range p.rvValuesX(stored) {
		pv = stripConv(pv)
		if isNilConst(pv) {
			continue
		}
		if base != nil && base != pv {
			base = nil
			break
		}
		base = pv
	}
	isBase := func(v ssa.Value) bool {
		if stripConv(v) == base {
			return true
		}
		xs := p.rvValuesX(v)
		return len(xs) == 1 && stripConv(xs[0]) == base
	}
	keys := make([]string, 0, len(read))
	for k := range read {
		keys = append(keys, k)
	}
	sort.Strings(keys)
	for _, k := range keys {
		o := c.Ob(addObjs, "strip:"+byValue[k], read[k], "control annotation read by the renderer is deleted from the annotations stored on the collected object")
		if base == nil {
			o.Unknown("cannot resolve the map passed to SetAnnotations (%s)", p.describe(stored))
			continue
		}
		deleted := p.mustPrecedeX(setAnn.Instr, func(in ssa.Instruction) bool {
			ci, ok := in.(ssa.CallInstruction)
			if !ok {
				return false
			}
			bi, isB := ci.Common().Value.(*ssa.Builtin)
			if !isB || bi.Name() != "delete" || len(ci.Common().Args) != 2 {
				return false
			}
			s, isC := constString(ci.Common().Args[1])
			return isC && s == k && isBase(ci.Common().Args[0])
		})
		if deleted {
			o.OK("delete(annotations, " + byValue[k] + ") precedes SetAnnotations on every path; read at " + p.IPos(read[k]))
		} else {
			o.Fail("annotation %s (%q) is read at %s but not deleted from the map that SetAnnotations stores", byValue[k], k, p.IPos(read[k]))
		}
	}
	// the stored map is the collected object's own annotations and the collected object is the one annotated
	{
		o := c.Ob(addObjs, "stripped-object-is-collected", setAnn.Instr, "the object whose annotations were stripped is the object handed to addObjects")
		recv := callRecv(setAnn.Common)
		okObj := false
		addOne := c13Collector(c).addOne
		for _, call := range callsIn(addObjs) {
			if addOne == nil || staticCallee(call.Common) != addOne {
				continue
			}
			elems, ok := sliceElems(callArgs(call.Common)[1])
			if !ok || len(elems) != 1 {
				continue
			}
			f, _, okc := compositeFields(elems[0])
			if !okc {
				continue
			}
			if ov, has := f["Object"]; has {
				if u, isLoad := ov.(*ssa.UnOp); isLoad && u.Op == token.MUL && u.X == recv {
					if p.mustPrecede(u, func(in ssa.Instruction) bool { return in == setAnn.Instr }) {
						okObj = true
					}
				}
			}
		}
		baseOK := false
		if bc, _ := asCall(base); bc != nil && calleeName(bc.Common()) == "GetAnnotations" && callRecv(bc.Common()) == recv {
			baseOK = true
		}
		switch {
		case !okObj:
			o.Fail("the ObjectSetObject passed to addObjects does not carry the object after SetAnnotations")
		case !baseOK:
			o.Fail("the stripped map is not the annotations of the collected object")
		default:
			o.OK()
		}
	}
	// labels: parseObjects merges the two package labels into every appended (non-empty) document.
	// The label map is judged where it is built: in a helper whose every return is the literal
	// (pinned tree: commonLabels) or in place as the second argument of labels.Merge.
	parse := c.MustFunc(pkgPkgRender, "parseObjects")
	if parse == nil {
		return
	}
	{
		var app *ssa.Call
		n := 0
		for _, call := range callsIn(parse) {
			if b, ok := call.Common.Value.(*ssa.Builtin); ok && b.Name() == "append" {
				if cv, isC := call.Instr.(*ssa.Call); isC {
					app = cv
					n++
				}
			}
		}
		o := c.Ob(parse, "labels-merged-before-append", nil, "every document appended to the result had commonLabels merged into its labels")
		if n != 1 {
			o.Unknown("expected one append in parseObjects, found %d", n)
			return
		}
		var obj ssa.Value
		if elems, ok := sliceElems(app.Call.Args[1]); ok && len(elems) == 1 {
			if u, isLoad := elems[0].(*ssa.UnOp); isLoad && u.Op == token.MUL {
				obj = u.X
			}
		}
		if obj == nil {
			o.Unknown("appended element is not a load of the parsed object")
			return
		}
		// mergeSource: in is obj.SetLabels(labels.Merge(obj.GetLabels(), X)); returns X
		mergeSource := func(in ssa.Instruction) ssa.Value {
			ci, ok := in.(ssa.CallInstruction)
			if !ok || calleeName(ci.Common()) != "SetLabels" || callRecv(ci.Common()) != obj {
				return nil
			}
			mc, _ := asCall(callArgs(ci.Common())[0])
			if mc == nil || !isCallTo(mc.Common(), "k8s.io/apimachinery/pkg/labels.Merge") {
				return nil
			}
			a := mc.Common().Args
			g1, _ := asCall(a[0])
			if g1 == nil || calleeName(g1.Common()) != "GetLabels" || callRecv(g1.Common()) != obj {
				return nil
			}
			return a[1]
		}
		// exactKeys: v is a map literal, complete before `use`, with exactly the two package labels
		exactKeys := func(v ssa.Value, use ssa.Instruction) bool {
			mm, isMM := stripConv(v).(*ssa.MakeMap)
			if !isMM {
				return false
			}
			kv, ok := mapLiteral(mm)
			if !ok || len(kv) != 2 || kv[consts["PackageLabel"]] == nil || kv[consts["PackageInstanceLabel"]] == nil {
				return false
			}
			for _, r := range referrersOf(mm) {
				if mu, isMU := r.(*ssa.MapUpdate); isMU && mu.Map == ssa.Value(mm) {
					if mu.Block() != use.Block() && !mu.Block().Dominates(use.Block()) {
						return false // a label that is set only on some paths
					}
				} else if _, isDel := r.(ssa.CallInstruction); isDel && r != use {
					if cc := r.(ssa.CallInstruction).Common(); isCallTo(cc, "builtin:delete") {
						return false
					}
				}
			}
			return true
		}
		// one obligation per label source that a merge into obj uses
		type src struct {
			fn  *ssa.Function // the helper that builds the label map (nil: built in place)
			at  ssa.Instruction
			val ssa.Value
		}
		var sources []src
		seenSrc := map[string]bool{}
		for _, b := range parse.Blocks {
			for _, in := range b.Instrs {
				x := mergeSource(in)
				if x == nil {
					continue
				}
				s := src{at: in, val: x}
				key := "inplace"
				if call, _ := asCall(x); call != nil {
					if g := staticCallee(call.Common()); g != nil && p.isWorkspaceFunc(g) && funcHasBody(g) {
						s.fn = g
						key = g.String()
					}
				}
				if seenSrc[key] && s.fn != nil {
					continue // the same helper again: judged once
				}
				seenSrc[key] = true
				okKeys := false
				var ob *Obligation
				if s.fn != nil {
					ob = c.Ob(s.fn, "commonLabels-keys", nil, "commonLabels returns exactly {PackageLabel, PackageInstanceLabel}")
					for _, rc := range p.returnCases(s.fn) {
						if len(rc.Results) == 1 && rc.Results[0] != nil && exactKeys(rc.Results[0], rc.Ret) {
							okKeys = true
						} else {
							okKeys = false
							break
						}
					}
				} else {
					ob = c.Ob(parse, "commonLabels-keys", in, "the label map merged into every parsed object is exactly {PackageLabel, PackageInstanceLabel}")
					okKeys = exactKeys(x, in)
				}
				ob.Decide(okKeys, "the labels merged into the parsed object are not a literal with exactly the package and instance labels")
				sources = append(sources, s)
			}
		}
		if len(sources) == 0 {
			c.Ob(parse, "commonLabels-keys", nil, "the label map merged into every parsed object is exactly {PackageLabel, PackageInstanceLabel}").
				Unknown("no obj.SetLabels(labels.Merge(obj.GetLabels(), <labels>)) found in parseObjects")
		}
		merged := p.mustPrecede(app, func(in ssa.Instruction) bool {
			x := mergeSource(in)
			if x == nil {
				return false
			}
			// which labels are merged is the commonLabels-keys obligation; here: some recognised
			// label source (helper result or literal) is merged on every path
			if call, _ := asCall(x); call != nil {
				g := staticCallee(call.Common())
				return g != nil && p.isWorkspaceFunc(g) && funcHasBody(g)
			}
			_, isMM := stripConv(x).(*ssa.MakeMap)
			return isMM
		})
		// and the append is skipped only for empty documents
		skipOK := true
		l := innermostLoop(parse, app.Block())
		if l == nil {
			skipOK = false
		} else {
			for b := range l.Body {
				for _, s := range b.Succs {
					if s != l.Head || b == l.Head || b == app.Block() || app.Block().Dominates(b) {
						continue
					}
					okSkip := false
					for _, f := range p.FactsOnEdge(b, s) {
						if x, nonEmpty, isLen := lenCmp(f.Cond); isLen && f.Pol != nonEmpty && strings.HasSuffix(p.describe(x), ".Object") {
							okSkip = true
						}
					}
					if !okSkip {
						skipOK = false
					}
				}
			}
		}
		switch {
		case !merged:
			o.Fail("append of the parsed object is not preceded by obj.SetLabels(labels.Merge(obj.GetLabels(), commonLabels(...)))")
		case !skipOK:
			o.Fail("a document can be skipped on a path not guarded by len(obj.Object) == 0")
		default:
			o.OK()
		}
	}
}

// ---------------------------------------------------------------------------------------------
// R5 — stable order

func c13r5(c *Ctx) {
	p := c.P
	rowf := c.MustFunc(pkgPkgRender, "RenderObjectsWithFilter")
	rpi := c.MustFunc(pkgPkgRender, "RenderPackageInstance")
	rost := c.MustFunc(pkgPkgRender, "RenderObjectSetTemplateSpec")
	if rowf == nil || rpi == nil || rost == nil {
		return
	}
	// (1) concatenation loop: ranges over the sorted paths slice from index 0, appends pathObjectMap[path]... in order
	{
		o := c.Ob(rowf, "concat-in-sorted-path-order", nil, "objects are appended per path while iterating the sorted path list front to back; each path's documents are appended as one block")
		var problems []string
		var app *ssa.Call
		for _, call := range callsIn(rowf) {
			if b, ok := call.Common.Value.(*ssa.Builtin); ok && b.Name() == "append" {
				if cv, isC := call.Instr.(*ssa.Call); isC {
					if sl, isS := cv.Type().Underlying().(*types.Slice); isS && namedTypeString(sl.Elem()) == pkgUnstr+".Unstructured" {
						if app != nil {
							problems = append(problems, "more than one append to the object list")
						}
						app = cv
					}
				}
			}
		}
		if app == nil {
			o.Fail("no append to the object list found")
			return
		}
		l := innermostLoop(rowf, app.Block())
		if l == nil {
			problems = append(problems, "objects are not appended in a loop")
		} else {
			// loop over a slice by increasing index; element = paths[i]; appended = lookup(pathObjectMap, paths[i])
			lk, isLk := app.Call.Args[1].(*ssa.Lookup)
			if !isLk {
				problems = append(problems, "appended value is not pathObjectMap[path]")
			} else {
				idxLoad, isLoad := lk.Index.(*ssa.UnOp)
				var ia *ssa.IndexAddr
				if isLoad {
					ia, _ = idxLoad.X.(*ssa.IndexAddr)
				}
				if ia == nil {
					problems = append(problems, "path is not an element of the sorted path list")
				} else {
					ph, isPhi := ia.Index.(*ssa.BinOp)
					okIdx := false
					if isPhi && ph.Op == token.ADD {
						if pp, ok := ph.X.(*ssa.Phi); ok && c13IsLoopIndexPhi(pp) {
							okIdx = true
						}
					}
					if pp, ok := ia.Index.(*ssa.Phi); ok && c13IsLoopIndexPhi(pp) {
						okIdx = true
					}
					if !okIdx {
						problems = append(problems, "paths are not visited by a unit-step index from the first element")
					}
					// the slice indexed must have been sorted before the loop
					// (the list may be produced — collected and sorted — by an extracted helper)
					listVals := p.rvValuesX(ia.X)
					sortedBefore := p.mustPrecedeX(app, func(in ssa.Instruction) bool {
						ci, ok := in.(ssa.CallInstruction)
						if !ok || !sortFuncs[calleeID(ci.Common())] || len(ci.Common().Args) == 0 {
							return false
						}
						arg := stripConv(ci.Common().Args[0])
						if p.sameValue(arg, ia.X) || c13SameSliceVar(arg, ia.X) {
							return true
						}
						argVals := p.rvValuesX(arg)
						return len(listVals) == 1 && len(argVals) == 1 && stripConv(listVals[0]) == stripConv(argVals[0])
					})
					if !sortedBefore {
						problems = append(problems, "the path list is not sorted before the concatenation loop")
					}
				}
			}
			if !c13EveryIterationPasses(l, c13BodyEntry(l), app) {
				problems = append(problems, "some iteration skips the append")
			}
		}
		if len(problems) == 0 {
			o.OK()
		} else {
			o.Fail("%s", strings.Join(problems, "; "))
		}
	}
	// (2) between concatenation and collection the list is not reordered: RenderPackageInstance stores the
	// result of RenderObjectsWithFilter directly in PackageInstance.Objects
	{
		o := c.Ob(rpi, "objects-passed-through", nil, "RenderPackageInstance stores the list returned by RenderObjectsWithFilter unchanged in PackageInstance.Objects")
		okPass := false
		for _, b := range rpi.Blocks {
			for _, in := range b.Instrs {
				st, ok := in.(*ssa.Store)
				if !ok {
					continue
				}
				fa, isFA := st.Addr.(*ssa.FieldAddr)
				if !isFA || fieldName(fa.X.Type(), fa.Field) != "Objects" {
					continue
				}
				call, idx := asCall(st.Val)
				if call != nil && staticCallee(call.Common()) == c.P.Func(pkgPkgRender, "RenderObjectsWithFilter") && idx == 0 {
					okPass = true
				}
			}
		}
		noSort := true
		for _, fn := range []*ssa.Function{rpi, rost} {
			for _, call := range callsIn(fn) {
				if sortFuncs[calleeID(call.Common)] || strings.HasPrefix(calleeID(call.Common), "slices.") || strings.HasPrefix(calleeID(call.Common), "sort.") {
					noSort = false
				}
			}
		}
		switch {
		case !okPass:
			o.Fail("PackageInstance.Objects is not the direct result of RenderObjectsWithFilter")
		case !noSort:
			o.Fail("RenderPackageInstance / RenderObjectSetTemplateSpec reorder a slice")
		default:
			o.OK()
		}
	}
	// (3) RenderObjectSetTemplateSpec hands pkgInstance.Objects as a whole to AddObjects, and AddObjects visits in index order (R3)
	{
		o := c.Ob(rost, "objects-to-collector", nil, "RenderObjectSetTemplateSpec passes pkgInstance.Objects unchanged to the collector and the collected phases unchanged to the template")
		okArg := false
		for _, call := range callsIn(rost) {
			if addObjs := c13Collector(c).addObjs; addObjs != nil && staticCallee(call.Common) == addObjs {
				a := callArgs(call.Common)
				if len(a) == 1 && c13IsFieldLoad(a[0], "Objects") {
					okArg = true
				}
			}
		}
		o.Decide(okArg, "AddObjects does not receive pkgInstance.Objects directly")
	}
}

// c13SameSliceVar: both values are loads of the same non-lifted variable.
func c13SameSliceVar(a, b ssa.Value) bool {
	ua, ok1 := a.(*ssa.UnOp)
	ub, ok2 := b.(*ssa.UnOp)
	return ok1 && ok2 && ua.Op == token.MUL && ub.Op == token.MUL && ua.X == ub.X
}

// ---------------------------------------------------------------------------------------------
// R6 — hash

func c13r6(c *Ctx) {
	p := c.P
	dh := c.MustFunc(pkgUtils, "DeepHashObject")
	fnv := c.MustFunc(pkgUtils, "ComputeFNV32Hash")
	if dh == nil || fnv == nil {
		return
	}
	{
		o := c.Ob(dh, "spew-config", nil, "DeepHashObject prints with spew.ConfigState{SortKeys: true, SpewKeys: true, DisableMethods: true} and resets the hasher first")
		var problems []string
		found := false
		for _, call := range callsIn(dh) {
			if calleeName(call.Common) != "Fprintf" || !strings.Contains(calleeID(call.Common), "go-spew/spew.ConfigState") {
				continue
			}
			found = true
			recv := callRecv(call.Common)
			f, _, ok := compositeFields(recv)
			if !ok {
				problems = append(problems, "printer is not a ConfigState literal")
				continue
			}
			for _, fld := range []string{"SortKeys", "SpewKeys", "DisableMethods"} {
				if b, isB := constBool(f[fld]); !isB || !b {
					problems = append(problems, fld+" is not true")
				}
			}
			for _, fld := range []string{"DisablePointerAddresses", "DisableCapacities"} {
				_ = fld // %#v verb prints neither addresses of followed pointers' targets nor capacities differently per run
			}
			if fs, isC := constString(callArgs(call.Common)[1]); !isC || fs != "%#v" {
				problems = append(problems, "format is not %#v")
			}
			reset := p.mustPrecede(call.Instr, func(in ssa.Instruction) bool {
				ci, ok := in.(ssa.CallInstruction)
				return ok && ci.Common().IsInvoke() && ci.Common().Method.Name() == "Reset" && ci.Common().Value == ssa.Value(dh.Params[0])
			})
			if !reset {
				problems = append(problems, "hasher is not reset before printing")
			}
		}
		if !found {
			problems = append(problems, "no spew ConfigState.Fprintf call")
		}
		if len(problems) == 0 {
			o.OK()
		} else {
			o.Fail("%s", strings.Join(problems, "; "))
		}
	}
	{
		o := c.Ob(fnv, "hash-inputs", nil, "ComputeFNV32Hash hashes exactly the object (DeepHashObject) and, when given, the collision counter; nothing else is written to the hasher")
		var problems []string
		writes, deep := 0, 0
		for _, call := range callsIn(fnv) {
			switch {
			case staticCallee(call.Common) == dh:
				deep++
				if callArgs(call.Common)[1] != ssa.Value(fnv.Params[0]) && stripConv(callArgs(call.Common)[1]) != ssa.Value(fnv.Params[0]) {
					problems = append(problems, "DeepHashObject is not applied to the obj parameter")
				}
			case call.Common.IsInvoke() && call.Common.Method.Name() == "Write":
				writes++
				// guarded by collisionCount != nil
				if p.nilnessFromFacts(p.FactsAt(call.Block()), fnv.Params[1]) != noTri {
					problems = append(problems, "extra Write to the hasher not guarded by collisionCount != nil")
				}
			case sinkOf2(call.Common) != "":
				problems = append(problems, "calls "+calleeID(call.Common)+" ("+sinkOf2(call.Common)+")")
			}
		}
		if deep != 1 {
			problems = append(problems, fmt.Sprintf("expected one DeepHashObject call, found %d", deep))
		}
		if writes > 1 {
			problems = append(problems, fmt.Sprintf("%d writes to the hasher besides the object", writes))
		}
		if len(problems) == 0 {
			o.OK()
		} else {
			o.Fail("%s", strings.Join(problems, "; "))
		}
	}
}

func sinkOf2(cc *ssa.CallCommon) string {
	if g := staticCallee(cc); g != nil {
		return sinkOf(g)
	}
	return ""
}
