package main

import (
	"encoding/json"
	"fmt"
	"go/token"
	"go/types"
	"os"
	"sort"
	"strings"

	"golang.org/x/tools/go/ssa"
)

// C19 — No package content or cluster object state can crash Package Operator.
//
// Crash lints (analysis A12, helpers_crashlint.go) over every product function reachable from the
// roots. Each lint hit is either discharged by a recognised guard (computed from the code), or must
// match a frozen triage table entry keyed by *function* (never by line) that carries a reason class
// and one line of reason; the class "guarded" additionally carries a guard check that is evaluated
// on every run. A hit without entry (a new, un-triaged site) fails the check; an entry without hit
// (a triaged site that disappeared) is silently fine.

const (
	pkgPackages  = modPKO + "/internal/packages"
	pkgInternCmd = modPKO + "/internal/cmd"
)

func init() {
	register(&Property{
		ID: "C19",
		Explanation: "Decides a lint core of C19 on the product functions reachable (static calls, func values by signature, interface invokes by CHA over workspace types, " +
			"methods of workspace values converted to interfaces) from every Reconcile(context.Context, reconcile.Request) method and the exported API of internal/packages/..., " +
			"pkg/probing, internal/probing and internal/cmd: (R1) no unchecked type assertion on a value of empty-interface type unless it is proven by a dominating comma-ok, comes from a " +
			"non-input source (context value, test double, concrete conversion) or is a triaged table entry; (R2) no constant index / slice bound on a string or slice without a dominating length " +
			"guard (len comparisons, HasPrefix/HasSuffix, != \"\", literal/make lengths, library arity contracts, guards at every caller); (R3) no dereference of the pointer result of a " +
			"(…*T…, error) call where the paired error is not known nil; (R4) every reachable explicit panic is triaged, the 'guarded by validation' ones with a checked guard; (R5) every " +
			"call-graph cycle through a reachable product function is triaged, the input-driven ones with a checked bound; (R6) the triaged writes into metadata maps of API objects keep their nil guard. " +
			"It does not decide panics inside dependencies, implicit run-time panics outside these four shapes (nil map/pointer in general, division, non-constant indexes, conversions), " +
			"resource exhaustion or data-dependent non-termination of loops.",
		NotDecided: []string{"panics inside dependencies (text/template, cel-go, yaml, apimachinery)", "non-constant index expressions and slice bounds computed at run time",
			"nil dereferences other than pointer results paired with an error", "unchecked assertions on non-empty interface types (type chosen by code, e.g. scheme.New / DeepCopyObject)",
			"resource exhaustion, data-dependent infinite loops, goroutine panics in dependencies"},
		Technique: "workspace call graph (static + func-value-by-signature + CHA over workspace types) reachability and SCCs; SSA crash lints with guard-fact dataflow, per-edge disjunction, " +
			"reaching stores for spilled results; frozen per-function triage tables with checked guard obligations",
		Rules: []Rule{
			{ID: "C19.R1", Min: 6, Run: c19r1, Statement: "an unchecked type assertion x.(T) on a value of empty-interface type in reachable code is proven by a dominating comma-ok assertion, has a non-input source, or is a triaged table entry (guard entries are re-checked)"},
			{ID: "C19.R2", Min: 12, Run: c19r2, Statement: "a constant index or constant slice bound on a string or slice in reachable code is dominated by a guard that establishes the needed length, or is a triaged table entry"},
			{ID: "C19.R3", Min: 20, Run: c19r3, Statement: "the pointer result of a call returning (…*T…, error) is dereferenced only where the error of that same call is known to be nil (or the pointer is known non-nil)"},
			{ID: "C19.R4", Min: 20, Run: c19r4, Statement: "every explicit panic in reachable code is a triaged table entry (function + reason class); entries of class 'guarded' carry a guard obligation that is checked"},
			{ID: "C19.R5", Min: 8, Run: c19r5, Statement: "every call-graph cycle containing a reachable product source function is a triaged table entry; input-driven recursions carry a checked bound"},
			{ID: "C19.R6", Min: 8, Run: c19r6, Statement: "in the triaged functions that write into the labels/annotations map of an API object, every such write is preceded by a nil guard (map created when nil) on all paths"},
		},
	})
}

// ---------------------------------------------------------------------------------------------
// Scope

// c19Roots: all Reconcile(context.Context, reconcile.Request) methods of workspace types and the
// exported API (functions and methods of exported types) of internal/packages/..., pkg/probing,
// internal/probing, internal/cmd.
func c19Roots(p *Program) (roots []*ssa.Function, nReconcile int) {
	for _, f := range p.productFuncs() {
		pk := funcPkgPath(f)
		switch {
		case isReconcileMethod(f):
			roots = append(roots, f)
			nReconcile++
		case pk == pkgPackages || strings.HasPrefix(pk, pkgPackages+"/"), pk == pkgProbing, pk == pkgIntProbing, pk == pkgInternCmd:
			if isExportedAPI(f) {
				roots = append(roots, f)
			}
		}
	}
	return roots, nReconcile
}

type c19Scope struct {
	g     *wsGraph
	reach map[*ssa.Function]bool
	via   map[*ssa.Function]*ssa.Function
	fns   []*ssa.Function // reachable product source functions, sorted
	nRec  int
	nRoot int
}

var c19ScopeCache = map[*Program]*c19Scope{}

func c19ScopeOf(p *Program) *c19Scope {
	if s := c19ScopeCache[p]; s != nil {
		return s
	}
	g := p.wsCallGraph()
	roots, nRec := c19Roots(p)
	reach, via := g.reachableFrom(roots)
	s := &c19Scope{g: g, reach: reach, via: via, nRec: nRec, nRoot: len(roots)}
	for f := range reach {
		if g.ws[f] {
			s.fns = append(s.fns, f)
		}
	}
	sort.Slice(s.fns, func(i, j int) bool { return s.fns[i].String() < s.fns[j].String() })
	c19ScopeCache[p] = s
	return s
}

// c19ScopeOb: one obligation per rule that the scope itself is not vacuous: the six controller
// Reconcile roots resolve and the reachable set has the size confirmed on the pinned tree.
func c19ScopeOb(c *Ctx) *c19Scope {
	s := c19ScopeOf(c.P)
	o := c.Ob(nil, "scope", nil, "the analysed scope is not vacuous: Reconcile roots resolve and the reachable set is populated")
	o.Require("≥ 6 Reconcile(context.Context, reconcile.Request) roots", "≥ 150 exported API roots", "≥ 900 reachable product functions")
	o.Note(fmt.Sprintf("%d roots (%d Reconcile), %d reachable product functions of %d", s.nRoot, s.nRec, len(s.fns), len(c.P.productFuncs())))
	if s.nRec < 6 || s.nRoot < 150 || len(s.fns) < 900 {
		o.Fail("reason=anchor-lost: scope shrank (roots=%d, Reconcile=%d, reachable=%d)", s.nRoot, s.nRec, len(s.fns))
	} else {
		o.OK()
	}
	for _, f := range s.fns {
		c.Visit(f)
	}
	return s
}

// c19FnKey: table key of a function — the outermost enclosing function (closure numbering is not
// stable), the generic origin for instances, module prefix dropped.
func c19FnKey(fn *ssa.Function) string {
	for fn.Parent() != nil {
		fn = fn.Parent()
	}
	if o := fn.Origin(); o != nil {
		fn = o
	}
	return shortFuncID(fn)
}

// ---------------------------------------------------------------------------------------------
// Triage tables

const (
	clsStartup   = "startup/programmer invariant"
	clsInfall    = "infallible operation on repo-built values"
	clsSwitch    = "default of an exhaustive type switch"
	clsGuarded   = "guarded by an earlier validation (checked)"
	clsOutside   = "outside C19's input domain"
	clsNotInput  = "operand is not input-derived"
	clsIdiom     = "guarded idiom"
	clsDelegate  = "interface delegation (decorator/composite built by code)"
	clsStructRec = "structural recursion on a finite tree"
)

type c19Check func(c *Ctx, o *Obligation, fn *ssa.Function, site ssa.Instruction)

type c19Entry struct {
	N      int // number of sites admitted in this function
	Class  string
	Reason string
	Check  c19Check
}

func c19E(n int, class, reason string, check ...c19Check) c19Entry {
	e := c19Entry{N: n, Class: class, Reason: reason}
	if len(check) > 0 {
		e.Check = check[0]
	}
	return e
}

// admit applies a table to the hits of one lint: hits grouped by function key; a function without
// entry, or with more hits than admitted, fails.
type c19Hit struct {
	Fn        *ssa.Function
	Site      ssa.Instruction
	Construct string
	Detail    string
}

// c19TableKey: the table key under which a hit in fn is admitted. Normally the key of fn itself.
// A site that sits in an extracted helper (unexported, only static callers — Program.inlinable) of a
// triaged function belongs to that function: when fn has no entry of its own, and every static
// caller resolves (transitively, bounded) to one and the same table entry, that entry's key is used.
// The per-entry site count is taken over the function together with its helpers, so a site *added*
// in a helper is still reported as a new site.
// "Has an entry" includes the entries a function inherits from pinned callees that no longer exist
// (c19Inheritance).
func c19TableKey(p *Program, table map[string]c19Entry, inh map[string][]string, fn *ssa.Function) string {
	own := c19FnKey(fn)
	admits := func(k string) bool {
		_, ok := table[k]
		return ok || len(inh[k]) > 0
	}
	if admits(own) {
		return own
	}
	var resolve func(f *ssa.Function, d int, seen map[*ssa.Function]bool) (string, bool)
	resolve = func(f *ssa.Function, d int, seen map[*ssa.Function]bool) (string, bool) {
		for f.Parent() != nil {
			f = f.Parent()
		}
		k := c19FnKey(f)
		if admits(k) {
			return k, true
		}
		if d >= 3 || seen[f] || !p.inlinable(f) {
			return "", false
		}
		seen[f] = true
		defer delete(seen, f)
		key := ""
		for _, cl := range p.callersOf(f) {
			ck, ok := resolve(cl.Fn, d+1, seen)
			if !ok || (key != "" && ck != key) {
				return "", false
			}
			key = ck
		}
		return key, key != ""
	}
	if k, ok := resolve(fn, 0, map[*ssa.Function]bool{}); ok {
		return k
	}
	return own
}

// Pinned call graph (anchors.json: every top-level product function of the pinned tree with its
// resolved callees, closures folded into their parent), in table-key spelling.
var c19Pinned struct {
	done    bool
	funcs   map[string]bool
	callers map[string][]string // callee -> callers
}

func c19PinnedGraph() (funcs map[string]bool, callers map[string][]string) {
	if !c19Pinned.done {
		c19Pinned.done = true
		c19Pinned.funcs = map[string]bool{}
		c19Pinned.callers = map[string][]string{}
		var recorded map[string]anchorFP
		if len(anchorsJSON) > 0 && json.Unmarshal(anchorsJSON, &recorded) == nil {
			short := func(id string) string { return strings.ReplaceAll(id, "package-operator.run/", "") }
			for id, fp := range recorded {
				c19Pinned.funcs[short(id)] = true
				for _, cal := range fp.Callees {
					c19Pinned.callers[short(cal)] = append(c19Pinned.callers[short(cal)], short(id))
				}
			}
			for k := range c19Pinned.callers {
				sort.Strings(c19Pinned.callers[k])
			}
		}
	}
	return c19Pinned.funcs, c19Pinned.callers
}

var c19CurrentKeysCache = map[*Program]map[string]bool{}

func c19CurrentKeys(p *Program) map[string]bool {
	if m := c19CurrentKeysCache[p]; m != nil {
		return m
	}
	m := map[string]bool{}
	for _, f := range p.Funcs {
		m[c19FnKey(f)] = true
	}
	c19CurrentKeysCache[p] = m
	return m
}

// c19Inheritance: a triaged function of the pinned tree that no longer exists (merged into its
// caller, or turned into a function of another shape that rename tracking does not match) hands its
// table entry to the functions that called it in the pinned tree — its code can only have moved
// there (or into new helpers of theirs, which c19TableKey resolves to them). Result: current function
// key -> keys of the vanished entries it inherits (sorted). Callers that vanished as well pass the
// entry further up (bounded).
func c19Inheritance(p *Program, table map[string]c19Entry) map[string][]string {
	pinned, callers := c19PinnedGraph()
	current := c19CurrentKeys(p)
	out := map[string][]string{}
	var keys []string
	for k := range table {
		keys = append(keys, k)
	}
	sort.Strings(keys)
	for _, v := range keys {
		if current[v] || !pinned[v] {
			continue
		}
		seen := map[string]bool{v: true}
		frontier := []string{v}
		for depth := 0; depth < 3 && len(frontier) > 0; depth++ {
			var next []string
			for _, f := range frontier {
				for _, cl := range callers[f] {
					if seen[cl] {
						continue
					}
					seen[cl] = true
					if current[cl] {
						out[cl] = append(out[cl], v)
					} else {
						next = append(next, cl)
					}
				}
			}
			frontier = next
		}
	}
	return out
}

// c19SiteKey identifies a site by its source position: the copies of one statement that the
// normaliser's tail duplication produces are one site.
func c19SiteKey(p *Program, in ssa.Instruction) string {
	pos := instrPos(in)
	if !pos.IsValid() {
		return fmt.Sprintf("%p", in)
	}
	ps := p.Fset.Position(pos)
	return fmt.Sprintf("%s:%d:%d", ps.Filename, ps.Line, ps.Column)
}

// c19Admit applies a triage table to the hits of one lint. Hits are grouped by table key (function
// with its extracted helpers). A group is admitted by the function's own entry plus the entries it
// inherits from vanished pinned callees: the number of distinct sites must not exceed the admitted
// total, and every site must be assigned to an entry whose guard check (if any) it passes, no entry
// taking more sites than it admits.
func c19Admit(c *Ctx, table map[string]c19Entry, hits []c19Hit, what string) {
	p := c.P
	inh := c19Inheritance(p, table)
	keyOf := map[*ssa.Function]string{}
	sites := map[string][]string{} // key -> distinct site keys in order of appearance
	seenSite := map[string]bool{}
	for _, h := range hits {
		if _, ok := keyOf[h.Fn]; !ok {
			keyOf[h.Fn] = c19TableKey(p, table, inh, h.Fn)
		}
		k := keyOf[h.Fn]
		sk := c19SiteKey(p, h.Site)
		if !seenSite[k+"\x00"+sk] {
			seenSite[k+"\x00"+sk] = true
			sites[k] = append(sites[k], sk)
		}
	}
	// groups admitted by several entries: evaluate the checks on scratch obligations and assign
	multi := map[string]map[string]string{} // key -> site key -> admitting entry key ("" = none)
	results := map[string]*Obligation{}     // hit index|entry key -> evaluated scratch obligation
	eval := func(hi int, ek string) *Obligation {
		id := fmt.Sprintf("%d|%s", hi, ek)
		if o, ok := results[id]; ok {
			return o
		}
		e := table[ek]
		o := &Obligation{Verdict: Undecided}
		if e.Check != nil {
			o.Require("guard obligation of table entry: " + e.Reason)
			e.Check(c, o, hits[hi].Fn, hits[hi].Site)
		} else {
			o.OK("table: " + e.Class + " — " + e.Reason)
		}
		results[id] = o
		return o
	}
	entriesOf := func(k string) []string {
		var es []string
		if _, ok := table[k]; ok {
			es = append(es, k)
		}
		return append(es, inh[k]...)
	}
	total := func(k string) int {
		n := 0
		for _, ek := range entriesOf(k) {
			n += table[ek].N
		}
		return n
	}
	var groupKeys []string
	for k := range sites {
		groupKeys = append(groupKeys, k)
	}
	sort.Strings(groupKeys)
	for _, k := range groupKeys {
		sks := sites[k]
		es := entriesOf(k)
		if len(es) < 2 && !(len(es) == 1 && es[0] != k) {
			continue
		}
		if len(sks) > total(k) {
			continue
		}
		hitsAt := map[string][]int{}
		for hi, h := range hits {
			if keyOf[h.Fn] == k {
				sk := c19SiteKey(p, h.Site)
				hitsAt[sk] = append(hitsAt[sk], hi)
			}
		}
		adm := func(si, ei int) bool {
			for _, hi := range hitsAt[sks[si]] {
				if eval(hi, es[ei]).Verdict != Discharged {
					return false
				}
			}
			return true
		}
		assigned := make([]int, len(sks))
		for i := range assigned {
			assigned[i] = -1
		}
		load := make([]int, len(es))
		var try func(si int, seen []bool) bool
		try = func(si int, seen []bool) bool {
			for ei := range es {
				if seen[ei] || !adm(si, ei) {
					continue
				}
				seen[ei] = true
				if load[ei] < table[es[ei]].N {
					load[ei]++
					assigned[si] = ei
					return true
				}
				for sj := range sks {
					if assigned[sj] == ei && try(sj, seen) {
						assigned[si] = ei
						return true
					}
				}
			}
			return false
		}
		multi[k] = map[string]string{}
		for si := range sks {
			try(si, make([]bool, len(es)))
		}
		for si, sk := range sks {
			if assigned[si] >= 0 {
				multi[k][sk] = es[assigned[si]]
			} else {
				multi[k][sk] = ""
			}
		}
	}
	s := c19ScopeOf(p)
	for hi, h := range hits {
		k := keyOf[h.Fn]
		o := c.Ob(h.Fn, h.Construct, h.Site, c.rule.Statement)
		o.Note(h.Detail)
		es := entriesOf(k)
		switch {
		case len(es) == 0:
			o.Require("a triage table entry for " + k)
			o.Fail("un-triaged %s in %s (reachable: %s): %s — read the site, then fix it or add a reasoned table entry", what, k, pathTo(s.via, h.Fn), h.Detail)
		case len(sites[k]) > total(k):
			e := table[es[0]]
			o.Fail("%s has %d %s site(s), the triage table admits %d (%s: %s) — a new site was added", k, len(sites[k]), what, total(k), e.Class, e.Reason)
		case multi[k] != nil:
			ek := multi[k][c19SiteKey(p, h.Site)]
			if ek == "" {
				var why []string
				for _, cand := range es {
					if r := eval(hi, cand); r.Verdict != Discharged {
						why = append(why, cand+": "+r.Detail)
					}
				}
				if len(why) == 0 {
					why = append(why, "every entry it could match is used up by another site")
				}
				o.Require("a triage table entry of " + k + " (own or inherited from " + strings.Join(inh[k], ", ") + ") that admits this site")
				o.Fail("%s in %s is not admitted by the table entries available to it — %s", what, k, strings.Join(why, "; "))
				continue
			}
			r := eval(hi, ek)
			o.Required = append(o.Required, r.Required...)
			o.Found = append(o.Found, r.Found...)
			o.Verdict, o.Detail = r.Verdict, r.Detail
			if ek != k {
				o.Note("admitted by the entry of " + ek + ", which no longer exists; it was called by " + k + " in the pinned tree")
			}
		default:
			e := table[es[0]]
			if e.Check != nil {
				o.Require("guard obligation of table entry: " + e.Reason)
				e.Check(c, o, h.Fn, h.Site)
			} else {
				o.OK("table: " + e.Class + " — " + e.Reason)
			}
		}
	}
}

// holdsAtOrOnAllEdges: pred holds on the facts at b, or (bounded disjunction) on every way b is
// entered: the facts of each incoming CFG edge satisfy pred, or the edge's source block does in the
// same sense. Edges that the facts already known downstream exclude are not followed
// (pfFeasibleEdges: a Phi of the block is tested later and the edge's incoming value contradicts the
// test — `err := phi(nil, fmt.Errorf(…), nil); if err != nil { return }` leaves the first and third
// edge). That is the shape a guard has after the normaliser merged an extracted helper with several
// returns into its caller: the helper's returns meet in one block and only the test of the merged
// result separates them again.
func (p *Program) holdsAtOrOnAllEdges(b *ssa.BasicBlock, pred func([]Fact) bool) bool {
	if pred(p.FactsAt(b)) {
		return true
	}
	visiting := map[*ssa.BasicBlock]bool{b: true}
	var back func(b *ssa.BasicBlock, known []Fact, depth int) bool
	back = func(b *ssa.BasicBlock, known []Fact, depth int) bool {
		if len(b.Preds) == 0 || depth <= 0 {
			return false
		}
		feasible := p.c19FeasibleEdges(b, known)
		n := 0
		for i, pr := range b.Preds {
			if i < len(feasible) && !feasible[i] {
				continue
			}
			n++
			ef := p.FactsOnEdge(pr, b)
			if pred(ef) {
				continue
			}
			if visiting[pr] {
				return false
			}
			visiting[pr] = true
			ok := pred(p.FactsAt(pr)) || back(pr, append(append([]Fact{}, known...), ef...), depth-1)
			visiting[pr] = false
			if !ok {
				return false
			}
		}
		return n > 0
	}
	return back(b, p.FactsAt(b), 4)
}

// ---------------------------------------------------------------------------------------------
// R1 unchecked assertions

var c19AssertTable = map[string]c19Entry{
	"(*internal/packages/internal/packagerender/celctx.CelCtx).evaluate": c19E(1, clsGuarded,
		"out.Value().(bool) is dominated by reflect.DeepEqual(out.Type(), cel.BoolType) == true", c19CheckCelTypeGuard),
	"(*pkg/probing.CELProbe).probe": c19E(1, clsGuarded,
		"every CELProbe.Program is stored only after ast.OutputType() == cel.BoolType was established for the compiled AST (NewCELProbe)", c19CheckCELProbeCtor),
	"internal/packages/internal/packagerender.workaroundnovalue": c19E(2, clsNotInput,
		"operand is the JSON round trip of the repo's own TemplateContext struct: .package and .package.metadata are non-pointer struct fields without omitempty, always objects"),
	"internal/apis/manifests.RegisterConversions": c19E(400, clsNotInput,
		"conversion-gen closures func(a, b interface{}, scope): runtime.Scheme calls them only with the (a, b) types they were registered for"),
	"internal/packages/internal/packagekickstart/presets.parametrizeDeploymentContainers": c19E(2, clsOutside,
		"kubectl package kickstart presets parse arbitrary user manifests on the developer's machine; not package content, API specs or cluster object state"),
	"internal/packages/internal/packagekickstart/presets.parametrizeDeploymentImages": c19E(3, clsOutside,
		"kubectl package kickstart presets (see parametrizeDeploymentContainers)"),
	"internal/packages/internal/packagekickstart/presets.parametrizeNamespace": c19E(1, clsOutside,
		"kubectl package kickstart presets (see parametrizeDeploymentContainers)"),
}

// non-input sources of an `any` value
func c19SafeOrigin(o origin) bool {
	switch o.Kind {
	case "concrete", "const":
		return true
	case "call":
		switch o.Desc {
		case "invoke:context.Context.Value", "(github.com/stretchr/testify/mock.Arguments).Get":
			return true
		}
	}
	return false
}

func c19r1(c *Ctx) {
	p := c.P
	s := c19ScopeOb(c)
	var hits []c19Hit
	for _, fn := range s.fns {
		for _, a := range p.uncheckedAsserts(fn) {
			if !isEmptyInterface(a.Instr.X.Type()) {
				continue // type chosen by code (scheme.New, DeepCopyObject, adapters) — not decided here
			}
			construct := "assert-" + types.TypeString(a.Instr.AssertedType, func(*types.Package) string { return "" })
			detail := fmt.Sprintf("%s.(%s), operand from %s", p.describe(a.Instr.X), a.Instr.AssertedType, originStrings(a.Origins))
			if p.assertProvenByFacts(a.Instr) {
				c.Ob(fn, construct, a.Instr, c.rule.Statement).OK("dominated by a successful comma-ok assertion of the same value to the same type")
				continue
			}
			safe := len(a.Origins) > 0
			for _, o := range a.Origins {
				if !c19SafeOrigin(o) {
					safe = false
				}
			}
			if safe {
				c.Ob(fn, construct, a.Instr, c.rule.Statement).OK("not input-derived: " + originStrings(a.Origins))
				continue
			}
			hits = append(hits, c19Hit{fn, a.Instr, construct, detail})
		}
	}
	c19Admit(c, c19AssertTable, hits, "unchecked type assertion on an input-derived value")
}

// isGlobalLoadNamed: v is a load of package-level variable pkg.name (any package when pkg == "").
func isGlobalLoadNamed(v ssa.Value, name string) bool {
	u, ok := stripConv(v).(*ssa.UnOp)
	if !ok || u.Op != token.MUL {
		return false
	}
	g, ok := u.X.(*ssa.Global)
	return ok && g.Name() == name
}

// boolTypeTest: fact says `<recv>.<method>()` equals cel.BoolType (reflect.DeepEqual or ==), returns recv.
func (p *Program) boolTypeTest(f Fact, method string) (recv ssa.Value, ok bool) {
	var a, b ssa.Value
	pol := true
	switch x := f.Cond.(type) {
	case *ssa.Call:
		if !isCallTo(x.Common(), "reflect.DeepEqual") || len(x.Common().Args) != 2 {
			return nil, false
		}
		a, b = x.Common().Args[0], x.Common().Args[1]
	case *ssa.BinOp:
		if x.Op != token.EQL && x.Op != token.NEQ {
			return nil, false
		}
		a, b = x.X, x.Y
		pol = x.Op == token.EQL
	default:
		return nil, false
	}
	if f.Pol != pol {
		return nil, false
	}
	for _, pair := range [][2]ssa.Value{{a, b}, {b, a}} {
		if !isGlobalLoadNamed(pair[1], "BoolType") {
			continue
		}
		if call, _ := asCall(pair[0]); call != nil && calleeName(call.Common()) == method {
			return callRecv(call.Common()), true
		}
	}
	return nil, false
}

func c19CheckCelTypeGuard(c *Ctx, o *Obligation, fn *ssa.Function, site ssa.Instruction) {
	p := c.P
	ta := site.(*ssa.TypeAssert)
	vc, _ := asCall(ta.X)
	if vc == nil || calleeName(vc.Common()) != "Value" {
		o.Unknown("operand is not <val>.Value()")
		return
	}
	val := callRecv(vc.Common())
	ok := p.holdsAtOrOnAllEdges(ta.Block(), func(fs []Fact) bool {
		for _, f := range fs {
			if r, ok := p.boolTypeTest(f, "Type"); ok && p.sameValue(r, val) {
				return true
			}
		}
		return false
	})
	if ok {
		o.OK("dominated by <val>.Type() == cel.BoolType for the asserted value")
	} else {
		o.Fail("the assertion %s is not dominated by a test that %s.Type() equals cel.BoolType", p.describe(ta.X), p.describe(val))
	}
}

func c19CheckCELProbeCtor(c *Ctx, o *Obligation, fn *ssa.Function, site ssa.Instruction) {
	p := c.P
	// the asserted value must be the result of Eval on the probe's Program field
	ta := site.(*ssa.TypeAssert)
	vc, _ := asCall(ta.X)
	if vc == nil || calleeName(vc.Common()) != "Value" {
		o.Unknown("operand is not <val>.Value()")
		return
	}
	ec, idx := asCall(callRecv(vc.Common()))
	if ec == nil || idx != 0 || calleeName(ec.Common()) != "Eval" {
		o.Unknown("asserted value is not the result of <program>.Eval")
		return
	}
	fieldKey := ""
	if ld, ok := stripConv(callRecv(ec.Common())).(*ssa.UnOp); ok && ld.Op == token.MUL {
		if fa, ok := ld.X.(*ssa.FieldAddr); ok {
			fieldKey = namedTypeString(fa.X.Type()) + "." + fieldName(fa.X.Type(), fa.Field)
		}
	}
	if fieldKey == "" {
		o.Unknown("program is not read from a struct field")
		return
	}
	// every store to that field anywhere in product code
	stores := 0
	for _, f := range p.productFuncs() {
		for _, b := range f.Blocks {
			for _, in := range b.Instrs {
				st, ok := in.(*ssa.Store)
				if !ok {
					continue
				}
				fa, ok := st.Addr.(*ssa.FieldAddr)
				if !ok || namedTypeString(fa.X.Type())+"."+fieldName(fa.X.Type(), fa.Field) != fieldKey {
					continue
				}
				stores++
				pc, pidx := asCall(st.Val)
				if pc == nil || pidx != 0 || calleeName(pc.Common()) != "Program" || len(callArgs(pc.Common())) < 1 {
					o.Fail("%s is stored from %s at %s, not from <env>.Program(<ast>)", fieldKey, p.describe(st.Val), p.IPos(st))
					return
				}
				ast := callArgs(pc.Common())[0]
				ok = p.holdsAtOrOnAllEdges(b, func(fs []Fact) bool {
					for _, ft := range fs {
						if r, ok := p.boolTypeTest(ft, "OutputType"); ok && p.sameValue(r, ast) {
							return true
						}
					}
					return false
				})
				if !ok {
					o.Fail("%s is stored at %s without a dominating test that the compiled AST's OutputType() is cel.BoolType", fieldKey, p.IPos(st))
					return
				}
				o.Note("store at " + p.IPos(st) + " is behind OutputType()==BoolType")
			}
		}
	}
	if stores == 0 {
		o.Unknown("no store to %s found", fieldKey)
		return
	}
	o.OK()
}

// ---------------------------------------------------------------------------------------------
// R2 constant indexes

var c19IndexTable = map[string]c19Entry{
	"internal/packages/internal/packagekickstart/rukpak/convert.validateTargetNamespaces": c19E(1, clsOutside,
		"kubectl package kickstart OLM bundle conversion (developer tool); also guarded by set.Len()==1 of the set built from the same slice"),
}

// c19LengthOK extends lengthKnownAtLeast with per-edge disjunction, prefix tests, library contracts
// that need facts, and guards at every static caller when x is a parameter.
func (p *Program) c19LengthOK(site ssa.Instruction, x ssa.Value, need int64, depth int) (bool, string) {
	if ok, why := p.lengthKnownAtLeast(site, x, need); ok {
		return true, why
	}
	why := ""
	pred := func(fs []Fact) bool {
		for _, f := range fs {
			for _, lb := range lenBounds(f.Cond) {
				if lb.When == f.Pol && lb.N >= need && p.sameValue(lb.X, x) {
					why = "guard " + p.describeFact(f)
					return true
				}
			}
			if need == 1 {
				if y, when, ok := emptyStringBound(f.Cond); ok && when == f.Pol && p.sameValue(y, x) {
					why = "guard " + p.describeFact(f)
					return true
				}
			}
			if call, _ := asCall(f.Cond); call != nil && f.Pol && isCallTo(call.Common(), "strings.HasPrefix", "strings.HasSuffix", "bytes.HasPrefix", "bytes.HasSuffix") {
				if pre, ok := constString(call.Common().Args[1]); ok && int64(len(pre)) >= need && p.sameValue(call.Common().Args[0], x) {
					why = "guard " + p.describeFact(f)
					return true
				}
			}
		}
		// (*runtime.Scheme).ObjectKinds returns a non-nil error when it finds no kind
		if call, idx := asCall(x); call != nil && idx == 0 && need == 1 &&
			isCallTo(call.Common(), "(*k8s.io/apimachinery/pkg/runtime.Scheme).ObjectKinds") && p.errOfCall(fs, call) == yesTri {
			why = "Scheme.ObjectKinds returned a nil error (it reports an error when no kind is registered)"
			return true
		}
		return false
	}
	if p.holdsAtOrOnAllEdges(site.Block(), pred) {
		return true, why
	}
	// parameter: guard at every static caller
	if prm, ok := stripConv(x).(*ssa.Parameter); ok && depth > 0 {
		fn := prm.Parent()
		idx := -1
		for i, pp := range fn.Params {
			if pp == prm {
				idx = i
			}
		}
		callers := p.callersOf(fn)
		if idx >= 0 && len(callers) > 0 && !p.addressTaken(fn) && fn.Parent() == nil && !isExportedAPI(fn) {
			var notes []string
			for _, cl := range callers {
				if idx >= len(cl.Common.Args) {
					return false, ""
				}
				ok, w := p.c19LengthOK(cl.Instr, cl.Common.Args[idx], need, depth-1)
				if !ok {
					return false, ""
				}
				notes = append(notes, shortFuncID(cl.Fn)+": "+w)
			}
			return true, "guarded at every caller (" + strings.Join(notes, "; ") + ")"
		}
	}
	return false, ""
}

func c19r2(c *Ctx) {
	p := c.P
	s := c19ScopeOb(c)
	var hits []c19Hit
	for _, fn := range s.fns {
		for _, ix := range constIndexSites(fn) {
			construct := fmt.Sprintf("%s-len%d", ix.What, ix.Need)
			if ok, why := p.c19LengthOK(ix.Instr, ix.X, ix.Need, 2); ok {
				c.Ob(fn, construct, ix.Instr, c.rule.Statement).Require(fmt.Sprintf("len(%s) >= %d", p.describe(ix.X), ix.Need)).OK(why)
				continue
			}
			hits = append(hits, c19Hit{fn, ix.Instr, construct,
				fmt.Sprintf("%s of %s needs len >= %d, no dominating guard (value from %s)", ix.What, p.describe(ix.X), ix.Need, originStrings(p.originsOf(ix.X)))})
		}
	}
	c19Admit(c, c19IndexTable, hits, "constant index/slice bound without length guard")
}

// ---------------------------------------------------------------------------------------------
// R3 pointer result under a possibly non-nil error

var c19PtrTable = map[string]c19Entry{}

func c19r3(c *Ctx) {
	p := c.P
	s := c19ScopeOb(c)
	var hits []c19Hit
	for _, fn := range s.fns {
		for _, b := range fn.Blocks {
			for _, in := range b.Instrs {
				call, ok := in.(*ssa.Call)
				if !ok {
					continue
				}
				ptrIdx, errIdx := ptrErrResult(call)
				if errIdx < 0 || len(ptrIdx) == 0 {
					continue
				}
				for _, r := range referrersOf(call) {
					ex, ok := r.(*ssa.Extract)
					if !ok {
						continue
					}
					isPtr := false
					for _, i := range ptrIdx {
						isPtr = isPtr || i == ex.Index
					}
					if !isPtr {
						continue
					}
					for _, u := range p.derefUses(ex) {
						construct := "deref-" + calleeName(call.Common())
						fs := p.FactsAt(u.In.Block())
						req := "err == nil of " + p.describe(call) + " at the use"
						switch {
						case p.errOfCall(fs, call) == yesTri:
							c.Ob(fn, construct, u.In, c.rule.Statement).Require(req).OK("error of the same call known nil")
						case p.nilnessFromFacts(fs, ex) == noTri:
							c.Ob(fn, construct, u.In, c.rule.Statement).Require(req).OK("pointer known non-nil")
						default:
							hits = append(hits, c19Hit{fn, u.In, construct,
								fmt.Sprintf("%s of the pointer result of %s (call at %s) where its error is not known to be nil; facts: %s",
									u.How, p.describe(call), p.IPos(call), strings.Join(factStrings(p, fs), " ∧ "))})
						}
					}
				}
			}
		}
	}
	c19Admit(c, c19PtrTable, hits, "pointer use under a possibly non-nil error")
}

// ---------------------------------------------------------------------------------------------
// R4 explicit panics

var c19PanicTable = map[string]c19Entry{}

func init() {
	schemeNew := "scheme.New(<constant PKO GroupVersionKind>) fails only if the type was not registered in the scheme built at process start; independent of object content"
	for _, f := range []string{
		"internal/adapters.NewClusterObjectDeployment", "internal/adapters.NewObjectDeployment",
		"internal/adapters.NewClusterObjectSet", "internal/adapters.NewObjectSet",
		"internal/adapters.NewClusterObjectSetList", "internal/adapters.NewObjectSetList",
		"internal/adapters.NewClusterObjectSlice", "internal/adapters.NewObjectSlice",
		"internal/adapters.NewClusterObjectSliceList", "internal/adapters.NewObjectSliceList",
		"internal/adapters.NewGenericClusterObjectTemplate", "internal/adapters.NewGenericObjectTemplate",
		"internal/adapters.NewGenericClusterPackage", "internal/adapters.NewGenericPackage",
		"internal/controllers/objectsetphases.newGenericClusterObjectSetPhase", "internal/controllers/objectsetphases.newGenericObjectSetPhase",
		"internal/controllers/objectsets.newGenericClusterObjectSetPhase", "internal/controllers/objectsets.newGenericObjectSetPhase",
		"internal/packages/internal/packagedeploy.newGenericClusterObjectSetList", "internal/packages/internal/packagedeploy.newGenericObjectSetList",
	} {
		c19PanicTable[f] = c19E(1, clsStartup, schemeNew, c19CheckPanicOnSchemeNew)
	}
	for k, e := range map[string]c19Entry{
		"(*internal/cmd.Client).PackageSetPaused": c19E(1, clsGuarded,
			"every workspace caller passes a kind it has just compared against the very constants the callee switches on", c19CheckPanicCallerValidatesSwitch),
		"(internal/packages/internal/packagerender.phaseCollector).AddObjects": c19E(1, clsGuarded,
			"parseObjects admits an object into the rendered set only when the same parser function returned a nil error for it", c19CheckPanicAddObjects),
		"internal/packages/internal/packagemanifestvalidation.ValidatePackageManifest": c19E(1, clsGuarded,
			"the schema-conversion error is panicked on only under len(validatePackageManifestConfig(<same config>)) == 0", c19CheckPanicValidateManifest),
		"(*internal/controllers/objectsets.objectSetRemotePhaseReconciler).Reconcile": c19E(1, clsInfall,
			"json.Marshal of a map literal of strings/bools built in place", c19CheckPanicJSONLiteral),
		"(*internal/controllers.defaultAdoptionChecker).isControlledByPreviousRevision": c19E(1, clsStartup,
			"GVKForObject of the typed (Cluster)ObjectSet behind the previous-revision adapter: fails only for a type missing from the startup scheme"),
		"(*internal/dynamiccache.EnqueueWatchingObjects).enqueueWatchers": c19E(1, clsInfall,
			"GVKForObject of an object delivered by the dynamic informer: list/watch decoding always sets apiVersion/kind (trusted client-go behaviour)"),
		"(*internal/dynamiccache.EnqueueWatchingObjects).parseWatcherTypeGroupKind": c19E(1, clsStartup,
			"the watcher type is a Go type chosen by the controller constructor; more than one kind is a wiring error"),
		"internal/dynamiccache.NewEnqueueWatchingObjects": c19E(1, clsStartup, "constructor called while wiring controllers; unregistered watcher type is a programmer error"),
		"(*internal/dynamiccache.cacheSource).Source":     c19E(2, clsStartup, "nil handler / adding a source after manager start: controller wiring order, no input involved"),
		"(internal/dynamiccache.cacheSettings[T]).Start":  c19E(1, clsStartup, "adding event handlers after manager start: controller wiring order, no input involved"),
		"internal/controllers/objectdeployments.newObjectSetGetter": c19E(1, clsSwitch,
			"type switch over the ObjectSetAccessor implementations (namespaced, cluster, test mock); the value is built by the controller's own constructor func"),
		"internal/utils.ImageURLWithOverride": c19E(1, clsSwitch,
			"name.ParseReference returns only name.Tag or name.Digest"),
		"internal/utils.DeepHashObject": c19E(1, clsInfall, "spew prints into a hash.Hash, whose Write never returns an error"),
		"pkg/probing.toUnstructured": c19E(1, clsInfall,
			"DefaultUnstructuredConverter.ToUnstructured of the managed object, which PKO holds as *unstructured.Unstructured (deep copy, cannot fail)"),
		"(internal/packages/internal/packagemanifestvalidation.validatorAdapter).Validate": c19E(1, clsStartup,
			"adapter around kube-openapi: apiextensions' ValidateCustomResource is called by this package without options"),
		"(*internal/packages/internal/packagerepository.packageIndex).Add": c19E(1, clsStartup,
			"unexported index is looked up / created under entry.Data.Name by its only caller RepositoryIndex.Add; also repository index = outside the input domain"),
		"internal/solver.Solve":               c19E(1, clsOutside, "dependency solver used by `kubectl package update` at build time; default of a type switch over the solver's own three variable kinds"),
		"internal/solver.ensureNonDuplicates": c19E(1, clsOutside, "dependency solver used by `kubectl package update` at build time (duplicate identifiers in a developer's manifest)"),
		"cmd/package-operator-manager/bootstrap/fix.mustParseLabelSelector": c19E(1, clsStartup,
			"parses a constant selector string of the bootstrap CRD-pluralization fix"),
	} {
		c19PanicTable[k] = e
	}
}

// isSelectArtifact: go/ssa emits an unreachable panic after a blocking select without default.
func isSelectArtifact(pn *ssa.Panic) bool {
	s, ok := constString(pn.X)
	return ok && s == "blocking select matched no case" && !pn.Pos().IsValid()
}

func c19r4(c *Ctx) {
	p := c.P
	s := c19ScopeOb(c)
	var hits []c19Hit
	for _, fn := range s.fns {
		for _, pn := range panicsIn(fn) {
			if isSelectArtifact(pn) {
				continue
			}
			hits = append(hits, c19Hit{fn, pn, "panic", "panic(" + p.panicShape(pn) + ")"})
		}
	}
	c19Admit(c, c19PanicTable, hits, "explicit panic")
}

// panickedCall: the call whose error result is panicked on (panic(err) with err = <call>#last).
func (p *Program) panickedCall(pn *ssa.Panic) *ssa.Call {
	os := p.originsOf(pn.X)
	if len(os) != 1 || os[0].Kind != "call" {
		return nil
	}
	call, _ := asCall(os[0].V)
	return call
}

func c19CheckPanicOnSchemeNew(c *Ctx, o *Obligation, fn *ssa.Function, site ssa.Instruction) {
	call := c.P.panickedCall(site.(*ssa.Panic))
	if call == nil || !isCallTo(call.Common(), "(*k8s.io/apimachinery/pkg/runtime.Scheme).New") {
		o.Fail("the panic is no longer on the error of (*runtime.Scheme).New — re-triage this site")
		return
	}
	o.OK("table: " + clsStartup + " — panic(err) of scheme.New")
}

func c19CheckPanicJSONLiteral(c *Ctx, o *Obligation, fn *ssa.Function, site ssa.Instruction) {
	p := c.P
	call := p.panickedCall(site.(*ssa.Panic))
	if call == nil || !isCallTo(call.Common(), "encoding/json.Marshal") {
		o.Fail("the panic is no longer on the error of json.Marshal — re-triage this site")
		return
	}
	var bad func(v ssa.Value, d int) string
	bad = func(v ssa.Value, d int) string {
		if kv, ok := mapLiteral(v); ok && d < 5 {
			for k, x := range kv {
				if why := bad(x, d+1); why != "" {
					return k + ": " + why
				}
			}
			return ""
		}
		switch t := stripConv(v).Type().Underlying().(type) {
		case *types.Basic:
			if t.Info()&(types.IsString|types.IsBoolean|types.IsInteger) != 0 {
				return ""
			}
		}
		if isNilConst(stripConv(v)) {
			return ""
		}
		return "value " + p.describe(v) + " of type " + stripConv(v).Type().String() + " is not a string/bool/integer or a nested map literal"
	}
	if why := bad(call.Common().Args[0], 0); why != "" {
		o.Fail("json.Marshal argument is not a literal that cannot fail: %s", why)
		return
	}
	o.OK("json.Marshal of a map literal with constant keys and string/bool/integer leaves")
}

// c19CheckPanicCallerValidatesSwitch: the panic sits in the default of a switch over a string
// parameter; every workspace caller must have established (on every path) that the argument equals
// one of the constants the callee handles.
func c19CheckPanicCallerValidatesSwitch(c *Ctx, o *Obligation, fn *ssa.Function, site ssa.Instruction) {
	p := c.P
	var prm *ssa.Parameter
	handled := map[string]bool{}
	for _, f := range p.FactsAt(site.Block()) {
		x, s, equal, ok := stringConstTest(f)
		if !ok || equal {
			continue
		}
		if pp, isPrm := x.(*ssa.Parameter); isPrm && (prm == nil || prm == pp) {
			prm = pp
			handled[s] = true
		}
	}
	if prm == nil {
		o.Unknown("panic is not in the default branch of comparisons of a string parameter with constants")
		return
	}
	idx := -1
	for i, pp := range fn.Params {
		if pp == prm {
			idx = i
		}
	}
	callers := p.callersOf(fn)
	n := 0
	for _, cl := range callers {
		if isNonProductPkg(funcPkgPath(cl.Fn)) {
			continue
		}
		n++
		arg := cl.Common.Args[idx]
		ok := p.holdsAtOrOnAllEdges(cl.Block(), func(fs []Fact) bool {
			for _, f := range fs {
				if x, s, equal, ok := stringConstTest(f); ok && equal && handled[s] && p.sameValue(x, arg) {
					return true
				}
			}
			return false
		})
		if !ok {
			o.Fail("caller %s at %s passes %s for parameter %q without having established that it is one of %v", shortFuncID(cl.Fn), p.IPos(cl.Instr), p.describe(arg), prm.Name(), keysOf(handled))
			return
		}
		o.Note("caller " + shortFuncID(cl.Fn) + " validates " + prm.Name())
	}
	if n == 0 || p.addressTaken(fn) {
		o.Fail("no workspace caller found (or the method is used as a value): nothing validates parameter %q before the panic", prm.Name())
		return
	}
	o.OK()
}

// stringConstTest decomposes a fact `x == "c"` / `x != "c"` (either operand order, either polarity)
// into (x, c, whether the fact says they are equal).
func stringConstTest(f Fact) (x ssa.Value, s string, equal bool, ok bool) {
	b, isBin := f.Cond.(*ssa.BinOp)
	if !isBin || (b.Op != token.EQL && b.Op != token.NEQ) {
		return nil, "", false, false
	}
	for _, pair := range [][2]ssa.Value{{b.X, b.Y}, {b.Y, b.X}} {
		if c, isC := constString(pair[1]); isC {
			return pair[0], c, (b.Op == token.EQL) == f.Pol, true
		}
	}
	return nil, "", false, false
}

// c19CheckPanicAddObjects: AddObjects panics on the error of parser F; the upstream producer of the
// rendered objects (packagerender.parseObjects) must append an object to its result only where F
// returned a nil error for that same object.
func c19CheckPanicAddObjects(c *Ctx, o *Obligation, fn *ssa.Function, site ssa.Instruction) {
	p := c.P
	call := p.panickedCall(site.(*ssa.Panic))
	if call == nil || staticCallee(call.Common()) == nil {
		o.Unknown("the panic is not on the error result of a static call")
		return
	}
	parser := staticCallee(call.Common())
	prod := c.MustFunc(pkgPkgRender, "parseObjects")
	if prod == nil {
		o.Fail("upstream validation anchor packagerender.parseObjects not found")
		return
	}
	appends := 0
	for _, cl := range callsIn(prod) {
		if !isCallTo(cl.Common, "builtin:append") || len(cl.Common.Args) != 2 {
			continue
		}
		if !strings.HasSuffix(cl.Common.Args[0].Type().String(), "unstructured.Unstructured") {
			continue
		}
		elems, ok := sliceElems(cl.Common.Args[1])
		if !ok {
			o.Unknown("append at %s does not append a literal list of objects", p.IPos(cl.Instr))
			return
		}
		for _, e := range elems {
			ld, ok := e.(*ssa.UnOp)
			if !ok || ld.Op != token.MUL {
				o.Unknown("appended object at %s is not a local variable", p.IPos(cl.Instr))
				return
			}
			appends++
			a, isLocal := ld.X.(*ssa.Alloc)
			if !isLocal {
				o.Unknown("appended object at %s is not a local variable", p.IPos(cl.Instr))
				return
			}
			v := &c19Validation{p: p, parser: parser}
			if !v.local(a, ld, p.FactsAt(cl.Block()), 0) {
				o.Fail("parseObjects admits an object at %s without %s having returned a nil error for it: AddObjects would panic on it%s", p.IPos(cl.Instr), shortFuncID(parser), v.whyNot())
				return
			}
			for _, n := range v.notes {
				o.Note("object appended at " + p.IPos(cl.Instr) + " only under " + n)
			}
		}
	}
	if appends == 0 {
		o.Unknown("no append of parsed objects found in parseObjects")
		return
	}
	o.OK()
}

// c19FeasibleEdges: pfFeasibleEdges, which additionally knows that an interface value built in place
// from a concrete value (`return obj, ViolationError{…}`: go/ssa `make error <- ViolationError`) is
// not the nil interface — an edge that brings such a value into a Phi known nil was not taken.
func (p *Program) c19FeasibleEdges(b *ssa.BasicBlock, facts []Fact) []bool {
	ok := p.pfFeasibleEdges(b, facts)
	for _, f := range facts {
		x, trueMeansNonNil, isTest := errNilTest(f.Cond)
		if !isTest || f.Pol == trueMeansNonNil {
			continue
		}
		q, isPhi := stripConv(x).(*ssa.Phi)
		if !isPhi || q.Block() != b || len(q.Edges) != len(ok) {
			continue
		}
		if _, isIface := q.Type().Underlying().(*types.Interface); !isIface {
			continue
		}
		for i, e := range q.Edges {
			if _, built := e.(*ssa.MakeInterface); built {
				ok[i] = false
			}
		}
	}
	return ok
}

// c19Validation decides "this object has passed parser F without error" for an object that is
// admitted somewhere (appended to the rendered set). The object need not be the variable F was
// called on:
//   - it may be a copy of it (`obj, err = parseObject(…)` once the normaliser merged parseObject into
//     its caller: the helper's variable is loaded at each of its returns, the loads meet in a Phi and
//     are stored into the caller's variable) — every value that can have been stored, on the ways
//     into the join that the facts at the admission leave feasible, has to be validated where it
//     was read;
//   - it may be the result of a callee that was not merged: admitted under "the callee returned a nil
//     error", it is validated if every return of the callee that can carry a nil error hands out an
//     object that is validated at that return.
type c19Validation struct {
	p      *Program
	parser *ssa.Function
	notes  []string
	why    []string
}

func (v *c19Validation) whyNot() string {
	if len(v.why) == 0 {
		return ""
	}
	return " (" + strings.Join(v.why, "; ") + ")"
}

// local: the content of local variable a, read at instruction `at` where `facts` hold, has been
// validated.
func (v *c19Validation) local(a *ssa.Alloc, at ssa.Instruction, facts []Fact, depth int) bool {
	p := v.p
	if depth > 6 {
		return false
	}
	for _, pc := range callsIn(a.Parent()) {
		pcall, isCall := pc.Instr.(*ssa.Call)
		if !isCall || staticCallee(pc.Common) != v.parser || len(pc.Common.Args) < 1 {
			continue
		}
		if pc.Common.Args[0] == ssa.Value(a) && p.errOfCallIsNil(facts, pcall) {
			v.notes = append(v.notes, "err==nil of "+v.parser.Name()+" at "+p.IPos(pcall))
			return true
		}
	}
	// not validated in place: everything that can have been assigned to it must be
	stores, _ := p.storesReaching(a, at)
	complete := !p.mayHoldZero(a, at) && c19AssignedOnlyByStores(a)
	if !complete || len(stores) == 0 {
		v.why = append(v.why, fmt.Sprintf("the object comes from %s as read at %s, where no nil error of %s for it is established", p.describe(a), p.IPos(at), v.parser.Name()))
		return false
	}
	for _, st := range stores {
		fs := append(append([]Fact{}, facts...), p.FactsAt(st.Block())...)
		if !v.value(st.Val, fs, depth+1) {
			return false
		}
	}
	return true
}

// c19AssignedOnlyByStores: the only ways local variable a gets a new value as a whole are the stores
// to it. Methods called on the variable itself and accesses to its fields modify the object in place
// (the labels merged into a parsed object); like the repository's own shape — validate, set labels,
// append — that is not a new object. A variable whose address is stored, converted to an interface,
// handed to a decoding function or written by a closure may be replaced behind the analysis' back.
func c19AssignedOnlyByStores(a *ssa.Alloc) bool {
	refs := a.Referrers()
	if refs == nil {
		return false
	}
	for _, ref := range *refs {
		switch r := ref.(type) {
		case *ssa.Store:
			if r.Addr != ssa.Value(a) {
				return false
			}
		case *ssa.UnOp, *ssa.DebugRef, *ssa.FieldAddr, *ssa.IndexAddr:
		case *ssa.MakeClosure:
			if !closureOnlyDeferred(r) && closureWrites(r, a) {
				return false
			}
		case ssa.CallInstruction:
			if callRecv(r.Common()) == ssa.Value(a) {
				continue
			}
			if callMayWriteThroughArg(r.Common(), a) {
				return false
			}
		default:
			return false
		}
	}
	return true
}

// value: x, as it is where `facts` hold, is a validated object.
func (v *c19Validation) value(x ssa.Value, facts []Fact, depth int) bool {
	p := v.p
	if depth > 6 {
		return false
	}
	switch y := x.(type) {
	case *ssa.Phi:
		blk := y.Block()
		feasible := p.c19FeasibleEdges(blk, facts)
		n := 0
		for i, e := range y.Edges {
			if i >= len(blk.Preds) || (i < len(feasible) && !feasible[i]) {
				continue
			}
			n++
			fs := append(append([]Fact{}, facts...), p.FactsOnEdge(blk.Preds[i], blk)...)
			if !v.value(e, fs, depth+1) {
				return false
			}
		}
		return n > 0
	case *ssa.UnOp:
		if y.Op != token.MUL {
			return false
		}
		a, isLocal := y.X.(*ssa.Alloc)
		if !isLocal {
			v.why = append(v.why, "it may be "+p.describe(x))
			return false
		}
		return v.local(a, y, append(append([]Fact{}, facts...), p.FactsAt(y.Block())...), depth+1)
	case *ssa.Extract:
		call, isCall := y.Tuple.(*ssa.Call)
		if !isCall {
			return false
		}
		return v.result(call, y.Index, facts, depth)
	case *ssa.Call:
		return v.result(y, 0, facts, depth)
	}
	v.why = append(v.why, "it may be "+p.describe(x))
	return false
}

// result: result #idx of a call whose error result the facts know to be nil. Every return of the
// callee that can carry a nil error has to hand out a validated object.
func (v *c19Validation) result(call *ssa.Call, idx int, facts []Fact, depth int) bool {
	p := v.p
	h := staticCallee(call.Common())
	if h == nil || len(h.Blocks) == 0 || h == v.parser {
		return false
	}
	if !p.errOfCallIsNil(facts, call) {
		v.why = append(v.why, fmt.Sprintf("the result of %s at %s is used without its error being known nil", h.Name(), p.IPos(call)))
		return false
	}
	res := h.Signature.Results()
	errIdx := -1
	for i := 0; i < res.Len(); i++ {
		if res.At(i).Type().String() == "error" {
			errIdx = i
		}
	}
	if errIdx < 0 || idx >= res.Len() {
		return false
	}
	n := 0
	for _, rc := range p.pfReturnCases(h) { // without the synthetic recover block of a function with defer
		if errIdx >= len(rc.Results) || idx >= len(rc.Results) || pfDeadByFacts(rc.Facts) {
			continue
		}
		ev := rc.Results[errIdx]
		if ev == nil {
			ev = rc.Ret.Results[errIdx]
		}
		if _, built := ev.(*ssa.MakeInterface); built || definitelyNonNil(ev) || p.nilnessFromFacts(rc.Facts, ev) == noTri {
			continue // this return reports an error: the caller does not admit its object
		}
		n++
		rv := rc.Results[idx]
		if rv == nil {
			rv = rc.Ret.Results[idx]
		}
		// a return of a spilled variable is resolved to the stored value by returnCases; judge the
		// returned expression as it stands in the return instruction when that is a load
		if ld, isLoad := rc.Ret.Results[idx].(*ssa.UnOp); isLoad && ld.Op == token.MUL {
			rv = ld
		}
		if !v.value(rv, rc.Facts, depth+1) {
			v.why = append(v.why, fmt.Sprintf("%s can return at %s with a nil error and an object that has not passed %s", h.Name(), p.IPos(rc.Ret), v.parser.Name()))
			return false
		}
	}
	if n == 0 {
		return false
	}
	v.notes = append(v.notes, "err==nil of "+h.Name()+" at "+p.IPos(call)+", whose error-free returns all follow a nil error of "+v.parser.Name())
	return true
}

func c19CheckPanicValidateManifest(c *Ctx, o *Obligation, fn *ssa.Function, site ssa.Instruction) {
	p := c.P
	call := p.panickedCall(site.(*ssa.Panic))
	if call == nil || staticCallee(call.Common()) == nil || len(call.Common().Args) < 2 {
		o.Unknown("the panic is not on the error result of a static call")
		return
	}
	cfg := call.Common().Args[1]
	for _, f := range p.FactsAt(site.Block()) {
		x, nonEmptyWhenTrue, ok := lenCmp(f.Cond)
		if !ok || f.Pol == nonEmptyWhenTrue {
			continue
		}
		vc, _ := asCall(x)
		if vc == nil || staticCallee(vc.Common()) == nil || !c19ScopeOf(p).g.ws[staticCallee(vc.Common())] {
			continue
		}
		for _, a := range vc.Common().Args {
			if p.sameValue(a, cfg) {
				o.OK("panic only under len(" + p.describe(vc) + ") == 0 for the same config value")
				return
			}
		}
	}
	o.Fail("panic on the error of %s is not dominated by len(<validation errors of the same config>) == 0", p.describe(call))
}

// ---------------------------------------------------------------------------------------------
// R5 recursion

type c19SCCEntry struct {
	Members []string
	Class   string
	Reason  string
	Check   func(c *Ctx, o *Obligation, comp []*ssa.Function)
}

var c19SCCTable = []c19SCCEntry{
	{[]string{"(*internal/packages/internal/packagestructure.StructuralLoader).load"}, clsGuarded,
		"a component is loaded only from an activation with an empty component name (nested multi-component packages are rejected before the split); depth additionally bounded by the path depth of the file map", c19CheckLoadRecursion},
	{[]string{"(*internal/packages/internal/packagetypes.Package).DeepCopy"}, clsStructRec,
		"copies the component tree produced by StructuralLoader.load (depth ≤ 2)", nil},
	{[]string{"internal/packages/internal/packagemanifestvalidation.validateCustomResourceDefinitionOpenAPISchema"}, clsStructRec,
		"vendored apiextensions validation walking a JSONSchemaProps tree decoded from YAML/JSON (finite, acyclic; depth = schema nesting)", nil},
	{[]string{"internal/packages/internal/packageimport.walkWithSymlinks"}, clsOutside,
		"host filesystem walk of the kubectl-package CLI (symlink cycles are a property of the developer's disk, not of package content)", nil},
	{[]string{"(*internal/packages/internal/packagekickstart/rukpak/util.FilesOnlyFilesystem).Open"}, clsDelegate,
		"fs.FS decorator delegating to the wrapped fs.FS (kickstart tool)", nil},
	{[]string{"(*internal/controllers/objecttemplate.TemplateError).Error"}, clsDelegate,
		"error wrapper calling Err.Error() of the wrapped error", nil},
	{[]string{"(*internal/dynamiccache.Cache).Get"}, clsDelegate, "client.Reader delegating to the per-kind CacheReader", nil},
	{[]string{"(*internal/dynamiccache.Cache).List", "(*internal/dynamiccache.Cache).list"}, clsDelegate, "client.Reader delegating to the per-kind CacheReader", nil},
	{[]string{"(internal/packages/internal/packagevalidation.ObjectValidatorList).ValidateObjects"}, clsDelegate,
		"validator list calling each element; lists are literals built by the package constructors", nil},
	{[]string{"(internal/packages/internal/packagevalidation.PackageValidatorList).ValidatePackage"}, clsDelegate,
		"validator list calling each element; lists are literals built by the package constructors", nil},
	{[]string{"(internal/preflight.List).Check", "(*internal/preflight.APIExistence).Check"}, clsDelegate,
		"preflight checker composition built once by the controller constructors", nil},
	{[]string{"(internal/preflight.PhasesCheckerList).Check"}, clsDelegate, "preflight checker composition built once by the controller constructors", nil},
	{[]string{"(pkg/probing.And).Probe", "(*pkg/probing.GroupKindSelector).Probe", "(*pkg/probing.LabelSelector).Probe", "(*pkg/probing.ObservedGenerationProbe).Probe"}, clsDelegate,
		"prober combinators wrapping an inner Prober; probing.Parse nests them to a fixed depth (selector → observedGeneration → And → leaf)", nil},
	{[]string{"cmd/package-operator-manager/components.ProvideRestConfig"}, clsStartup,
		"dependency-injection provider; the cycle exists only through signature-based resolution of func values (call-graph imprecision)", nil},
	{[]string{"cmd/package-operator-manager/components.setupAll", "(cmd/package-operator-manager/components.AllControllers).SetupWithManager",
		"(cmd/package-operator-manager/components.BootstrapControllers).SetupWithManager"}, clsStartup,
		"controller wiring at process start: the controller list calls SetupWithManager of each element", nil},
}

func c19r5(c *Ctx) {
	s := c19ScopeOb(c)
	nodes := map[*ssa.Function]bool{}
	for f := range s.g.ws {
		nodes[f] = true
	}
	for f := range s.reach {
		nodes[f] = true
	}
	for _, comp := range s.g.sccs(nodes) {
		var src []*ssa.Function
		reachable := false
		for _, f := range comp {
			if s.g.ws[f] {
				src = append(src, f)
				reachable = reachable || s.reach[f]
			}
		}
		if len(src) == 0 || !reachable {
			continue // cycles among compiler-generated promotion wrappers only (struct embeds the interface it implements)
		}
		keys := map[string]bool{}
		for _, f := range src {
			keys[c19FnKey(f)] = true
		}
		names := keysOf(keys)
		o := c.Ob(src[0], "cycle", nil, c.rule.Statement)
		o.Note("cycle members: " + strings.Join(names, ", "))
		var entry *c19SCCEntry
		for i := range c19SCCTable {
			e := &c19SCCTable[i]
			all := true
			for _, k := range names {
				found := false
				for _, m := range e.Members {
					found = found || m == k
				}
				all = all && found
			}
			if all {
				entry = e
				break
			}
		}
		switch {
		case entry == nil:
			o.Require("a triage table entry covering every member of the cycle")
			o.Fail("un-triaged call-graph cycle (recursion) through %s — bound it and add a reasoned table entry", strings.Join(names, ", "))
		case entry.Check != nil:
			o.Require("bound of table entry: " + entry.Reason)
			entry.Check(c, o, src)
		default:
			o.OK("table: " + entry.Class + " — " + entry.Reason)
		}
	}
	// The `include` template helper recurses through text/template (outside the workspace call graph):
	// every closure that re-enters (*template.Template).ExecuteTemplate must sit behind a depth counter.
	n := 0
	fvals := c19FuncValues(c.P)
	for _, fn := range s.fns {
		// a function the template engine can call back: a closure, a method value or a function value
		if fn.Parent() == nil && !fvals[fn] {
			continue
		}
		for _, cl := range callsIn(fn) {
			if !isCallTo(cl.Common, "(*text/template.Template).ExecuteTemplate", "(*html/template.Template).ExecuteTemplate") {
				continue
			}
			n++
			o := c.Ob(fn, "template-reentry", cl.Instr, "a template function that re-enters template execution is bounded by a depth counter")
			o.Require("on every path to ExecuteTemplate: counter lookup missed, or !(counter > constant)")
			c19CheckIncludeDepth(c, o, cl)
		}
	}
	if n == 0 {
		c.AnchorLost("template function re-entering (*template.Template).ExecuteTemplate (the `include` helper)")
	}
}

func c19CheckLoadRecursion(c *Ctx, o *Obligation, comp []*ssa.Function) {
	p := c.P
	n := 0
	for _, fn := range comp {
		for _, cl := range callsIn(fn) {
			if staticCallee(cl.Common) != fn {
				continue
			}
			n++
			fs := p.FactsAt(cl.Block())
			guarded := false
			for _, prm := range fn.Params {
				if b, ok := prm.Type().Underlying().(*types.Basic); !ok || b.Info()&types.IsString == 0 {
					continue
				}
				if p.emptinessFromFacts(fs, prm) == yesTri {
					guarded = true
					o.Note("recursive call at " + p.IPos(cl.Instr) + " only when parameter " + prm.Name() + " is empty")
				}
			}
			if !guarded {
				o.Fail("recursive call at %s is not restricted to activations with an empty component-name parameter (nested components no longer rejected before recursing)", p.IPos(cl.Instr))
				return
			}
		}
	}
	if n == 0 {
		o.Unknown("no direct recursive call found")
		return
	}
	o.OK()
}

// c19FuncValues: the source functions that are used as function values somewhere in the workspace —
// function literals, functions and methods referenced outside call position, and methods whose bound
// method value (`x.m`) or method expression (`T.m`) is taken (go/ssa wraps those in synthetic
// functions that carry the method's object).
var c19FuncValuesCache = map[*Program]map[*ssa.Function]bool{}

func c19FuncValues(p *Program) map[*ssa.Function]bool {
	if m := c19FuncValuesCache[p]; m != nil {
		return m
	}
	m := map[*ssa.Function]bool{}
	mark := func(g *ssa.Function) {
		if g.Synthetic != "" && !strings.HasPrefix(g.Synthetic, "instance of") {
			// bound method wrapper / thunk / promotion wrapper: the declared method behind it
			if obj, ok := g.Object().(*types.Func); ok && obj != nil {
				if decl := p.SSA.FuncValue(obj); decl != nil {
					m[decl] = true
				}
			}
			return
		}
		m[g] = true
	}
	for _, f := range p.Funcs {
		for _, b := range f.Blocks {
			for _, in := range b.Instrs {
				var ops []*ssa.Value
				ops = in.Operands(ops)
				for i, o := range ops {
					g, ok := (*o).(*ssa.Function)
					if !ok {
						continue
					}
					if ci, isCall := in.(ssa.CallInstruction); isCall && i == 0 && ci.Common().Value == ssa.Value(g) && !ci.Common().IsInvoke() {
						continue
					}
					mark(g)
				}
			}
		}
	}
	c19FuncValuesCache[p] = m
	return m
}

func c19CheckIncludeDepth(c *Ctx, o *Obligation, cl Call) {
	p := c.P
	var counter ssa.Value
	ok := p.holdsAtOrOnAllEdges(cl.Block(), func(fs []Fact) bool {
		for _, f := range fs {
			// comma-ok of a map lookup missed
			if ex, isEx := f.Cond.(*ssa.Extract); isEx && ex.Index == 1 && !f.Pol {
				if lk, isLk := ex.Tuple.(*ssa.Lookup); isLk && lk.CommaOk {
					counter = lk.X
					return true
				}
			}
			// !(v > K) / v <= K / v < K with v a looked-up counter
			b, isBin := f.Cond.(*ssa.BinOp)
			if !isBin {
				continue
			}
			var v, k ssa.Value
			switch {
			case (b.Op == token.GTR || b.Op == token.GEQ) && !f.Pol, (b.Op == token.LSS || b.Op == token.LEQ) && f.Pol:
				v, k = b.X, b.Y
			case (b.Op == token.LSS || b.Op == token.LEQ) && !f.Pol, (b.Op == token.GTR || b.Op == token.GEQ) && f.Pol:
				v, k = b.Y, b.X
			default:
				continue
			}
			if _, isConst := constInt(k); !isConst {
				continue
			}
			if ex, isEx := v.(*ssa.Extract); isEx && ex.Index == 0 {
				if lk, isLk := ex.Tuple.(*ssa.Lookup); isLk {
					counter = lk.X
					return true
				}
			}
			// plain lookup of the counter map (`m[k] > K`): a missing key reads as zero, so the one
			// test covers both the first and every later inclusion
			if lk, isLk := v.(*ssa.Lookup); isLk && !lk.CommaOk {
				if _, isMap := lk.X.Type().Underlying().(*types.Map); isMap {
					counter = lk.X
					return true
				}
			}
		}
		return false
	})
	if !ok {
		o.Fail("ExecuteTemplate at %s is re-entered without a dominating bound on an include-depth counter", p.IPos(cl.Instr))
		return
	}
	// the counter map is incremented before the call
	inc := false
	for _, b := range cl.Fn.Blocks {
		for _, in := range b.Instrs {
			if mu, isMU := in.(*ssa.MapUpdate); isMU && p.sameValue(mu.Map, counter) {
				if bo, isBin := mu.Value.(*ssa.BinOp); isBin && bo.Op == token.ADD {
					inc = true
				}
			}
		}
	}
	if !inc {
		o.Fail("the depth counter %s is never incremented", p.describe(counter))
		return
	}
	// the counter measures depth only while it is balanced: besides counting one up and one down the
	// function may set it to 1 on the branch where the comma-ok lookup missed; a delete / clear of
	// the map or any other store resets the count while outer activations are still on the stack
	// (sibling includes then never reach the bound).
	isCounterRead := func(v ssa.Value) bool {
		switch x := v.(type) {
		case *ssa.Lookup:
			return p.sameValue(x.X, counter)
		case *ssa.Extract:
			lk, isLk := x.Tuple.(*ssa.Lookup)
			return isLk && x.Index == 0 && p.sameValue(lk.X, counter)
		}
		return false
	}
	for _, b := range cl.Fn.Blocks {
		for _, in := range b.Instrs {
			switch x := in.(type) {
			case *ssa.MapUpdate:
				if !p.sameValue(x.Map, counter) {
					continue
				}
				if bo, isBin := x.Value.(*ssa.BinOp); isBin && (bo.Op == token.ADD || bo.Op == token.SUB) && isCounterRead(bo.X) {
					if one, isC := constInt(bo.Y); isC && one == 1 {
						continue
					}
				}
				if one, isC := constInt(x.Value); isC && one == 1 {
					missed := false
					for _, f := range p.FactsAt(b) {
						if ex, isEx := f.Cond.(*ssa.Extract); isEx && ex.Index == 1 && !f.Pol {
							if lk, isLk := ex.Tuple.(*ssa.Lookup); isLk && lk.CommaOk && p.sameValue(lk.X, counter) {
								missed = true
							}
						}
					}
					if missed {
						continue
					}
				}
				o.Fail("the depth counter %s is overwritten at %s by something other than a unit step (the count of the activations still on the stack is lost)", p.describe(counter), p.IPos(in))
				return
			case ssa.CallInstruction:
				bi, isB := x.Common().Value.(*ssa.Builtin)
				if !isB || (bi.Name() != "delete" && bi.Name() != "clear") || len(x.Common().Args) == 0 {
					continue
				}
				if p.sameValue(x.Common().Args[0], counter) {
					o.Fail("the depth counter %s is reset by %s at %s while outer activations are still on the stack: sibling includes never reach the bound", p.describe(counter), bi.Name(), p.IPos(in))
					return
				}
			}
		}
	}
	o.OK("bounded by counter " + p.describe(counter))
}

// ---------------------------------------------------------------------------------------------
// R6 nil-map writes into API object metadata (armed only for the triaged functions)

var c19NilMapFuncs = []struct{ Pkg, Name string }{
	{pkgAdapters, "(*ObjectSetAdapter).SetPausedByParent"},
	{pkgAdapters, "(*ClusterObjectSetAdapter).SetPausedByParent"},
	{pkgObjectSets, "(*GenericObjectSetPhase).SetPhase"},
	{pkgObjectSets, "(*GenericClusterObjectSetPhase).SetPhase"},
	{pkgObjDeploy, "(*newRevisionReconciler).newObjectSetFromDeployment"},
	{pkgControllers, "(*PhaseReconciler).desiredObject"},
	{pkgControllers, "AddDynamicCacheLabel"},
	{pkgControllers, "setObjectRevision"},
	{pkgInternCmd, "(*Client).PackageSetPaused"},
}

// metadataMapSource: v is (possibly) the labels/annotations map of an API object: a load of an
// ObjectMeta Labels/Annotations field or the result of GetLabels()/GetAnnotations().
func metadataMapSource(v ssa.Value) bool {
	switch x := stripConv(v).(type) {
	case *ssa.UnOp:
		if fa, ok := x.X.(*ssa.FieldAddr); ok && x.Op == token.MUL {
			n := fieldName(fa.X.Type(), fa.Field)
			return (n == "Labels" || n == "Annotations") && namedTypeString(fa.X.Type()) == pkgMetaV1+".ObjectMeta"
		}
	case *ssa.Call:
		n := calleeName(x.Common())
		return (n == "GetLabels" || n == "GetAnnotations") && len(callArgs(x.Common())) == 0
	}
	return false
}

func c19r6(c *Ctx) {
	p := c.P
	c19ScopeOb(c)
	for _, a := range c19NilMapFuncs {
		fn := c.MustFunc(a.Pkg, a.Name)
		if fn == nil {
			continue
		}
		n := 0
		for _, b := range fn.Blocks {
			for _, in := range b.Instrs {
				mu, ok := in.(*ssa.MapUpdate)
				if !ok {
					continue
				}
				var srcs []ssa.Value // metadata-map sources that may flow into the written map, with the edge they arrive on
				direct := metadataMapSource(mu.Map)
				ph, isPhi := mu.Map.(*ssa.Phi)
				if isPhi {
					for _, e := range ph.Edges {
						if metadataMapSource(e) {
							srcs = append(srcs, e)
						}
					}
				}
				if !direct && len(srcs) == 0 {
					continue
				}
				n++
				o := c.Ob(fn, "metadata-map-write", mu, c.rule.Statement)
				o.Require("map != nil on every path to the write (nil test with early creation)")
				if isPhi {
					bad := ""
					for i, e := range ph.Edges {
						if _, isMake := e.(*ssa.MakeMap); isMake {
							continue
						}
						if p.nilnessFromFacts(p.FactsOnEdge(ph.Block().Preds[i], ph.Block()), e) != noTri {
							bad = p.describe(e)
						}
					}
					if bad != "" {
						o.Fail("the map %s may be nil when written at %s (no nil test before, no fresh map assigned)", bad, p.IPos(mu))
					} else {
						o.OK("every incoming value is a fresh map or tested non-nil")
					}
					continue
				}
				// direct field / accessor: on every edge into the write either non-nil is known or a fresh map was just installed
				m := mu.Map
				ok = p.holdsAtOrOnAllEdges(b, func(fs []Fact) bool { return p.nilnessFromFacts(fs, m) == noTri })
				if !ok && len(b.Preds) > 1 {
					ok = true
					for _, pr := range b.Preds {
						if p.nilnessFromFacts(p.FactsOnEdge(pr, b), m) == noTri {
							continue
						}
						if !(p.nilnessFromFacts(p.FactsAt(pr), m) == yesTri && installsFreshMap(p, pr, m)) {
							ok = false
						}
					}
				}
				if ok {
					o.OK("nil-tested; a fresh map is installed on the nil path")
				} else {
					o.Fail("write into %s at %s is not preceded by a nil guard on every path", p.describe(m), p.IPos(mu))
				}
			}
		}
		if n == 0 {
			c.Ob(fn, "metadata-map-write", nil, c.rule.Statement).OK("no write into a metadata map left in this function")
		}
	}
}

// installsFreshMap: block b stores a new map into the field m is loaded from, or calls
// SetLabels/SetAnnotations(<new map>) on the receiver m was read from.
func installsFreshMap(p *Program, b *ssa.BasicBlock, m ssa.Value) bool {
	for _, in := range b.Instrs {
		switch x := in.(type) {
		case *ssa.Store:
			if _, isMake := x.Val.(*ssa.MakeMap); !isMake {
				continue
			}
			if ld, ok := stripConv(m).(*ssa.UnOp); ok && p.sameValue(x.Addr, ld.X) {
				return true
			}
		case ssa.CallInstruction:
			cc := x.Common()
			n := calleeName(cc)
			if (n != "SetLabels" && n != "SetAnnotations") || len(callArgs(cc)) != 1 {
				continue
			}
			if _, isMake := callArgs(cc)[0].(*ssa.MakeMap); !isMake {
				continue
			}
			if gc, _ := asCall(m); gc != nil && "S"+calleeName(gc.Common())[1:] == n && p.sameValue(callRecv(gc.Common()), callRecv(cc)) {
				return true
			}
		}
	}
	return false
}

// ---------------------------------------------------------------------------------------------
// raw dump for triage (PKOCHECK_C19_RAW=assert,index,ptr,panic,scc pkocheck -property C19)

func init() {
	if os.Getenv("PKOCHECK_C19_RAW") == "" {
		return
	}
	properties["C19"].Rules = append(properties["C19"].Rules, Rule{ID: "C19.RAW", Run: c19raw, Statement: "raw lint dump (triage aid, not a rule)"})
}

func c19raw(c *Ctx) {
	p := c.P
	s := c19ScopeOf(p)
	what := os.Getenv("PKOCHECK_C19_RAW")
	w := os.Stderr
	fmt.Fprintf(w, "roots=%d (reconcile %d) reachable=%d of %d\n", s.nRoot, s.nRec, len(s.fns), len(p.Funcs))
	if strings.Contains(what, "assert") {
		for _, fn := range s.fns {
			for _, a := range p.uncheckedAsserts(fn) {
				fmt.Fprintf(w, "ASSERT %s %s  %s -> %s  origins: %s  proven=%v\n", shortFuncID(fn), p.IPos(a.Instr), a.Instr.X.Type(), a.Instr.AssertedType, originStrings(a.Origins), p.assertProvenByFacts(a.Instr))
			}
		}
	}
	if strings.Contains(what, "index") {
		for _, fn := range s.fns {
			for _, ix := range constIndexSites(fn) {
				ok, why := p.c19LengthOK(ix.Instr, ix.X, ix.Need, 2)
				fmt.Fprintf(w, "INDEX %s %s %s need=%d type=%s guarded=%v %s origins: %s\n", shortFuncID(fn), p.IPos(ix.Instr), ix.What, ix.Need, ix.X.Type(), ok, why, originStrings(p.originsOf(ix.X)))
			}
		}
	}
	if strings.Contains(what, "panic") {
		for _, fn := range s.fns {
			for _, pn := range panicsIn(fn) {
				fmt.Fprintf(w, "PANIC %s %s %s   via %s\n", shortFuncID(fn), p.IPos(pn), p.panicShape(pn), pathTo(s.via, fn))
			}
		}
	}
	if strings.Contains(what, "nilmap") {
		for _, fn := range s.fns {
			for _, b := range fn.Blocks {
				for _, in := range b.Instrs {
					if mu, ok := in.(*ssa.MapUpdate); ok {
						fmt.Fprintf(w, "NILMAP %s %s map=%s origins: %s\n", shortFuncID(fn), p.IPos(mu), mu.Map.Type(), originStrings(p.originsOf(mu.Map)))
					}
				}
			}
		}
	}
}
