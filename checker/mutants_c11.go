package main

func init() {
	const (
		pr   = "internal/controllers/phase_reconciler.go"
		pf   = "internal/preflight/preflight.go"
		nse  = "internal/preflight/namespace_escalation_protection.go"
		api  = "internal/preflight/apis_exist.go"
		dup  = "internal/preflight/object_duplicate.go"
		osc  = "internal/controllers/objectsets/objectset_controller.go"
		ospr = "internal/controllers/objectsets/objectsetphases_reconciler.go"
		ospc = "internal/controllers/objectsetphases/objectsetphase_controller.go"
	)
	nsViolation := "\t\tviolations = append(violations, Violation{\n\t\t\tPosition: \"Object \" + obj.GetName(),\n\t\t\tError:    \"Must stay within the same namespace.\",\n\t\t})\n\t\treturn\n"
	teardownPreflight := "\tif v, err := r.preflightChecker.Check(ctx, owner.ClientObject(), desiredObj); err != nil {\n\t\treturn false, fmt.Errorf(\"running preflight validation: %w\", err)\n\t} else if len(v) > 0 {\n\t\treturn true, nil\n\t}\n"
	sameClusterCall := "\treturn NewGenericObjectSetPhaseController(\n\t\tnewGenericObjectSetPhase,\n\t\tadapters.NewObjectSet,\n\t\townerhandling.NewNative(scheme),\n\t\tlog, scheme, dynamicCache, uncachedClient,\n\t\tclass, client, client,\n\t\tpreflight.NewAPIExistence(\n\t\t\trestMapper,\n\t\t\tpreflight.List{\n\t\t\t\tpreflight.NewNamespaceEscalation(restMapper),\n\t\t\t\tpreflight.NewDryRun(client),\n\t\t\t\tpreflight.NewNoOwnerReferences(restMapper),\n\t\t\t},\n\t\t),\n\t)"
	dupBranch := "\t\t\tif _, ok := visited[key]; ok {\n\t\t\t\tviolations = append(violations, Violation{\n\t\t\t\t\tError:    \"Duplicate Object\",\n\t\t\t\t\tPosition: fmt.Sprintf(\"Phase %q, %s\", phase.Name, key),\n\t\t\t\t})\n\t\t\t} else {\n\t\t\t\tvisited[key] = true\n\t\t\t}"
	addMutants(
		// ---- R1
		Mutant{Prop: "C11", Name: "r1-violations-do-not-stop-rollout", File: pr,
			Old:    "\tif len(violations) > 0 {\n\t\treturn nil, res, &preflight.Error{\n\t\t\tViolations: violations,\n\t\t}\n\t}\n\n\trec := newRecordingProbe",
			New:    "\t_ = violations\n\n\trec := newRecordingProbe",
			Expect: []string{"C11.R1@"}},
		Mutant{Prop: "C11", Name: "r1-reconcile-before-preflight", File: pr,
			Old:    "\tviolations, err := preflight.CheckAllInPhase(",
			New:    "\tfor i, phaseObject := range phase.Objects {\n\t\tif _, err := r.reconcilePhaseObject(ctx, owner, phaseObject, &desiredObjects[i], previous); err != nil {\n\t\t\treturn nil, res, err\n\t\t}\n\t}\n\tviolations, err := preflight.CheckAllInPhase(",
			Expect: []string{"C11.R1@"}},
		Mutant{Prop: "C11", Name: "r1-preflight-error-ignored", File: pr,
			Old:    "\tif err != nil {\n\t\treturn nil, res, err\n\t}\n\tif len(violations) > 0 {",
			New:    "\tif err != nil {\n\t\tlogr.FromContextOrDiscard(ctx).Error(err, \"preflight\")\n\t}\n\tif len(violations) > 0 {",
			Expect: []string{"C11.R1@"}},
		Mutant{Prop: "C11", Name: "r1-checkall-returns-after-first-clean-object", File: pf,
			Old:    "\t\tvs, err := checker.Check(ctx, owner, objs[i].DeepCopy())\n\t\tif err != nil {\n\t\t\treturn nil, err\n\t\t}\n\t\tviolations = append(violations, vs...)\n",
			New:    "\t\tvs, err := checker.Check(ctx, owner, objs[i].DeepCopy())\n\t\tif err != nil {\n\t\t\treturn nil, err\n\t\t}\n\t\tviolations = append(violations, vs...)\n\t\tif len(vs) == 0 {\n\t\t\treturn violations, nil\n\t\t}\n",
			Expect: []string{"C11.R1@internal/preflight.CheckAllInPhase"}},
		Mutant{Prop: "C11", Name: "r1-checkall-skips-first-object", File: pf,
			Old:    "\tfor i := range phase.Objects {\n\t\tvs, err := checker.Check(ctx, owner, objs[i].DeepCopy())",
			New:    "\tfor i := range phase.Objects {\n\t\tif i == 0 && len(phase.Objects) > 1 {\n\t\t\tcontinue\n\t\t}\n\t\tvs, err := checker.Check(ctx, owner, objs[i].DeepCopy())",
			Expect: []string{"C11.R1@internal/preflight.CheckAllInPhase"}},
		Mutant{Prop: "C11", Name: "r1-checkall-drops-violations", File: pf,
			Old:    "\t\tvs, err := checker.Check(ctx, owner, objs[i].DeepCopy())\n\t\tif err != nil {\n\t\t\treturn nil, err\n\t\t}\n\t\tviolations = append(violations, vs...)\n",
			New:    "\t\tvs, err := checker.Check(ctx, owner, objs[i].DeepCopy())\n\t\tif err != nil {\n\t\t\treturn nil, err\n\t\t}\n\t\tif i == 0 {\n\t\t\tviolations = append(violations, vs...)\n\t\t}\n",
			Expect: []string{"C11.R1@internal/preflight.CheckAllInPhase"}},
		Mutant{Prop: "C11", Name: "r1-benign-guard-style", File: pr, Benign: true,
			Old: "\tif err != nil {\n\t\treturn nil, res, err\n\t}\n\tif len(violations) > 0 {\n\t\treturn nil, res, &preflight.Error{",
			New: "\tif nil != err {\n\t\treturn nil, res, err\n\t} else if 0 < len(violations) {\n\t\treturn nil, res, &preflight.Error{"},
		Mutant{Prop: "C11", Name: "r1-benign-classic-for-loop", File: pf, Benign: true,
			Old: "\tfor i := range phase.Objects {\n\t\tvs, err := checker.Check(ctx, owner, objs[i].DeepCopy())",
			New: "\tfor idx := 0; idx < len(phase.Objects); idx++ {\n\t\ti := idx\n\t\tvs, err := checker.Check(ctx, owner, objs[i].DeepCopy())"},
		// range-over-int: go/ssa tests the loop condition at the end of the iteration (rotatedLoop)
		Mutant{Prop: "C11", Name: "r1-benign-range-over-int", File: pf, Benign: true,
			Old: "\tfor i := range phase.Objects {\n\t\tvs, err := checker.Check(ctx, owner, objs[i].DeepCopy())",
			New: "\tfor i := range len(phase.Objects) {\n\t\tvs, err := checker.Check(ctx, owner, objs[i].DeepCopy())"},
		Mutant{Prop: "C11", Name: "r1-range-over-int-misses-last-object", File: pf,
			Old:    "\tfor i := range phase.Objects {\n\t\tvs, err := checker.Check(ctx, owner, objs[i].DeepCopy())",
			New:    "\tfor i := range len(phase.Objects) - 1 {\n\t\tvs, err := checker.Check(ctx, owner, objs[i].DeepCopy())",
			Expect: []string{"C11.R1@internal/preflight.CheckAllInPhase"}},
		Mutant{Prop: "C11", Name: "r1-range-over-int-returns-after-first-clean-object", File: pf,
			Old:    "\tfor i := range phase.Objects {\n\t\tvs, err := checker.Check(ctx, owner, objs[i].DeepCopy())\n\t\tif err != nil {\n\t\t\treturn nil, err\n\t\t}\n\t\tviolations = append(violations, vs...)\n",
			New:    "\tfor i := range len(phase.Objects) {\n\t\tvs, err := checker.Check(ctx, owner, objs[i].DeepCopy())\n\t\tif err != nil {\n\t\t\treturn nil, err\n\t\t}\n\t\tviolations = append(violations, vs...)\n\t\tif len(vs) == 0 {\n\t\t\treturn violations, nil\n\t\t}\n",
			Expect: []string{"C11.R1@internal/preflight.CheckAllInPhase"}},
		Mutant{Prop: "C11", Name: "r1-range-over-int-stops-at-first-violation", File: pf,
			Old:    "\tfor i := range phase.Objects {\n\t\tvs, err := checker.Check(ctx, owner, objs[i].DeepCopy())\n\t\tif err != nil {\n\t\t\treturn nil, err\n\t\t}\n\t\tviolations = append(violations, vs...)\n",
			New:    "\tfor i := range len(phase.Objects) {\n\t\tvs, err := checker.Check(ctx, owner, objs[i].DeepCopy())\n\t\tif err != nil {\n\t\t\treturn nil, err\n\t\t}\n\t\tviolations = append(violations, vs...)\n\t\tif len(vs) > 0 {\n\t\t\tbreak\n\t\t}\n",
			Expect: []string{"C11.R1@internal/preflight.CheckAllInPhase"}},
		Mutant{Prop: "C11", Name: "r1-range-over-int-skips-first-object", File: pf,
			Old:    "\tfor i := range phase.Objects {\n\t\tvs, err := checker.Check(ctx, owner, objs[i].DeepCopy())",
			New:    "\tfor i := range len(phase.Objects) {\n\t\tif i == 0 && len(phase.Objects) > 1 {\n\t\t\tcontinue\n\t\t}\n\t\tvs, err := checker.Check(ctx, owner, objs[i].DeepCopy())",
			Expect: []string{"C11.R1@internal/preflight.CheckAllInPhase"}},
		Mutant{Prop: "C11", Name: "r1-benign-logging-and-local", File: pr, Benign: true,
			Old: "\tviolations, err := preflight.CheckAllInPhase(\n\t\tctx, r.preflightChecker, owner.ClientObject(), phase, desiredObjects)",
			New: "\tchecker := r.preflightChecker\n\tlogr.FromContextOrDiscard(ctx).V(1).Info(\"running preflight\", \"objects\", len(desiredObjects))\n\tviolations, err := preflight.CheckAllInPhase(\n\t\tctx, checker, owner.ClientObject(), phase, desiredObjects)"},

		// ---- R2
		Mutant{Prop: "C11", Name: "r2-duplicates-only-logged", File: ospr,
			Old:    "\t\tpreflightErr := &preflight.Error{\n\t\t\tViolations: violations,\n\t\t}\n\t\treturn res, preflightErr\n",
			New:    "\t\tpreflightErr := &preflight.Error{\n\t\t\tViolations: violations,\n\t\t}\n\t\tlogr.FromContextOrDiscard(ctx).Info(\"duplicates\", \"err\", preflightErr.Error())\n",
			Expect: []string{"C11.R2@"}},
		Mutant{Prop: "C11", Name: "r2-duplicate-checker-not-wired", File: osc,
			Old:    "\t\tpreflight.PhasesCheckerList{\n\t\t\tpreflight.NewObjectDuplicate(),\n\t\t},",
			New:    "\t\tpreflight.PhasesCheckerList{},",
			Expect: []string{"C11.R2@"}},
		Mutant{Prop: "C11", Name: "r2-duplicate-check-never-records-keys", File: dup,
			Old:    "\t\t\t} else {\n\t\t\t\tvisited[key] = true\n\t\t\t}",
			New:    "\t\t\t}",
			Expect: []string{"C11.R2@"}},
		Mutant{Prop: "C11", Name: "r2-duplicate-check-first-phase-only", File: dup,
			Old:    "\tfor _, phase := range phases {\n",
			New:    "\tfor _, phase := range phases[:min(1, len(phases))] {\n",
			Expect: []string{"C11.R2@"}},
		Mutant{Prop: "C11", Name: "r2-duplicate-check-per-phase-keys", File: dup,
			Old:    "\tvisited := map[string]bool{}\n\tfor _, phase := range phases {\n",
			New:    "\tfor _, phase := range phases {\n\t\tvisited := map[string]bool{}\n",
			Expect: []string{"C11.R2@"}, Why: "duplicates across phases are no longer seen"},
		Mutant{Prop: "C11", Name: "r2-phases-list-stops-after-clean-element", File: pf,
			Old:    "\t\tv, err := phasesChecker.Check(ctx, phases)\n\t\tif err != nil {\n\t\t\treturn violations, err\n\t\t}\n",
			New:    "\t\tv, err := phasesChecker.Check(ctx, phases)\n\t\tif err != nil {\n\t\t\treturn violations, err\n\t\t}\n\t\tif len(v) == 0 {\n\t\t\tbreak\n\t\t}\n",
			Expect: []string{"C11.R2@"}},
		Mutant{Prop: "C11", Name: "r2-benign-inverted-branch", File: dup, Benign: true,
			Old: dupBranch,
			New: "\t\t\tif _, seen := visited[key]; !seen {\n\t\t\t\tvisited[key] = true\n\t\t\t} else {\n\t\t\t\tviolations = append(violations, Violation{\n\t\t\t\t\tError:    \"Duplicate Object\",\n\t\t\t\t\tPosition: fmt.Sprintf(\"Phase %q, %s\", phase.Name, key),\n\t\t\t\t})\n\t\t\t}"},
		Mutant{Prop: "C11", Name: "r2-benign-guard-style", File: ospr, Benign: true,
			Old: "\tif err != nil {\n\t\treturn res, err\n\t}\n\tif len(violations) > 0 {\n\t\tpreflightErr := &preflight.Error{",
			New: "\tif err != nil {\n\t\treturn res, err\n\t} else if len(violations) != 0 {\n\t\tpreflightErr := &preflight.Error{"},

		// ---- R3
		Mutant{Prop: "C11", Name: "r3-objectset-without-namespace-escalation", File: osc,
			Old:    "\t\t\t\t\tpreflight.NewNamespaceEscalation(restMapper),\n",
			New:    "",
			Expect: []string{"C11.R3@internal/controllers/objectsets.newGenericObjectSetController"}},
		Mutant{Prop: "C11", Name: "r3-samecluster-phase-without-namespace-escalation", File: ospc,
			Old:    "\t\t\t\tpreflight.NewNamespaceEscalation(restMapper),\n",
			New:    "",
			Expect: []string{"C11.R3@internal/controllers/objectsetphases.NewSameClusterObjectSetPhaseController"}},
		Mutant{Prop: "C11", Name: "r3-multicluster-without-dry-run", File: ospc,
			Old:    "\t\t\t\tpreflight.NewNoOwnerReferences(targetRESTMapper),\n\t\t\t\tpreflight.NewDryRun(targetWriter),\n",
			New:    "\t\t\t\tpreflight.NewNoOwnerReferences(targetRESTMapper),\n",
			Expect: []string{"C11.R3@internal/controllers/objectsetphases.NewMultiClusterObjectSetPhaseController"}},
		Mutant{Prop: "C11", Name: "r3-dry-run-against-the-wrong-cluster", File: ospc,
			Old:    "\t\t\t\tpreflight.NewNoOwnerReferences(targetRESTMapper),\n\t\t\t\tpreflight.NewDryRun(targetWriter),\n",
			New:    "\t\t\t\tpreflight.NewNoOwnerReferences(targetRESTMapper),\n\t\t\t\tpreflight.NewDryRun(client),\n",
			Expect: []string{"C11.R3@internal/controllers/objectsetphases.NewMultiClusterObjectSetPhaseController"}},
		Mutant{Prop: "C11", Name: "r3-objectset-without-owner-reference-check", File: osc,
			Old:    "\t\t\t\t\tpreflight.NewNoOwnerReferences(restMapper),\n",
			New:    "",
			Expect: []string{"C11.R3@internal/controllers/objectsets.newGenericObjectSetController"}},
		Mutant{Prop: "C11", Name: "r3-objectset-checks-not-behind-api-existence", File: osc,
			Old:    "\t\t\tpreflight.NewAPIExistence(restMapper,\n\t\t\t\tpreflight.List{\n\t\t\t\t\tpreflight.NewNoOwnerReferences(restMapper),\n\t\t\t\t\tpreflight.NewNamespaceEscalation(restMapper),\n\t\t\t\t\tpreflight.NewDryRun(client),\n\t\t\t\t},\n\t\t\t),",
			New:    "\t\t\tpreflight.List{\n\t\t\t\tpreflight.NewNoOwnerReferences(restMapper),\n\t\t\t\tpreflight.NewNamespaceEscalation(restMapper),\n\t\t\t\tpreflight.NewDryRun(client),\n\t\t\t},",
			Expect: []string{"C11.R3@internal/controllers/objectsets.newGenericObjectSetController"}},
		Mutant{Prop: "C11", Name: "r3-api-existence-does-not-delegate", File: api,
			Old:    "\tcase err == nil:\n\t\treturn p.sub.Check(ctx, owner, obj)",
			New:    "\tcase err == nil:\n\t\treturn nil, nil",
			Expect: []string{"C11.R3@(*internal/preflight.APIExistence).Check"}},
		Mutant{Prop: "C11", Name: "r3-list-stops-after-clean-element", File: pf,
			Old:    "\t\tv, err := checker.Check(ctx, owner, obj)\n\t\tif err != nil {\n\t\t\treturn violations, err\n\t\t}\n",
			New:    "\t\tv, err := checker.Check(ctx, owner, obj)\n\t\tif err != nil {\n\t\t\treturn violations, err\n\t\t}\n\t\tif len(v) == 0 {\n\t\t\tbreak\n\t\t}\n",
			Expect: []string{"C11.R3@(internal/preflight.List).Check"}},
		Mutant{Prop: "C11", Name: "r3-list-checks-the-owner-instead", File: pf,
			Old:    "\t\tv, err := checker.Check(ctx, owner, obj)\n",
			New:    "\t\tv, err := checker.Check(ctx, owner, owner)\n",
			Expect: []string{"C11.R3@(internal/preflight.List).Check"}},
		Mutant{Prop: "C11", Name: "r3-benign-reordered-list", File: osc, Benign: true,
			Old: "\t\t\t\t\tpreflight.NewNoOwnerReferences(restMapper),\n\t\t\t\t\tpreflight.NewNamespaceEscalation(restMapper),\n\t\t\t\t\tpreflight.NewDryRun(client),\n",
			New: "\t\t\t\t\tpreflight.NewDryRun(client),\n\t\t\t\t\tpreflight.NewNamespaceEscalation(restMapper),\n\t\t\t\t\tpreflight.NewNoOwnerReferences(restMapper),\n"},
		Mutant{Prop: "C11", Name: "r3-benign-checker-built-in-locals", File: ospc, Benign: true,
			Old: sameClusterCall,
			New: "\tchecks := preflight.List{\n\t\tpreflight.NewNamespaceEscalation(restMapper),\n\t\tpreflight.NewDryRun(client),\n\t\tpreflight.NewNoOwnerReferences(restMapper),\n\t}\n\tchecker := preflight.NewAPIExistence(restMapper, checks)\n\treturn NewGenericObjectSetPhaseController(\n\t\tnewGenericObjectSetPhase,\n\t\tadapters.NewObjectSet,\n\t\townerhandling.NewNative(scheme),\n\t\tlog, scheme, dynamicCache, uncachedClient,\n\t\tclass, client, client,\n\t\tchecker,\n\t)"},
		Mutant{Prop: "C11", Name: "r3-benign-list-stops-at-first-violation", File: pf, Benign: true,
			Old: "\t\tv, err := checker.Check(ctx, owner, obj)\n\t\tif err != nil {\n\t\t\treturn violations, err\n\t\t}\n\t\tviolations = append(violations, v...)\n",
			New: "\t\tv, err := checker.Check(ctx, owner, obj)\n\t\tif err != nil {\n\t\t\treturn violations, err\n\t\t}\n\t\tviolations = append(violations, v...)\n\t\tif len(violations) > 0 {\n\t\t\tbreak\n\t\t}\n",
			Why: "a non-empty violation list still blocks every write; only the report is shorter"},
		Mutant{Prop: "C11", Name: "r3-benign-api-existence-if-ladder", File: api, Benign: true,
			Old: "\tswitch {\n\tcase err == nil:\n\t\treturn p.sub.Check(ctx, owner, obj)\n\tcase meta.IsNoMatchError(err):",
			New: "\tif err == nil {\n\t\tvs, subErr := p.sub.Check(ctx, owner, obj)\n\t\treturn vs, subErr\n\t}\n\tswitch {\n\tcase meta.IsNoMatchError(err):"},

		// ---- R4
		Mutant{Prop: "C11", Name: "r4-revert-d1-fix-same-namespace-skips-scope-test", File: nse,
			Old:    "\tif len(obj.GetNamespace()) > 0 && obj.GetNamespace() != owner.GetNamespace() {\n" + nsViolation + "\t}\n",
			New:    "\tif len(obj.GetNamespace()) > 0 {\n\t\tif obj.GetNamespace() != owner.GetNamespace() {\n\t\t\tviolations = append(violations, Violation{\n\t\t\t\tPosition: \"Object \" + obj.GetName(),\n\t\t\t\tError:    \"Must stay within the same namespace.\",\n\t\t\t})\n\t\t}\n\t\treturn\n\t}\n",
			Expect: []string{"C11.R4@(*internal/preflight.NamespaceEscalation).Check#scope-rule"}},
		Mutant{Prop: "C11", Name: "r4-foreign-namespace-tolerated", File: nse,
			Old:    nsViolation,
			New:    "\t\treturn\n",
			Expect: []string{"C11.R4@(*internal/preflight.NamespaceEscalation).Check#namespace-rule"}},
		Mutant{Prop: "C11", Name: "r4-scope-test-inverted", File: nse,
			Old:    "\tif mapping.Scope != meta.RESTScopeNamespace {",
			New:    "\tif mapping.Scope == meta.RESTScopeNamespace {",
			Expect: []string{"C11.R4@(*internal/preflight.NamespaceEscalation).Check#scope-rule"}},
		Mutant{Prop: "C11", Name: "r4-scope-of-the-owners-kind", File: nse,
			Old:    "\tgvk := obj.GetObjectKind().GroupVersionKind()",
			New:    "\tgvk := owner.GetObjectKind().GroupVersionKind()",
			Expect: []string{"C11.R4@(*internal/preflight.NamespaceEscalation).Check#scope-rule"}},
		Mutant{Prop: "C11", Name: "r4-namespace-compared-with-itself", File: nse,
			Old:    "\tif len(obj.GetNamespace()) > 0 && obj.GetNamespace() != owner.GetNamespace() {",
			New:    "\tif len(obj.GetNamespace()) > 0 && obj.GetNamespace() != obj.GetNamespace() {",
			Expect: []string{"C11.R4@(*internal/preflight.NamespaceEscalation).Check#namespace-rule"}},
		Mutant{Prop: "C11", Name: "r4-benign-operands-and-empty-string", File: nse, Benign: true,
			Old: "\tif len(obj.GetNamespace()) > 0 && obj.GetNamespace() != owner.GetNamespace() {",
			New: "\tif ns := obj.GetNamespace(); ns != \"\" && owner.GetNamespace() != ns {"},
		Mutant{Prop: "C11", Name: "r4-benign-scope-name-and-early-return", File: nse, Benign: true,
			Old: "\tif mapping.Scope != meta.RESTScopeNamespace {\n\t\tviolations = append(violations, Violation{\n\t\t\tError: \"Must be namespaced scoped when part of an non-cluster-scoped API.\",\n\t\t})\n\t}\n\treturn\n",
			New: "\tif mapping.Scope.Name() == meta.RESTScopeNameNamespace {\n\t\treturn\n\t}\n\tviolations = append(violations, Violation{\n\t\tError: \"Must be namespaced scoped when part of an non-cluster-scoped API.\",\n\t})\n\treturn\n"},
		Mutant{Prop: "C11", Name: "r4-benign-owner-check-style", File: nse, Benign: true,
			Old: "\tif len(owner.GetNamespace()) == 0 {",
			New: "\tif owner.GetNamespace() == \"\" {"},

		// ---- R5
		Mutant{Prop: "C11", Name: "r5-teardown-without-preflight", File: pr,
			Old:    teardownPreflight,
			New:    "",
			Expect: []string{"C11.R5@"}},
		Mutant{Prop: "C11", Name: "r5-teardown-ignores-violations", File: pr,
			Old:    "\t} else if len(v) > 0 {\n\t\treturn true, nil\n\t}\n",
			New:    "\t} else if len(v) > 0 {\n\t\tlog.Info(\"preflight violations during teardown\", \"violations\", len(v))\n\t}\n",
			Expect: []string{"C11.R5@"}},
		Mutant{Prop: "C11", Name: "r5-teardown-preflight-after-read", File: pr,
			Old:    teardownPreflight + "\n\t// Ensure to watch this type of object, also during teardown!\n\t// If the controller was restarted or crashed during deletion, we might not have a cache in memory anymore.\n\tif err := r.dynamicCache.Watch(\n\t\tctx, owner.ClientObject(), desiredObj); err != nil {\n\t\treturn false, fmt.Errorf(\"watching new resource: %w\", err)\n\t}\n\n\tcurrentObj := desiredObj.DeepCopy()\n\terr = r.uncachedClient.Get(\n\t\tctx, client.ObjectKeyFromObject(desiredObj), currentObj)\n",
			New:    "\tif err := r.dynamicCache.Watch(\n\t\tctx, owner.ClientObject(), desiredObj); err != nil {\n\t\treturn false, fmt.Errorf(\"watching new resource: %w\", err)\n\t}\n\n\tcurrentObj := desiredObj.DeepCopy()\n\terr = r.uncachedClient.Get(\n\t\tctx, client.ObjectKeyFromObject(desiredObj), currentObj)\n" + teardownPreflight,
			Expect: []string{"C11.R5@(*internal/controllers.PhaseReconciler).teardownPhaseObject#teardown-Get"}},
		Mutant{Prop: "C11", Name: "r5-teardown-reads-a-re-addressed-object", File: pr,
			Old:    "\tcurrentObj := desiredObj.DeepCopy()\n\terr = r.uncachedClient.Get(\n\t\tctx, client.ObjectKeyFromObject(desiredObj), currentObj)\n",
			New:    "\tdesiredObj.SetNamespace(phaseObject.Object.GetNamespace())\n\tcurrentObj := desiredObj.DeepCopy()\n\terr = r.uncachedClient.Get(\n\t\tctx, client.ObjectKeyFromObject(desiredObj), currentObj)\n",
			Expect: []string{"C11.R5@"}},
		Mutant{Prop: "C11", Name: "r5-benign-early-return-style", File: pr, Benign: true,
			Old: teardownPreflight,
			New: "\tv, err := r.preflightChecker.Check(ctx, owner.ClientObject(), desiredObj)\n\tif err != nil {\n\t\treturn false, fmt.Errorf(\"running preflight validation: %w\", err)\n\t}\n\tif len(v) != 0 {\n\t\treturn true, nil\n\t}\n"},

		// ---- R6
		Mutant{Prop: "C11", Name: "r6-preflight-error-without-requeue", File: pr,
			Old:    "\t\t// Retry every once and a while to automatically unblock, if the preflight check issue has been cleared.\n\t\tres.RequeueAfter = DefaultGlobalMissConfigurationRetry\n",
			New:    "",
			Expect: []string{"C11.R6@"}},
		Mutant{Prop: "C11", Name: "r6-preflight-condition-not-persisted", File: pr,
			Old:    "\t\tres.RequeueAfter = DefaultGlobalMissConfigurationRetry\n\t\treturn res, updateStatus(ctx)\n\t}\n\n\tif IsAdoptionRefusedError(reconcileErr) {",
			New:    "\t\tres.RequeueAfter = DefaultGlobalMissConfigurationRetry\n\t\treturn res, nil\n\t}\n\n\tif IsAdoptionRefusedError(reconcileErr) {",
			Expect: []string{"C11.R6@"}},
		Mutant{Prop: "C11", Name: "r6-preflight-reported-as-available", File: pr,
			Old:    "\t\t\tStatus:             metav1.ConditionFalse,\n\t\t\tObservedGeneration: objectSetOrPhase.ClientObject().GetGeneration(),\n\t\t\tReason:             \"PreflightError\",",
			New:    "\t\t\tStatus:             metav1.ConditionUnknown,\n\t\t\tObservedGeneration: objectSetOrPhase.ClientObject().GetGeneration(),\n\t\t\tReason:             \"PreflightError\",",
			Expect: []string{"C11.R6@"}},
		Mutant{Prop: "C11", Name: "r6-phase-controller-returns-raw-error", File: ospc,
			Old:    "\tif err != nil {\n\t\treturn controllers.UpdateObjectSetOrPhaseStatusFromError(ctx, objectSetPhase, err,\n\t\t\tfunc(ctx context.Context) error {\n\t\t\t\treturn c.updateStatus(ctx, objectSetPhase)\n\t\t\t})\n\t}",
			New:    "\tif err != nil {\n\t\treturn res, err\n\t}",
			Expect: []string{"C11.R6@(*internal/controllers/objectsetphases.GenericObjectSetPhaseController).Reconcile"}},
		Mutant{Prop: "C11", Name: "r6-objectset-controller-swallows-error", File: osc,
			Old:    "\tif err != nil {\n\t\treturn controllers.UpdateObjectSetOrPhaseStatusFromError(ctx, objectSet, err,\n\t\t\tfunc(ctx context.Context) error {\n\t\t\t\treturn c.updateStatus(ctx, objectSet)\n\t\t\t})\n\t}",
			New:    "\tif err != nil {\n\t\tc.log.Error(err, \"reconcile\")\n\t}",
			Expect: []string{"C11.R6@(*internal/controllers/objectsets.GenericObjectSetController).Reconcile"}},
		Mutant{Prop: "C11", Name: "r6-benign-operand-order", File: ospc, Benign: true,
			Old: "\tif err != nil {\n\t\treturn controllers.UpdateObjectSetOrPhaseStatusFromError(ctx, objectSetPhase, err,",
			New: "\tif nil != err {\n\t\treturn controllers.UpdateObjectSetOrPhaseStatusFromError(ctx, objectSetPhase, err,"},
		// ---- R7 (ObjectTemplate; same code as C18.R2/R3)
		Mutant{Prop: "C11", Name: "r7-template-without-namespace-escalation", File: "internal/controllers/objecttemplate/objecttemplate_controller.go",
			Old:    "\t\t\t\t\tpreflight.NewNamespaceEscalation(restMapper),\n",
			New:    "",
			Expect: []string{"C11.R7@internal/controllers/objecttemplate.newGenericObjectTemplateController"}},
		Mutant{Prop: "C11", Name: "r7-template-target-violations-ignored", File: "internal/controllers/objecttemplate/template_reconciler.go",
			Old:    "\tif len(violations) > 0 {\n\t\treturn &SourceError{Source: object, Err: &preflight.Error{Violations: violations}}\n\t}\n",
			New:    "\t_ = violations\n",
			Expect: []string{"C11.R7@"}},
		Mutant{Prop: "C11", Name: "r7-template-source-label-patch-without-preflight", File: "internal/controllers/objecttemplate/template_reconciler.go",
			Old:    "\tif len(violations) > 0 {\n\t\treturn nil, false, &SourceError{Source: sourceObj, Err: &preflight.Error{Violations: violations}}\n\t}\n",
			New:    "\t_ = violations\n",
			Expect: []string{"C11.R7@", "C11.R1@internal/controllers.AddDynamicCacheLabel"}},
	)
}

// Round three: the one-element violation list built with make + field assignment.
func init() {
	const api = "internal/preflight/apis_exist.go"
	const lit = "\t\tviolations := []Violation{{Error: fmt.Sprintf(\"%s not registered on the api server.\", gvk)}}\n"
	addMutants(
		Mutant{Prop: "C11", Name: "r3-benign-violation-list-through-make", File: api, Benign: true,
			Why: "silent for C11; C19.R2 (index-len1 triage, not owned here) does not yet see that `violations[0]` of a `make([]Violation, 1)` is in bounds — the same shape is covered for C19 by corpus patch benign/G10-2",
			Old: lit, New: "\t\tviolations := make([]Violation, 1)\n\t\tviolations[0].Error = fmt.Sprintf(\"%s not registered on the api server.\", gvk)\n"},
		Mutant{Prop: "C11", Name: "r3-made-violation-list-emptied", File: api, Old: lit, New: "\t\tviolations := make([]Violation, 1)\n\t\tviolations[0].Error = fmt.Sprintf(\"%s not registered on the api server.\", gvk)\n\t\tviolations = violations[:0]\n",
			Why:    "an unregistered API passes the preflight: empty violation list, nil error, sub-checker not consulted",
			Expect: []string{"C11.R3@(*internal/preflight.APIExistence).Check#passes-only-by-delegation"}},
	)
}

// Round seven (X1): the phase preflight extracted into a helper whose result ReconcilePhase tests —
// merged by the normaliser (if-header form: error Phi behind `goto pkoInl…End`; statement form: tail
// duplication with one contradictory copy per helper return) or left in place (defer: followed
// through the helper's returns, pfPassedViaCallee) — and the checker list built by append.
func init() {
	const (
		pr = "internal/controllers/phase_reconciler.go"
		tc = "internal/controllers/objecttemplate/objecttemplate_controller.go"
	)
	inline := "\tviolations, err := preflight.CheckAllInPhase(\n\t\tctx, r.preflightChecker, owner.ClientObject(), phase, desiredObjects)\n\tif err != nil {\n\t\treturn nil, res, err\n\t}\n\tif len(violations) > 0 {\n\t\treturn nil, res, &preflight.Error{\n\t\t\tViolations: violations,\n\t\t}\n\t}\n"
	anchor := "func (r *PhaseReconciler) TeardownPhase(\n"
	sig := "func (r *PhaseReconciler) checkPhasePreflight(\n\tctx context.Context, owner PhaseObjectOwner,\n\tphase corev1alpha1.ObjectSetTemplatePhase,\n\tdesiredObjects []unstructured.Unstructured,\n) "
	check := "\tviolations, err := preflight.CheckAllInPhase(\n\t\tctx, r.preflightChecker, owner.ClientObject(), phase, desiredObjects)\n"
	errHelper := func(pre, onErr, onViolations string) string {
		return sig + "error {\n" + pre + check + "\tif err != nil {\n\t\treturn " + onErr + "\n\t}\n" + onViolations + "\treturn nil\n}\n\n" + anchor
	}
	stop := "\tif len(violations) > 0 {\n\t\treturn &preflight.Error{\n\t\t\tViolations: violations,\n\t\t}\n\t}\n"
	deferred := "\tlog := logr.FromContextOrDiscard(ctx)\n\tdefer log.V(1).Info(\"preflight done\")\n"
	ifCall := "\tif err := r.checkPhasePreflight(ctx, owner, phase, desiredObjects); err != nil {\n\t\treturn nil, res, err\n\t}\n"
	stmtCall := "\terr = r.checkPhasePreflight(ctx, owner, phase, desiredObjects)\n\tif err != nil {\n\t\treturn nil, res, err\n\t}\n"
	boolHelper := func(onViolations string) string {
		return sig + "(bool, error) {\n" + check + "\tif err != nil {\n\t\treturn false, err\n\t}\n" + onViolations + "\treturn true, nil\n}\n\n" + anchor
	}
	boolStop := "\tif len(violations) > 0 {\n\t\treturn false, &preflight.Error{\n\t\t\tViolations: violations,\n\t\t}\n\t}\n"
	boolCall := "\tpassed, perr := r.checkPhasePreflight(ctx, owner, phase, desiredObjects)\n\tif !passed {\n\t\treturn nil, res, perr\n\t}\n"
	pairHelper := sig + "([]preflight.Violation, error) {\n" + check + "\tif err != nil {\n\t\treturn nil, err\n\t}\n\treturn violations, nil\n}\n\n" + anchor
	pairCall := func(onViolations string) string {
		return "\tviolations, err := r.checkPhasePreflight(ctx, owner, phase, desiredObjects)\n\tif err != nil {\n\t\treturn nil, res, err\n\t}\n" + onViolations
	}
	pairStop := "\tif len(violations) > 0 {\n\t\treturn nil, res, &preflight.Error{Violations: violations}\n\t}\n"
	variant := func(name, call, helper string, expect ...string) Mutant {
		return Mutant{Prop: "C11", Name: name, File: pr, Old: inline, New: call, More: []Edit{{File: pr, Old: anchor, New: helper}},
			Benign: len(expect) == 0, Expect: expect}
	}
	// silent for C11/C18 only: rules of properties not owned here are imprecise on these shapes
	ownOnly := func(m Mutant, why string) Mutant {
		m.OwnOnly, m.Why = true, why
		return m
	}
	dupWhy := "known imprecision of C03.R2 (not owned here): tail duplication copies the rest of ReconcilePhase once per helper return, and result-from-recorder / object-probed judge the copies' recorders and loops as one (\"returns use different recorders\")"
	list := "\t\t\tpreflight.NewAPIExistence(\n\t\t\t\trestMapper,\n\t\t\t\tpreflight.List{\n\t\t\t\t\tpreflight.NewNoOwnerReferences(restMapper),\n\t\t\t\t\tpreflight.NewEmptyNamespaceNoDefault(restMapper),\n\t\t\t\t\tpreflight.NewNamespaceEscalation(restMapper),\n\t\t\t\t},\n\t\t\t),\n"
	ctl := "\tcontroller := &GenericObjectTemplateController{\n\t\tnewObjectTemplate: newObjectTemplate,\n"
	appended := func(name, build string, expect ...string) Mutant {
		return Mutant{Prop: "C11", Name: name, File: tc, Old: list, New: "\t\t\tpreflight.NewAPIExistence(restMapper, checks),\n",
			More: []Edit{{File: tc, Old: ctl, New: build + ctl}}, Benign: len(expect) == 0, Expect: expect}
	}
	wiring := "C11.R7@internal/controllers/objecttemplate.newGenericObjectTemplateController#checker-wiring"
	all3 := "\tchecks = append(checks,\n\t\tpreflight.NewNoOwnerReferences(restMapper),\n\t\tpreflight.NewEmptyNamespaceNoDefault(restMapper),\n\t\tpreflight.NewNamespaceEscalation(restMapper),\n\t)\n"
	addMutants(
		variant("r1-benign-preflight-in-helper", ifCall, errHelper("", "err", stop)),
		ownOnly(variant("r1-benign-preflight-in-helper-statement-form", stmtCall, errHelper("", "err", stop)), dupWhy),
		ownOnly(variant("r1-benign-preflight-in-helper-left-in-place", ifCall, errHelper(deferred, "err", stop)),
			"known imprecision of C14.R3 (not owned here): CheckAllInPhase is recognised as a reviewed reader of phase.Objects only when it is called by the GetPhases() consumer itself, not through a helper the normaliser leaves in place"),
		ownOnly(variant("r1-benign-preflight-in-boolean-helper", boolCall, boolHelper(boolStop)), dupWhy),
		ownOnly(variant("r1-benign-preflight-results-forwarded-by-helper", pairCall(pairStop), pairHelper), dupWhy),
		variant("r1-helper-passes-violations", ifCall, errHelper("", "err", "\t_ = violations\n"), "C11.R1@"),
		variant("r1-helper-left-in-place-passes-violations", ifCall, errHelper(deferred, "err", "\t_ = violations\n"), "C11.R1@"),
		variant("r1-helper-swallows-preflight-error", ifCall, errHelper("", "nil", stop), "C11.R1@"),
		variant("r1-helper-left-in-place-swallows-preflight-error", ifCall, errHelper(deferred, "nil", stop), "C11.R1@"),
		variant("r1-helper-result-dropped", "\t_ = r.checkPhasePreflight(ctx, owner, phase, desiredObjects)\n", errHelper("", "err", stop), "C11.R1@"),
		variant("r1-helper-left-in-place-result-dropped", "\t_ = r.checkPhasePreflight(ctx, owner, phase, desiredObjects)\n", errHelper(deferred, "err", stop), "C11.R1@"),
		variant("r1-helper-left-in-place-recovers-panics", ifCall,
			errHelper("\tdefer func() {\n\t\tif rec := recover(); rec != nil {\n\t\t\tlogr.FromContextOrDiscard(ctx).Info(\"preflight panicked\")\n\t\t}\n\t}()\n", "err", stop), "C11.R1@"),
		variant("r1-helper-left-in-place-checks-other-objects",
			"\tif err := r.checkPhasePreflight(ctx, owner, phase, make([]unstructured.Unstructured, len(desiredObjects))); err != nil {\n\t\treturn nil, res, err\n\t}\n",
			errHelper(deferred, "err", stop), "C11.R1@(*internal/controllers.PhaseReconciler).checkPhasePreflight#CheckAllInPhase-args"),
		variant("r1-boolean-helper-passes-single-violation", boolCall, boolHelper("\tif len(violations) > 1 {\n\t\treturn false, &preflight.Error{\n\t\t\tViolations: violations,\n\t\t}\n\t}\n"), "C11.R1@"),
		variant("r1-boolean-helper-result-needs-error-too", "\tpassed, perr := r.checkPhasePreflight(ctx, owner, phase, desiredObjects)\n\tif !passed && perr != nil {\n\t\treturn nil, res, perr\n\t}\n", boolHelper(boolStop), "C11.R1@"),
		variant("r1-forwarded-violations-not-tested", pairCall("\t_ = violations\n"), pairHelper, "C11.R1@"),

		appended("r7-benign-template-checks-appended-to-made-list", "\tchecks := make(preflight.List, 0, 3)\n"+all3),
		appended("r7-benign-template-checks-appended-in-two-steps", "\tvar checks preflight.List\n\tchecks = append(checks, preflight.NewNoOwnerReferences(restMapper))\n\tchecks = append(checks,\n\t\tpreflight.NewEmptyNamespaceNoDefault(restMapper),\n\t\tpreflight.NewNamespaceEscalation(restMapper),\n\t)\n"),
		appended("r7-appended-template-checks-without-namespace-escalation", "\tchecks := make(preflight.List, 0, 3)\n\tchecks = append(checks,\n\t\tpreflight.NewNoOwnerReferences(restMapper),\n\t\tpreflight.NewEmptyNamespaceNoDefault(restMapper),\n\t)\n", wiring),
		appended("r7-namespace-escalation-appended-under-a-condition", "\tchecks := make(preflight.List, 0, 3)\n\tchecks = append(checks,\n\t\tpreflight.NewNoOwnerReferences(restMapper),\n\t\tpreflight.NewEmptyNamespaceNoDefault(restMapper),\n\t)\n\tif cfg.ResourceRetryInterval > 0 {\n\t\tchecks = append(checks, preflight.NewNamespaceEscalation(restMapper))\n\t}\n", wiring),
		appended("r7-appended-template-checks-overwritten-through-shared-array", "\tbase := make(preflight.List, 0, 3)\n\tchecks := append(base,\n\t\tpreflight.NewNoOwnerReferences(restMapper),\n\t\tpreflight.NewEmptyNamespaceNoDefault(restMapper),\n\t\tpreflight.NewNamespaceEscalation(restMapper),\n\t)\n\t_ = append(base, preflight.NewEmptyNamespaceNoDefault(restMapper), preflight.NewEmptyNamespaceNoDefault(restMapper), preflight.NewEmptyNamespaceNoDefault(restMapper))\n", wiring),
	)
}
