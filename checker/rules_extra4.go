package main

import (
	"fmt"
	"go/token"
	"go/types"
	"sort"
	"strings"

	"golang.org/x/tools/go/ssa"
)

// Rules added after the third round of seeded changes, which targeted code the anchored mechanisms
// merely depend on: constructor wiring, adapters, error classification, small helpers (DESIGN §8).

// ---------------------------------------------------------------------------------------------
// W1 — reader/writer wiring (C04, C05, C10, C15): wherever a constructor takes both a (cache-backed)
// client and a separate client.Reader, its call sites pass two different values. Passing the cached
// client for the uncached reader makes "NotFound" mean "not in the informer cache yet": teardown of
// a delegated phase reports done, deletes are decided on stale ownership.

func isReaderType(t types.Type) bool { return namedTypeString(t) == pkgClient+".Reader" }
func isWriterishType(t types.Type) bool {
	s := namedTypeString(t)
	return s == pkgClient+".Client" || s == pkgClient+".Writer" || s == pkgClient+".WithWatch"
}

func readerWriterWiringRule(c *Ctx) {
	p := c.P
	n := 0
	for _, fn := range p.productFuncs() {
		if !strings.HasPrefix(funcPkgPath(fn), pkgControllers) && !strings.HasPrefix(funcPkgPath(fn), modPKO+"/cmd/") {
			continue
		}
		for _, cc := range callsIn(fn) {
			callee := staticCallee(cc.Common)
			if callee == nil || !strings.HasPrefix(funcPkgPath(callee), modPKO) {
				continue
			}
			sig := callee.Signature
			var readers, writers []int
			off := 0
			if sig.Recv() != nil {
				off = 1
			}
			for i := 0; i < sig.Params().Len(); i++ {
				t := sig.Params().At(i).Type()
				if isReaderType(t) {
					readers = append(readers, i+off)
				} else if isWriterishType(t) {
					writers = append(writers, i+off)
				}
			}
			if len(readers) == 0 || len(writers) == 0 {
				continue
			}
			n++
			o := c.Ob(fn, "reader-writer-wiring:"+stableName(callee), cc.Instr, c.rule.Statement)
			bad := ""
			for _, r := range readers {
				for _, w := range writers {
					if r < len(cc.Common.Args) && w < len(cc.Common.Args) && p.sameValue(cc.Common.Args[r], cc.Common.Args[w]) {
						bad = fmt.Sprintf("parameter %q (client.Reader) and parameter %q receive the same value %s", sig.Params().At(r-off).Name(), sig.Params().At(w-off).Name(), p.describe(cc.Common.Args[r]))
					}
				}
			}
			if bad == "" {
				o.OK()
			} else {
				o.Fail("%s: the reads this constructor's component treats as authoritative (existence of a phase object, ownership before a delete) would be served by the informer cache", bad)
			}
		}
	}
	if n < 4 {
		c.AnchorLost(fmt.Sprintf("constructor calls taking both a client and a separate client.Reader (found %d)", n))
	}
}

const readerWriterStatement = "every constructor that takes a client and a separate client.Reader is called with two different values (the uncached reader is never the cache-backed client)"

// ---------------------------------------------------------------------------------------------
// W2 — scope consistency of adapter factories (C01, C14, C15): a wiring function hands out either
// the namespaced or the cluster-scoped family of adapter factories, never a mix. With the wrong
// family, previous revisions / existing ObjectSets are looked up under the other API and silently
// come back empty.

func (p *Program) factoryScope(f *ssa.Function, depth int) string {
	// the API type a factory allocates: Cluster* or not
	if f == nil || depth > 2 {
		return ""
	}
	scope := ""
	note := func(s string) {
		if scope == "" {
			scope = s
		} else if scope != s {
			scope = "mixed"
		}
	}
	for _, b := range f.Blocks {
		for _, in := range b.Instrs {
			classify := func(t types.Type) {
				ts := namedTypeString(t)
				if !strings.HasPrefix(ts, modPKO) {
					return
				}
				name := ts[strings.LastIndex(ts, ".")+1:]
				if strings.HasPrefix(name, "Cluster") || strings.HasPrefix(name, "GenericCluster") {
					note("cluster")
				} else {
					note("namespaced")
				}
			}
			switch x := in.(type) {
			case *ssa.Alloc:
				classify(x.Type())
			case *ssa.TypeAssert:
				classify(x.AssertedType)
			case ssa.CallInstruction:
				if callee := staticCallee(x.Common()); callee != nil && strings.HasPrefix(funcPkgPath(callee), modPKO) && len(callee.Params) <= 1 {
					if s := p.factoryScope(callee, depth+1); s != "" {
						note(s)
					}
				}
			}
		}
	}
	return scope
}

func factoryScopeRule(c *Ctx) {
	p := c.P
	n := 0
	for _, fn := range p.productFuncs() {
		pk := funcPkgPath(fn)
		if !strings.HasPrefix(pk, pkgControllers) && pk != pkgPkgDeploy {
			continue
		}
		if fn.Parent() != nil {
			continue
		}
		// factories referenced as values in this function
		type ref struct {
			f     *ssa.Function
			scope string
			at    ssa.Instruction
		}
		var refs []ref
		seen := map[*ssa.Function]bool{}
		for _, b := range fn.Blocks {
			for _, in := range b.Instrs {
				var ops []*ssa.Value
				ops = in.Operands(ops)
				for i, op := range ops {
					g, ok := (*op).(*ssa.Function)
					if !ok || seen[g] || !strings.HasPrefix(funcPkgPath(g), modPKO) {
						continue
					}
					if ci, isCall := in.(ssa.CallInstruction); isCall && i == 0 && ci.Common().Value == ssa.Value(g) {
						continue // called, not passed
					}
					if g.Signature.Results().Len() != 1 {
						continue
					}
					seen[g] = true
					if s := p.factoryScope(g, 0); s == "cluster" || s == "namespaced" {
						refs = append(refs, ref{g, s, in})
					}
				}
			}
		}
		if len(refs) < 2 {
			continue
		}
		n++
		o := c.Ob(fn, "factory-scope", refs[0].at, c.rule.Statement)
		byScope := map[string][]string{}
		for _, r := range refs {
			byScope[r.scope] = append(byScope[r.scope], r.f.Name())
		}
		if len(byScope) == 1 {
			for s, names := range byScope {
				sort.Strings(names)
				o.OK(s + ": " + strings.Join(names, ", "))
			}
		} else {
			sort.Strings(byScope["cluster"])
			sort.Strings(byScope["namespaced"])
			o.Fail("this wiring function mixes cluster-scoped (%s) and namespaced (%s) adapter factories: objects of the other family are looked up under the wrong API and come back empty (previous revisions unknown ⇒ permitted adoptions refused; existing ObjectSets unknown ⇒ their slices garbage-collected)", strings.Join(byScope["cluster"], ", "), strings.Join(byScope["namespaced"], ", "))
		}
	}
	if n < 6 {
		c.AnchorLost(fmt.Sprintf("wiring functions passing adapter factories (found %d)", n))
	}
}

const factoryScopeStatement = "a wiring function passes adapter factories of one scope family only (all cluster-scoped or all namespaced)"

// ---------------------------------------------------------------------------------------------
// E — which errors a preflight checker may turn into a violation (C04, C10, C11): teardown treats a
// preflight violation as "nothing to clean up", and rollout reports it as a configuration problem.
// Only definite verdicts may become violations: the API is not registered (NoMatch) and the
// request-is-wrong classes of status reasons. Transient server-side failures (discovery failures,
// InternalError, Timeout, ServerTimeout, TooManyRequests, ServiceUnavailable, Unknown) stay errors.

var transientReasons = map[string]bool{
	"InternalError": true, "Timeout": true, "ServerTimeout": true, "TooManyRequests": true,
	"ServiceUnavailable": true, "Unknown": true, "Expired": true, "Gone": true, "StoreReadError": true,
}

func preflightErrorClassRule(c *Ctx) {
	p := c.P
	n := 0
	for _, fn := range p.FuncsIn(pkgPreflight) {
		if fn.Parent() != nil || fn.Name() != "Check" || fn.Signature.Recv() == nil {
			continue
		}
		for _, rc := range p.returnCases(fn) {
			if fn.Recover != nil && rc.Ret.Block() == fn.Recover {
				continue
			}
			if len(rc.Results) != 2 {
				continue
			}
			// a return that reports a violation
			nv, okLit := sliceLiteralLen(rc.Results[0])
			if !okLit || nv == 0 {
				continue
			}
			// ... decided from an error value? collect the facts about error-classifying calls
			var errFacts []Fact
			for _, f := range rc.Facts {
				if call, _ := asCall(f.Cond); call != nil && f.Pol {
					for _, a := range call.Common().Args {
						if a.Type().String() == "error" {
							errFacts = append(errFacts, f)
						}
					}
				}
				if b, ok := f.Cond.(*ssa.BinOp); ok && f.Pol && b.Op == token.EQL {
					if _, isC := constString(b.Y); isC {
						errFacts = append(errFacts, f)
					} else if _, isC := constString(b.X); isC {
						errFacts = append(errFacts, f)
					}
				}
			}
			// switch-case lists: `case A, B, C:` lowers to a chain of `reason == X` tests that all
			// jump to the case body; the facts of the body are empty, so look at the incoming edges
			var edgeBad []string
			var back func(b *ssa.BasicBlock, d int)
			visited := map[*ssa.BasicBlock]bool{}
			back = func(b *ssa.BasicBlock, d int) {
				if visited[b] || d > 3 {
					return
				}
				visited[b] = true
				for _, pr := range b.Preds {
					for _, f := range p.edgeFacts(pr, b) {
						if bo, ok := f.Cond.(*ssa.BinOp); ok && f.Pol && bo.Op == token.EQL {
							for _, side := range []ssa.Value{bo.X, bo.Y} {
								if sv, isC := constString(side); isC {
									errFacts = append(errFacts, f)
									if transientReasons[sv] {
										edgeBad = append(edgeBad, "status reason "+sv)
									}
								}
							}
						}
					}
					if len(pr.Instrs) <= 2 { // pure forwarding block
						back(pr, d+1)
					}
				}
			}
			back(rc.Ret.Block(), 0)
			if len(errFacts) == 0 {
				continue
			}
			n++
			o := c.Ob(fn, "violation-from-error", rc.Ret, c.rule.Statement)
			var bad []string
			bad = append(bad, edgeBad...)
			for _, f := range errFacts {
				if call, _ := asCall(f.Cond); call != nil {
					id := calleeID(call.Common())
					switch {
					case id == pkgMeta+".IsNoMatchError", id == pkgAPIErr+".IsNotFound":
					case id == "errors.As":
						// errors.As(err, &apiStatus) only unwraps; the decision is the reason comparison.
						// A concrete foreign error type as target is a classification of its own.
						if tt := errorsAsTarget(call.Common().Args[1]); tt != "" && tt != pkgAPIErr+".APIStatus" {
							bad = append(bad, "errors.As(err, *"+tt+")")
						}
					case id == "strings.Contains":
					case strings.HasPrefix(funcPkgPath(staticCallee(call.Common())), modPKO) && staticCallee(call.Common()) != nil:
						// repository-local classifier: every way it can say yes must be a definite verdict
						for _, why := range p.classifierVerdicts(staticCallee(call.Common())) {
							bad = append(bad, staticCallee(call.Common()).Name()+": "+why)
						}
					case id == "errors.Is":
						bad = append(bad, "errors.Is(err, "+p.describe(call.Common().Args[1])+")")
					case strings.HasPrefix(id, pkgAPIErr+".Is"):
						name := strings.TrimPrefix(id, pkgAPIErr+".Is")
						if transientReasons[name] || name == "ServerTimeout" || name == "UnexpectedServerError" {
							bad = append(bad, "apierrors.Is"+name)
						}
					}
				}
				if b, ok := f.Cond.(*ssa.BinOp); ok {
					for _, side := range []ssa.Value{b.X, b.Y} {
						if s, isC := constString(side); isC && transientReasons[s] {
							bad = append(bad, "status reason "+s)
						}
					}
				}
			}
			// a verdict taken from an API status must name the reasons it accepts: "everything that is
			// not on a retry list" also covers InternalError, Gone, Expired and whatever a later API
			// server adds
			asStatus, definite := false, false
			for _, f := range append(append([]Fact{}, errFacts...), rc.Facts...) {
				if call, _ := asCall(f.Cond); call != nil {
					switch id := calleeID(call.Common()); {
					case id == "errors.As":
						if errorsAsTarget(call.Common().Args[1]) == pkgAPIErr+".APIStatus" {
							asStatus = true
						}
					case id == pkgMeta+".IsNoMatchError", id == "strings.Contains":
						definite = true
					case id == "slices.Contains" && f.Pol && len(call.Common().Args) == 2 && p.constantStringList(call.Common().Args[0]):
						// membership in an enumerated list of reasons
						definite = true
					case strings.HasPrefix(id, pkgAPIErr+".Is"):
						definite = true
					default:
						// a repository-local classifier that says yes only for enumerated reasons
						if cl := staticCallee(call.Common()); cl != nil && f.Pol && strings.HasPrefix(funcPkgPath(cl), modPKO) && p.classifierEnumerates(cl) {
							definite = true
						}
					}
				}
				if b, ok := f.Cond.(*ssa.BinOp); ok && b.Op == token.EQL && f.Pol {
					for _, side := range []ssa.Value{b.X, b.Y} {
						if _, isC := constString(side); isC {
							definite = true
						}
					}
				}
			}
			if asStatus && !definite {
				bad = append(bad, "every status reason that is not explicitly excluded (no positive test of the reason on this path)")
			}
			if len(bad) == 0 {
				o.OK()
			} else {
				o.Fail("a transient failure (%s) is reported as a preflight violation: during teardown a violation means \"nothing to clean up\", so one failed discovery/dry-run request would make a still-controlled object count as gone (finalizer removed, object leaked), and earlier phases would be deleted", strings.Join(dedupe(bad), ", "))
			}
		}
	}
	if n < 2 {
		c.AnchorLost(fmt.Sprintf("preflight Check returns that derive a violation from an error (found %d)", n))
	}
}

const preflightErrorClassStatement = "preflight checkers turn only definite verdicts into violations (API not registered, request rejected as invalid/forbidden/…); transient server failures stay errors"

// ---------------------------------------------------------------------------------------------
// A — adapter semantics the controllers rely on (C07, C08, C09).

func adapterSemanticsRule(c *Ctx) {
	p := c.P
	nPaused, nPrev := 0, 0
	for _, fn := range p.FuncsIn(pkgAdapters) {
		if fn.Parent() != nil || fn.Signature.Recv() == nil {
			continue
		}
		switch fn.Name() {
		case "IsStatusPaused", "IsAvailable":
			want := map[string]string{"IsStatusPaused": "Paused", "IsAvailable": "Available"}[fn.Name()]
			nPaused++
			for _, rc := range p.returnCases(fn) {
				o := c.Ob(fn, "condition-true", rc.Ret, "the adapter reports "+fn.Name()+" exactly when the "+want+" condition is True")
				call, _ := asCall(rc.Results[0])
				if call != nil && isCallTo(call.Common(), pkgMeta+".IsStatusConditionTrue") && isStringConst(call.Common().Args[1], want) {
					o.OK()
				} else {
					o.Fail("%s returns %s instead of meta.IsStatusConditionTrue(conditions, %q): a condition that is Unknown (e.g. Paused=Unknown while delegated phases have not confirmed) or stale would count as confirmed, and the deployment controller archives / keeps revisions on that answer", fn.Name(), p.describe(rc.Results[0]), want)
				}
			}
		case "SetPreviousRevisions":
			nPrev++
			o := c.Ob(fn, "previous-complete", nil, "SetPreviousRevisions records one reference per ObjectSet it is given (the new revision's number is max(previous)+1 over all of them)")
			param := fn.Params[1]
			var bad []string
			// no sub-slicing / truncation of the parameter, and the stored slice has len(param) entries
			okLen := false
			for _, b := range fn.Blocks {
				for _, in := range b.Instrs {
					switch x := in.(type) {
					case *ssa.Slice:
						if stripConv(x.X) == ssa.Value(param) && (x.High != nil || x.Low != nil) {
							bad = append(bad, "the list is truncated at "+p.IPos(x))
						}
					case *ssa.MakeSlice:
						if call, _ := asCall(x.Len); call != nil && isCallTo(call.Common(), "builtin:len") && stripConv(call.Common().Args[0]) == ssa.Value(param) {
							okLen = true
						}
					case ssa.CallInstruction:
						cc := x.Common()
						if callee := staticCallee(cc); callee != nil && strings.HasPrefix(funcPkgPath(callee), modPKO) {
							for _, a := range cc.Args {
								if stripConv(a) == ssa.Value(param) {
									bad = append(bad, "the list is passed through "+callee.Name()+" before being stored")
								}
							}
						}
					}
				}
			}
			// a loop over the whole parameter without early exit
			full := false
			for _, l := range loopsOf(fn) {
				if rng := loopRangesOver(l, param); rng {
					exits := 0
					for b := range l.Body {
						for _, s := range b.Succs {
							if !l.Body[s] && b != l.Head {
								exits++
							}
						}
					}
					if exits == 0 {
						full = true
					}
				}
			}
			if !full {
				bad = append(bad, "no complete loop over the given list")
			}
			if !okLen {
				// append-style is fine too as long as the loop is complete
				_ = okLen
			}
			if len(bad) == 0 {
				o.OK()
			} else {
				o.Fail("%s: spec.previous would not name every existing ObjectSet, so the revision computed as max(previous)+1 can repeat an existing revision number", strings.Join(dedupe(bad), "; "))
			}
		}
	}
	if nPaused < 4 || nPrev < 2 {
		c.AnchorLost(fmt.Sprintf("adapter methods IsStatusPaused/IsAvailable (%d) and SetPreviousRevisions (%d)", nPaused, nPrev))
	}
}

// loopRangesOver: the loop's bound is len(v) (rangeindex loops) or it indexes v with its counter.
func loopRangesOver(l *Loop, v ssa.Value) bool {
	for b := range l.Body {
		for _, in := range b.Instrs {
			if ia, ok := in.(*ssa.IndexAddr); ok && stripConv(ia.X) == v {
				return true
			}
		}
	}
	return false
}

const adapterSemanticsStatement = "adapters answer IsStatusPaused/IsAvailable from the condition being True, and SetPreviousRevisions records every ObjectSet it is given"

// ---------------------------------------------------------------------------------------------
// P — ProbingResult.IsZero (C03, C06, C17): "no failure" means no failed probes; the phase name is
// empty for every result computed by the ObjectSetPhase controller.

func probingResultZeroRule(c *Ctx) {
	p := c.P
	fn := p.Func(pkgControllers, "(*ProbingResult).IsZero")
	if fn == nil {
		c.AnchorLost(pkgControllers + ".(*ProbingResult).IsZero")
		return
	}
	c.Visit(fn)
	recv := fn.Params[0]
	for _, rc := range p.returnCases(fn) {
		canTrue := false
		for _, pv := range p.possibleValues(rc.Results[0]) {
			if b, ok := constBool(pv); !ok || b {
				canTrue = true
			}
		}
		if !canTrue {
			continue
		}
		o := c.Ob(fn, "zero-return", rc.Ret, c.rule.Statement)
		// a `return true` block entered through several edges (a || b && c): each edge must justify it
		if rc.Pred == nil && len(rc.Ret.Block().Preds) > 1 && len(rc.Facts) == 0 {
			allOK := true
			for _, pr := range rc.Ret.Block().Preds {
				if !zeroJustified(p, p.FactsOnEdge(pr, rc.Ret.Block()), recv) {
					allOK = false
				}
			}
			if allOK {
				o.OK("every incoming edge establishes a nil result or no failed probes")
				continue
			}
		}
		nilRecv, noFailures := false, false
		for _, f := range rc.Facts {
			if x, trueMeansNonNil, ok := errNilTest(f.Cond); ok && stripConv(x) == ssa.Value(recv) && f.Pol != trueMeansNonNil {
				nilRecv = true
			}
			if x, nonEmptyWhenTrue, ok := lenCmp(f.Cond); ok && f.Pol != nonEmptyWhenTrue {
				if u, isLoad := stripConv(x).(*ssa.UnOp); isLoad {
					if fa, isFA := u.X.(*ssa.FieldAddr); isFA && fieldName(fa.X.Type(), fa.Field) == "FailedProbes" {
						noFailures = true
					}
				}
			}
		}
		// `return a && b` shapes: the result itself may be the conjunction
		if !nilRecv && !noFailures {
			if mentionsField(rc.Results[0], "FailedProbes", 0) {
				noFailures = true
			}
		}
		if nilRecv || noFailures {
			o.OK()
		} else {
			o.Fail("IsZero can report \"no probe failure\" without looking at FailedProbes: results computed by the ObjectSetPhase controller carry no phase name, so every failing probe of a delegated phase would read as success (Available=True)")
		}
	}
}

func zeroJustified(p *Program, fs []Fact, recv ssa.Value) bool {
	for _, f := range fs {
		if x, trueMeansNonNil, ok := errNilTest(f.Cond); ok && stripConv(x) == recv && f.Pol != trueMeansNonNil {
			return true
		}
		if x, nonEmptyWhenTrue, ok := lenCmp(f.Cond); ok && f.Pol != nonEmptyWhenTrue {
			if u, isLoad := stripConv(x).(*ssa.UnOp); isLoad {
				if fa, isFA := u.X.(*ssa.FieldAddr); isFA && fieldName(fa.X.Type(), fa.Field) == "FailedProbes" {
					return true
				}
			}
		}
	}
	return false
}

func mentionsField(v ssa.Value, field string, d int) bool {
	if d > 6 || v == nil {
		return false
	}
	switch x := stripConv(v).(type) {
	case *ssa.BinOp:
		return mentionsField(x.X, field, d+1) || mentionsField(x.Y, field, d+1)
	case *ssa.Phi:
		for _, e := range x.Edges {
			if mentionsField(e, field, d+1) {
				return true
			}
		}
	case *ssa.Call:
		for _, a := range x.Common().Args {
			if mentionsField(a, field, d+1) {
				return true
			}
		}
	case *ssa.UnOp:
		if fa, ok := x.X.(*ssa.FieldAddr); ok && fieldName(fa.X.Type(), fa.Field) == field {
			return true
		}
		return mentionsField(x.X, field, d+1)
	}
	return false
}

const probingZeroStatement = "ProbingResult.IsZero reports true only for a nil result or one without failed probes"

// ---------------------------------------------------------------------------------------------
// R — every return of the error-to-status mapper taken for a preflight / collision error asks for
// a requeue (C11 "violations … are retried", C01).

func mapperRequeueRule(c *Ctx) {
	p := c.P
	fn := p.Func(pkgControllers, "UpdateObjectSetOrPhaseStatusFromError")
	if fn == nil {
		c.AnchorLost(pkgControllers + ".UpdateObjectSetOrPhaseStatusFromError")
		return
	}
	c.Visit(fn)
	n := 0
	for _, rc := range p.returnCases(fn) {
		if fn.Recover != nil && rc.Ret.Block() == fn.Recover {
			continue
		}
		// returns reached while the error was classified as preflight / adoption-refused
		classified := false
		for _, f := range rc.Facts {
			if call, _ := asCall(f.Cond); call != nil && f.Pol {
				id := calleeID(call.Common())
				if id == "errors.As" || strings.HasSuffix(id, ".IsAdoptionRefusedError") {
					classified = true
				}
			}
		}
		if !classified {
			continue
		}
		n++
		o := c.Ob(fn, "classified-return", rc.Ret, c.rule.Statement)
		// result 0 is a ctrl.Result: RequeueAfter stored non-zero before this return, or Requeue true
		requeue := false
		if u, ok := rc.Ret.Results[0].(*ssa.UnOp); ok {
			if a, isA := u.X.(*ssa.Alloc); isA {
				for _, ref := range referrersOf(a) {
					fa, isFA := ref.(*ssa.FieldAddr)
					if !isFA {
						continue
					}
					fname := fieldName(a.Type(), fa.Field)
					if fname != "RequeueAfter" && fname != "Requeue" {
						continue
					}
					for _, rr := range referrersOf(fa) {
						st, isSt := rr.(*ssa.Store)
						if !isSt {
							continue
						}
						if nn, isC := constInt(st.Val); isC && nn == 0 {
							continue
						}
						if p.mustPrecede(rc.Ret, func(in ssa.Instruction) bool { return in == ssa.Instruction(st) }) {
							requeue = true
						}
					}
				}
			}
		}
		// or the returned error is non-nil (controller-runtime retries with backoff)
		errRet := rc.Results[len(rc.Results)-1]
		nonNilErr := true
		for _, pv := range p.possibleValues(errRet) {
			if isNilConst(pv) {
				nonNilErr = false
			}
			if call, _ := asCall(pv); call != nil {
				nonNilErr = false // result of the status update: nil on success
			}
		}
		if requeue || nonNilErr {
			o.OK()
		} else {
			o.Fail("a preflight/collision error can end the pass without a requeue and without an error: the ObjectSet would stay in PreflightError/CollisionDetected forever even after the cause is removed")
		}
	}
	if n < 2 {
		c.AnchorLost(fmt.Sprintf("returns of the status mapper under a classified error (found %d)", n))
	}
}

const mapperRequeueStatement = "every return of the error-to-status mapper taken for a preflight or collision error carries a non-zero RequeueAfter (or the error itself)"

// ---------------------------------------------------------------------------------------------
// S — status.remotePhases is only ever set to the merged list (C08 pause confirmation, C15, C01).

func remotePhasesSetterRule(c *Ctx) {
	p := c.P
	n := 0
	for _, fn := range p.productFuncs() {
		if !strings.HasPrefix(funcPkgPath(fn), pkgControllers) {
			continue
		}
		for _, cc := range callsIn(fn) {
			if calleeName(cc.Common) != "SetRemotePhases" {
				continue
			}
			n++
			o := c.Ob(fn, "SetRemotePhases", cc.Instr, c.rule.Statement)
			arg := callArgs(cc.Common)[0]
			call, _ := asCall(arg)
			ok := false
			if call != nil {
				if callee := staticCallee(call.Common()); callee != nil && len(call.Common().Args) == 2 {
					if gc, _ := asCall(call.Common().Args[0]); gc != nil && calleeName(gc.Common()) == "GetRemotePhases" && p.sameValue(callRecv(gc.Common()), callRecv(cc.Common)) {
						ok = true
					}
				}
			}
			if ok {
				o.OK("merge of the current list")
			} else {
				o.Fail("status.remotePhases is set to %s instead of the current list merged with the phase just reconciled: phases that are not visited in this pass (after a failing probe) would drop out, would not receive the pause patch and would not be consulted before the ObjectSet reports Paused=True", p.describe(arg))
			}
		}
	}
	if n == 0 {
		c.AnchorLost("SetRemotePhases call in the controllers")
	}
}

const remotePhasesSetterStatement = "status.remotePhases is only ever assigned the current list merged with a newly reconciled phase reference (never reset)"

// ---------------------------------------------------------------------------------------------
// V — the environment handed to templates is a private deep copy (C18, C13): GetEnvironment must not
// write into the sink's stored state.

func environmentCopyRule(c *Ctx) {
	p := c.P
	pkgEnv := modPKO + "/internal/environment"
	n := 0
	for _, fn := range p.FuncsIn(pkgEnv) {
		if fn.Parent() != nil || fn.Name() != "GetEnvironment" || fn.Signature.Recv() == nil {
			continue
		}
		n++
		for _, rc := range p.returnCases(fn) {
			if isNilConst(stripConv(rc.Results[0])) {
				continue
			}
			o := c.Ob(fn, "returns-deep-copy", rc.Ret, c.rule.Statement)
			ok := true
			for _, pv := range p.possibleValues(rc.Results[0]) {
				call, _ := asCall(pv)
				if call == nil || calleeName(call.Common()) != "DeepCopy" {
					ok = false
				}
			}
			if ok {
				o.OK()
			} else {
				o.Fail("GetEnvironment returns %s, not a DeepCopy of the stored environment: the namespace-specific HostedCluster written into it leaks into the sink and into the environment rendered for other namespaces", p.describe(rc.Results[0]))
			}
		}
	}
	if n == 0 {
		c.AnchorLost("GetEnvironment in " + pkgEnv)
	}
}

const environmentCopyStatement = "the environment returned to a reconciler is a DeepCopy of the stored one on every path"

// ---------------------------------------------------------------------------------------------
// H — the template hash sees the whole template (C07, C13): the spew configuration used for hashing
// sets no depth limit.

func hashDepthRule(c *Ctx) {
	p := c.P
	n := 0
	for _, fn := range p.FuncsIn(pkgUtils) {
		for _, b := range fn.Blocks {
			for _, in := range b.Instrs {
				a, ok := in.(*ssa.Alloc)
				if !ok || namedTypeString(a.Type()) != "github.com/davecgh/go-spew/spew.ConfigState" {
					continue
				}
				n++
				o := c.Ob(fn, "spew-config", a, c.rule.Statement)
				f, _, _ := compositeFields(a)
				if v, has := f["MaxDepth"]; has {
					if nn, isC := constInt(v); !isC || nn != 0 {
						o.Fail("the printer used for hashing has MaxDepth=%s: content nested deeper no longer contributes to the template hash, so an edit there produces no new ObjectSet", p.describe(v))
						continue
					}
				}
				o.OK()
			}
		}
	}
	if n == 0 {
		c.AnchorLost("spew.ConfigState literal in " + pkgUtils)
	}
}

const hashDepthStatement = "the deep-print configuration used for hashing templates has no depth limit"

func init() {
	for _, id := range []string{"C04", "C05", "C10", "C15"} {
		addRule(id, Rule{ID: id + ".RW", Min: 4, Statement: readerWriterStatement, Run: readerWriterWiringRule})
	}
	for _, id := range []string{"C01", "C14", "C15"} {
		addRule(id, Rule{ID: id + ".RS", Min: 6, Statement: factoryScopeStatement, Run: factoryScopeRule})
	}
	for _, id := range []string{"C04", "C10", "C11"} {
		addRule(id, Rule{ID: id + ".RE", Min: 2, Statement: preflightErrorClassStatement, Run: preflightErrorClassRule})
	}
	for _, id := range []string{"C07", "C08"} {
		addRule(id, Rule{ID: id + ".RA", Min: 6, Statement: adapterSemanticsStatement, Run: adapterSemanticsRule})
	}
	for _, id := range []string{"C03", "C06", "C17"} {
		addRule(id, Rule{ID: id + ".RZ", Min: 1, Statement: probingZeroStatement, Run: probingResultZeroRule})
	}
	addRule("C11", Rule{ID: "C11.RQ", Min: 2, Statement: mapperRequeueStatement, Run: mapperRequeueRule})
	for _, id := range []string{"C08", "C15"} {
		addRule(id, Rule{ID: id + ".RP", Min: 1, Statement: remotePhasesSetterStatement, Run: remotePhasesSetterRule})
	}
	addRule("C18", Rule{ID: "C18.R7", Min: 1, Statement: environmentCopyStatement, Run: environmentCopyRule})
	addRule("C07", Rule{ID: "C07.R8", Min: 1, Statement: hashDepthStatement, Run: hashDepthRule})
	addRule("C13", Rule{ID: "C13.R11", Min: 1, Statement: hashDepthStatement, Run: hashDepthRule})
	// probers must not keep process-global state either (C17: probing is a pure function of probe and object)
	addRule("C17", Rule{ID: "C17.R9", Min: 1, Statement: globalStateStatement, Run: globalStateRuleFor(pkgProbing, pkgIntProbing)})
}

// errorsAsTarget: the named type T when the second argument of errors.As is *T / **T.
func errorsAsTarget(v ssa.Value) string {
	t := stripConv(v).Type()
	for i := 0; i < 2; i++ {
		if pt, ok := t.Underlying().(*types.Pointer); ok {
			t = pt.Elem()
		}
	}
	if n := namedTypeString(t); n != "" {
		return n
	}
	return types.TypeString(t, nil)
}

// classifierVerdicts inspects a bool-returning error classifier of the repository: each return
// that can be true must be justified by IsNoMatchError / IsNotFound; anything else is reported.
func (p *Program) classifierVerdicts(fn *ssa.Function) []string {
	var out []string
	if fn == nil || len(fn.Blocks) == 0 {
		return nil
	}
	ok := func(v ssa.Value) bool {
		call, _ := asCall(v)
		if call == nil {
			return false
		}
		id := calleeID(call.Common())
		return id == pkgMeta+".IsNoMatchError" || id == pkgAPIErr+".IsNotFound"
	}
	for _, rc := range p.returnCases(fn) {
		for _, pv := range p.possibleValues(rc.Results[0]) {
			if b, isC := constBool(pv); isC {
				if !b {
					continue
				}
				just := false
				for _, f := range rc.Facts {
					if f.Pol && ok(f.Cond) {
						just = true
					}
				}
				if !just {
					out = append(out, "returns true at "+p.IPos(rc.Ret)+" without a NoMatch/NotFound test")
				}
				continue
			}
			if ok(pv) {
				continue
			}
			out = append(out, "may answer with "+p.describe(pv))
		}
	}
	return out
}

// ---------------------------------------------------------------------------------------------
// Informer lifetime (C12): the list/watch functions of a dynamic informer run for as long as the
// kind has owners; they must not capture the context of the request that happened to start the
// informer (its cancellation would silently stop event delivery while owners remain).

func informerContextRule(c *Ctx) {
	p := c.P
	n := 0
	for _, fn := range p.FuncsIn(pkgDynCache) {
		for _, b := range fn.Blocks {
			for _, in := range b.Instrs {
				st, ok := in.(*ssa.Store)
				if !ok {
					continue
				}
				fa, ok := st.Addr.(*ssa.FieldAddr)
				if !ok || namedTypeString(fa.X.Type()) != "k8s.io/client-go/tools/cache.ListWatch" {
					continue
				}
				mc, ok := stripConv(st.Val).(*ssa.MakeClosure)
				if !ok {
					continue
				}
				n++
				o := c.Ob(fn, "listwatch-"+fieldName(fa.X.Type(), fa.Field), st, c.rule.Statement)
				var bad []string
				for _, bnd := range mc.Bindings {
					var val ssa.Value
					switch bnd.Type().String() {
					case "context.Context":
						val = bnd
					case "*context.Context":
						// captured by reference: the variable's stored value
						if a, isA := bnd.(*ssa.Alloc); isA {
							for _, r := range referrersOf(a) {
								if st2, isSt := r.(*ssa.Store); isSt && st2.Addr == ssa.Value(a) {
									val = st2.Val
								}
							}
						}
					}
					if val == nil {
						continue
					}
					for _, src := range p.contextSources(val, 3) {
						if src != "background" {
							bad = append(bad, src)
						}
					}
				}
				if len(bad) == 0 {
					o.OK("captured context derives from context.Background()")
				} else {
					o.Fail("the informer's list/watch function captures a context that comes from %s: when that request's context is cancelled the informer stops delivering events although the kind still has owners", strings.Join(dedupe(bad), ", "))
				}
			}
		}
	}
	if n < 2 {
		c.AnchorLost("closures stored into cache.ListWatch in " + pkgDynCache)
	}
}

// contextSources traces a context value to its origins: "background" for context.Background/TODO,
// otherwise a description (parameter of an entry point, field, ...). Parameters are followed to
// the static call sites.
func (p *Program) contextSources(v ssa.Value, depth int) []string {
	v = stripConv(v)
	switch x := v.(type) {
	case *ssa.Call:
		id := calleeID(x.Common())
		if id == "context.Background" || id == "context.TODO" {
			return []string{"background"}
		}
		if strings.HasPrefix(id, "context.With") && len(x.Common().Args) > 0 {
			return p.contextSources(x.Common().Args[0], depth)
		}
		return []string{"the result of " + id}
	case *ssa.Extract:
		return p.contextSources(x.Tuple, depth)
	case *ssa.Parameter:
		fn := x.Parent()
		callers := p.callersOf(fn)
		if depth <= 0 || len(callers) == 0 || p.addressTaken(fn) {
			return []string{"parameter " + x.Name() + " of " + shortFuncID(fn)}
		}
		idx := -1
		for i, pp := range fn.Params {
			if pp == x {
				idx = i
			}
		}
		var out []string
		for _, cc := range callers {
			if idx >= 0 && idx < len(cc.Common.Args) {
				out = append(out, p.contextSources(cc.Common.Args[idx], depth-1)...)
			}
		}
		return out
	case *ssa.FreeVar:
		if b := freeVarBinding(x.Parent(), x); b != nil {
			return p.contextSources(b, depth)
		}
	case *ssa.UnOp:
		if x.Op == token.MUL {
			if src, ok := p.loadSource(x); ok {
				return p.contextSources(src, depth)
			}
		}
	case *ssa.Phi:
		var out []string
		for _, e := range x.Edges {
			out = append(out, p.contextSources(e, depth)...)
		}
		return out
	}
	return []string{p.describe(v)}
}

const informerContextStatement = "the list/watch functions of a dynamic informer capture only a context derived from context.Background(), never the context of the call that started the informer"

func init() {
	addRule("C12", Rule{ID: "C12.R10", Min: 2, Statement: informerContextStatement, Run: informerContextRule})
}

// ---------------------------------------------------------------------------------------------
// Teardown only while the cache finalizer is held (C12, C04): teardown re-establishes watches
// (PhaseReconciler watches before it reads); once the finalizer is gone the cache was freed, and a
// further teardown pass would register watches that nothing frees again.

func teardownUnderFinalizerRule(c *Ctx) {
	p := c.P
	n := 0
	for _, pk := range []string{pkgObjectSets, pkgObjSetPhases} {
		for _, fn := range p.FuncsIn(pk) {
			if fn.Parent() != nil {
				continue
			}
			for _, cc := range callsIn(fn) {
				if !cc.Common.IsInvoke() || cc.Common.Method.Name() != "Teardown" {
					continue
				}
				// the controller's wired teardown handler: a field of the receiver
				u, isLoad := cc.Common.Value.(*ssa.UnOp)
				if !isLoad {
					continue
				}
				fa, isFA := u.X.(*ssa.FieldAddr)
				if !isFA || len(fn.Params) == 0 || fa.X != ssa.Value(fn.Params[0]) || !strings.Contains(types.TypeString(fn.Params[0].Type(), nil), "Controller") {
					continue
				}
				n++
				o := c.Ob(fn, "teardown-under-finalizer", cc.Instr, c.rule.Statement)
				_, ok := p.findFactCall(p.FactsAt(cc.Instr.Block()), true, []string{pkgCtrlUtil + ".ContainsFinalizer"}, func(k *ssa.CallCommon) bool {
					if len(k.Args) != 2 {
						return false
					}
					s, isC := constString(k.Args[1])
					return isC && strings.Contains(s, "cached")
				})
				if ok {
					o.OK()
				} else {
					o.Fail("Teardown can run although the cache finalizer is no longer present: it re-registers dynamic-cache watches for an owner whose cache was already freed, and nothing frees them again (informers keep running for a dead owner)")
				}
			}
		}
	}
	if n < 2 {
		c.AnchorLost(fmt.Sprintf("Teardown invocations in the deletion handlers (found %d)", n))
	}
}

const teardownUnderFinalizerStatement = "in the deletion/archival handlers Teardown is invoked only while the object still carries the cache finalizer"

func init() {
	addRule("C12", Rule{ID: "C12.R11", Min: 2, Statement: teardownUnderFinalizerStatement, Run: teardownUnderFinalizerRule})
	addRule("C04", Rule{ID: "C04.R9", Min: 2, Statement: teardownUnderFinalizerStatement, Run: teardownUnderFinalizerRule})
}

// classifierEnumerates: every way the boolean classifier fn can return true is reached through a
// positive comparison of a value with a constant (an allow-list such as `switch reason { case A, B:
// return true }`), never through "everything that was not excluded".
func (p *Program) classifierEnumerates(fn *ssa.Function) bool {
	if fn == nil || len(fn.Blocks) == 0 {
		return false
	}
	posEq := func(fs []Fact) bool {
		for _, f := range fs {
			if b, ok := f.Cond.(*ssa.BinOp); ok && b.Op == token.EQL && f.Pol {
				for _, side := range []ssa.Value{b.X, b.Y} {
					if _, isC := constString(side); isC {
						return true
					}
				}
			}
		}
		return false
	}
	sawTrue := false
	for _, rc := range p.returnCases(fn) {
		if len(rc.Results) != 1 {
			return false
		}
		cb, isConst := constBool(rc.Results[0])
		if !isConst {
			return false
		}
		if !cb {
			continue
		}
		sawTrue = true
		if posEq(rc.Facts) {
			continue
		}
		b := rc.Ret.Block()
		if rc.Pred != nil || len(b.Preds) == 0 {
			return false
		}
		for _, pr := range b.Preds {
			if !posEq(p.FactsOnEdge(pr, b)) {
				return false
			}
		}
	}
	return sawTrue
}

// constantStringList: v is a slice literal, or the load of a package-level slice variable that is
// initialised with a literal and never written elsewhere, whose elements are all string constants.
func (p *Program) constantStringList(v ssa.Value) bool {
	v = stripConv(v)
	allConst := func(elems []ssa.Value) bool {
		if len(elems) == 0 {
			return false
		}
		for _, e := range elems {
			if _, ok := constString(e); !ok {
				return false
			}
		}
		return true
	}
	if elems, ok := sliceElems(v); ok {
		return allConst(elems)
	}
	ld, ok := v.(*ssa.UnOp)
	if !ok || ld.Op != token.MUL {
		return false
	}
	g, ok := ld.X.(*ssa.Global)
	if !ok || g.Pkg == nil {
		return false
	}
	// exactly one store to the global in the whole program: the initialiser
	var stored ssa.Value
	n := 0
	for _, fn := range p.Funcs {
		for _, b := range fn.Blocks {
			for _, in := range b.Instrs {
				if st, ok := in.(*ssa.Store); ok && st.Addr == ssa.Value(g) {
					n++
					stored = st.Val
				}
			}
		}
	}
	if init := g.Pkg.Func("init"); init != nil {
		for _, b := range init.Blocks {
			for _, in := range b.Instrs {
				if st, ok := in.(*ssa.Store); ok && st.Addr == ssa.Value(g) {
					n++
					stored = st.Val
				}
			}
		}
	}
	if n != 1 || stored == nil {
		return false
	}
	elems, ok := sliceElems(stored)
	return ok && allConst(elems)
}
