package main

import (
	"fmt"
	"go/token"
	"go/types"
	"sort"
	"strings"

	"golang.org/x/tools/go/ssa"
)

// Rules added after the second batch of seeded round 6 (C13-11, C14-11, C16-11, C20-11).

func init() {
	addRule("C20", Rule{ID: "C20.R7", Min: 2, Statement: "no operation that can block for an unbounded time (channel send on a channel not known to have room, channel receive, blocking select, WaitGroup/Cond wait, re-locking) is executed while inFlightLock is held", Run: noBlockingUnderInFlightLockRule})
	addRule("C16", Rule{ID: "C16.R10", Min: 1, Statement: "the key under which the duplicate validator remembers an object is built from the object's group, kind, namespace and name only", Run: duplicateKeyIdentityRule})
	addRule("C14", Rule{ID: "C14.R9", Min: 1, Statement: "a function that empties phase.Objects while chunking runs at most once per phase: it is neither handed to a retry/poll helper nor called in a loop on a phase defined outside that loop", Run: chunkOncePerPhaseRule})
	addRule("C13", Rule{ID: "C13.R14", Min: 4, Statement: "maps, slices and pointers held by the caller's PackageRenderContext never reach the data handed to templates or CEL by reference (the context is copied by serialisation)", Run: renderContextNotAliasedRule})
}

// ---------------------------------------------------------------------------------------------
// C20.R7

type blockingOp struct {
	at   ssa.Instruction
	what string
	via  []string
}

// c20BlockingOpsIn lists the potentially blocking operations of fn restricted to the instructions for
// which `held` is true (nil = all), following static callees of the package (not `go`) to `depth`.
func (p *Program) c20BlockingOpsIn(fn *ssa.Function, held func(ssa.Instruction) bool, depth int, seen map[*ssa.Function]bool) []blockingOp {
	var out []blockingOp
	for _, b := range fn.Blocks {
		for _, in := range b.Instrs {
			if held != nil && !held(in) {
				continue
			}
			switch x := in.(type) {
			case *ssa.Send:
				if why := p.c20SendMayBlock(x); why != "" {
					out = append(out, blockingOp{at: in, what: "channel send: " + why})
				}
			case *ssa.UnOp:
				if x.Op == token.ARROW {
					out = append(out, blockingOp{at: in, what: "channel receive"})
				}
			case *ssa.Select:
				if x.Blocking {
					out = append(out, blockingOp{at: in, what: "select without default"})
				}
			case *ssa.Call:
				cc := x.Common()
				id := calleeID(cc)
				switch id {
				case "(*sync.WaitGroup).Wait", "(*sync.Cond).Wait":
					out = append(out, blockingOp{at: in, what: "call of " + id})
					continue
				}
				if op, ok := p.lockOpOf(cc); ok {
					if op.Acquire && op.Field == c20Lock && held != nil {
						out = append(out, blockingOp{at: in, what: "inFlightLock is locked again while it is held"})
					}
					continue
				}
				callee := staticCallee(cc)
				if callee == nil || len(callee.Blocks) == 0 || depth <= 0 || seen[callee] {
					continue
				}
				if !strings.HasPrefix(funcPkgPath(callee), modPKO) {
					continue
				}
				seen[callee] = true
				for _, op := range p.c20BlockingOpsIn(callee, nil, depth-1, seen) {
					op.via = append([]string{shortFuncID(callee)}, op.via...)
					out = append(out, op)
				}
				delete(seen, callee)
			}
		}
	}
	return out
}

// c20SendMayBlock: "" when the send is on a receiver channel of inFlight (its capacity is C20.R4's
// obligation) or on a channel made in this function with a constant capacity >= 1 and sent to once.
func (p *Program) c20SendMayBlock(s *ssa.Send) string {
	ch := p.c12Resolve(s.Chan)
	if u, ok := ch.(*ssa.UnOp); ok && u.Op == token.MUL {
		if ia, ok := u.X.(*ssa.IndexAddr); ok {
			if lk, ok := stripConv(ia.X).(*ssa.Lookup); ok {
				if _, is := c20IsInFlight(lk.X); is {
					return ""
				}
			}
		}
	}
	if mc, ok := stripConv(ch).(*ssa.MakeChan); ok {
		if sz, isConst := constInt(mc.Size); isConst && sz >= 1 {
			sends := 0
			for _, b := range s.Parent().Blocks {
				for _, in := range b.Instrs {
					if o, ok := in.(*ssa.Send); ok && stripConv(p.c12Resolve(o.Chan)) == ssa.Value(mc) {
						sends++
					}
				}
			}
			if sends == 1 && !inAnyLoop(s) {
				return ""
			}
			return "more than one send may hit the channel made at " + p.IPos(mc)
		}
		return "the channel made at " + p.IPos(mc) + " has no constant capacity >= 1"
	}
	return "on " + p.describe(s.Chan) + ", whose free capacity is unknown"
}

func inAnyLoop(in ssa.Instruction) bool {
	for _, l := range loopsOf(in.Parent()) {
		if l.Body[in.Block()] {
			return true
		}
	}
	return false
}

func noBlockingUnderInFlightLockRule(c *Ctx) {
	p := c.P
	n := 0
	for _, fn := range p.FuncsIn(pkgPkgImport) {
		var acquire ssa.Instruction
		for _, call := range callsIn(fn) {
			if _, isCall := call.Instr.(*ssa.Call); !isCall {
				continue
			}
			if op, ok := p.lockOpOf(call.Common); ok && op.Acquire && op.Field == c20Lock {
				acquire = call.Instr
				break
			}
		}
		if acquire == nil {
			continue
		}
		n++
		o := c.Ob(fn, "critical-section-does-not-block", acquire, c.rule.Statement)
		held := func(in ssa.Instruction) bool {
			if in == acquire {
				return false
			}
			if _, isGo := in.(*ssa.Go); isGo {
				return false
			}
			for _, h := range p.LocksHeldAt(in) {
				if h.Field == c20Lock {
					return true
				}
			}
			return false
		}
		ops := p.c20BlockingOpsIn(fn, held, 3, map[*ssa.Function]bool{fn: true})
		if len(ops) == 0 {
			o.OK()
			continue
		}
		var msgs []string
		for _, op := range ops {
			m := op.what + " at " + p.IPos(op.at)
			if len(op.via) > 0 {
				m += " (reached through " + strings.Join(op.via, " -> ") + ")"
			}
			msgs = append(msgs, m)
		}
		sort.Strings(msgs)
		o.Fail("with inFlightLock held the function can block: %s; every pull goroutine needs the same lock to broadcast its result, so callers are never answered", strings.Join(msgs, "; "))
	}
	if n == 0 {
		c.AnchorLost("Lock of " + c20Lock)
	}
}

// ---------------------------------------------------------------------------------------------
// C16.R10

const c16DupReason = pkgPkgTypes + ".ViolationReasonDuplicateObject"

// identityAllowed: calls through which the duplicate key may depend on the object.
var c16IdentityAllowed = map[string]bool{
	"(*k8s.io/apimachinery/pkg/apis/meta/v1/unstructured.Unstructured).GroupVersionKind": true,
	"(*k8s.io/apimachinery/pkg/apis/meta/v1/unstructured.Unstructured).GetKind":          true,
	"(*k8s.io/apimachinery/pkg/apis/meta/v1/unstructured.Unstructured).GetName":          true,
	"(*k8s.io/apimachinery/pkg/apis/meta/v1/unstructured.Unstructured).GetNamespace":     true,
	"(*k8s.io/apimachinery/pkg/apis/meta/v1/unstructured.Unstructured).GetObjectKind":    true,
	"(k8s.io/apimachinery/pkg/runtime/schema.GroupVersionKind).GroupKind":                true,
	"(k8s.io/apimachinery/pkg/runtime/schema.GroupKind).String":                          true,
	"(k8s.io/apimachinery/pkg/types.NamespacedName).String":                              true,
	"sigs.k8s.io/controller-runtime/pkg/client.ObjectKeyFromObject":                      true,
	"invoke:k8s.io/apimachinery/pkg/runtime/schema.ObjectKind.GroupVersionKind":          true,
	"invoke:sigs.k8s.io/controller-runtime/pkg/client.Object.GetName":                    true,
	"invoke:sigs.k8s.io/controller-runtime/pkg/client.Object.GetNamespace":               true,
	"invoke:sigs.k8s.io/controller-runtime/pkg/client.Object.GetObjectKind":              true,
	"k8s.io/apimachinery/pkg/runtime/schema.ParseGroupVersion":                           true,
}

// pure string plumbing: the result depends on the arguments only.
var c16Plumbing = map[string]bool{
	"fmt.Sprintf": true, "fmt.Sprint": true, "fmt.Sprintln": true, "strings.Join": true, "strings.ToLower": true,
	"strings.TrimSpace": true, "builtin:append": true, "builtin:string": true, "path.Join": true,
}

type c16Slice struct {
	p       *Program
	seen    map[ssa.Value]bool
	sources []string // allowed accessors seen
	bad     []string
	unknown []string
}

func (s *c16Slice) walk(v ssa.Value, depth int) {
	if v == nil || s.seen[v] {
		return
	}
	s.seen[v] = true
	p := s.p
	switch x := v.(type) {
	case *ssa.Const, *ssa.Global, *ssa.Function, *ssa.Builtin, *ssa.FreeVar:
		return
	case *ssa.Parameter:
		return
	case *ssa.Alloc:
		// everything stored into the local
		for _, r := range *x.Referrers() {
			switch st := r.(type) {
			case *ssa.Store:
				if st.Addr == ssa.Value(x) {
					s.walk(st.Val, depth)
				}
			case *ssa.FieldAddr, *ssa.IndexAddr:
				for _, rr := range *st.(ssa.Value).Referrers() {
					if sst, ok := rr.(*ssa.Store); ok && sst.Addr == st.(ssa.Value) {
						s.walk(sst.Val, depth)
					}
				}
			}
		}
		return
	case *ssa.Phi:
		for _, e := range x.Edges {
			s.walk(e, depth)
		}
		return
	case *ssa.Extract:
		s.walk(x.Tuple, depth)
		return
	case *ssa.Next:
		s.walk(x.Iter, depth)
		return
	case *ssa.Range:
		s.walk(x.X, depth)
		return
	case *ssa.Field:
		tn := namedTypeString(x.X.Type())
		if tn == "k8s.io/apimachinery/pkg/runtime/schema.GroupVersionKind" {
			if f := fieldName(x.X.Type(), x.Field); f != "Group" && f != "Kind" {
				s.bad = append(s.bad, "GroupVersionKind."+f)
			}
		}
		s.walk(x.X, depth)
		return
	case *ssa.FieldAddr:
		tn := namedTypeString(x.X.Type())
		if tn == "k8s.io/apimachinery/pkg/runtime/schema.GroupVersionKind" {
			if f := fieldName(x.X.Type(), x.Field); f != "Group" && f != "Kind" {
				s.bad = append(s.bad, "GroupVersionKind."+f)
			}
		}
		s.walk(x.X, depth)
		return
	case *ssa.Call:
		cc := x.Common()
		id := calleeID(cc)
		if c16IdentityAllowed[id] {
			s.sources = append(s.sources, id[strings.LastIndex(id, ".")+1:])
			if id == "(*k8s.io/apimachinery/pkg/apis/meta/v1/unstructured.Unstructured).GroupVersionKind" ||
				id == "invoke:k8s.io/apimachinery/pkg/runtime/schema.ObjectKind.GroupVersionKind" {
				s.checkGVKUses(x)
			}
			// the receiver chain may itself be a call (GetObjectKind().GroupVersionKind())
			for _, a := range cc.Args {
				s.walk(a, depth)
			}
			if cc.IsInvoke() {
				s.walk(cc.Value, depth)
			}
			return
		}
		if c16Plumbing[id] {
			for _, a := range cc.Args {
				s.walk(a, depth)
			}
			return
		}
		if strings.HasPrefix(id, "builtin:") {
			for _, a := range cc.Args {
				s.walk(a, depth)
			}
			return
		}
		callee := staticCallee(cc)
		if callee != nil && len(callee.Blocks) > 0 && strings.HasPrefix(funcPkgPath(callee), modPKO) && depth > 0 {
			// the helper's results: follow its returns, with the parameters bound to the arguments
			for _, b := range callee.Blocks {
				if ret, ok := b.Instrs[len(b.Instrs)-1].(*ssa.Return); ok {
					for _, r := range ret.Results {
						s.walk(r, depth-1)
					}
				}
			}
			for _, a := range cc.Args {
				s.walk(a, depth)
			}
			return
		}
		// any other call that takes the object (or something derived) is a further property of the object
		if s.touchesObject(cc) {
			s.bad = append(s.bad, "call of "+shortPkg(id)+" at "+p.IPos(x))
		} else {
			for _, a := range cc.Args {
				s.walk(a, depth)
			}
		}
		return
	}
	// generic: all operands
	if in, ok := v.(ssa.Instruction); ok {
		var ops []*ssa.Value
		for _, o := range in.Operands(ops) {
			if *o != nil {
				s.walk(*o, depth)
			}
		}
	}
}

// checkGVKUses: a GroupVersionKind value may only be narrowed to group and kind.
func (s *c16Slice) checkGVKUses(call *ssa.Call) {
	var visit func(v ssa.Value, n int)
	visit = func(v ssa.Value, n int) {
		if n > 6 || v.Referrers() == nil {
			return
		}
		for _, r := range *v.Referrers() {
			switch x := r.(type) {
			case *ssa.Store:
				if a, ok := x.Addr.(*ssa.Alloc); ok && x.Val == v {
					visit(a, n+1)
				}
			case *ssa.UnOp:
				if x.Op == token.MUL {
					visit(x, n+1)
				}
			case *ssa.Call:
				id := calleeID(x.Common())
				if id == "(k8s.io/apimachinery/pkg/runtime/schema.GroupVersionKind).String" ||
					id == "(k8s.io/apimachinery/pkg/runtime/schema.GroupVersionKind).GroupVersion" ||
					id == "(k8s.io/apimachinery/pkg/runtime/schema.GroupVersionKind).ToAPIVersionAndKind" {
					if s.seen[x] || s.inSliceLater(x) {
						s.bad = append(s.bad, shortPkg(id)+" (includes the API version)")
					}
				}
			case *ssa.MakeInterface:
				// printed whole with %v / %s: includes the version
				if s.seen[x] {
					s.bad = append(s.bad, "the whole GroupVersionKind is formatted into the key (includes the API version)")
				}
			}
		}
	}
	visit(call, 0)
}

func (s *c16Slice) inSliceLater(v ssa.Value) bool { return s.seen[v] }

func (s *c16Slice) touchesObject(cc *ssa.CallCommon) bool {
	isObj := func(v ssa.Value) bool {
		tn := namedTypeString(v.Type())
		return tn == "k8s.io/apimachinery/pkg/apis/meta/v1/unstructured.Unstructured" || tn == "sigs.k8s.io/controller-runtime/pkg/client.Object"
	}
	if cc.IsInvoke() && isObj(cc.Value) {
		return true
	}
	for _, a := range cc.Args {
		if isObj(stripConv(a)) {
			return true
		}
	}
	return false
}

func duplicateKeyIdentityRule(c *Ctx) {
	p := c.P
	n := 0
	for _, fn := range p.FuncsIn(pkgPkgValid) {
		// the function that reports duplicate objects
		reports := false
		for _, b := range fn.Blocks {
			for _, in := range b.Instrs {
				var ops []*ssa.Value
				for _, o := range in.Operands(ops) {
					if k, ok := (*o).(*ssa.Const); ok && k.Value != nil && namedTypeString(k.Type()) == pkgPkgTypes+".ViolationReason" {
						if g := p.constName(k); g == "ViolationReasonDuplicateObject" {
							reports = true
						}
					}
					if g, ok := (*o).(*ssa.Global); ok && g.Name() == "ViolationReasonDuplicateObject" {
						reports = true
					}
				}
			}
		}
		if !reports {
			continue
		}
		// the maps made in this function and the keys used with them
		var keys []ssa.Value
		var at ssa.Instruction
		for _, b := range fn.Blocks {
			for _, in := range b.Instrs {
				switch x := in.(type) {
				case *ssa.Lookup:
					if _, isMap := x.X.Type().Underlying().(*types.Map); isMap && localMap(x.X) {
						keys = append(keys, x.Index)
						at = in
					}
				case *ssa.MapUpdate:
					if localMap(x.Map) {
						keys = append(keys, x.Key)
						if at == nil {
							at = in
						}
					}
				}
			}
		}
		if len(keys) == 0 {
			continue
		}
		n++
		o := c.Ob(fn, "duplicate-key", at, c.rule.Statement)
		if where := bookkeepingMapInLoop(fn); where != "" {
			o.Fail("the map that remembers the objects seen so far is created inside a loop (%s): it forgets everything at the next file / phase, so the same object declared in two files is not reported as a duplicate and both copies roll out", where)
			continue
		}
		s := &c16Slice{p: p, seen: map[ssa.Value]bool{}}
		for _, k := range keys {
			s.walk(k, 3)
		}
		// second pass for GVK uses decided before the user was visited
		for v := range s.seen {
			if call, ok := v.(*ssa.Call); ok {
				id := calleeID(call.Common())
				if strings.HasSuffix(id, ".GroupVersionKind") && c16IdentityAllowed[id] {
					s.checkGVKUses(call)
				}
			}
		}
		bad := dedupStrings(s.bad)
		sort.Strings(bad)
		switch {
		case len(bad) > 0:
			o.Fail("the key that decides whether two objects are the same also depends on %s: two objects with the same group, kind, namespace and name are then not reported as duplicates and both roll out", strings.Join(bad, "; "))
		case len(s.sources) == 0:
			o.Unknown("the key of the visited-objects map does not visibly derive from the object's identity accessors")
		default:
			o.OK("key derives from " + strings.Join(dedupStrings(s.sources), ", "))
		}
	}
	if n == 0 {
		c.AnchorLost("duplicate-object bookkeeping map in " + pkgPkgValid)
	}
}

// bookkeepingMapInLoop: a map made in fn that is looked up and updated with the same kind of key is
// allocated inside a loop (position of the make, "" = no).
func bookkeepingMapInLoop(fn *ssa.Function) string {
	loops := loopsOf(fn)
	makeOf := func(v ssa.Value) *ssa.MakeMap {
		v = stripConv(v)
		if u, ok := v.(*ssa.UnOp); ok && u.Op == token.MUL {
			if a, ok := u.X.(*ssa.Alloc); ok {
				for _, r := range *a.Referrers() {
					if st, ok := r.(*ssa.Store); ok && st.Addr == ssa.Value(a) {
						if mk, isMake := stripConv(st.Val).(*ssa.MakeMap); isMake {
							return mk
						}
					}
				}
			}
			return nil
		}
		mk, _ := v.(*ssa.MakeMap)
		return mk
	}
	read, written := map[*ssa.MakeMap]bool{}, map[*ssa.MakeMap]bool{}
	for _, b := range fn.Blocks {
		for _, in := range b.Instrs {
			switch x := in.(type) {
			case *ssa.Lookup:
				if mk := makeOf(x.X); mk != nil {
					read[mk] = true
				}
			case *ssa.MapUpdate:
				if mk := makeOf(x.Map); mk != nil {
					written[mk] = true
				}
			}
		}
	}
	for mk := range read {
		if !written[mk] {
			continue
		}
		for _, l := range loops {
			if l.Body[mk.Block()] {
				return "make at line " + itoa(mk.Parent().Prog.Fset.Position(mk.Pos()).Line)
			}
		}
	}
	return ""
}

func localMap(v ssa.Value) bool {
	v = stripConv(v)
	if u, ok := v.(*ssa.UnOp); ok && u.Op == token.MUL {
		if a, ok := u.X.(*ssa.Alloc); ok {
			for _, r := range *a.Referrers() {
				if st, ok := r.(*ssa.Store); ok && st.Addr == ssa.Value(a) {
					if _, isMake := stripConv(st.Val).(*ssa.MakeMap); isMake {
						return true
					}
				}
			}
		}
		return false
	}
	_, isMake := v.(*ssa.MakeMap)
	return isMake
}

// constName: the declared name of a typed constant value (first match in the type's package).
func (p *Program) constName(k *ssa.Const) string {
	n := namedOf(k.Type())
	if n == nil || n.Obj().Pkg() == nil {
		return ""
	}
	scope := n.Obj().Pkg().Scope()
	for _, name := range scope.Names() {
		if cst, ok := scope.Lookup(name).(*types.Const); ok && types.Identical(cst.Type(), k.Type()) {
			if cst.Val().ExactString() == k.Value.ExactString() {
				return name
			}
		}
	}
	return ""
}

// ---------------------------------------------------------------------------------------------
// C14.R9

const c14PhaseType = "package-operator.run/apis/core/v1alpha1.ObjectSetTemplatePhase"

// c14Consumers: functions that set Objects of a *ObjectSetTemplatePhase parameter to nil, or pass
// such a parameter on to one that does (also out of a closure). Value: index of the parameter.
func (p *Program) c14Consumers() map[*ssa.Function]int {
	out := map[*ssa.Function]int{}
	phaseParam := func(fn *ssa.Function) []int {
		var idx []int
		for i, prm := range fn.Params {
			if pt, ok := prm.Type().Underlying().(*types.Pointer); ok && namedTypeString(pt.Elem()) == c14PhaseType {
				idx = append(idx, i)
			}
		}
		return idx
	}
	fns := p.FuncsIn(pkgPkgDeploy)
	for _, fn := range fns {
		for _, i := range phaseParam(fn) {
			prm := fn.Params[i]
			for _, b := range fn.Blocks {
				for _, in := range b.Instrs {
					st, ok := in.(*ssa.Store)
					if !ok {
						continue
					}
					fa, ok := st.Addr.(*ssa.FieldAddr)
					if !ok || stripConv(fa.X) != ssa.Value(prm) || fieldName(fa.X.Type(), fa.Field) != "Objects" {
						continue
					}
					if isNilConst(st.Val) || c14IsEmptyFreshSlice(st.Val) {
						out[fn] = i
					}
				}
			}
		}
	}
	for changed, round := true, 0; changed && round < 5; round++ {
		changed = false
		for _, fn := range fns {
			if _, done := out[fn]; done {
				continue
			}
			for _, call := range callsIn(fn) {
				callee := staticCallee(call.Common)
				ci, ok := out[callee]
				if callee == nil || !ok || ci < 0 || ci >= len(call.Common.Args) {
					continue
				}
				arg := stripConv(call.Common.Args[ci])
				// directly a parameter of fn, or a free variable of a closure bound to a parameter of the parent
				if prm, ok := arg.(*ssa.Parameter); ok {
					out[fn] = paramIndex(fn, prm)
					changed = true
				} else if fn.Parent() != nil && freeVarRoot(arg) != nil {
					// the closure itself consumes its captured phase: marked with -1, the rule then looks at
					// what happens to the closure value
					out[fn] = -1
					changed = true
				}
			}
		}
	}
	return out
}

func freeVarRoot(v ssa.Value) *ssa.FreeVar {
	for i := 0; i < 4; i++ {
		v = stripConv(v)
		if fv, ok := v.(*ssa.FreeVar); ok {
			return fv
		}
		u, ok := v.(*ssa.UnOp)
		if !ok || u.Op != token.MUL {
			return nil
		}
		v = u.X
	}
	return nil
}

// closureBinding: the value bound to free variable fv of closure fn at its (single) MakeClosure.
func closureBinding(fn *ssa.Function, fv *ssa.FreeVar) ssa.Value {
	parent := fn.Parent()
	if parent == nil {
		return nil
	}
	idx := -1
	for i, f := range fn.FreeVars {
		if f == fv {
			idx = i
		}
	}
	if idx < 0 {
		return nil
	}
	for _, b := range parent.Blocks {
		for _, in := range b.Instrs {
			if mc, ok := in.(*ssa.MakeClosure); ok && mc.Fn == ssa.Value(fn) && idx < len(mc.Bindings) {
				return mc.Bindings[idx]
			}
		}
	}
	return nil
}

var c14MultiInvokers = []string{"k8s.io/client-go/util/retry.", "k8s.io/apimachinery/pkg/util/wait."}

func chunkOncePerPhaseRule(c *Ctx) {
	p := c.P
	consumers := p.c14Consumers()
	if len(consumers) == 0 {
		c.AnchorLost("function that empties ObjectSetTemplatePhase.Objects in " + pkgPkgDeploy)
		return
	}
	n := 0
	var list []*ssa.Function
	for fn := range consumers {
		list = append(list, fn)
	}
	sort.Slice(list, func(i, j int) bool { return funcID(list[i]) < funcID(list[j]) })
	for _, consumer := range list {
		pi := consumers[consumer]
		// (1) call sites
		for _, call := range p.callersOf(consumer) {
			if pi < 0 || pi >= len(call.Common.Args) {
				continue
			}
			n++
			o := c.Ob(call.Fn, "consumes-phase-once:"+stableName(consumer), call.Instr, c.rule.Statement)
			arg := call.Common.Args[pi]
			if why := p.c14RepeatedOnSamePhase(call.Instr, arg); why != "" {
				o.Fail("%s empties phase.Objects before its slices exist; %s, so a second run sees an empty phase, creates nothing and reports success: the deployment is persisted with a phase that has neither objects nor slices", shortFuncID(consumer), why)
				continue
			}
			o.OK()
		}
		// (2) a closure that consumes a captured phase: what is done with the closure value
		if pi == -1 {
			parent := consumer.Parent()
			for _, b := range parent.Blocks {
				for _, in := range b.Instrs {
					mc, ok := in.(*ssa.MakeClosure)
					if !ok || mc.Fn != ssa.Value(consumer) {
						continue
					}
					n++
					o := c.Ob(parent, "consuming-closure-runs-once", mc, c.rule.Statement)
					why := ""
					for _, r := range *mc.Referrers() {
						ci, ok := r.(ssa.CallInstruction)
						if !ok {
							continue
						}
						cc := ci.Common()
						if cc.Value == ssa.Value(mc) {
							// called directly: as good as a call of the chunking function on the captured phase
							if w := p.c14RepeatedOnSamePhase(ci, p.c14CapturedPhase(consumer, consumers)); w != "" {
								why = w
							}
							continue
						}
						id := calleeID(cc)
						for _, pre := range c14MultiInvokers {
							if strings.HasPrefix(id, pre) {
								why = "the closure calling it is handed to " + id + ", which runs it again after an error"
							}
						}
						if callee := staticCallee(cc); callee != nil && len(callee.Blocks) > 0 && why == "" {
							if w := p.calledInLoop(callee, cc, mc); w != "" {
								why = "the closure calling it is handed to " + shortFuncID(callee) + ", which " + w
							}
						}
					}
					if why != "" {
						o.Fail("the chunking step empties phase.Objects before its slices exist; %s, so a second run sees an empty phase, creates nothing and reports success: the deployment is persisted with a phase that has neither objects nor slices", why)
					} else {
						o.OK()
					}
				}
			}
		}
	}
	if n == 0 {
		c.AnchorLost("call of the chunking function")
	}
}

// c14CapturedPhase: the value bound (at the MakeClosure) to the free variable that closure fn hands
// to a consuming function; nil when not identified.
func (p *Program) c14CapturedPhase(fn *ssa.Function, consumers map[*ssa.Function]int) ssa.Value {
	for _, call := range callsIn(fn) {
		callee := staticCallee(call.Common)
		ci, ok := consumers[callee]
		if callee == nil || !ok || ci < 0 || ci >= len(call.Common.Args) {
			continue
		}
		if fv := freeVarRoot(call.Common.Args[ci]); fv != nil {
			if b := closureBinding(fn, fv); b != nil {
				return b
			}
		}
	}
	return nil
}

// c14RepeatedOnSamePhase: the call sits in a loop of its function while the phase it works on is
// defined outside that loop ("" = no).
func (p *Program) c14RepeatedOnSamePhase(ci ssa.Instruction, phase ssa.Value) string {
	fn := ci.Parent()
	for _, l := range loopsOf(fn) {
		if !l.Body[ci.Block()] {
			continue
		}
		if phase == nil {
			return "it is called in a loop at " + p.IPos(ci)
		}
		def := stripConv(p.c12Resolve(phase))
		in, isInstr := def.(ssa.Instruction)
		if isInstr && l.Body[in.Block()] {
			if _, isPhi := def.(*ssa.Phi); !isPhi || in.Block() != l.Head {
				continue // a phase computed per iteration
			}
		}
		return "it is called in a loop at " + p.IPos(ci) + " on the same phase (" + p.describe(phase) + ") in every iteration"
	}
	return ""
}

// calledInLoop: inside callee, the function parameter bound to closure mc is called within a loop.
func (p *Program) calledInLoop(callee *ssa.Function, cc *ssa.CallCommon, mc *ssa.MakeClosure) string {
	idx := -1
	for i, a := range cc.Args {
		if a == ssa.Value(mc) {
			idx = i
		}
	}
	if idx < 0 || idx >= len(callee.Params) {
		return ""
	}
	prm := callee.Params[idx]
	for _, call := range callsIn(callee) {
		if call.Common.Value == ssa.Value(prm) && inAnyLoop(call.Instr) {
			return "calls it in a loop at " + p.IPos(call.Instr)
		}
	}
	return ""
}

// ---------------------------------------------------------------------------------------------
// C13.R14

const c13CtxType = pkgPkgTypes + ".PackageRenderContext"

var c13CtxPkgs = []string{pkgPkgRender, pkgPkgRender + "/celctx", pkgPkgTypes}

// readOnlyCallees may receive a reference into the caller's context: they do not retain or modify it.
var c13ReadOnly = map[string]bool{
	"encoding/json.Marshal": true, "encoding/json.MarshalIndent": true, "reflect.DeepEqual": true,
	"fmt.Sprintf": true, "fmt.Sprint": true, "fmt.Errorf": true, "fmt.Sprintln": true,
	"builtin:len": true, "builtin:cap": true, "builtin:print": true, "builtin:println": true,
	"sigs.k8s.io/yaml.Marshal": true,
}

// copying callees: the result shares nothing with the argument.
var c13Copying = map[string]bool{
	"k8s.io/apimachinery/pkg/runtime.DeepCopyJSON":      true,
	"k8s.io/apimachinery/pkg/runtime.DeepCopyJSONValue": true,
}

func refLike(t types.Type) bool {
	switch u := t.Underlying().(type) {
	case *types.Map, *types.Slice, *types.Pointer, *types.Interface, *types.Chan:
		return true
	case *types.Struct:
		for i := 0; i < u.NumFields(); i++ {
			if refLike(u.Field(i).Type()) {
				return true
			}
		}
	case *types.Array:
		return refLike(u.Elem())
	}
	return false
}

type c13Alias struct {
	p       *Program
	escapes []string
	unknown []string
	seen    map[ssa.Value]bool
}

// follow: v is (or holds) a reference into the caller's context; report where it is retained.
func (a *c13Alias) follow(v ssa.Value, depth int) {
	if a.seen[v] || v.Referrers() == nil {
		return
	}
	a.seen[v] = true
	p := a.p
	for _, r := range *v.Referrers() {
		switch x := r.(type) {
		case *ssa.MapUpdate:
			if x.Value == v {
				a.escapes = append(a.escapes, "stored as a map value at "+p.IPos(x))
			}
		case *ssa.Store:
			if x.Val != v {
				continue
			}
			if al, ok := storeRoot(x.Addr).(*ssa.Alloc); ok && !al.Heap {
				// a local: its loads alias too
				a.follow(al, depth)
				continue
			}
			if al, ok := storeRoot(x.Addr).(*ssa.Alloc); ok {
				a.follow(al, depth)
				continue
			}
			a.escapes = append(a.escapes, "stored into "+p.describe(x.Addr)+" at "+p.IPos(x))
		case *ssa.UnOp:
			if x.Op == token.MUL && refLike(x.Type()) {
				a.follow(x, depth)
			}
		case *ssa.FieldAddr, *ssa.IndexAddr:
			a.follow(x.(ssa.Value), depth)
		case *ssa.Field:
			if refLike(x.Type()) {
				a.follow(x, depth)
			}
		case *ssa.Lookup:
			if x.X == v && (refLike(x.Type()) || x.CommaOk) {
				a.follow(x, depth)
			}
		case *ssa.Index:
			if refLike(x.Type()) {
				a.follow(x, depth)
			}
		case *ssa.Extract:
			if refLike(x.Type()) {
				a.follow(x, depth)
			}
		case *ssa.Range:
			a.follow(x, depth)
		case *ssa.Next:
			a.follow(x, depth)
		case *ssa.Phi, *ssa.ChangeType, *ssa.Convert, *ssa.MakeInterface, *ssa.ChangeInterface, *ssa.TypeAssert, *ssa.Slice:
			if refLike(x.(ssa.Value).Type()) {
				a.follow(x.(ssa.Value), depth)
			}
		case *ssa.Return:
			a.escapes = append(a.escapes, "returned at "+p.IPos(x))
		case *ssa.Send:
			if x.X == v {
				a.escapes = append(a.escapes, "sent on a channel at "+p.IPos(x))
			}
		case *ssa.MakeClosure:
			a.unknown = append(a.unknown, "captured by a closure at "+p.IPos(x))
		case ssa.CallInstruction:
			cc := x.Common()
			id := calleeID(cc)
			if c13ReadOnly[id] {
				continue
			}
			if c13Copying[id] {
				continue
			}
			if id == "builtin:append" {
				if len(cc.Args) > 0 && cc.Args[0] != v {
					a.escapes = append(a.escapes, "appended to a slice at "+p.IPos(x))
				} else if val := x.Value(); val != nil {
					a.follow(val, depth)
				}
				continue
			}
			if strings.HasPrefix(id, "builtin:") {
				if id == "builtin:delete" || id == "builtin:clear" {
					a.escapes = append(a.escapes, "modified by "+id[len("builtin:"):]+" at "+p.IPos(x))
				}
				continue
			}
			callee := staticCallee(cc)
			if callee != nil && len(callee.Blocks) > 0 && strings.HasPrefix(funcPkgPath(callee), modPKO) && depth > 0 {
				for i, arg := range cc.Args {
					if arg == v && i < len(callee.Params) {
						a.follow(callee.Params[i], depth-1)
					}
				}
				continue
			}
			a.unknown = append(a.unknown, "passed to "+shortPkg(id)+" at "+p.IPos(x))
		}
	}
}

func storeRoot(addr ssa.Value) ssa.Value {
	for {
		switch x := addr.(type) {
		case *ssa.FieldAddr:
			addr = x.X
		case *ssa.IndexAddr:
			addr = x.X
		default:
			return addr
		}
	}
}

func renderContextNotAliasedRule(c *Ctx) {
	p := c.P
	n := 0
	for _, pkg := range c13CtxPkgs {
		for _, fn := range p.FuncsIn(pkg) {
			takes := false
			for _, prm := range fn.Params {
				if namedTypeString(prm.Type()) == c13CtxType {
					takes = true
				}
			}
			// reads of reference-typed fields of a PackageRenderContext
			var reads []ssa.Value
			for _, b := range fn.Blocks {
				for _, in := range b.Instrs {
					switch x := in.(type) {
					case *ssa.FieldAddr:
						if namedTypeString(x.X.Type()) == c13CtxType && refLike(derefType(x.Type())) {
							// loads only; stores into a context being built are the caller's business
							for _, r := range *x.Referrers() {
								if u, ok := r.(*ssa.UnOp); ok && u.Op == token.MUL {
									reads = append(reads, u)
								}
							}
						}
					case *ssa.Field:
						if namedTypeString(x.X.Type()) == c13CtxType && refLike(x.Type()) {
							reads = append(reads, x)
						}
					}
				}
			}
			if !takes && len(reads) == 0 {
				continue
			}
			n++
			o := c.Ob(fn, "context-not-aliased", nil, c.rule.Statement)
			al := &c13Alias{p: p, seen: map[ssa.Value]bool{}}
			for _, r := range reads {
				al.follow(r, 3)
			}
			switch {
			case len(al.escapes) > 0:
				sort.Strings(al.escapes)
				o.Fail("a map, slice or pointer read from the caller's PackageRenderContext is %s: templates (sprig set/unset/merge) then write into the caller's configuration, which the CEL conditions and path filters read afterwards, so the render result depends on template side effects and a second render differs", strings.Join(dedupStrings(al.escapes), "; "))
			case len(al.unknown) > 0:
				sort.Strings(al.unknown)
				o.Unknown("a reference into the caller's PackageRenderContext is %s; whether it is retained there is not decided", strings.Join(dedupStrings(al.unknown), "; "))
			default:
				o.OK(fmt.Sprintf("%d reads of reference-typed context fields, none retained", len(reads)))
			}
		}
	}
	if n == 0 {
		c.AnchorLost("functions taking a " + c13CtxType)
	}
}

func derefType(t types.Type) types.Type {
	if pt, ok := t.Underlying().(*types.Pointer); ok {
		return pt.Elem()
	}
	return t
}
