package main

// Generic helpers shared by the C09 / C15 rules:
//   - resolution of interface-method invokes to their implementations in the workspace,
//   - a transitive "may send a (non dry-run) write request" summary per function,
//   - callers of a function including invoke sites that may dispatch to it,
//   - disjunctive guards ("G1 or G2 holds on every path into the block"),
//   - splitting of materialised boolean phis (`a && b` used as a switch tag / stored in a variable).

import (
	"go/token"
	"go/types"
	"sort"
	"strings"

	"golang.org/x/tools/go/ssa"
)

type mwState struct {
	types      []types.Type // every named non-interface type T of the workspace, as T and *T
	impls      map[string][]*ssa.Function
	reach      map[*ssa.Function]map[*ssa.Function]bool
	direct     map[*ssa.Function][]string // human readable direct write effects of a function
	invokers   map[*ssa.Function][]Call
	invokersOK bool
	funcValues []*ssa.Function
}

var mwStates = map[*Program]*mwState{}

func (p *Program) mw() *mwState {
	st, ok := mwStates[p]
	if ok {
		return st
	}
	st = &mwState{impls: map[string][]*ssa.Function{}, reach: map[*ssa.Function]map[*ssa.Function]bool{},
		direct: map[*ssa.Function][]string{}, invokers: map[*ssa.Function][]Call{}}
	mwStates[p] = st
	var paths []string
	for path := range p.ByPath {
		paths = append(paths, path)
	}
	sort.Strings(paths)
	for _, path := range paths {
		pk := p.ByPath[path]
		if isNonProductPkg(path) {
			continue // mocks and build tooling are not part of the shipped control flow
		}
		if pk.Types == nil {
			continue
		}
		sc := pk.Types.Scope()
		for _, name := range sc.Names() {
			tn, ok := sc.Lookup(name).(*types.TypeName)
			if !ok || tn.IsAlias() {
				continue
			}
			named, ok := tn.Type().(*types.Named)
			if !ok || named.TypeParams().Len() > 0 {
				continue
			}
			if _, isIface := named.Underlying().(*types.Interface); isIface {
				continue
			}
			st.types = append(st.types, named, types.NewPointer(named))
		}
	}
	return st
}

// mwImpls returns the workspace methods an interface invoke may dispatch to (nil for static calls).
// Implementations living outside the workspace (controller-runtime, boxcutter, ...) are not listed;
// they are covered by the trusted base ("an external callee writes iff it is a controller-runtime
// writer method or receives a writer").
func (p *Program) mwImpls(cc *ssa.CallCommon) []*ssa.Function {
	if !cc.IsInvoke() {
		return nil
	}
	iface, ok := cc.Value.Type().Underlying().(*types.Interface)
	if !ok {
		return nil
	}
	st := p.mw()
	key := types.TypeString(cc.Value.Type(), nil) + "|" + iface.String() + "." + cc.Method.Name()
	if out, ok := st.impls[key]; ok {
		return out
	}
	var out []*ssa.Function
	seen := map[*ssa.Function]bool{}
	for _, t := range st.types {
		if !types.Implements(t, iface) {
			continue
		}
		// a value type T implementing the interface is also reported through *T; keep one.
		sel := p.SSA.MethodSets.MethodSet(t).Lookup(cc.Method.Pkg(), cc.Method.Name())
		if sel == nil {
			continue
		}
		fn := p.SSA.MethodValue(sel)
		if fn == nil {
			continue
		}
		for _, g := range mwUnwrap(fn) {
			if !seen[g] {
				seen[g] = true
				out = append(out, g)
			}
		}
	}
	sort.Slice(out, func(i, j int) bool { return out[i].String() < out[j].String() })
	st.impls[key] = out
	return out
}

// mwUnwrap looks through synthetic wrappers (promoted methods, pointer-receiver thunks) to the
// declared method.
func mwUnwrap(fn *ssa.Function) []*ssa.Function {
	for i := 0; i < 4 && fn != nil && fn.Synthetic != "" && !strings.HasPrefix(fn.Synthetic, "instance of"); i++ {
		var next *ssa.Function
		for _, c := range callsIn(fn) {
			if g := staticCallee(c.Common); g != nil && g.Name() == fn.Name() {
				next = g
			}
		}
		if next == nil {
			return []*ssa.Function{fn}
		}
		fn = next
	}
	if fn == nil {
		return nil
	}
	return []*ssa.Function{fn}
}

// mwCallees returns the functions with a body that call site c may enter: the static callee, the
// workspace implementations of an invoked interface method, or nothing (external / dynamic).
func (p *Program) mwCallees(c Call) []*ssa.Function {
	if _, isWriter := classifyWriter(c); isWriter {
		// a controller-runtime writer call is judged by itself (verb, options); client wrappers in
		// the workspace merely forward it.
		return nil
	}
	if c.Common.IsInvoke() {
		if narrowed, ok := p.mwImplsOfReceiver(c.Common); ok {
			return narrowed
		}
		return p.mwImpls(c.Common)
	}
	if g := staticCallee(c.Common); g != nil {
		if g.Blocks != nil {
			return []*ssa.Function{g}
		}
		return nil
	}
	return p.mwDynamicTargets(c.Common)
}

// mwImplsOfReceiver: when every value the receiver of an interface invoke can hold is known to be a
// concrete value boxed in this function (`I(x)`, an element of a local slice literal of boxed values
// that is only read, or a merge of those), the invoke dispatches to the methods of those concrete
// types only. ok=false: the receiver is something else (field, parameter, call result, ...) and every
// implementation has to be assumed. Methods without a body in the workspace are left out, as in
// mwImpls.
func (p *Program) mwImplsOfReceiver(cc *ssa.CallCommon) ([]*ssa.Function, bool) {
	ts, ok := mwBoxedTypes(cc.Value, 0, map[ssa.Value]bool{})
	if !ok || len(ts) == 0 {
		return nil, false
	}
	return p.mwMethodsOf(ts, cc)
}

// mwMethodsOf: the declared methods (with a body) the invoke cc enters for receivers of the concrete
// types ts. ok=false when one of them cannot be resolved.
func (p *Program) mwMethodsOf(ts []types.Type, cc *ssa.CallCommon) ([]*ssa.Function, bool) {
	var out []*ssa.Function
	seen := map[*ssa.Function]bool{}
	for _, t := range ts {
		if _, isIface := t.Underlying().(*types.Interface); isIface {
			return nil, false
		}
		sel := p.SSA.MethodSets.MethodSet(t).Lookup(cc.Method.Pkg(), cc.Method.Name())
		if sel == nil {
			return nil, false
		}
		fn := p.SSA.MethodValue(sel)
		if fn == nil {
			return nil, false
		}
		for _, g := range mwUnwrap(fn) {
			if g.Blocks != nil && !seen[g] {
				seen[g] = true
				out = append(out, g)
			}
		}
	}
	sort.Slice(out, func(i, j int) bool { return out[i].String() < out[j].String() })
	return out, true
}

// mwBoxedTypes: the dynamic types interface value v can have, when all of them can be told.
func mwBoxedTypes(v ssa.Value, depth int, seen map[ssa.Value]bool) ([]types.Type, bool) {
	if depth > 6 || v == nil {
		return nil, false
	}
	if seen[v] {
		return nil, true
	}
	seen[v] = true
	switch x := v.(type) {
	case *ssa.MakeInterface:
		return []types.Type{x.X.Type()}, true
	case *ssa.ChangeInterface:
		return mwBoxedTypes(x.X, depth+1, seen)
	case *ssa.Phi:
		var out []types.Type
		for _, e := range x.Edges {
			ts, ok := mwBoxedTypes(e, depth+1, seen)
			if !ok {
				return nil, false
			}
			out = append(out, ts...)
		}
		return out, true
	case *ssa.UnOp:
		if x.Op != token.MUL {
			return nil, false
		}
		ia, isIA := x.X.(*ssa.IndexAddr)
		if !isIA {
			return nil, false
		}
		sl, isSl := ia.X.(*ssa.Slice)
		if !isSl || !mwSliceLiteralOnlyRead(sl) {
			return nil, false
		}
		elems, ok := sliceElems(sl)
		if !ok || len(elems) == 0 {
			return nil, false
		}
		var out []types.Type
		for _, e := range elems {
			ts, ok := mwBoxedTypes(e, depth+1, seen)
			if !ok {
				return nil, false
			}
			out = append(out, ts...)
		}
		return out, true
	}
	return nil, false
}

// mwSliceLiteralOnlyRead: sl is `(new [N]T)[:]` of a literal whose backing array is written only by
// the literal's own constant-index stores and whose slice value is only measured and read element by
// element — nothing else can put a value into it.
func mwSliceLiteralOnlyRead(sl *ssa.Slice) bool {
	a, isA := sl.X.(*ssa.Alloc)
	if !isA || sl.Low != nil || sl.High != nil || sl.Max != nil {
		return false
	}
	arr, isArr := a.Type().Underlying().(*types.Pointer).Elem().Underlying().(*types.Array)
	if !isArr {
		return false
	}
	stored := map[int64]int{}
	for _, r := range referrersOf(a) {
		switch y := r.(type) {
		case *ssa.DebugRef:
		case *ssa.Slice:
			if y != sl {
				return false
			}
		case *ssa.IndexAddr:
			idx, isConst := constInt(y.Index)
			if !isConst {
				return false
			}
			for _, rr := range referrersOf(y) {
				st, isSt := rr.(*ssa.Store)
				if !isSt || st.Addr != ssa.Value(y) || st.Block() != a.Block() {
					return false
				}
				stored[idx]++
			}
		default:
			return false
		}
	}
	// every element initialised exactly once (no element left nil, none overwritten)
	if int64(len(stored)) != arr.Len() {
		return false
	}
	for _, n := range stored {
		if n != 1 {
			return false
		}
	}
	return mwSliceValueOnlyRead(sl, 0, map[ssa.Value]bool{})
}

// mwSliceValueOnlyRead: the slice value v (and every merge it flows into) is only measured and read
// element by element: it is not handed to a call, stored, re-sliced, appended to or written through.
func mwSliceValueOnlyRead(v ssa.Value, depth int, seen map[ssa.Value]bool) bool {
	if seen[v] {
		return true
	}
	seen[v] = true
	if depth > 4 {
		return false
	}
	for _, r := range referrersOf(v) {
		switch y := r.(type) {
		case *ssa.DebugRef:
		case *ssa.Phi:
			if !mwSliceValueOnlyRead(y, depth+1, seen) {
				return false
			}
		case *ssa.IndexAddr:
			for _, rr := range referrersOf(y) {
				switch z := rr.(type) {
				case *ssa.DebugRef:
				case *ssa.UnOp:
					if z.Op != token.MUL {
						return false
					}
				default:
					return false
				}
			}
		case *ssa.Call:
			if b, isB := y.Call.Value.(*ssa.Builtin); !isB || (b.Name() != "len" && b.Name() != "cap") {
				return false
			}
		default:
			return false
		}
	}
	return true
}

// mwInvokeAlt is one of the lists the receiver of an interface invoke can have been taken from.
type mwInvokeAlt struct {
	From    *ssa.BasicBlock // the list is selected on the edge From -> To
	To      *ssa.BasicBlock
	List    ssa.Value
	Callees []*ssa.Function // what the invoke can enter when the receiver is an element of List
}

// mwInvokeAlternatives: the receiver of invoke c is an element of a list that is a merge (phi) of
// several lists (`list := all; if cond { list = []I{only} }; for _, r := range list { r.M() }`).
// Returns per incoming list the callees the invoke can enter: the methods of the boxed element types
// for a local literal that is only read, every workspace implementation for anything else. The caller
// judges each alternative under what is known on its edge. ok=false: not this shape.
func (p *Program) mwInvokeAlternatives(c Call) (alts []mwInvokeAlt, ok bool) {
	if !c.Common.IsInvoke() {
		return nil, false
	}
	ld, isLd := c.Common.Value.(*ssa.UnOp)
	if !isLd || ld.Op != token.MUL {
		return nil, false
	}
	ia, isIA := ld.X.(*ssa.IndexAddr)
	if !isIA {
		return nil, false
	}
	ph, isPhi := ia.X.(*ssa.Phi)
	if !isPhi || len(ph.Edges) != len(ph.Block().Preds) {
		return nil, false
	}
	if _, isSlice := ph.Type().Underlying().(*types.Slice); !isSlice {
		return nil, false
	}
	for i, e := range ph.Edges {
		alt := mwInvokeAlt{From: ph.Block().Preds[i], To: ph.Block(), List: e, Callees: p.mwImpls(c.Common)}
		if sl, isSl := e.(*ssa.Slice); isSl && mwSliceLiteralOnlyRead(sl) {
			if elems, ok := sliceElems(sl); ok && len(elems) > 0 {
				var ts []types.Type
				known := true
				for _, el := range elems {
					t, ok := mwBoxedTypes(el, 0, map[ssa.Value]bool{})
					if !ok || len(t) == 0 {
						known = false
						break
					}
					ts = append(ts, t...)
				}
				if known {
					if fns, ok := p.mwMethodsOf(ts, c.Common); ok {
						alt.Callees = fns
					}
				}
			}
		}
		alts = append(alts, alt)
	}
	return alts, true
}

// mwIsDryRun: the writer call carries client.DryRunAll (nothing is persisted).
func mwIsDryRun(ws WriterSite) bool {
	for _, o := range ws.Opts {
		if u, ok := stripConv(o).(*ssa.UnOp); ok && u.Op == token.MUL {
			if g, ok := u.X.(*ssa.Global); ok && g.Name() == "DryRunAll" && g.Pkg != nil && g.Pkg.Pkg.Path() == pkgClient {
				return true
			}
		}
	}
	return false
}

// mwTypeIsWriter: the static type offers controller-runtime writer methods (client.Client,
// client.Writer, client.StatusWriter, ...).
func mwTypeIsWriter(t types.Type) bool {
	ms := types.NewMethodSet(t)
	n := 0
	for _, name := range []string{"Create", "Update", "Patch", "Delete"} {
		for i := 0; i < ms.Len(); i++ {
			m := ms.At(i).Obj()
			if m.Name() != name {
				continue
			}
			sig, ok := m.Type().(*types.Signature)
			if ok && sig.Params().Len() >= 2 && isClientObjectType(sig.Params().At(1).Type()) {
				n++
			}
		}
	}
	return n >= 2
}

// mwDirectEffects lists the write effects a single call instruction has by itself (not through a
// callee with a body): a controller-runtime writer call that is not a dry run, or a call that leaves
// the workspace and is handed a writer.
func (p *Program) mwDirectEffect(c Call) (string, bool) {
	if ws, ok := classifyWriter(c); ok {
		if mwIsDryRun(ws) {
			return "", false
		}
		return ws.Verb + "(" + p.describe(ws.Obj) + ")", true
	}
	if len(p.mwCallees(c)) > 0 {
		return "", false
	}
	if _, isBuiltin := c.Common.Value.(*ssa.Builtin); isBuiltin {
		return "", false
	}
	if c.Common.IsInvoke() {
		// invoke of an interface without workspace implementation: external code operating on its own
		// receiver; writers are recognised above by method shape.
		return "", false
	}
	for _, a := range c.Common.Args {
		if mwTypeIsWriter(a.Type()) {
			return "external call " + calleeID(c.Common) + " receives a writer", true
		}
	}
	return "", false
}

// mwReach: every function with a body that may run (in this goroutine or one it starts) when fn
// runs: static callees, workspace implementations of invoked methods, closures created in fn.
func (p *Program) mwReach(fn *ssa.Function) map[*ssa.Function]bool {
	st := p.mw()
	if r, ok := st.reach[fn]; ok {
		return r
	}
	r := map[*ssa.Function]bool{}
	work := []*ssa.Function{fn}
	for len(work) > 0 {
		f := work[len(work)-1]
		work = work[:len(work)-1]
		if r[f] || f.Blocks == nil {
			continue
		}
		r[f] = true
		work = append(work, f.AnonFuncs...)
		for _, c := range callsIn(f) {
			work = append(work, p.mwCallees(c)...)
		}
	}
	st.reach[fn] = r
	return r
}

// mwWriteEffects: the direct write effects reachable from fn (empty = fn cannot send a write).
func (p *Program) mwWriteEffects(fn *ssa.Function) []string {
	var out []string
	var fns []*ssa.Function
	for g := range p.mwReach(fn) {
		fns = append(fns, g)
	}
	sort.Slice(fns, func(i, j int) bool { return fns[i].String() < fns[j].String() })
	for _, g := range fns {
		for _, c := range callsIn(g) {
			if eff, ok := p.mwDirectEffect(c); ok {
				out = append(out, shortFuncID(g)+": "+eff)
			}
		}
	}
	return out
}

// mwCallMayWrite: may executing call site c send a write request? Returns the effects found.
func (p *Program) mwCallMayWrite(c Call) []string {
	if eff, ok := p.mwDirectEffect(c); ok {
		return []string{eff}
	}
	var out []string
	for _, g := range p.mwCallees(c) {
		out = append(out, p.mwWriteEffects(g)...)
	}
	return out
}

// mwDynamicCalls lists calls through function values (fields, parameters) in the functions
// reachable from fn; they are not followed by mwReach.
func (p *Program) mwDynamicCalls(fn *ssa.Function) []Call {
	var out []Call
	for g := range p.mwReach(fn) {
		for _, c := range callsIn(g) {
			if c.Common.IsInvoke() || staticCallee(c.Common) != nil {
				continue
			}
			if _, isBuiltin := c.Common.Value.(*ssa.Builtin); isBuiltin {
				continue
			}
			out = append(out, c)
		}
	}
	sort.Slice(out, func(i, j int) bool { return p.IPos(out[i].Instr) < p.IPos(out[j].Instr) })
	return out
}

// mwCallSitesOf: static call sites of fn plus invoke sites that may dispatch to fn.
func (p *Program) mwCallSitesOf(fn *ssa.Function) []Call {
	st := p.mw()
	if !st.invokersOK {
		st.invokersOK = true
		for _, f := range p.Funcs {
			for _, c := range callsIn(f) {
				if !c.Common.IsInvoke() {
					continue
				}
				for _, g := range p.mwImpls(c.Common) {
					st.invokers[g] = append(st.invokers[g], c)
				}
			}
		}
	}
	var out []Call
	out = append(out, p.callersOf(fn)...)
	out = append(out, st.invokers[fn]...)
	return out
}

// ---------------------------------------------------------------------------------------------
// Facts

// mwExpandFacts adds the facts implied by facts on materialised boolean phis: `t = phi [e1: false,
// e2: v]` known true means control came through e2, so the facts of that edge hold and v is true.
// With several candidate edges only the facts common to all of them are added.
func (p *Program) mwExpandFacts(fs []Fact) []Fact {
	out := factSet{}
	var add func(f Fact, d int)
	add = func(f Fact, d int) {
		if _, dup := out[f.key]; dup {
			return
		}
		out[f.key] = f
		if d > 6 {
			return
		}
		ph, ok := f.Cond.(*ssa.Phi)
		if !ok {
			return
		}
		cand := p.mwPhiEdgeFacts(ph, f.Pol)
		if len(cand) == 0 {
			return
		}
		common := factSet{}
		for k, v := range cand[0] {
			common[k] = v
		}
		for _, c := range cand[1:] {
			for k := range common {
				if _, ok := c[k]; !ok {
					delete(common, k)
				}
			}
		}
		for _, cf := range common.list() {
			add(cf, d+1)
		}
	}
	for _, f := range fs {
		add(f, 0)
	}
	// comparisons of two booleans: `a == b` known true / `a != b` known false says the operands agree,
	// the opposite polarity says they differ; once the facts tell the value of one operand they tell
	// the value of the other (`if a != b { return }; if a { /* b holds */ }`). Iterated, because the
	// derived fact may decide a further comparison or a materialised phi.
	for round := 0; round < 8; round++ {
		n := len(out)
		for _, f := range out.list() {
			a, b, agree, ok := mwBoolComparison(f)
			if !ok {
				continue
			}
			for _, side := range [][2]ssa.Value{{a, b}, {b, a}} {
				if val, known := p.mwKnownBool(out, side[0]); known {
					add(p.mkFact(side[1], val == agree), 0)
				}
			}
		}
		if len(out) == n {
			break
		}
	}
	return out.list()
}

// mwBoolComparison: the fact is about `a == b` / `a != b` with both operands of boolean type; agree
// tells whether the fact says the operands have the same value.
func mwBoolComparison(f Fact) (a, b ssa.Value, agree, ok bool) {
	bin, isBin := f.Cond.(*ssa.BinOp)
	if !isBin || (bin.Op != token.EQL && bin.Op != token.NEQ) {
		return nil, nil, false, false
	}
	isBool := func(v ssa.Value) bool {
		bt, isBasic := v.Type().Underlying().(*types.Basic)
		return isBasic && bt.Info()&types.IsBoolean != 0
	}
	if !isBool(bin.X) || !isBool(bin.Y) {
		return nil, nil, false, false
	}
	return bin.X, bin.Y, (bin.Op == token.EQL) == f.Pol, true
}

// mwKnownBool: the value of boolean v according to the fact set (constants included).
func (p *Program) mwKnownBool(fs factSet, v ssa.Value) (val, known bool) {
	if c, isConst := constBool(v); isConst {
		return c, true
	}
	t := p.mkFact(v, true) // "v is true" in normalised form
	if _, ok := fs[t.key]; ok {
		return true, true
	}
	if _, ok := fs[p.mkFact(v, false).key]; ok {
		return false, true
	}
	return false, false
}

// mwPhiEdgeFacts: the boolean phi is known to have evaluated to pol; returns, per incoming edge that
// can have produced pol, the facts that held on that edge (plus "edge value == pol" for non-constant
// edge values). Edges on which the value is known to be the opposite are infeasible and left out.
func (p *Program) mwPhiEdgeFacts(ph *ssa.Phi, pol bool) []factSet {
	if b, isBasic := ph.Type().Underlying().(*types.Basic); !isBasic || b.Info()&types.IsBoolean == 0 {
		return nil
	}
	var cand []factSet
	for i, e := range ph.Edges {
		if i >= len(ph.Block().Preds) {
			return nil
		}
		if b, isConst := constBool(e); isConst && b != pol {
			continue // this edge yields the opposite value
		}
		es := factSet{}
		for _, ef := range p.FactsOnEdge(ph.Block().Preds[i], ph.Block()) {
			es[ef.key] = ef
		}
		if _, isConst := constBool(e); !isConst {
			vf := p.mkFact(e, pol)
			opp := "T:" + vf.key[2:]
			if vf.Pol {
				opp = "F:" + vf.key[2:]
			}
			if _, contradiction := es[opp]; contradiction {
				continue // on this edge the value is known to be the opposite: the edge cannot have been taken
			}
			es[vf.key] = vf
		}
		cand = append(cand, es)
	}
	return cand
}

// mwHoldsCaseSplit: pred holds for the (expanded) facts, or the facts contain a materialised boolean
// (`g := a || b; if g {…}` — a phi with several feasible incoming edges) and pred holds in each of
// its cases, i.e. with the facts of each edge that can have produced the known value added. This is
// the same disjunction `if a || b {…}` gives through two CFG edges into one block.
func (p *Program) mwHoldsCaseSplit(fs []Fact, pred func([]Fact) bool, d int) bool {
	ex := p.mwExpandFacts(fs)
	if pred(ex) {
		return true
	}
	if d > 3 {
		return false
	}
	for i, f := range ex {
		ph, ok := f.Cond.(*ssa.Phi)
		if !ok {
			continue
		}
		cands := p.mwPhiEdgeFacts(ph, f.Pol)
		if len(cands) < 2 {
			continue // a single feasible edge is already folded in by mwExpandFacts
		}
		rest := append(append([]Fact{}, ex[:i]...), ex[i+1:]...)
		all := true
		for _, es := range cands {
			if !p.mwHoldsCaseSplit(append(es.list(), rest...), pred, d+1) {
				all = false
				break
			}
		}
		if all {
			return true
		}
	}
	return false
}

// mwHoldsOnAllPaths: pred holds for the facts at b, or b is entered only through edges on each of
// which pred holds (recursively). This is how disjunctive guards (`a || b`, two ifs jumping to the
// same block) are recognised: the must-facts at the join contain neither disjunct.
func (p *Program) mwHoldsOnAllPaths(b *ssa.BasicBlock, pred func([]Fact) bool) bool {
	state := map[*ssa.BasicBlock]int{} // 1 = in progress (coinductively true), 2 = true, 3 = false
	var walk func(b *ssa.BasicBlock, d int) bool
	walk = func(b *ssa.BasicBlock, d int) bool {
		switch state[b] {
		case 1, 2:
			return true
		case 3:
			return false
		}
		if p.mwHoldsCaseSplit(p.FactsAt(b), pred, 0) {
			state[b] = 2
			return true
		}
		if len(b.Preds) == 0 || d > 12 {
			state[b] = 3
			return false
		}
		state[b] = 1
		for _, pr := range b.Preds {
			if p.mwHoldsCaseSplit(p.FactsOnEdge(pr, b), pred, 0) {
				continue
			}
			if !walk(pr, d+1) {
				state[b] = 3
				return false
			}
		}
		state[b] = 2
		return true
	}
	return walk(b, 0)
}

// mwFactAccessor finds a fact `recv.<method>()` with the given polarity whose receiver satisfies
// recvOK (nil = any). Returns the receiver.
func (p *Program) mwFactAccessor(fs []Fact, pol bool, method string, recvOK func(ssa.Value) bool) (ssa.Value, bool) {
	for _, f := range fs {
		if f.Pol != pol {
			continue
		}
		call, _ := asCall(f.Cond)
		if call == nil || calleeName(call.Common()) != method || len(callArgs(call.Common())) != 0 {
			continue
		}
		r := callRecv(call.Common())
		if r == nil {
			continue
		}
		if recvOK == nil || recvOK(r) {
			return r, true
		}
	}
	return nil, false
}

// mwHasMethod: the static type of v has a method with that name.
func mwHasMethod(t types.Type, name string) bool {
	ms := types.NewMethodSet(t)
	for i := 0; i < ms.Len(); i++ {
		if ms.At(i).Obj().Name() == name {
			return true
		}
	}
	return false
}

// mwParamWithMethod returns the parameters of fn whose type has the named method.
func mwParamsWithMethod(fn *ssa.Function, method string) []*ssa.Parameter {
	var out []*ssa.Parameter
	for _, prm := range fn.Params {
		if mwHasMethod(prm.Type(), method) {
			out = append(out, prm)
		}
	}
	return out
}

// mwArgFor returns the value call site c passes for parameter prm of callee g (handles the
// receiver offset of invokes).
func mwArgFor(c Call, g *ssa.Function, prm *ssa.Parameter) ssa.Value {
	idx := -1
	for i, q := range g.Params {
		if q == prm {
			idx = i
		}
	}
	if idx < 0 {
		return nil
	}
	if c.Common.IsInvoke() {
		if idx == 0 {
			return c.Common.Value
		}
		idx--
	}
	if idx < len(c.Common.Args) {
		return c.Common.Args[idx]
	}
	return nil
}

// mwIsZeroConst: v is the zero constant of an aggregate / nil / false / 0 / "".
func mwIsZeroStructConst(v ssa.Value) bool {
	c, ok := stripConv(v).(*ssa.Const)
	if !ok || c.Value != nil {
		return false
	}
	_, isStruct := c.Type().Underlying().(*types.Struct)
	return isStruct
}

// mwFirstInstr returns the first instruction of a block.
func mwFirstInstr(b *ssa.BasicBlock) ssa.Instruction {
	if len(b.Instrs) == 0 {
		return nil
	}
	return b.Instrs[0]
}

// mwMustExecuteFrom: every path starting at the top of block b reaches an instruction satisfying
// match before a normal return.
func (p *Program) mwMustExecuteFrom(b *ssa.BasicBlock, match func(ssa.Instruction) bool) bool {
	first := mwFirstInstr(b)
	if first == nil {
		return false
	}
	if match(first) {
		return true
	}
	if _, isRet := first.(*ssa.Return); isRet {
		return false
	}
	return p.mustFollow(first, match, nil)
}

// ---------------------------------------------------------------------------------------------
// Calls through function values: a dynamic call may enter any workspace function whose value is
// taken somewhere (method values, closures, function references) and whose signature is identical.

func (p *Program) mwFuncValues() []*ssa.Function {
	st := p.mw()
	if st.funcValues != nil {
		return st.funcValues
	}
	seen := map[*ssa.Function]bool{}
	add := func(f *ssa.Function) {
		for _, g := range mwUnwrapBound(f) {
			if g != nil && g.Blocks != nil && !seen[g] {
				seen[g] = true
				st.funcValues = append(st.funcValues, g)
			}
		}
	}
	for _, f := range p.Funcs {
		for _, b := range f.Blocks {
			for _, in := range b.Instrs {
				if mc, ok := in.(*ssa.MakeClosure); ok {
					if g, ok := mc.Fn.(*ssa.Function); ok {
						add(g)
					}
					continue
				}
				var ops []*ssa.Value
				ops = in.Operands(ops)
				for i, o := range ops {
					g, ok := (*o).(*ssa.Function)
					if !ok {
						continue
					}
					if ci, isCall := in.(ssa.CallInstruction); isCall && i == 0 && ci.Common().Value == ssa.Value(g) && !ci.Common().IsInvoke() {
						continue
					}
					add(g)
				}
			}
		}
	}
	if st.funcValues == nil {
		st.funcValues = []*ssa.Function{}
	}
	sort.Slice(st.funcValues, func(i, j int) bool { return st.funcValues[i].String() < st.funcValues[j].String() })
	return st.funcValues
}

// mwUnwrapBound looks through bound-method closures ("$bound") and thunks to the declared method.
func mwUnwrapBound(f *ssa.Function) []*ssa.Function {
	if f.Synthetic == "" || strings.HasPrefix(f.Synthetic, "instance of") {
		return []*ssa.Function{f}
	}
	var out []*ssa.Function
	for _, c := range callsIn(f) {
		if g := staticCallee(c.Common); g != nil {
			out = append(out, mwUnwrapBound(g)...)
		}
	}
	if len(out) == 0 {
		return []*ssa.Function{f} // e.g. bound interface method: body invokes; keep the wrapper itself
	}
	return out
}

// mwDynamicTargets: candidate workspace targets of a call through a function value.
func (p *Program) mwDynamicTargets(cc *ssa.CallCommon) []*ssa.Function {
	if cc.IsInvoke() || staticCallee(cc) != nil {
		return nil
	}
	if _, isBuiltin := cc.Value.(*ssa.Builtin); isBuiltin {
		return nil
	}
	sig, ok := cc.Value.Type().Underlying().(*types.Signature)
	if !ok {
		return nil
	}
	var out []*ssa.Function
	for _, g := range p.mwFuncValues() {
		gs := g.Signature
		if gs.Recv() != nil {
			// method value: signature without receiver
			gs = types.NewSignatureType(nil, nil, nil, gs.Params(), gs.Results(), gs.Variadic())
		}
		if types.Identical(gs, sig) {
			out = append(out, g)
		}
	}
	return out
}

// ---------------------------------------------------------------------------------------------
// Extracted helpers (see helpers_inline.go)

// mwExpandResult: return cases in which result idx, when it is the result of an extracted
// (inlinable) helper — `x := helper(...); return a, x, nil` — is replaced by the helper's own return
// cases: the helper's returned value takes the place of the call and the facts of the helper's
// return are added to those of the caller's return (the call dominates the return that uses its
// value, and facts are never killed). Cases of other shapes are passed through unchanged.
func (p *Program) mwExpandResult(cases []ReturnCase, idx int) []ReturnCase {
	var out []ReturnCase
	for _, rc := range cases {
		if idx >= len(rc.Results) || rc.Results[idx] == nil {
			out = append(out, rc)
			continue
		}
		call, ri := asCall(rc.Results[idx])
		var callee *ssa.Function
		if call != nil {
			callee = staticCallee(call.Common())
		}
		if callee == nil || callee == rc.Ret.Parent() || !p.inlinable(callee) {
			out = append(out, rc)
			continue
		}
		if ri < 0 {
			ri = 0
		}
		n := 0
		for _, hrc := range p.returnCases(callee) {
			if (callee.Recover != nil && hrc.Ret.Block() == callee.Recover) || ri >= len(hrc.Results) {
				continue
			}
			nrc := rc
			nrc.Results = append([]ssa.Value{}, rc.Results...)
			nrc.Results[idx] = hrc.Results[ri]
			nrc.Facts = append(append([]Fact{}, rc.Facts...), hrc.Facts...)
			out = append(out, nrc)
			n++
		}
		if n == 0 {
			out = append(out, rc)
		}
	}
	return out
}

// mwThroughParam: a parameter of an extracted helper with a single static call site stands for the
// argument passed there (followed transitively); other values are returned unchanged.
func (p *Program) mwThroughParam(v ssa.Value) ssa.Value {
	for i := 0; i < 4 && v != nil; i++ {
		prm, ok := stripConv(v).(*ssa.Parameter)
		if !ok {
			break
		}
		arg := p.soleArgument(prm)
		if arg == nil {
			break
		}
		v = arg
	}
	return v
}
