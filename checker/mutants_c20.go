package main

import "strings"

func init() {
	const (
		rm    = "internal/packages/internal/packageimport/request_manager.go"
		types = "internal/packages/internal/packagetypes/types.go"
	)
	// exact text of the current function bodies (self-test only)
	const reqBody = "\tr.inFlightLock.Lock()\n\tdefer r.inFlightLock.Unlock()\n\n" +
		"\tif _, inFlight := r.inFlight[image]; !inFlight {\n" +
		"\t\tgo func(ctx context.Context, image string) {\n" +
		"\t\t\trawPkg, err := r.pullImage(ctx, r.uncachedClient, r.serviceAccount, image)\n" +
		"\t\t\tr.handleResponse(image, response{\n\t\t\t\tRawPackage: rawPkg,\n\t\t\t\tErr:        err,\n\t\t\t})\n" +
		"\t\t}(ctx, image)\n\t}\n\n" +
		"\t// buffer size of 1 ensures that response handler\n\t// is never blocked by a receiver.\n" +
		"\trecv := make(chan response, 1)\n\n" +
		"\tr.inFlight[image] = append(r.inFlight[image], recv)\n\n\treturn recv\n"
	const goStmt = "\t\tgo func(ctx context.Context, image string) {\n" +
		"\t\t\trawPkg, err := r.pullImage(ctx, r.uncachedClient, r.serviceAccount, image)\n" +
		"\t\t\tr.handleResponse(image, response{\n\t\t\t\tRawPackage: rawPkg,\n\t\t\t\tErr:        err,\n\t\t\t})\n" +
		"\t\t}(ctx, image)\n"
	const respBody = "\tr.inFlightLock.Lock()\n\tdefer r.inFlightLock.Unlock()\n\n" +
		"\tfor _, recv := range r.inFlight[image] {\n" +
		"\t\tvar rawPkg *packagetypes.RawPackage\n" +
		"\t\tif res.RawPackage != nil {\n" +
		"\t\t\t// DeepCopy to ensure clients can work concurrently on the returned files map.\n" +
		"\t\t\trawPkg = res.RawPackage.DeepCopy()\n\t\t}\n" +
		"\t\trecv <- response{\n\t\t\tRawPackage: rawPkg,\n\t\t\tErr:        res.Err,\n\t\t}\n\t}\n\n" +
		"\tdelete(r.inFlight, image)\n"
	const copyBlock = "\t\tvar rawPkg *packagetypes.RawPackage\n" +
		"\t\tif res.RawPackage != nil {\n" +
		"\t\t\t// DeepCopy to ensure clients can work concurrently on the returned files map.\n" +
		"\t\t\trawPkg = res.RawPackage.DeepCopy()\n\t\t}\n"
	const reqTemp = "\tr.inFlightLock.Lock()\n\tdefer r.inFlightLock.Unlock()\n\n" +
		"\treceivers, inFlight := r.inFlight[image]\n\tif !inFlight {\n" + goStmt + "\t}\n\n" +
		"\trecv := make(chan response, 1)\n\n\tr.inFlight[image] = append(receivers, recv)\n\n\treturn recv\n"
	const respFieldwise = "\tr.inFlightLock.Lock()\n\tdefer r.inFlightLock.Unlock()\n\n" +
		"\treceivers := r.inFlight[image]\n\tfor i := range receivers {\n\t\tvar out response\n\t\tout.Err = res.Err\n" +
		"\t\tif res.RawPackage != nil {\n\t\t\tout.RawPackage = res.RawPackage.DeepCopy()\n\t\t}\n\t\treceivers[i] <- out\n\t}\n\n\tdelete(r.inFlight, image)\n"
	const respViaHelper = "\tr.inFlightLock.Lock()\n\tdefer r.inFlightLock.Unlock()\n\n" +
		"\tfor _, recv := range r.inFlight[image] {\n\t\trecv <- res.c20tForReceiver()\n\t}\n\n\tdelete(r.inFlight, image)\n"
	const respDoc = "// handleResponse broadcasts a response to all receivers listening\n"
	const respHelper = "func (res response) c20tForReceiver() response {\n\tif res.RawPackage == nil {\n\t\treturn response{Err: res.Err}\n\t}\n\n" +
		"\treturn response{\n\t\tRawPackage: res.RawPackage.DeepCopy(),\n\t\tErr:        res.Err,\n\t}\n}\n\n"
	addMutants(
		// ---- R1 ------------------------------------------------------------------------------
		Mutant{Prop: "C20", Name: "r1-broadcast-without-lock", File: rm,
			Old:    "func (r *RequestManager) handleResponse(image string, res response) {\n\tr.inFlightLock.Lock()\n\tdefer r.inFlightLock.Unlock()\n",
			New:    "func (r *RequestManager) handleResponse(image string, res response) {\n",
			Expect: []string{"C20.R1@(*internal/packages/internal/packageimport.RequestManager).handleResponse"}},
		Mutant{Prop: "C20", Name: "r1-registration-after-unlock", File: rm,
			Old:    "\tr.inFlight[image] = append(r.inFlight[image], recv)\n\n\treturn recv\n",
			New:    "\tr.inFlightLock.Unlock()\n\tr.inFlight[image] = append(r.inFlight[image], recv)\n\tr.inFlightLock.Lock()\n\n\treturn recv\n",
			Expect: []string{"C20.R1@(*internal/packages/internal/packageimport.RequestManager).handleRequest"}},
		// ---- R2 ------------------------------------------------------------------------------
		Mutant{Prop: "C20", Name: "r2-lock-dropped-between-start-and-registration", File: rm,
			Old:    "\t\t}(ctx, image)\n\t}\n\n\t// buffer size",
			New:    "\t\t}(ctx, image)\n\t}\n\tr.inFlightLock.Unlock()\n\tr.inFlightLock.Lock()\n\n\t// buffer size",
			Expect: []string{"C20.R2@"}},
		Mutant{Prop: "C20", Name: "r2-pull-started-outside-lock", File: rm,
			Old: reqBody,
			New: "\tr.inFlightLock.Lock()\n\t_, inFlight := r.inFlight[image]\n\tr.inFlightLock.Unlock()\n\n\tif !inFlight {\n" + goStmt + "\t}\n\n" +
				"\tr.inFlightLock.Lock()\n\tdefer r.inFlightLock.Unlock()\n\trecv := make(chan response, 1)\n\n\tr.inFlight[image] = append(r.inFlight[image], recv)\n\n\treturn recv\n",
			Expect: []string{"C20.R2@"}},
		Mutant{Prop: "C20", Name: "r2-inflight-guard-dropped", File: rm,
			Old:    "\tif _, inFlight := r.inFlight[image]; !inFlight {\n\t\tgo func",
			New:    "\t{\n\t\tgo func",
			Expect: []string{"C20.R2@(*internal/packages/internal/packageimport.RequestManager).handleRequest$1#pull"}},
		Mutant{Prop: "C20", Name: "r2-inflight-guard-inverted", File: rm,
			Old:    "\tif _, inFlight := r.inFlight[image]; !inFlight {\n\t\tgo func",
			New:    "\tif _, inFlight := r.inFlight[image]; inFlight {\n\t\tgo func",
			Expect: []string{"C20.R2@(*internal/packages/internal/packageimport.RequestManager).handleRequest$1#pull"}},
		Mutant{Prop: "C20", Name: "r2-guard-on-other-key", File: rm,
			Old:    "\tif _, inFlight := r.inFlight[image]; !inFlight {\n\t\tgo func",
			New:    "\tif _, inFlight := r.inFlight[image+\":latest\"]; !inFlight {\n\t\tgo func",
			Expect: []string{"C20.R2@"}},
		Mutant{Prop: "C20", Name: "r2-pull-synchronous-under-lock", File: rm,
			Old:    "\t\tgo func(ctx context.Context, image string) {",
			New:    "\t\tfunc(ctx context.Context, image string) {",
			Expect: []string{"C20.R2@"}},
		Mutant{Prop: "C20", Name: "r2-registration-under-other-key", File: rm,
			Old:    "\tr.inFlight[image] = append(r.inFlight[image], recv)\n",
			New:    "\tkey := image + \"\"\n\tr.inFlight[key] = append(r.inFlight[key], recv)\n",
			Expect: []string{"C20.R2@"}},
		// ---- R3 ------------------------------------------------------------------------------
		Mutant{Prop: "C20", Name: "r3-returns-unregistered-channel", File: rm,
			Old:    "\treturn recv\n",
			New:    "\treturn make(chan response, 1)\n",
			Expect: []string{"C20.R3@(*internal/packages/internal/packageimport.RequestManager).handleRequest#returns-registered-channel"}},
		Mutant{Prop: "C20", Name: "r3-double-receive", File: rm,
			Old:    "\tres := <-r.handleRequest(ctx, image)\n",
			New:    "\tch := r.handleRequest(ctx, image)\n\t<-ch\n\tres := <-ch\n",
			Expect: []string{"C20.R3@(*internal/packages/internal/packageimport.RequestManager).Pull#receive-once"}},
		Mutant{Prop: "C20", Name: "r3-pull-drops-error", File: rm,
			Old:    "\treturn res.RawPackage, res.Err\n",
			New:    "\treturn res.RawPackage, nil\n",
			Expect: []string{"C20.R3@(*internal/packages/internal/packageimport.RequestManager).Pull#receive-once"}},
		Mutant{Prop: "C20", Name: "r3-broadcast-stops-after-error", File: rm,
			Old:    "\t\t\tErr:        res.Err,\n\t\t}\n\t}\n",
			New:    "\t\t\tErr:        res.Err,\n\t\t}\n\t\tif res.Err != nil {\n\t\t\tbreak\n\t\t}\n\t}\n",
			Expect: []string{"C20.R3@(*internal/packages/internal/packageimport.RequestManager).handleResponse#send-per-receiver"}},
		Mutant{Prop: "C20", Name: "r3-broadcast-skips-first-receiver", File: rm,
			Old:    "\tfor _, recv := range r.inFlight[image] {\n",
			New:    "\tfor i, recv := range r.inFlight[image] {\n\t\tif i == 0 && res.Err != nil {\n\t\t\tcontinue\n\t\t}\n",
			Expect: []string{"C20.R3@(*internal/packages/internal/packageimport.RequestManager).handleResponse#send-per-receiver"}},
		Mutant{Prop: "C20", Name: "r3-no-broadcast-when-pull-fails", File: rm,
			Old:    "\t\t\trawPkg, err := r.pullImage(ctx, r.uncachedClient, r.serviceAccount, image)\n",
			New:    "\t\t\trawPkg, err := r.pullImage(ctx, r.uncachedClient, r.serviceAccount, image)\n\t\t\tif err != nil {\n\t\t\t\treturn\n\t\t\t}\n",
			Expect: []string{"C20.R3@(*internal/packages/internal/packageimport.RequestManager).handleRequest$1#pull-then-broadcast"}},
		Mutant{Prop: "C20", Name: "r3-broadcast-drops-pull-error", File: rm,
			Old:    "\t\t\t\tErr:        err,\n\t\t\t})\n",
			New:    "\t\t\t})\n\t\t\t_ = err\n",
			Expect: []string{"C20.R3@(*internal/packages/internal/packageimport.RequestManager).handleRequest$1#pull-then-broadcast"}},
		// ---- R4 ------------------------------------------------------------------------------
		Mutant{Prop: "C20", Name: "r4-unbuffered-receiver", File: rm,
			Old:    "\trecv := make(chan response, 1)\n",
			New:    "\trecv := make(chan response)\n",
			Expect: []string{"C20.R4@(*internal/packages/internal/packageimport.RequestManager).handleRequest#receiver-buffered"}},
		Mutant{Prop: "C20", Name: "r4-registration-overwrites-receivers", File: rm,
			Old:    "\tr.inFlight[image] = append(r.inFlight[image], recv)\n",
			New:    "\tr.inFlight[image] = append([]chan<- response{}, recv)\n",
			Expect: []string{"C20.R4@", "C20.R3@"}},
		// ---- R5 ------------------------------------------------------------------------------
		Mutant{Prop: "C20", Name: "r5-deepcopy-hoisted-out-of-loop", File: rm,
			Old:    "\tfor _, recv := range r.inFlight[image] {\n" + copyBlock,
			New:    "\tvar rawPkg *packagetypes.RawPackage\n\tif res.RawPackage != nil {\n\t\trawPkg = res.RawPackage.DeepCopy()\n\t}\n\tfor _, recv := range r.inFlight[image] {\n",
			Expect: []string{"C20.R5@(*internal/packages/internal/packageimport.RequestManager).handleResponse#private-copy"}},
		Mutant{Prop: "C20", Name: "r5-shared-package-sent", File: rm,
			Old:    "\t\t\trawPkg = res.RawPackage.DeepCopy()\n",
			New:    "\t\t\trawPkg = res.RawPackage\n",
			Expect: []string{"C20.R5@(*internal/packages/internal/packageimport.RequestManager).handleResponse#private-copy"}},
		Mutant{Prop: "C20", Name: "r5-nil-sent-for-non-nil-package", File: rm,
			Old:    "\t\tif res.RawPackage != nil {\n",
			New:    "\t\tif res.RawPackage != nil && res.Err == nil {\n",
			Expect: []string{"C20.R5@(*internal/packages/internal/packageimport.RequestManager).handleResponse#private-copy"}},
		Mutant{Prop: "C20", Name: "r5-files-deepcopy-shares-bytes", File: types,
			Old:    "\t\tnewV := make([]byte, len(v))\n\t\tcopy(newV, v)\n\t\tnewF[k] = newV\n",
			New:    "\t\tnewF[k] = v\n",
			Expect: []string{"C20.R5@(internal/packages/internal/packagetypes.Files).DeepCopy"}},
		Mutant{Prop: "C20", Name: "r5-files-deepcopy-forgets-content", File: types,
			Old:    "\t\tcopy(newV, v)\n",
			New:    "",
			Expect: []string{"C20.R5@(internal/packages/internal/packagetypes.Files).DeepCopy"}},
		Mutant{Prop: "C20", Name: "r5-rawpackage-deepcopy-shares-files", File: types,
			Old:    "\t\tFiles: rp.Files.DeepCopy(),\n",
			New:    "\t\tFiles: rp.Files,\n",
			Expect: []string{"C20.R5@(*internal/packages/internal/packagetypes.RawPackage).DeepCopy"}},
		Mutant{Prop: "C20", Name: "r5-files-deepcopy-returns-receiver", File: types,
			Old:    "\t\tnewF[k] = newV\n\t}\n\treturn newF\n",
			New:    "\t\tnewF[k] = newV\n\t}\n\treturn f\n",
			Expect: []string{"C20.R5@(internal/packages/internal/packagetypes.Files).DeepCopy"}},
		// ---- R6 ------------------------------------------------------------------------------
		Mutant{Prop: "C20", Name: "r6-entry-never-deleted", File: rm,
			Old:    "\n\tdelete(r.inFlight, image)\n",
			New:    "\n",
			Expect: []string{"C20.R6@(*internal/packages/internal/packageimport.RequestManager).handleResponse#delete-after-broadcast"}},
		Mutant{Prop: "C20", Name: "r6-entry-kept-on-error", File: rm,
			Old:    "\tdelete(r.inFlight, image)\n",
			New:    "\tif res.Err == nil {\n\t\tdelete(r.inFlight, image)\n\t}\n",
			Expect: []string{"C20.R6@(*internal/packages/internal/packageimport.RequestManager).handleResponse#delete-after-broadcast"}},
		Mutant{Prop: "C20", Name: "r6-delete-before-broadcast-in-second-lock-scope", File: rm,
			Old:    "\tr.inFlightLock.Lock()\n\tdefer r.inFlightLock.Unlock()\n\n\tfor _, recv := range r.inFlight[image] {\n",
			New:    "\tr.inFlightLock.Lock()\n\tdelete(r.inFlight, image)\n\tr.inFlightLock.Unlock()\n\n\tr.inFlightLock.Lock()\n\tdefer r.inFlightLock.Unlock()\n\n\tfor _, recv := range r.inFlight[image] {\n",
			Expect: []string{"C20.R6@(*internal/packages/internal/packageimport.RequestManager).handleResponse#delete-after-broadcast"}},
		Mutant{Prop: "C20", Name: "r6-delete-in-later-lock-scope", File: rm,
			Old:    "\n\tdelete(r.inFlight, image)\n",
			New:    "\tr.inFlightLock.Unlock()\n\tr.inFlightLock.Lock()\n\n\tdelete(r.inFlight, image)\n",
			Expect: []string{"C20.R6@(*internal/packages/internal/packageimport.RequestManager).handleResponse#delete-after-broadcast"}},

		// ---- refactored shapes (entry read once into a temporary; response built field by field;
		//      per-receiver copy in a helper with an early return) and ways of breaking them --------
		Mutant{Prop: "C20", Name: "r3-temp-receivers-stale-after-unlock", File: rm,
			Old: reqBody, New: strings.Replace(reqTemp, "\trecv := make(chan response, 1)\n", "\tr.inFlightLock.Unlock()\n\tr.inFlightLock.Lock()\n\trecv := make(chan response, 1)\n", 1),
			Expect: []string{"C20.R3@(*internal/packages/internal/packageimport.RequestManager).handleRequest#returns-registered-channel"}},
		Mutant{Prop: "C20", Name: "r3-temp-receivers-returns-unregistered-channel", File: rm,
			Old: reqBody, New: strings.Replace(reqTemp, "\treturn recv\n", "\treturn make(chan response, 1)\n", 1),
			Expect: []string{"C20.R3@(*internal/packages/internal/packageimport.RequestManager).handleRequest#returns-registered-channel"}},
		Mutant{Prop: "C20", Name: "r4-temp-receivers-unbuffered", File: rm,
			Old: reqBody, New: strings.Replace(reqTemp, "make(chan response, 1)", "make(chan response)", 1),
			Expect: []string{"C20.R4@(*internal/packages/internal/packageimport.RequestManager).handleRequest#receiver-buffered"}},
		Mutant{Prop: "C20", Name: "r5-fieldwise-shared-package", File: rm,
			Old: respBody, New: strings.Replace(respFieldwise, "out.RawPackage = res.RawPackage.DeepCopy()", "out.RawPackage = res.RawPackage", 1),
			Expect: []string{"C20.R5@(*internal/packages/internal/packageimport.RequestManager).handleResponse#private-copy"}},
		Mutant{Prop: "C20", Name: "r5-fieldwise-nil-for-non-nil-package", File: rm,
			Old: respBody, New: strings.Replace(respFieldwise, "if res.RawPackage != nil {", "if res.RawPackage != nil && res.Err == nil {", 1),
			Expect: []string{"C20.R5@(*internal/packages/internal/packageimport.RequestManager).handleResponse#private-copy"}},
		Mutant{Prop: "C20", Name: "r5-fieldwise-copy-kept-for-next-receiver", File: rm,
			Old: respBody, New: strings.Replace(strings.Replace(respFieldwise, "\tfor i := range receivers {\n\t\tvar out response\n", "\tvar out response\n\tfor i := range receivers {\n", 1),
				"if res.RawPackage != nil {", "if i == 0 && res.RawPackage != nil {", 1),
			Expect: []string{"C20.R5@(*internal/packages/internal/packageimport.RequestManager).handleResponse#private-copy"}},
		Mutant{Prop: "C20", Name: "r5-fieldwise-error-dropped", File: rm,
			Old: respBody, New: strings.Replace(respFieldwise, "\t\tout.Err = res.Err\n", "", 1),
			Expect: []string{"C20.R5@(*internal/packages/internal/packageimport.RequestManager).handleResponse#private-copy"}},
		Mutant{Prop: "C20", Name: "r5-helper-shares-package", File: rm,
			Old: respBody, New: respViaHelper,
			More:   []Edit{{File: rm, Old: respDoc, New: strings.Replace(respHelper, "RawPackage: res.RawPackage.DeepCopy(),", "RawPackage: res.RawPackage,", 1) + respDoc}},
			Expect: []string{"C20.R5@(*internal/packages/internal/packageimport.RequestManager).handleResponse#private-copy"}},
		Mutant{Prop: "C20", Name: "r5-helper-early-return-for-non-nil-package", File: rm,
			Old: respBody, New: respViaHelper,
			More:   []Edit{{File: rm, Old: respDoc, New: strings.Replace(respHelper, "if res.RawPackage == nil {", "if res.RawPackage == nil || res.Err != nil {", 1) + respDoc}},
			Expect: []string{"C20.R5@(*internal/packages/internal/packageimport.RequestManager).handleResponse#private-copy"}},
		Mutant{Prop: "C20", Name: "r5-helper-called-once-before-loop", File: rm,
			Old: respBody, New: strings.Replace(respViaHelper, "\tfor _, recv := range r.inFlight[image] {\n\t\trecv <- res.c20tForReceiver()\n", "\tone := res.c20tForReceiver()\n\tfor _, recv := range r.inFlight[image] {\n\t\trecv <- one\n", 1),
			More:   []Edit{{File: rm, Old: respDoc, New: respHelper + respDoc}},
			Expect: []string{"C20.R5@(*internal/packages/internal/packageimport.RequestManager).handleResponse#private-copy"}},
		Mutant{Prop: "C20", Name: "r5-response-passed-on-as-is", File: rm,
			Old: respBody, New: "\tr.inFlightLock.Lock()\n\tdefer r.inFlightLock.Unlock()\n\n\tfor _, recv := range r.inFlight[image] {\n\t\trecv <- res\n\t}\n\n\tdelete(r.inFlight, image)\n",
			Expect: []string{"C20.R5@(*internal/packages/internal/packageimport.RequestManager).handleResponse#private-copy"}},

		// ---- benign variants ------------------------------------------------------------------
		Mutant{Prop: "C20", Name: "benign-receivers-read-once-into-temporary", File: rm, Benign: true,
			Old: reqBody, New: reqTemp},
		Mutant{Prop: "C20", Name: "benign-response-built-field-by-field", File: rm, Benign: true,
			Old: respBody, New: respFieldwise},
		Mutant{Prop: "C20", Name: "benign-response-variable-outlives-iteration", File: rm, Benign: true,
			Old: respBody, New: strings.Replace(respFieldwise, "\tfor i := range receivers {\n\t\tvar out response\n", "\tvar out response\n\tfor i := range receivers {\n", 1)},
		Mutant{Prop: "C20", Name: "benign-per-receiver-copy-in-helper", File: rm, Benign: true,
			Old: respBody, New: respViaHelper, More: []Edit{{File: rm, Old: respDoc, New: respHelper + respDoc}}},
		Mutant{Prop: "C20", Name: "benign-named-inflight-flag", File: rm, Benign: true,
			Old: "\tif _, inFlight := r.inFlight[image]; !inFlight {\n\t\tgo func",
			New: "\t_, pulling := r.inFlight[image]\n\tif pulling == false {\n\t\tgo func"},
		Mutant{Prop: "C20", Name: "benign-register-before-start", File: rm, Benign: true,
			Old: reqBody,
			New: "\tr.inFlightLock.Lock()\n\tdefer r.inFlightLock.Unlock()\n\n\t_, inFlight := r.inFlight[image]\n\trecv := make(chan response, 1)\n\tr.inFlight[image] = append(r.inFlight[image], recv)\n" +
				"\tif !inFlight {\n" + goStmt + "\t}\n\treturn recv\n"},
		Mutant{Prop: "C20", Name: "benign-broadcast-classic-loop-explicit-unlock", File: rm, Benign: true,
			Old: respBody,
			New: "\tr.inFlightLock.Lock()\n\n\trecvs := r.inFlight[image]\n\tfor i := 0; i < len(recvs); i++ {\n" +
				"\t\tvar rawPkg *packagetypes.RawPackage\n\t\tif nil == res.RawPackage {\n\t\t\trawPkg = nil\n\t\t} else {\n\t\t\trawPkg = res.RawPackage.DeepCopy()\n\t\t}\n" +
				"\t\trecvs[i] <- response{Err: res.Err, RawPackage: rawPkg}\n\t}\n\n\tdelete(r.inFlight, image)\n\tr.inFlightLock.Unlock()\n"},
		Mutant{Prop: "C20", Name: "benign-copy-else-branch", File: rm, Benign: true,
			Old: copyBlock,
			New: "\t\tvar rawPkg *packagetypes.RawPackage\n\t\tif nil == res.RawPackage {\n\t\t\trawPkg = nil\n\t\t} else {\n\t\t\trawPkg = res.RawPackage.DeepCopy()\n\t\t}\n"},
		Mutant{Prop: "C20", Name: "benign-pull-through-locals", File: rm, Benign: true,
			Old: "\tres := <-r.handleRequest(ctx, image)\n\n\treturn res.RawPackage, res.Err\n",
			New: "\tch := r.handleRequest(ctx, image)\n\tres := <-ch\n\tpkg, pullErr := res.RawPackage, res.Err\n\treturn pkg, pullErr\n"},
		Mutant{Prop: "C20", Name: "benign-files-deepcopy-append-clone", File: types, Benign: true,
			Old: "\t\tnewV := make([]byte, len(v))\n\t\tcopy(newV, v)\n\t\tnewF[k] = newV\n",
			New: "\t\tnewF[k] = append([]byte(nil), v...)\n"},
		Mutant{Prop: "C20", Name: "benign-larger-buffer", File: rm, Benign: true,
			Old: "\trecv := make(chan response, 1)\n",
			New: "\tconst buffered = 2\n\trecv := make(chan response, buffered)\n"},
		Mutant{Prop: "C20", Name: "benign-goroutine-logs-and-names-response", File: rm, Benign: true,
			Old: "\t\t\tr.handleResponse(image, response{\n\t\t\t\tRawPackage: rawPkg,\n\t\t\t\tErr:        err,\n\t\t\t})\n",
			New: "\t\t\tresp := response{Err: err, RawPackage: rawPkg}\n\t\t\tr.handleResponse(image, resp)\n"},
	)
}
