package main

import "strings"

func init() {
	const (
		tmpl    = "internal/controllers/objecttemplate/template_reconciler.go"
		cel     = "internal/packages/internal/packagerender/celctx/cel.go"
		celProb = "pkg/probing/cel.go"
		tree    = "internal/cmd/tree.go"
		oci     = "internal/packages/internal/packageimport/oci.go"
		olm     = "internal/packages/internal/packagekickstart/olm.go"
		objs    = "internal/packages/internal/packagerender/objects.go"
		ost     = "internal/packages/internal/packagerender/objectsettemplate.go"
		mval    = "internal/packages/internal/packagemanifestvalidation/manifest.go"
		pause   = "cmd/kubectl-package/pausecmd/pause.go"
		hash    = "internal/utils/hash.go"
		sprig   = "internal/transform/transformfiles_funcs.go"
		structf = "internal/packages/internal/packagestructure/structure.go"
		phaseAd = "internal/controllers/objectsets/adapter_objectsetphase.go"
		ctrl    = "internal/controllers/controllers.go"
		remote  = "internal/controllers/objectsets/remotephase_reconciler.go"
		keych   = "internal/packages/internal/packageimport/kubekeychain/kubekeychain.go"
	)
	// the per-document body of parseObjects moved into a helper that returns (object, error); the
	// producer admits the helper's object when the helper's error is nil
	const objsBody = "\t\tobj := unstructured.Unstructured{}\n\t\tif err = yaml.Unmarshal(yamlDocument, &obj); err != nil {\n\t\t\terr = packagetypes.ViolationError{\n\t\t\t\tReason:  packagetypes.ViolationReasonInvalidYAML,\n\t\t\t\tDetails: err.Error(),\n\t\t\t\tPath:    path,\n\t\t\t\tIndex:   ptr.To(idx),\n\t\t\t\tSubject: string(yamlDocument),\n\t\t\t}\n\t\t\treturn\n\t\t}\n\n" +
		"\t\t// The condition-map annotation is parsed again when collecting objects into phases,\n\t\t// where no error can be reported anymore.\n" +
		"\t\tif _, cmErr := parseConditionMapAnnotation(&obj); cmErr != nil {\n\t\t\terr = packagetypes.ViolationError{\n\t\t\t\tReason:  packagetypes.ViolationReasonInvalidConditionMapAnnotation,\n\t\t\t\tDetails: cmErr.Error(),\n\t\t\t\tPath:    path,\n\t\t\t\tIndex:   ptr.To(idx),\n\t\t\t}\n\t\t\treturn\n\t\t}\n"
	const objsBodyCall = "\t\tvar obj unstructured.Unstructured\n\t\tobj, err = c19tParseObject(path, idx, yamlDocument)\n\t\tif err != nil {\n\t\t\treturn\n\t\t}\n"
	const objsLabelsDoc = "func commonLabels(manifest *manifests.PackageManifest, packageName string) map[string]string {\n"
	const objsHelper = "func c19tParseObject(path string, idx int, yamlDocument []byte) (unstructured.Unstructured, error) {\n" +
		"\tobj := unstructured.Unstructured{}\n\tif err := yaml.Unmarshal(yamlDocument, &obj); err != nil {\n\t\treturn obj, packagetypes.ViolationError{\n\t\t\tReason:  packagetypes.ViolationReasonInvalidYAML,\n\t\t\tDetails: err.Error(),\n\t\t\tPath:    path,\n\t\t\tIndex:   ptr.To(idx),\n\t\t\tSubject: string(yamlDocument),\n\t\t}\n\t}\n\n" +
		"\tif _, cmErr := parseConditionMapAnnotation(&obj); cmErr != nil {\n\t\treturn obj, packagetypes.ViolationError{\n\t\t\tReason:  packagetypes.ViolationReasonInvalidConditionMapAnnotation,\n\t\t\tDetails: cmErr.Error(),\n\t\t\tPath:    path,\n\t\t\tIndex:   ptr.To(idx),\n\t\t}\n\t}\n\treturn obj, nil\n}\n\n"
	objsHelperKept := strings.Replace(objsHelper, "\tobj := unstructured.Unstructured{}\n", "\tdefer func() { _ = idx }()\n\tobj := unstructured.Unstructured{}\n", 1)
	objsHelperVariant := func(h, old, new string) []Edit {
		if strings.Count(h, old) != 1 {
			panic("mutants_c19: helper text does not contain " + old)
		}
		return []Edit{{File: objs, Old: objsLabelsDoc, New: strings.Replace(h, old, new, 1) + objsLabelsDoc}}
	}
	const objsCmTest = "\tif _, cmErr := parseConditionMapAnnotation(&obj); cmErr != nil {\n"
	const objsCmReturn = "\t\t\tReason:  packagetypes.ViolationReasonInvalidConditionMapAnnotation,\n\t\t\tDetails: cmErr.Error(),\n\t\t\tPath:    path,\n\t\t\tIndex:   ptr.To(idx),\n\t\t}\n\t}\n"
	addMutants(
		// ---- R1 --------------------------------------------------------------------------------
		Mutant{Prop: "C19", Name: "r1-revert-D4-unchecked-condition-fields", File: tmpl,
			Old:    "\t\t\tType:               condFields[0],\n",
			New:    "\t\t\tType:               condMap[\"type\"].(string),\n",
			Expect: []string{"C19.R1@internal/controllers/objecttemplate.updateStatusConditionsFromOwnedObject"}},
		Mutant{Prop: "C19", Name: "r1-drop-comma-ok-on-conditions-slice-element", File: tmpl,
			Old:    "\t\t\tReason:             condFields[2],\n",
			New:    "\t\t\tReason:             condMap[\"reason\"].(string),\n",
			Expect: []string{"C19.R1@"}},
		Mutant{Prop: "C19", Name: "r1-cel-result-type-test-removed", File: cel,
			Old:    "\tif !reflect.DeepEqual(out.Type(), cel.BoolType) {\n\t\treturn false, fmt.Errorf(\"%w: %v, expected %v\", ErrInvalidReturnType, ast.OutputType(), cel.BoolType)\n\t}\n",
			New:    "\tif !reflect.DeepEqual(out.Type(), cel.BoolType) {\n\t\t_ = fmt.Errorf(\"%w: %v, expected %v\", ErrInvalidReturnType, ast.OutputType(), cel.BoolType)\n\t}\n",
			Expect: []string{"C19.R1@(*internal/packages/internal/packagerender/celctx.CelCtx).evaluate"}},
		Mutant{Prop: "C19", Name: "r1-celprobe-output-type-test-removed", File: celProb,
			Old:    "\tif ast.OutputType() != cel.BoolType {\n\t\treturn nil, ErrCELInvalidEvaluationType\n\t}\n",
			New:    "\tif ast.OutputType() == nil {\n\t\treturn nil, ErrCELInvalidEvaluationType\n\t}\n",
			Expect: []string{"C19.R1@(*pkg/probing.CELProbe).probe"}},
		Mutant{Prop: "C19", Name: "r1-benign-cel-type-test-as-equality", File: cel, Benign: true,
			Old: "\tif !reflect.DeepEqual(out.Type(), cel.BoolType) {\n",
			New: "\tif !reflect.DeepEqual(cel.BoolType, out.Type()) {\n"},
		Mutant{Prop: "C19", Name: "r1-benign-celprobe-positive-test", File: celProb, Benign: true,
			Old: "\tif ast.OutputType() != cel.BoolType {\n\t\treturn nil, ErrCELInvalidEvaluationType\n\t}\n",
			New: "\tif cel.BoolType == ast.OutputType() {\n\t} else {\n\t\treturn nil, ErrCELInvalidEvaluationType\n\t}\n"},
		Mutant{Prop: "C19", Name: "r1-benign-checked-assertion-added", File: tmpl, Benign: true,
			Old: "\t\t\tType:               condFields[0],\n",
			New: "\t\t\tType:               func() string { s, _ := condMap[\"type\"].(string); return s }(),\n"},

		// ---- R2 --------------------------------------------------------------------------------
		Mutant{Prop: "C19", Name: "r2-revert-D5-index-empty-destination", File: tmpl,
			Old:    "\tif !strings.HasPrefix(item.Destination, \".\") {\n",
			New:    "\tif string(item.Destination[0]) != \".\" {\n",
			Expect: []string{"C19.R2@internal/controllers/objecttemplate.copySourceItem"}},
		Mutant{Prop: "C19", Name: "r2-index-1-after-len-gt-0", File: tree,
			Old:    "\t\ttest := pkg.Manifest.Test.Template[0]\n",
			New:    "\t\ttest := pkg.Manifest.Test.Template[1]\n",
			Expect: []string{"C19.R2@(*internal/cmd.Tree).getTemplateContext"}},
		Mutant{Prop: "C19", Name: "r2-slice-bound-longer-than-tested-prefix", File: keych,
			Old:    "\t\t\t\teffectivePath = effectivePath[3:]\n",
			New:    "\t\t\t\teffectivePath = effectivePath[5:]\n",
			Expect: []string{"C19.R2@internal/packages/internal/packageimport/kubekeychain.newFromPullSecrets"}},
		Mutant{Prop: "C19", Name: "r2-benign-equivalent-length-tests", File: tree, Benign: true,
			Old: "\tcase len(pkg.Manifest.Test.Template) > 0:\n\t\ttest := pkg.Manifest.Test.Template[0]\n",
			New: "\tcase 1 <= len(pkg.Manifest.Test.Template):\n\t\ttest := pkg.Manifest.Test.Template[0]\n"},
		Mutant{Prop: "C19", Name: "r2-benign-nonempty-string-test", File: tmpl, Benign: true,
			Old: "\tif !strings.HasPrefix(item.Destination, \".\") {\n",
			New: "\tif item.Destination == \"\" || item.Destination[0] != '.' {\n"},

		// ---- R3 --------------------------------------------------------------------------------
		Mutant{Prop: "C19", Name: "r3-revert-D9-oci-nil-header", File: oci,
			Old:    "\t\tif err != nil {\n\t\t\treturn nil, fmt.Errorf(\"read file header from layer: %w\", err)\n\t\t}\n\n\t\tpath, err := stripOCIPathPrefix(hdr.Name)",
			New:    "\n\t\tpath, err := stripOCIPathPrefix(hdr.Name)",
			Expect: []string{"C19.R3@internal/packages/internal/packageimport.FromOCI"}},
		Mutant{Prop: "C19", Name: "r3-revert-D9b-olm-import-nil-header", File: olm,
			Old:    "\t\tif err != nil {\n\t\t\treturn nil, reg, fmt.Errorf(\"read file header from layer: %w\", err)\n\t\t}\n\n\t\tpath := hdr.Name",
			New:    "\n\t\tpath := hdr.Name",
			Expect: []string{"C19.R3@internal/packages/internal/packagekickstart.ImportOLMBundleImage"}},
		Mutant{Prop: "C19", Name: "r3-revert-D9b-olm-detect-nil-header", File: olm,
			Old:    "\t\tif err != nil {\n\t\t\treturn false, fmt.Errorf(\"read file header from layer: %w\", err)\n\t\t}\n",
			New:    "",
			Expect: []string{"C19.R3@internal/packages/internal/packagekickstart.IsOLMBundleImage"}},
		Mutant{Prop: "C19", Name: "r3-use-moved-above-error-check", File: oci,
			Old:    "\t\thdr, err := tarReader.Next()\n\t\tif err != nil && errors.Is(err, io.EOF) {\n\t\t\tbreak\n\t\t}\n",
			New:    "\t\thdr, err := tarReader.Next()\n\t\tverboseLog.Info(\"entry\", \"name\", hdr.Name)\n\t\tif err != nil && errors.Is(err, io.EOF) {\n\t\t\tbreak\n\t\t}\n",
			Expect: []string{"C19.R3@internal/packages/internal/packageimport.FromOCI"}},
		Mutant{Prop: "C19", Name: "r3-benign-nested-error-ladder", File: oci, Benign: true,
			Old: "\t\tif err != nil && errors.Is(err, io.EOF) {\n\t\t\tbreak\n\t\t}\n\t\tif err != nil {\n\t\t\treturn nil, fmt.Errorf(\"read file header from layer: %w\", err)\n\t\t}\n",
			New: "\t\tif err != nil {\n\t\t\tif errors.Is(err, io.EOF) {\n\t\t\t\tbreak\n\t\t\t}\n\t\t\treturn nil, fmt.Errorf(\"read file header from layer: %w\", err)\n\t\t}\n"},
		Mutant{Prop: "C19", Name: "r3-benign-nil-header-test", File: oci, Benign: true,
			Old: "\t\tif err != nil {\n\t\t\treturn nil, fmt.Errorf(\"read file header from layer: %w\", err)\n\t\t}\n\n\t\tpath, err := stripOCIPathPrefix(hdr.Name)",
			New: "\t\tif hdr == nil {\n\t\t\treturn nil, fmt.Errorf(\"read file header from layer: %w\", err)\n\t\t}\n\n\t\tpath, err := stripOCIPathPrefix(hdr.Name)"},

		// ---- R4 --------------------------------------------------------------------------------
		Mutant{Prop: "C19", Name: "r4-revert-D10-condition-map-not-validated", File: objs,
			Old:    "\t\tif _, cmErr := parseConditionMapAnnotation(&obj); cmErr != nil {\n",
			New:    "\t\tif _, cmErr := parseConditionMapAnnotation(&obj); cmErr != nil && false {\n",
			Expect: []string{"C19.R4@(internal/packages/internal/packagerender.phaseCollector).AddObjects"}},
		Mutant{Prop: "C19", Name: "r4-upstream-validation-reports-but-admits", File: objs,
			Old:    "\t\t\t\tIndex:   ptr.To(idx),\n\t\t\t}\n\t\t\treturn\n\t\t}\n\n\t\tif len(obj.Object) != 0 {",
			New:    "\t\t\t\tIndex:   ptr.To(idx),\n\t\t\t}\n\t\t}\n\n\t\tif len(obj.Object) != 0 {",
			Expect: []string{"C19.R4@(internal/packages/internal/packagerender.phaseCollector).AddObjects"}},
		Mutant{Prop: "C19", Name: "r4-new-panic-in-object-parser", File: objs,
			Old:    "\tobjects = []unstructured.Unstructured{}\n\n\t// Split for every included yaml document.\n",
			New:    "\tobjects = []unstructured.Unstructured{}\n\tif len(content) > 1<<20 {\n\t\tpanic(\"file too large\")\n\t}\n\n\t// Split for every included yaml document.\n",
			Expect: []string{"C19.R4@internal/packages/internal/packagerender.parseObjects"}},
		Mutant{Prop: "C19", Name: "r4-second-panic-in-triaged-function", File: hash,
			Old:    "\thasher.Reset()\n\tprinter := spew.ConfigState{",
			New:    "\tif objectToWrite == nil {\n\t\tpanic(\"nil object\")\n\t}\n\thasher.Reset()\n\tprinter := spew.ConfigState{",
			Expect: []string{"C19.R4@internal/utils.DeepHashObject"}},
		Mutant{Prop: "C19", Name: "r4-manifest-config-guard-dropped", File: mval,
			Old:    "\t\tif len(configErrors) == 0 {\n",
			New:    "\t\tif len(allErrs) == 0 {\n",
			Expect: []string{"C19.R4@internal/packages/internal/packagemanifestvalidation.ValidatePackageManifest"}},
		Mutant{Prop: "C19", Name: "r4-cli-accepts-kind-the-callee-panics-on", File: pause,
			Old:    "\t\tcase \"clusterpackage\":\n\t\tdefault:",
			New:    "\t\tcase \"clusterpackage\", \"clusterpackages\":\n\t\tdefault:",
			Expect: []string{"C19.R4@(*internal/cmd.Client).PackageSetPaused"}},
		Mutant{Prop: "C19", Name: "r4-marshal-of-arbitrary-value", File: remote,
			Old:    "\t\t\t\"spec\": map[string]any{\n\t\t\t\t\"paused\": desiredObjectSetPhase.IsPaused(),\n\t\t\t},\n",
			New:    "\t\t\t\"spec\": map[string]any{\n\t\t\t\t\"paused\": desiredObjectSetPhase.IsPaused(),\n\t\t\t\t\"objects\": desiredObjectSetPhase.ClientObject(),\n\t\t\t},\n",
			Expect: []string{"C19.R4@(*internal/controllers/objectsets.objectSetRemotePhaseReconciler).Reconcile"}},
		// a panic *added* in an extracted helper of a triaged function is counted with that function
		Mutant{Prop: "C19", Name: "r4-new-panic-in-helper-of-triaged-function", File: remote,
			Old:    "\tobjectSetObj := objectSet.ClientObject()\n\n\tdesiredObjectSetPhase := r.newObjectSetPhase(r.scheme)\n",
			New:    "\tobjectSetObj := objectSet.ClientObject()\n\tif len(phase.Objects) == 0 {\n\t\tpanic(\"phase without objects\")\n\t}\n\n\tdesiredObjectSetPhase := r.newObjectSetPhase(r.scheme)\n",
			Expect: []string{"C19.R4@(*internal/controllers/objectsets.objectSetRemotePhaseReconciler)"}},
		Mutant{Prop: "C19", Name: "r4-benign-validation-locals-renamed", File: objs, Benign: true,
			Old: "\t\tif _, cmErr := parseConditionMapAnnotation(&obj); cmErr != nil {\n\t\t\terr = packagetypes.ViolationError{\n\t\t\t\tReason:  packagetypes.ViolationReasonInvalidConditionMapAnnotation,\n\t\t\t\tDetails: cmErr.Error(),",
			New: "\t\t_, mappingErr := parseConditionMapAnnotation(&obj)\n\t\tif nil != mappingErr {\n\t\t\terr = packagetypes.ViolationError{\n\t\t\t\tReason:  packagetypes.ViolationReasonInvalidConditionMapAnnotation,\n\t\t\t\tDetails: mappingErr.Error(),"},
		Mutant{Prop: "C19", Name: "r4-benign-document-parser-helper", File: objs, Benign: true,
			Old: objsBody, New: objsBodyCall,
			More: []Edit{{File: objs, Old: objsLabelsDoc, New: objsHelper + objsLabelsDoc}}},
		Mutant{Prop: "C19", Name: "r4-document-parser-helper-validation-guard-dropped", File: objs,
			Old: objsBody, New: objsBodyCall,
			More:   objsHelperVariant(objsHelper, objsCmTest, "\tif _, cmErr := parseConditionMapAnnotation(&obj); cmErr != nil && false {\n"),
			Expect: []string{"C19.R4@(internal/packages/internal/packagerender.phaseCollector).AddObjects"}},
		Mutant{Prop: "C19", Name: "r4-document-parser-helper-skips-validation-early", File: objs,
			Old: objsBody, New: objsBodyCall,
			More:   objsHelperVariant(objsHelper, objsCmTest, "\tif len(obj.GetLabels()) == 0 {\n\t\treturn obj, nil\n\t}\n"+objsCmTest),
			Expect: []string{"C19.R4@(internal/packages/internal/packagerender.phaseCollector).AddObjects"}},
		Mutant{Prop: "C19", Name: "r4-document-parser-helper-invalid-annotation-returned-without-error", File: objs,
			Old: objsBody, New: objsBodyCall,
			More: objsHelperVariant(strings.Replace(objsHelper, objsCmReturn, objsCmReturn[:len(objsCmReturn)-3]+"\t\treturn obj, nil\n\t}\n", 1),
				"\t\treturn obj, packagetypes.ViolationError{\n\t\t\tReason:  packagetypes.ViolationReasonInvalidConditionMapAnnotation,", "\t\t_ = packagetypes.ViolationError{\n\t\t\tReason:  packagetypes.ViolationReasonInvalidConditionMapAnnotation,"),
			Expect: []string{"C19.R4@(internal/packages/internal/packagerender.phaseCollector).AddObjects"}},
		Mutant{Prop: "C19", Name: "r4-document-parser-helper-error-ignored-by-producer", File: objs,
			Old: objsBody, New: strings.Replace(objsBodyCall, "\t\tobj, err = c19tParseObject(path, idx, yamlDocument)\n\t\tif err != nil {\n\t\t\treturn\n\t\t}\n", "\t\tobj, _ = c19tParseObject(path, idx, yamlDocument)\n", 1),
			More:   []Edit{{File: objs, Old: objsLabelsDoc, New: objsHelper + objsLabelsDoc}},
			Expect: []string{"C19.R4@(internal/packages/internal/packagerender.phaseCollector).AddObjects"}},
		// the same helper kept as a call (a defer keeps the normaliser from merging it): judged per
		// error-free return of the callee
		Mutant{Prop: "C19", Name: "r4-benign-document-parser-helper-not-merged", File: objs, Benign: true,
			Old: objsBody, New: objsBodyCall,
			More: []Edit{{File: objs, Old: objsLabelsDoc, New: objsHelperKept + objsLabelsDoc}}},
		Mutant{Prop: "C19", Name: "r4-document-parser-helper-not-merged-skips-validation-early", File: objs,
			Old: objsBody, New: objsBodyCall,
			More:   objsHelperVariant(objsHelperKept, objsCmTest, "\tif len(obj.GetLabels()) == 0 {\n\t\treturn obj, nil\n\t}\n"+objsCmTest),
			Expect: []string{"C19.R4@(internal/packages/internal/packagerender.phaseCollector).AddObjects"}},
		Mutant{Prop: "C19", Name: "r4-document-parser-helper-not-merged-validation-guard-dropped", File: objs,
			Old: objsBody, New: objsBodyCall,
			More:   objsHelperVariant(objsHelperKept, objsCmTest, "\tif _, cmErr := parseConditionMapAnnotation(&obj); cmErr != nil && false {\n"),
			Expect: []string{"C19.R4@(internal/packages/internal/packagerender.phaseCollector).AddObjects"}},
		Mutant{Prop: "C19", Name: "r4-benign-panic-message-and-guard-spelling", File: mval, Benign: true,
			Old: "\t\tif len(configErrors) == 0 {\n",
			New: "\t\tif len(configErrors) < 1 {\n"},
		Mutant{Prop: "C19", Name: "r4-benign-cli-switch-as-if-ladder", File: pause, Benign: true,
			Old: "\t\tcase \"clusterpackage\":\n\t\tdefault:\n\t\t\treturn fmt.Errorf(\"%w: expected `clusterpackage`/`package`, got `%s`\", errInvalidResource, args.Resource)\n\t\t}\n",
			New: "\t\tdefault:\n\t\t\tif kind != \"clusterpackage\" {\n\t\t\t\treturn fmt.Errorf(\"%w: expected `clusterpackage`/`package`, got `%s`\", errInvalidResource, args.Resource)\n\t\t\t}\n\t\t}\n"},

		// ---- R5 --------------------------------------------------------------------------------
		Mutant{Prop: "C19", Name: "r5-include-depth-test-dropped", File: sprig,
			Old:    "\t\t\tif v > recursionDepth {\n\t\t\t\treturn \"\", fmt.Errorf(\"including template with name %s: %w\", name, ErrExceededIncludeRecursion)\n\t\t\t}\n",
			New:    "\t\t\tif v > recursionDepth {\n\t\t\t\t_ = fmt.Errorf(\"including template with name %s: %w\", name, ErrExceededIncludeRecursion)\n\t\t\t}\n",
			Expect: []string{"C19.R5@internal/transform.SprigFuncs$1#template-reentry"}},
		Mutant{Prop: "C19", Name: "r5-nested-components-no-longer-rejected", File: structf,
			Old:    "\tif len(componentName) > 0 {\n\t\treturn nil, packagetypes.ViolationError{\n\t\t\tReason:    packagetypes.ViolationReasonNestedMultiComponentPkg,",
			New:    "\tif len(componentName) > 64 {\n\t\treturn nil, packagetypes.ViolationError{\n\t\t\tReason:    packagetypes.ViolationReasonNestedMultiComponentPkg,",
			Expect: []string{"C19.R5@(*internal/packages/internal/packagestructure.StructuralLoader).load#cycle"}},
		Mutant{Prop: "C19", Name: "r5-new-recursion", File: objs,
			Old:    "func commonLabels(manifest *manifests.PackageManifest, packageName string) map[string]string {\n",
			New:    "func commonLabels(manifest *manifests.PackageManifest, packageName string) map[string]string {\n\tif len(packageName) > 63 {\n\t\treturn commonLabels(manifest, packageName[1:])\n\t}\n",
			Expect: []string{"C19.R5@internal/packages/internal/packagerender.commonLabels#cycle"}},
		Mutant{Prop: "C19", Name: "r5-benign-depth-test-operands-swapped", File: sprig, Benign: true,
			Old: "\t\t\tif v > recursionDepth {\n",
			New: "\t\t\tif recursionDepth < v {\n"},
		Mutant{Prop: "C19", Name: "r5-benign-nested-rejection-as-emptiness-test", File: structf, Benign: true,
			Old: "\tif len(componentName) > 0 {\n\t\treturn nil, packagetypes.ViolationError{\n\t\t\tReason:    packagetypes.ViolationReasonNestedMultiComponentPkg,",
			New: "\tif len(componentName) != 0 {\n\t\treturn nil, packagetypes.ViolationError{\n\t\t\tReason:    packagetypes.ViolationReasonNestedMultiComponentPkg,"},

		// ---- R6 --------------------------------------------------------------------------------
		Mutant{Prop: "C19", Name: "r6-labels-nil-guard-removed", File: phaseAd,
			Old:    "func (a *GenericObjectSetPhase) SetPhase(phase corev1alpha1.ObjectSetTemplatePhase) {\n\tif a.Labels == nil {\n\t\ta.Labels = map[string]string{}\n\t}\n",
			New:    "func (a *GenericObjectSetPhase) SetPhase(phase corev1alpha1.ObjectSetTemplatePhase) {\n",
			Expect: []string{"C19.R6@(*internal/controllers/objectsets.GenericObjectSetPhase).SetPhase"}},
		Mutant{Prop: "C19", Name: "r6-dynamic-cache-label-on-nil-map", File: ctrl,
			Old:    "\tif labels == nil {\n\t\tlabels = map[string]string{}\n\t}\n\n\tlabels[constants.DynamicCacheLabel] = \"True\"",
			New:    "\tif len(labels) > 100 {\n\t\tlabels = map[string]string{}\n\t}\n\n\tlabels[constants.DynamicCacheLabel] = \"True\"",
			Expect: []string{"C19.R6@internal/controllers.AddDynamicCacheLabel"}},
		Mutant{Prop: "C19", Name: "r6-benign-inverted-nil-test", File: phaseAd, Benign: true,
			Old: "func (a *GenericObjectSetPhase) SetPhase(phase corev1alpha1.ObjectSetTemplatePhase) {\n\tif a.Labels == nil {\n\t\ta.Labels = map[string]string{}\n\t}\n",
			New: "func (a *GenericObjectSetPhase) SetPhase(phase corev1alpha1.ObjectSetTemplatePhase) {\n\tif nil != a.Labels {\n\t} else {\n\t\ta.Labels = map[string]string{}\n\t}\n"},
	)
}

// Round two: triaged sites that move because their function is merged into its caller (the entry of
// a function that no longer exists is inherited by its pinned callers), and the `include` template
// helper written as a method value instead of a closure.
func init() {
	const (
		enq      = "internal/dynamiccache/enqueue_watching.go"
		sprig    = "internal/transform/transformfiles_funcs.go"
		rtmpl    = "internal/packages/internal/packagerender/template.go"
		ctorCall = "\tif err := e.parseWatcherTypeGroupKind(scheme); err != nil {\n\t\t// This (passing a type that is not in the scheme) HAS\n\t\t// to be a programmer error and can't be recovered at runtime anyways.\n\t\tpanic(err)\n\t}\n\treturn e\n"
		method   = "func (e *EnqueueWatchingObjects) parseWatcherTypeGroupKind(scheme *runtime.Scheme) error {\n\t// Get the kinds of the type\n\tkinds, _, err := scheme.ObjectKinds(e.WatcherType)\n\tif err != nil {\n\t\treturn err\n\t}\n\t// Expect only 1 kind.  If there is more than one kind this is probably an edge case such as ListOptions.\n\tif len(kinds) != 1 {\n\t\tpanic(fmt.Sprintf(\"Expected exactly 1 kind for WatcherType %T, but found %s kinds\", e.WatcherType, kinds))\n\t}\n\t// Cache the Group and Kind for the WatcherType\n\te.groupKind = schema.GroupKind{Group: kinds[0].Group, Kind: kinds[0].Kind}\n\treturn nil\n}\n"
		merged   = "\tkinds, _, err := scheme.ObjectKinds(watcherType)\n\tif err != nil {\n\t\tpanic(err)\n\t}\n\tif len(kinds) != 1 {\n\t\tpanic(fmt.Sprintf(\"Expected exactly 1 kind for WatcherType %T, but found %s kinds\", watcherType, kinds))\n\t}\n\te.groupKind = schema.GroupKind{Group: kinds[0].Group, Kind: kinds[0].Kind}\n\treturn e\n"

		includeClosure = "\tincludedNames := map[string]int{}\n\t// Include function executes a template with given data and returns the result as string.\n\t// Use this helper function if you need to modify the resulting output via e.g. | indent.\n\t// Example:\n\t// {{- define \"test-helper\" -}}{{.}}{{- end -}}{{- include \"test-helper\" . | upper -}}\n\tallowedFuncs[\"include\"] = func(name string, data any) (string, error) {\n\t\tvar buf strings.Builder\n\t\tif v, ok := includedNames[name]; ok {\n\t\t\tif v > recursionDepth {\n\t\t\t\treturn \"\", fmt.Errorf(\"including template with name %s: %w\", name, ErrExceededIncludeRecursion)\n\t\t\t}\n\t\t\tincludedNames[name]++\n\t\t} else {\n\t\t\tincludedNames[name] = 1\n\t\t}\n\t\terr := t.ExecuteTemplate(&buf, name, data)\n\t\tincludedNames[name]--\n\t\treturn buf.String(), err\n\t}\n"
		includeValue   = "\tinc := &includer{tmpl: t, includedNames: map[string]int{}}\n\tallowedFuncs[\"include\"] = inc.include\n"
		b64Anchor      = "func base64decodeMap(data map[string]any) (\n"
		includerHead   = "type includer struct {\n\ttmpl          *template.Template\n\tincludedNames map[string]int\n}\n\nfunc (i *includer) include(name string, data any) (string, error) {\n\tvar buf strings.Builder\n\tif v, ok := i.includedNames[name]; ok {\n"
		includerGuard  = "\t\tif v > recursionDepth {\n\t\t\treturn \"\", fmt.Errorf(\"including template with name %s: %w\", name, ErrExceededIncludeRecursion)\n\t\t}\n"
		includerNoTest = "\t\tif v > recursionDepth {\n\t\t\t_ = fmt.Errorf(\"including template with name %s: %w\", name, ErrExceededIncludeRecursion)\n\t\t}\n"
		includerTail   = "\t\ti.includedNames[name]++\n\t} else {\n\t\ti.includedNames[name] = 1\n\t}\n\terr := i.tmpl.ExecuteTemplate(&buf, name, data)\n\ti.includedNames[name]--\n\treturn buf.String(), err\n}\n\n"

		novalueCall = "\tworkaroundnovalue(actualCtx)\n\treturn actualCtx, nil\n}\n\nfunc workaroundnovalue(actualCtx map[string]any) {\n"
		novalueTail = "\tif metadata[\"labels\"] == nil {\n\t\tmetadata[\"labels\"] = map[string]string{}\n\t}\n}\n"
	)
	addMutants(
		Mutant{Prop: "C19", Name: "r4-benign-panicking-method-merged-into-constructor", File: enq, Benign: true,
			Why: "parseWatcherTypeGroupKind no longer exists; its triaged panic now sits in its only caller",
			Old: ctorCall, New: merged,
			More: []Edit{{File: enq, Old: method, New: ""}}},
		Mutant{Prop: "C19", Name: "r4-merged-constructor-gains-a-panic", File: enq,
			Why: "merging the method into the constructor must not hide a new panic site",
			Old: ctorCall, New: "\tif watcherRefGetter == nil {\n\t\tpanic(\"no getter\")\n\t}\n" + merged,
			More:   []Edit{{File: enq, Old: method, New: ""}},
			Expect: []string{"C19.R4@internal/dynamiccache.NewEnqueueWatchingObjects#panic"}},
		Mutant{Prop: "C19", Name: "r5-benign-include-as-method-value", File: sprig, Benign: true,
			Why: "the shape of benign/H7-4. OwnOnly: C10.R3 (durable-state table, not a C19 rule) reports the depth counter, now a map in a receiver field, as state that outlives the reconcile — a false alarm of that rule, reproducible with benign/H7-4",
			Old: includeClosure, New: includeValue,
			More: []Edit{{File: sprig, Old: b64Anchor, New: includerHead + includerGuard + includerTail + b64Anchor}}},
		Mutant{Prop: "C19", Name: "r5-include-method-value-depth-test-dropped", File: sprig,
			Old: includeClosure, New: includeValue,
			More:   []Edit{{File: sprig, Old: b64Anchor, New: includerHead + includerNoTest + includerTail + b64Anchor}},
			Expect: []string{"C19.R5@(*internal/transform.includer).include#template-reentry"}},
		// the depth guard extracted into a helper with early returns (corpus J7-3): merged back by the
		// normaliser, its returns meet in one block and only `err != nil` separates them again
		Mutant{Prop: "C19", Name: "r5-benign-include-guard-in-early-return-helper", File: sprig, Benign: true,
			Old: "\t\tvar buf strings.Builder\n\t\tif v, ok := includedNames[name]; ok {\n\t\t\tif v > recursionDepth {\n\t\t\t\treturn \"\", fmt.Errorf(\"including template with name %s: %w\", name, ErrExceededIncludeRecursion)\n\t\t\t}\n\t\t\tincludedNames[name]++\n\t\t} else {\n\t\t\tincludedNames[name] = 1\n\t\t}\n",
			New: "\t\tif err := enterInclude(includedNames, name); err != nil {\n\t\t\treturn \"\", err\n\t\t}\n\t\tvar buf strings.Builder\n",
			More: []Edit{{File: sprig, Old: b64Anchor, New: "func enterInclude(depths map[string]int, name string) error {\n\tdepth, included := depths[name]\n\tif !included {\n\t\tdepths[name] = 1\n\t\treturn nil\n\t}\n" +
				"\tif depth > recursionDepth {\n\t\treturn fmt.Errorf(\"including template with name %s: %w\", name, ErrExceededIncludeRecursion)\n\t}\n\tdepths[name]++\n\treturn nil\n}\n\n" + b64Anchor}}},
		Mutant{Prop: "C19", Name: "r5-include-guard-helper-lets-the-bound-pass", File: sprig,
			Old: "\t\tvar buf strings.Builder\n\t\tif v, ok := includedNames[name]; ok {\n\t\t\tif v > recursionDepth {\n\t\t\t\treturn \"\", fmt.Errorf(\"including template with name %s: %w\", name, ErrExceededIncludeRecursion)\n\t\t\t}\n\t\t\tincludedNames[name]++\n\t\t} else {\n\t\t\tincludedNames[name] = 1\n\t\t}\n",
			New: "\t\tif err := enterInclude(includedNames, name); err != nil {\n\t\t\treturn \"\", err\n\t\t}\n\t\tvar buf strings.Builder\n",
			More: []Edit{{File: sprig, Old: b64Anchor, New: "func enterInclude(depths map[string]int, name string) error {\n\tdepth, included := depths[name]\n\tif !included {\n\t\tdepths[name] = 1\n\t\treturn nil\n\t}\n" +
				"\tif depth > recursionDepth {\n\t\treturn nil\n\t}\n\tdepths[name]++\n\treturn nil\n}\n\n" + b64Anchor}},
			Expect: []string{"C19.R5@internal/transform.SprigFuncs$1#template-reentry"}},
		Mutant{Prop: "C19", Name: "r1-benign-novalue-workaround-merged-into-caller", File: rtmpl, Benign: true,
			Why: "workaroundnovalue no longer exists; its two triaged assertions now sit in templateContext",
			Old: novalueCall, New: "",
			More: []Edit{{File: rtmpl, Old: novalueTail, New: "\tif metadata[\"labels\"] == nil {\n\t\tmetadata[\"labels\"] = map[string]string{}\n\t}\n\treturn actualCtx, nil\n}\n"}}},
		Mutant{Prop: "C19", Name: "r1-merged-novalue-workaround-gains-an-assertion", File: rtmpl,
			Why: "a third unchecked assertion on the JSON round trip (.config is user input and need not be an object)",
			Old: novalueCall, New: "\t_ = actualCtx[\"config\"].(map[string]any)\n",
			More:   []Edit{{File: rtmpl, Old: novalueTail, New: "\tif metadata[\"labels\"] == nil {\n\t\tmetadata[\"labels\"] = map[string]string{}\n\t}\n\treturn actualCtx, nil\n}\n"}},
			Expect: []string{"C19.R1@internal/packages/internal/packagerender.templateContext#assert-"}},
	)
}

// Round four (corpus G*): a slice made with a constant length, kept in an address-taken variable.
func init() {
	const apis = "internal/preflight/apis_exist.go"
	const lit = "\t\tviolations := []Violation{{Error: fmt.Sprintf(\"%s not registered on the api server.\", gvk)}}\n"
	made := func(mk, pre string) string {
		return "\t\tviolations := " + mk + "\n" + pre + "\t\tviolations[0].Error = fmt.Sprintf(\"%s not registered on the api server.\", gvk)\n"
	}
	addMutants(
		// OwnOnly: C11.R3 (passes-only-by-delegation) does not yet read a violation list that is filled
		// after make() as a rejection — the same false alarm it raises on corpus patch G10-2, which is
		// being corrected in the C11 rules; drop OwnOnly once that is merged.
		Mutant{Prop: "C19", Name: "r2-benign-make-len1-then-index", File: apis, Benign: true,
			Old: lit, New: made("make([]Violation, 1)", "")},
		Mutant{Prop: "C19", Name: "r2-make-len0-then-index", File: apis,
			Why: "make([]Violation, 0, 1) has no element 0: the preflight check panics for every unregistered API",
			Old: lit, New: made("make([]Violation, 0, 1)", ""),
			Expect: []string{"C19.R2@(*internal/preflight.APIExistence).Check"}},
		Mutant{Prop: "C19", Name: "r2-make-len1-index-1", File: apis,
			Old: lit, New: "\t\tviolations := make([]Violation, 1)\n\t\tviolations[1].Error = fmt.Sprintf(\"%s not registered on the api server.\", gvk)\n",
			Expect: []string{"C19.R2@(*internal/preflight.APIExistence).Check"}},
	)
}

// Round seven (corpus N*): the include counter tested by a plain map lookup (a missing key reads as
// zero) instead of the comma-ok form.
func init() {
	const sprig = "internal/transform/transformfiles_funcs.go"
	const guard = "\t\tif v, ok := includedNames[name]; ok {\n\t\t\tif v > recursionDepth {\n\t\t\t\treturn \"\", fmt.Errorf(\"including template with name %s: %w\", name, ErrExceededIncludeRecursion)\n\t\t\t}\n\t\t\tincludedNames[name]++\n\t\t} else {\n\t\t\tincludedNames[name] = 1\n\t\t}\n"
	const reentry = "C19.R5@internal/transform.SprigFuncs$1#template-reentry"
	addMutants(
		Mutant{Prop: "C19", Name: "r5-benign-include-counter-plain-lookup", File: sprig, Benign: true,
			Old: guard,
			New: "\t\tif includedNames[name] > recursionDepth {\n\t\t\treturn \"\", fmt.Errorf(\"including template with name %s: %w\", name, ErrExceededIncludeRecursion)\n\t\t}\n\t\tincludedNames[name]++\n"},
		Mutant{Prop: "C19", Name: "r5-include-counter-plain-lookup-test-inverted", File: sprig,
			Why:    "`<` instead of `>`: includes are rejected while the counter is below the limit and allowed without bound above it",
			Old:    guard,
			New:    "\t\tif includedNames[name] < recursionDepth {\n\t\t\treturn \"\", fmt.Errorf(\"including template with name %s: %w\", name, ErrExceededIncludeRecursion)\n\t\t}\n\t\tincludedNames[name]++\n",
			Expect: []string{reentry}},
		Mutant{Prop: "C19", Name: "r5-include-counter-plain-lookup-never-incremented", File: sprig,
			Why:    "the counter is tested but never counted up: the bound is never reached",
			Old:    guard,
			New:    "\t\tif includedNames[name] > recursionDepth {\n\t\t\treturn \"\", fmt.Errorf(\"including template with name %s: %w\", name, ErrExceededIncludeRecursion)\n\t\t}\n",
			Expect: []string{reentry}},
	)
}
