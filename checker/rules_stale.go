package main

import (
	"fmt"
	"strings"

	"golang.org/x/tools/go/ssa"
)

// staleRule builds a rule body that applies the stale-read lint (helpers_stale.go) to the product
// functions of the given packages. One obligation per (function, object) for which the function both
// reads version metadata (generation / resourceVersion / UID) of the object and hands the object to a
// client call that refreshes it in place; the obligation holds when no such read made before the
// refresh is used after it.
func staleRule(pkgs ...string) func(c *Ctx) {
	return func(c *Ctx) {
		p := c.P
		for _, fn := range p.productFuncs() {
			in := false
			for _, pk := range pkgs {
				if funcPkgPath(fn) == pk {
					in = true
				}
			}
			if !in {
				continue
			}
			// candidate objects: refreshed AND version-read in this function
			refreshed := map[string]ssa.Instruction{}
			for _, b := range fn.Blocks {
				for _, ins := range b.Instrs {
					if obj := p.refreshedObject(ins); obj != nil {
						k := p.objectRootKey(obj)
						if _, ok := refreshed[k]; !ok {
							refreshed[k] = ins
						}
					}
				}
			}
			if len(refreshed) == 0 {
				continue
			}
			read := map[string]bool{}
			for _, cc := range callsIn(fn) {
				if _, ok := cc.Instr.(*ssa.Call); ok && versionAccessors[calleeName(cc.Common)] {
					if r := callRecv(cc.Common); r != nil {
						read[p.objectRootKey(r)] = true
					}
				}
			}
			stale := p.staleUses(fn)
			n := 0
			for k, first := range refreshed {
				if !read[k] {
					continue
				}
				n++
				o := c.Ob(fn, fmt.Sprintf("stale-read#%s", strings.ReplaceAll(k, " ", "")), first, c.rule.Statement)
				var bad []string
				for _, su := range stale {
					if p.objectRootKey(su.Obj) == k {
						bad = append(bad, fmt.Sprintf("%s read at %s is used at %s after the object was refreshed in place by the client call at %s",
							calleeName(su.Read.Common()), p.IPos(su.Read), p.IPos(su.Use), p.IPos(su.Refresh)))
					}
				}
				if len(bad) == 0 {
					o.OK("version metadata is re-read after every refreshing client call")
				} else {
					o.Fail("%s", strings.Join(dedupe(bad), "; "))
				}
			}
		}
	}
}

func dedupe(in []string) []string {
	seen := map[string]bool{}
	var out []string
	for _, s := range in {
		if !seen[s] {
			seen[s] = true
			out = append(out, s)
		}
	}
	return out
}

const staleStatement = "generation / resourceVersion / UID read from an object before a client call that refreshes that object in place is not used after the call (the value would describe the previous version)"

// lostUpdateRule applies the lost-update lint to top-level product functions of the given packages:
// one obligation per function that both refreshes (Reader.Get) and writes (Update/Patch/Status.Update)
// some object, directly or inside a retry closure.
func lostUpdateRule(pkgs ...string) func(c *Ctx) {
	return func(c *Ctx) {
		p := c.P
		for _, fn := range p.productFuncs() {
			if fn.Parent() != nil {
				continue
			}
			in := false
			for _, pk := range pkgs {
				if funcPkgPath(fn) == pk {
					in = true
				}
			}
			if !in {
				continue
			}
			fns := []*ssa.Function{fn}
			for cl := range retryClosures(fn) {
				fns = append(fns, cl)
			}
			hasRefresh, hasWrite := false, false
			var first ssa.Instruction
			for _, f := range fns {
				for _, b := range f.Blocks {
					for _, ins := range b.Instrs {
						ci, ok := ins.(ssa.CallInstruction)
						if !ok {
							continue
						}
						if isReaderGet(ci.Common()) {
							hasRefresh = true
						}
						if ws, ok := classifyWriter(Call{Instr: ci, Common: ci.Common(), Fn: f}); ok && (ws.Verb == "Update" || ws.Verb == "Status.Update" || ws.Verb == "Patch") {
							hasWrite = true
							if first == nil {
								first = ins
							}
						}
					}
				}
			}
			if !hasRefresh || !hasWrite {
				continue
			}
			o := c.Ob(fn, "lost-update", first, c.rule.Statement)
			lus := p.lostUpdates(fn)
			if len(lus) == 0 {
				o.OK("every value set on an object before it is re-read is set again before the object is written")
				continue
			}
			var bad []string
			for _, lu := range lus {
				bad = append(bad, fmt.Sprintf("%s at %s is overwritten by the re-read at %s before the write at %s (on a conflict retry the old server state is written back)",
					lu.Setter, p.IPos(lu.Set), p.IPos(lu.Refresh), p.IPos(lu.Write)))
			}
			o.Fail("%s", strings.Join(dedupe(bad), "; "))
		}
	}
}

const lostUpdateStatement = "a value set on an object (Set*) is not lost to an in-place re-read (Reader.Get) of that object before the object is written: setters that precede a refresh are repeated after it; closures passed to retry helpers are treated as loops"
