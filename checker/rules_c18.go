package main

import (
	"fmt"
	"go/token"
	"go/types"
	"strings"

	"golang.org/x/tools/go/ssa"
)

// C18 — ObjectTemplates track their sources and stay within bounds.

func init() {
	register(&Property{
		ID: "C18",
		Explanation: "Decides the structural half of C18 on every path of the current source of internal/controllers/objecttemplate and internal/dynamiccache: " +
			"(R1) every read of a dynamic object is preceded by an error-free dynamicCache.Watch of that object's kind in the same activation; the controller is wired to the " +
			"dynamic cache's event source with an EnqueueWatchingObjects handler over the same cache and the template type; that handler enqueues every owner of the event's GVK " +
			"whose group-kind matches; a missing source is tolerated only when it is NotFound and marked Optional, and then a requeue is requested; " +
			"(R2) every non-dry-run write of a dynamic object in the package is certified by a successful preflight Check of that very object (directly, through an error-free helper " +
			"whose every error-free return is certified, or at every caller), the object is not re-addressed afterwards except to the template's own namespace, and no error of a " +
			"preceding source/render step is ignored; (R3) the wired checker contains NamespaceEscalation and that check is complete (C11.R4 logic); " +
			"(R4) *SourceError/*TemplateError are mapped to Invalid=True and a nil error by the deferred mapper, Invalid is removed only under err==nil, preflight violations and " +
			"missing required sources produce *SourceError, template parse/execute failures produce *TemplateError, and wrapping keeps the chain (%w); " +
			"(R5) under a non-zero DeletionTimestamp the controller frees the cache (Free before the finalizer is removed) and reaches no sub-reconciler. " +
			"It does not decide that the produced object equals the rendering of the current sources over histories.",
		NotDecided: []string{"'output equals render of current sources' over histories and interleavings", "that the API server delivers watch events",
			"evaluation results of templates and JSONPath expressions", "yaml.Unmarshal failures of the rendered template are returned as plain errors (retried), not reported through Invalid — not claimed either way"},
		Technique: "SSA guard-dominance dataflow + must-precede ordering + bounded inter-procedural certification of written objects + constructor-wiring resolution + return classification",
		Rules: []Rule{
			{ID: "C18.R1", Min: 10, Run: c18r1, Statement: "sources (and the target) are watched before they are read; the controller is wired to re-enqueue every watching template on source events; missing optional sources request a requeue, missing required ones are an error"},
			{ID: "C18.R2", Min: 3, Run: c18WriteGuards, Statement: "every non-dry-run write of a dynamic object by the ObjectTemplate controller is certified by a successful preflight Check of that object in the same activation, with no re-addressing afterwards and no ignored error of a preceding source/render step"},
			{ID: "C18.R3", Min: 3, Run: c18r3, Statement: "the ObjectTemplate checker wiring contains NamespaceEscalation, and NamespaceEscalation.Check is complete (C11.R3/R4 for the ObjectTemplate wiring)"},
			{ID: "C18.R4", Min: 11, Run: c18r4, Statement: "SourceError/TemplateError reach the Invalid condition: mapped to Invalid=True with a nil error by the deferred mapper, removed only on success, constructed for preflight violations, missing required sources, malformed items and template parse/execute failures, and never unwrapped on the way"},
			{ID: "C18.R5", Min: 2, Run: c18r5, Statement: "a deleted ObjectTemplate frees its cache watches before the finalizer is removed and before any sub-reconciler runs"},
		},
	})
}

func c18TemplateWiring(c *Ctx) { c11WiringObligations(c, true) }

func c18r3(c *Ctx) {
	c18TemplateWiring(c)
	c11r4(c)
}

// ---------------------------------------------------------------------------------------------
// R2: certification of written objects

type c18cert struct {
	p        *Program
	problems []string
	notes    []string
}

// precedingOK: every same-package helper call that must precede `site`, returns an error and reads
// sources / runs preflight / renders, is known to have returned nil at `site`.
func (x *c18cert) precedingOK(fn *ssa.Function, fs []Fact, site ssa.Instruction) {
	p := x.p
	for _, q := range callsIn(fn) {
		qc, isCall := q.Instr.(*ssa.Call)
		if !isCall || q.Instr == site {
			continue
		}
		callee := staticCallee(q.Common)
		if callee == nil || callee.Blocks == nil || funcPkgPath(callee) != funcPkgPath(fn) {
			continue
		}
		res := callee.Signature.Results()
		if res.Len() == 0 || !pfIsErrorType(res.At(res.Len()-1).Type()) {
			continue
		}
		// the step precedes the write when the write can execute after it. (Judged per path: once the
		// body of a rendering helper is merged into its caller, an early step is no longer on every
		// CFG path to the write — its failure leaves through the merged error return.)
		before := false
		for _, in := range reachableAfter(q.Instr, nil) {
			if in == site {
				before = true
				break
			}
		}
		if !before {
			continue
		}
		if !p.pfFuncContains(callee, func(k Call) bool {
			return isReaderGet(k.Common) || pfObjCheckSig(k.Common.Signature()) || isCallTo(k.Common, "(*text/template.Template).Execute")
		}) {
			continue
		}
		if !p.errOfCallIsNil(fs, qc) && !p.c18ErrCheckedBefore(qc, site) {
			x.problems = append(x.problems, fmt.Sprintf("the error of %s (%s) is not known to be nil at %s", calleeName(q.Common), p.IPos(q.Instr), p.IPos(site)))
		} else {
			x.notes = append(x.notes, calleeName(q.Common)+" err==nil")
		}
	}
}

// certified: object x is known, at `site` (with facts fs), to have passed the wired preflight.
func (x *c18cert) certified(fn *ssa.Function, fs []Fact, site ssa.Instruction, obj ssa.Value, depth int) bool {
	p := x.p
	obj = stripConv(obj)
	x.precedingOK(fn, fs, site)
	// 1. checked in this function
	for _, chk := range pfCheckCalls(fn, pfObjCheckSig) {
		a := callArgs(chk.Common())
		if !p.sameValue(a[2], obj) || !p.pfSuccess(fs, chk) {
			continue
		}
		if !p.mustPrecede(site, func(in ssa.Instruction) bool { return in == ssa.Instruction(chk) }) {
			continue
		}
		owner := stripConv(a[1])
		if !p.pfDerives(owner, func(v ssa.Value) bool { _, isP := v.(*ssa.Parameter); return isP }) {
			x.problems = append(x.problems, "the preflight owner at "+p.IPos(chk)+" is not derived from the template parameter")
		}
		if !p.pfDerives(chk.Common().Value, func(v ssa.Value) bool {
			fa, ok := v.(*ssa.FieldAddr)
			return ok && len(fn.Params) > 0 && fa.X == ssa.Value(fn.Params[0])
		}) {
			x.problems = append(x.problems, "the checker used at "+p.IPos(chk)+" is not a field of the receiver (the wired checker)")
		}
		ownerNS := func(arg ssa.Value) bool {
			gc, _ := asCall(arg)
			if gc == nil || calleeName(gc.Common()) != "GetNamespace" {
				return false
			}
			return p.sameValue(callRecv(gc.Common()), owner)
		}
		for _, in := range between(chk, site) {
			if bad, what := p.pfIdentityMutation(in, obj, ownerNS); bad {
				x.problems = append(x.problems, "the checked object is re-addressed after the preflight: "+what)
			}
		}
		x.notes = append(x.notes, "Check at "+p.IPos(chk))
		return true
	}
	if depth <= 0 {
		return false
	}
	// 2. certified by an error-free same-package helper
	for _, h := range callsIn(fn) {
		hc, isCall := h.Instr.(*ssa.Call)
		if !isCall || h.Instr == site {
			continue
		}
		callee := staticCallee(h.Common)
		if callee == nil || callee.Blocks == nil || funcPkgPath(callee) != funcPkgPath(fn) {
			continue
		}
		j := -1
		for i, a := range h.Common.Args {
			if p.sameValue(a, obj) {
				j = i
			}
		}
		if j < 0 || j >= len(callee.Params) || !p.errOfCallIsNil(fs, hc) {
			continue
		}
		all, n := true, 0
		for _, rc := range p.returnCases(callee) {
			if len(rc.Results) == 0 || !p.c18ErrMayBeNil(rc.Facts, rc.Results[len(rc.Results)-1]) {
				continue
			}
			n++
			if !x.certified(callee, rc.Facts, rc.Ret, callee.Params[j], depth-1) {
				all = false
				x.problems = append(x.problems, "error-free return of "+shortFuncID(callee)+" at "+p.IPos(rc.Ret)+" does not certify its object parameter")
			}
		}
		if !all || n == 0 {
			continue
		}
		for _, in := range between(hc, site) {
			if bad, what := p.pfIdentityMutation(in, obj, nil); bad {
				x.problems = append(x.problems, "the certified object is re-addressed after "+calleeName(h.Common)+": "+what)
			}
		}
		x.notes = append(x.notes, "certified by "+calleeName(h.Common)+" at "+p.IPos(hc))
		return true
	}
	// 3. the object is a parameter: certified at every caller
	if prm, ok := obj.(*ssa.Parameter); ok && prm.Parent() == fn {
		idx := -1
		for i, q := range fn.Params {
			if q == prm {
				idx = i
			}
		}
		for _, b := range fn.Blocks {
			for _, in := range b.Instrs {
				if bad, what := p.pfIdentityMutation(in, obj, nil); bad {
					x.problems = append(x.problems, "the object parameter is re-addressed inside "+shortFuncID(fn)+": "+what)
				}
			}
		}
		callers := p.callersOf(fn)
		if idx < 0 || len(callers) == 0 || p.addressTaken(fn) || fn.Parent() != nil {
			return false
		}
		for _, cl := range callers {
			if idx >= len(cl.Common.Args) {
				return false
			}
			if !x.certified(cl.Fn, p.FactsAt(cl.Instr.Block()), cl.Instr, cl.Common.Args[idx], depth-1) {
				x.problems = append(x.problems, "not certified at the caller "+shortFuncID(cl.Fn)+" ("+p.IPos(cl.Instr)+")")
				return false
			}
		}
		return true
	}
	return false
}

func c18WriteGuards(c *Ctx) {
	p := c.P
	type site struct {
		name string
		in   ssa.Instruction
		obj  ssa.Value
	}
	for _, fn := range p.FuncsIn(pkgObjTemplate) {
		var sites []site
		for _, cc := range callsIn(fn) {
			if ws, ok := classifyWriter(cc); ok {
				if pfNonDryWriter(ws) {
					sites = append(sites, site{ws.Verb, cc.Instr, ws.Obj})
				}
				continue
			}
			callee := staticCallee(cc.Common)
			if callee == nil || callee.Blocks == nil || funcPkgPath(callee) == pkgObjTemplate || p.pfFuncWrites(callee) == nil {
				continue
			}
			for i, a := range cc.Common.Args {
				if i >= len(callee.Params) {
					break
				}
				t := namedTypeString(callee.Params[i].Type())
				if t != pkgUnstr+".Unstructured" && t != pkgClient+".Object" {
					continue
				}
				if classifyObjectArg(a) == "typed" {
					continue
				}
				if c11SetsIdentity(callee) {
					c.Ob(fn, "helper-"+callee.Name(), cc.Instr, "a writing helper does not re-address the object it is given").Fail("%s changes namespace/name/kind of an object before writing it", shortFuncID(callee))
				}
				sites = append(sites, site{callee.Name(), cc.Instr, a})
			}
		}
		for _, s := range sites {
			o := c.Ob(fn, "write-"+s.name, s.in, c.rule.Statement)
			x := &c18cert{p: p}
			ok := x.certified(fn, p.FactsAt(s.in.Block()), s.in, s.obj, 3)
			switch {
			case !ok:
				o.Fail("write of %s is not certified by a successful preflight of that object: %s", p.describe(s.obj), strings.Join(uniqStrings(x.problems), "; "))
			case len(x.problems) > 0:
				o.Fail("%s", strings.Join(uniqStrings(x.problems), "; "))
			default:
				o.OK(uniqStrings(x.notes)...)
			}
		}
	}
}

// ---------------------------------------------------------------------------------------------
// R1

func c18IsWatch(cc *ssa.CallCommon) bool {
	if calleeName(cc) != "Watch" {
		return false
	}
	sig := cc.Signature()
	if sig.Params().Len() != 3 || sig.Results().Len() != 1 || !pfIsErrorType(sig.Results().At(0).Type()) {
		return false
	}
	return isClientObjectType(sig.Params().At(1).Type()) && namedTypeString(sig.Params().At(2).Type()) == "k8s.io/apimachinery/pkg/runtime.Object"
}

var c18KindSetters = map[string]bool{"SetKind": true, "SetAPIVersion": true, "SetGroupVersionKind": true, "SetUnstructuredContent": true, "UnmarshalJSON": true}

// watched: at site (facts fs) an error-free Watch of obj's kind has happened in this activation.
func (p *Program) c18Watched(fn *ssa.Function, fs []Fact, site ssa.Instruction, obj ssa.Value, depth int) (bool, string) {
	obj = stripConv(obj)
	for _, w := range callsIn(fn) {
		wc, isCall := w.Instr.(*ssa.Call)
		if !isCall || !c18IsWatch(w.Common) {
			continue
		}
		if !p.errOfCallIsNil(fs, wc) || !p.mustPrecede(site, func(in ssa.Instruction) bool { return in == w.Instr }) {
			continue
		}
		wobj := stripConv(callArgs(w.Common)[2])
		if p.sameValue(wobj, obj) {
			for _, in := range between(wc, site) {
				if ci, isCI := in.(ssa.CallInstruction); isCI && c18KindSetters[calleeName(ci.Common())] {
					if r := callRecv(ci.Common()); r != nil && p.sameValue(r, obj) {
						return false, "the kind of the object is changed between Watch and read at " + p.IPos(in)
					}
				}
			}
			return true, "Watch at " + p.IPos(wc)
		}
		// a fresh object given the watched object's GVK
		for _, s := range callsIn(fn) {
			if calleeName(s.Common) != "SetGroupVersionKind" || !p.sameValue(callRecv(s.Common), obj) {
				continue
			}
			g, _ := asCall(callArgs(s.Common)[0])
			if g != nil && calleeName(g.Common()) == "GroupVersionKind" && p.sameValue(callRecv(g.Common()), wobj) &&
				p.mustPrecede(site, func(in ssa.Instruction) bool { return in == s.Instr }) {
				return true, "Watch at " + p.IPos(wc) + " (same GVK)"
			}
		}
	}
	if depth <= 0 {
		return false, "no error-free Watch of the read object's kind precedes the read"
	}
	if prm, ok := obj.(*ssa.Parameter); ok && prm.Parent() == fn && fn.Parent() == nil && !p.addressTaken(fn) {
		idx := -1
		for i, q := range fn.Params {
			if q == prm {
				idx = i
			}
		}
		callers := p.callersOf(fn)
		if idx < 0 || len(callers) == 0 {
			return false, "no caller"
		}
		var notes []string
		for _, cl := range callers {
			ok, why := p.c18Watched(cl.Fn, p.FactsAt(cl.Instr.Block()), cl.Instr, cl.Common.Args[idx], depth-1)
			if !ok {
				return false, "caller " + shortFuncID(cl.Fn) + ": " + why
			}
			notes = append(notes, why)
		}
		return true, strings.Join(uniqStrings(notes), ", ")
	}
	return false, "no error-free Watch of the read object's kind precedes the read"
}

func c18r1(c *Ctx) {
	p := c.P
	// (a) watch before read
	for _, fn := range p.FuncsIn(pkgObjTemplate) {
		for _, cc := range callsIn(fn) {
			if !isReaderGet(cc.Common) {
				continue
			}
			obj := callArgs(cc.Common)[2]
			if classifyObjectArg(obj) == "typed" {
				continue
			}
			o := c.Ob(fn, "read-"+calleeName(cc.Common), cc.Instr, "a dynamic object is read only after an error-free dynamicCache.Watch of its kind in the same activation")
			ok, why := p.c18Watched(fn, p.FactsAt(cc.Instr.Block()), cc.Instr, obj, 2)
			if ok {
				o.OK(why)
			} else {
				o.Fail("read of %s: %s", p.describe(obj), why)
			}
		}
	}

	// (b) event wiring
	nw := 0
	for _, fn := range p.FuncsIn(pkgObjTemplate) {
		for _, cc := range callsIn(fn) {
			callee := staticCallee(cc.Common)
			if callee == nil || funcPkgPath(callee) != pkgDynCache || callee.Signature.Results().Len() != 1 ||
				namedTypeString(callee.Signature.Results().At(0).Type()) != pkgDynCache+".EnqueueWatchingObjects" {
				continue
			}
			nw++
			ctor := cc.Instr.(*ssa.Call)
			o := c.Ob(fn, "event-wiring", cc.Instr, "the controller watches the dynamic cache's event source with an EnqueueWatchingObjects handler over the same cache and the template type, and completes the builder")
			var problems, undecided []string
			var src *ssa.Call
			for _, k := range callsIn(fn) {
				if k.Common.IsInvoke() && k.Common.Method.Name() == "Source" && len(k.Common.Args) >= 1 && stripConv(k.Common.Args[0]) == ssa.Value(ctor) {
					src, _ = k.Instr.(*ssa.Call)
				}
			}
			if src == nil {
				problems = append(problems, "the handler is not passed to <dynamic cache>.Source(...)")
			} else {
				if !p.sameValue(src.Common().Value, cc.Common.Args[0]) {
					undecided = append(undecided, "cannot establish that the handler resolves owners from the cache whose events it receives: owners from "+p.describe(cc.Common.Args[0])+", events from "+p.describe(src.Common().Value))
				}
				var raw, forC, compl *ssa.Call
				for _, k := range callsIn(fn) {
					kc, isCall := k.Instr.(*ssa.Call)
					if !isCall {
						continue
					}
					switch pfBaseName(k.Common) {
					case "WatchesRawSource":
						for _, a := range callArgs(k.Common) {
							if stripConv(a) == ssa.Value(src) {
								raw = kc
							}
						}
					case "For":
						forC = kc
					case "Complete":
						compl = kc
					}
				}
				switch {
				case raw == nil:
					problems = append(problems, "the source is not registered with WatchesRawSource")
				case compl == nil || !p.pfDerives(callRecv(compl.Common()), pfIsValue(raw)):
					problems = append(problems, "the builder carrying the source is never completed")
				case forC == nil || !p.pfDerives(callRecv(raw.Common()), pfIsValue(forC)):
					problems = append(problems, "the source is not attached to the builder of the template type")
				case !p.sameValue(callArgs(forC.Common())[0], cc.Common.Args[1]):
					undecided = append(undecided, "cannot establish that the watcher type of the handler is the type the controller reconciles (For)")
				}
			}
			c11Conclude(o, problems, undecided, nil)
		}
	}
	if nw == 0 {
		c.AnchorLost("construction of a dynamiccache.EnqueueWatchingObjects handler in the ObjectTemplate controller")
	}

	// (c) the handler enqueues every matching owner, for every event kind
	c18Enqueue(c)

	// (d) optional / required sources
	c18Retry(c)
}

func c18Enqueue(c *Ctx) {
	p := c.P
	var enq *ssa.Function
	for _, fn := range p.FuncsIn(pkgDynCache) {
		hasOwners, hasAdd := false, false
		for _, cc := range callsIn(fn) {
			if cc.Common.IsInvoke() && cc.Common.Method.Name() == "OwnersForGKV" {
				hasOwners = true
			}
			if cc.Common.IsInvoke() && cc.Common.Method.Name() == "Add" && strings.Contains(calleeID(cc.Common), "workqueue") {
				hasAdd = true
			}
		}
		if hasOwners && hasAdd {
			enq = fn
		}
	}
	if enq == nil {
		c.AnchorLost("the function that enqueues the owners returned by OwnersForGKV")
		return
	}
	o := c.Ob(enq, "enqueue-every-owner", nil, "every owner of the event object's GVK whose group-kind equals the watcher type is enqueued by name and namespace")
	var problems []string
	var owners, add *ssa.Call
	for _, cc := range callsIn(enq) {
		if call, ok := cc.Instr.(*ssa.Call); ok && cc.Common.IsInvoke() {
			switch cc.Common.Method.Name() {
			case "OwnersForGKV":
				owners = call
			case "Add":
				add = call
			}
		}
	}
	L := innermostLoop(enq, add.Block())
	if L == nil {
		o.Fail("q.Add is not inside a loop over the owners")
		return
	}
	ls, why := p.c11LoopShape(L)
	if ls == nil {
		o.Unknown("%s", why)
		return
	}
	if stripConv(ls.coll) != ssa.Value(owners) {
		problems = append(problems, "the loop is not bounded by the length of the OwnersForGKV result")
	}
	// the GVK asked for is the GVK of the event object (first non-receiver parameter)
	evObj := enq.Params[1]
	if !p.pfDerives(owners.Common().Args[0], pfIsValue(evObj)) {
		problems = append(problems, "owners are not looked up for the GVK of the event object")
	}
	elem := func(v ssa.Value) bool {
		ia, ok := v.(*ssa.IndexAddr)
		return ok && ia.Index == ls.idx
	}
	recv := enq.Params[0]
	for b := range L.Body {
		for _, s := range b.Succs {
			if !L.Body[s] && !(b == L.Head && s == ls.exit) {
				problems = append(problems, fmt.Sprintf("the loop is left early from b%d", b.Index))
			}
		}
	}
	// every way through the loop body that does not enqueue the element must have observed a
	// group/kind mismatch between the element and the watcher type. Judged per path (the body is
	// small and acyclic), so `continue` guards, wrapped bodies, nested ifs, `&&`/`||` and booleans that
	// materialise the comparison (De Morgan included) are all the same thing.
	isGK := func(v ssa.Value, base func(ssa.Value) bool, bind *c18bind) string {
		u, isU := v.(*ssa.UnOp)
		if !isU {
			return ""
		}
		fa, isFA := u.X.(*ssa.FieldAddr)
		if !isFA {
			return ""
		}
		n := fieldName(fa.X.Type(), fa.Field)
		if n != "Kind" && n != "Group" {
			// the whole pair compared as a struct: schema.GroupKind has exactly the fields Group and
			// Kind, so `a != b` holds iff the group or the kind differs
			if _, isPtr := u.Type().Underlying().(*types.Pointer); isPtr || namedTypeString(u.Type()) != "k8s.io/apimachinery/pkg/runtime/schema.GroupKind" {
				return ""
			}
			n = "GroupKind"
		}
		// inside an extracted predicate the operands derive from its parameters, which stand for the
		// arguments of the call in the loop body
		if p.c18DerivesX(fa.X, bind, 0, func(x ssa.Value, _ *c18bind) bool { return base(x) }) {
			return n
		}
		return ""
	}
	fromRecv := func(v ssa.Value) bool { return v == ssa.Value(recv) }
	isMismatchIn := func(f Fact, bind *c18bind) bool {
		bin, isBin := f.Cond.(*ssa.BinOp)
		if !isBin || !((bin.Op == token.NEQ && f.Pol) || (bin.Op == token.EQL && !f.Pol)) {
			return false
		}
		if n := isGK(bin.X, elem, bind); n != "" && n == isGK(bin.Y, fromRecv, bind) {
			return true
		}
		if n := isGK(bin.Y, elem, bind); n != "" && n == isGK(bin.X, fromRecv, bind) {
			return true
		}
		return false
	}
	// a fact about the boolean result of an extracted predicate (left in place as a call) stands for
	// what the predicate observed: it is a mismatch when every way the predicate can return that
	// value has observed one
	var isMismatchAt func(f Fact, bind *c18bind, depth int) bool
	isMismatchAt = func(f Fact, bind *c18bind, depth int) bool {
		if isMismatchIn(f, bind) {
			return true
		}
		call, isCall := f.Cond.(*ssa.Call)
		if !isCall || depth > 2 {
			return false
		}
		h := staticCallee(call.Common())
		if h == nil || !p.inlinable(h) || h.Signature.Results().Len() != 1 {
			return false
		}
		hpaths, complete := p.c18ReturnPaths(h)
		if !complete {
			return false
		}
		inner := &c18bind{call: call, outer: bind}
		n := 0
		for _, hp := range hpaths {
			last := hp.blocks[len(hp.blocks)-1]
			ret, _ := last.Instrs[len(last.Instrs)-1].(*ssa.Return)
			if ret == nil || len(ret.Results) != 1 {
				return false
			}
			fs := hp.facts
			v := hp.resolve(ret.Results[0])
			if cb, isConst := constBool(v); isConst {
				if cb != f.Pol {
					continue
				}
			} else {
				vf := p.mkFact(v, f.Pol)
				contradicted := false
				for _, g := range fs {
					if g.key[2:] == vf.key[2:] && g.Pol != vf.Pol {
						contradicted = true
					}
				}
				if contradicted {
					continue
				}
				fs = append(append([]Fact{}, fs...), vf)
			}
			n++
			ok := false
			for _, g := range fs {
				if isMismatchAt(g, inner, depth+1) {
					ok = true
				}
			}
			if !ok {
				return false
			}
		}
		return n > 0
	}
	isMismatch := func(f Fact) bool { return isMismatchAt(f, nil, 0) }
	paths, complete := p.c18PathsAvoiding(L, add.Block())
	if !complete {
		o.Unknown("the body of the loop over the owners has too many paths to classify the skipped owners")
		return
	}
	for _, path := range paths {
		fs, feasible := p.c18PathFacts(path)
		if !feasible {
			continue
		}
		okSkip := false
		for _, f := range fs {
			if isMismatch(f) {
				okSkip = true
			}
		}
		if !okSkip {
			var bs []string
			for _, b := range path {
				bs = append(bs, fmt.Sprintf("b%d", b.Index))
			}
			problems = append(problems, "an owner is skipped (path "+strings.Join(bs, "→")+") for a reason other than a group/kind mismatch with the watcher type")
		}
	}
	// the request names the element (the request may be built by an extracted helper)
	carries := func(field string) bool {
		return p.c18DerivesX(add.Common().Args[0], nil, 0, func(v ssa.Value, b *c18bind) bool {
			fa, ok := v.(*ssa.FieldAddr)
			return ok && fieldName(fa.X.Type(), fa.Field) == field &&
				p.c18DerivesX(fa.X, b, 0, func(x ssa.Value, _ *c18bind) bool { return elem(x) })
		})
	}
	if !carries("Name") || !carries("Namespace") {
		problems = append(problems, "the enqueued request does not carry the owner's name and namespace")
	}
	if len(problems) == 0 {
		o.OK()
	} else {
		o.Fail("%s", strings.Join(problems, "; "))
	}
	// event kinds
	for _, ev := range []string{"Create", "Update", "Delete"} {
		var h *ssa.Function
		for _, fn := range p.FuncsIn(pkgDynCache) {
			if fn.Name() == ev && fn.Signature.Recv() != nil && fn.Signature.Recv().Type().String() == enq.Signature.Recv().Type().String() {
				h = fn
			}
		}
		if h == nil {
			c.AnchorLost("event handler method " + ev)
			continue
		}
		oo := c.Ob(h, "handles-"+ev, nil, "the "+ev+" event enqueues the watchers of the event object on every path")
		found := false
		for _, cc := range callsIn(h) {
			if staticCallee(cc.Common) != enq {
				continue
			}
			if !p.pfDerives(cc.Common.Args[1], pfIsValue(h.Params[2])) {
				continue
			}
			// executed on every path: its block dominates every return
			all := true
			for _, b := range h.Blocks {
				if _, isRet := b.Instrs[len(b.Instrs)-1].(*ssa.Return); isRet && !cc.Instr.Block().Dominates(b) {
					all = false
				}
			}
			if all {
				found = true
			}
		}
		if found {
			oo.OK()
		} else {
			oo.Fail("the handler does not unconditionally enqueue the watchers of the event's object")
		}
	}
}

// c18PathsAvoiding enumerates the acyclic paths of one iteration of loop L (from the head back to the
// head) that do not pass through block `avoid`. complete=false when there are too many.
func (p *Program) c18PathsAvoiding(L *Loop, avoid *ssa.BasicBlock) (paths [][]*ssa.BasicBlock, complete bool) {
	complete = true
	var walk func(path []*ssa.BasicBlock)
	walk = func(path []*ssa.BasicBlock) {
		if !complete {
			return
		}
		b := path[len(path)-1]
		for _, s := range b.Succs {
			switch {
			case s == L.Head:
				if len(paths) >= 512 {
					complete = false
					return
				}
				paths = append(paths, append(append([]*ssa.BasicBlock{}, path...), s))
			case !L.Body[s] || s == avoid:
			default:
				onPath := false
				for _, x := range path {
					if x == s {
						onPath = true
					}
				}
				if !onPath {
					walk(append(append([]*ssa.BasicBlock{}, path...), s))
				}
			}
		}
	}
	walk([]*ssa.BasicBlock{L.Head})
	return paths, complete
}

// c18PathFacts: the conditions known along a concrete path. A condition that is a boolean phi is
// resolved to the value it received on this path; feasible=false when a constant phi input
// contradicts the branch taken.
func (p *Program) c18PathFacts(path []*ssa.BasicBlock) (fs []Fact, feasible bool) {
	pi := p.c18PathInfo(path)
	if pi == nil {
		return nil, false
	}
	return pi.facts, true
}

// c18Path: one concrete control-flow path with what is known on it. Values that merge at a block of
// the path (phis: the results of a helper whose body was merged into its caller, booleans that
// materialise a guard) are resolved to the value they receive over the edge the path takes.
type c18Path struct {
	p      *Program
	blocks []*ssa.BasicBlock
	pos    map[*ssa.BasicBlock]int
	facts  []Fact
	nilOf  map[ssa.Value]bool // nil tests of phis, resolved to the incoming value: value → is nil
}

// resolve follows phis of blocks on the path to the value flowing in on this path.
func (pi *c18Path) resolve(v ssa.Value) ssa.Value {
	for n := 0; n < 8 && v != nil; n++ {
		ph, isPhi := stripConv(v).(*ssa.Phi)
		if !isPhi {
			if u, isU := v.(*ssa.UnOp); isU && u.Op == token.MUL {
				if src, ok := pi.p.loadSource(u); ok {
					v = src
					continue
				}
			}
			return v
		}
		k, on := pi.pos[ph.Block()]
		if !on || k == 0 {
			return v
		}
		var in ssa.Value
		for j, pr := range ph.Block().Preds {
			if pr == pi.blocks[k-1] && j < len(ph.Edges) {
				in = ph.Edges[j]
			}
		}
		if in == nil {
			return v
		}
		v = in
	}
	return v
}

// nilness of an error value on this path: yesTri = nil, noTri = non-nil.
func (pi *c18Path) nilness(v ssa.Value) tri {
	v = pi.resolve(v)
	if v == nil {
		return unknownTri
	}
	if isNilConst(stripConv(v)) {
		return yesTri
	}
	if definitelyNonNil(v) {
		return noTri
	}
	if isNil, ok := pi.nilOf[stripConv(v)]; ok {
		if isNil {
			return yesTri
		}
		return noTri
	}
	return pi.p.nilnessFromFacts(pi.facts, v)
}

// errOfCall: nilness of the error result of call c on this path.
func (pi *c18Path) errOfCall(c *ssa.Call) tri {
	res := c.Common().Signature().Results()
	for v, isNil := range pi.nilOf {
		if cc, idx := asCall(v); cc == c && (idx == res.Len()-1 || idx == -1 && res.Len() == 1) {
			if isNil {
				return yesTri
			}
			return noTri
		}
	}
	return pi.p.errOfCall(pi.facts, c)
}

func (p *Program) c18PathInfo(path []*ssa.BasicBlock) *c18Path {
	pi := &c18Path{p: p, blocks: path, pos: map[*ssa.BasicBlock]int{}, nilOf: map[ssa.Value]bool{}}
	for i, b := range path {
		if _, dup := pi.pos[b]; !dup {
			pi.pos[b] = i
		}
	}
	// the value a phi of a block on the path (position 1..i) receives
	incoming := func(ph *ssa.Phi, i int) ssa.Value {
		k, on := pi.pos[ph.Block()]
		if !on || k == 0 || k > i {
			return nil
		}
		for j, pr := range ph.Block().Preds {
			if pr == path[k-1] && j < len(ph.Edges) {
				return ph.Edges[j]
			}
		}
		return nil
	}
	for i := 0; i+1 < len(path); i++ {
		for _, f := range p.edgeFacts(path[i], path[i+1]) {
			for n := 0; n < 8; n++ {
				if ph, isPhi := f.Cond.(*ssa.Phi); isPhi {
					in := incoming(ph, i)
					if in == nil {
						break
					}
					if cb, isC := constBool(in); isC {
						if cb != f.Pol {
							return nil
						}
						f = Fact{}
						break
					}
					f = p.mkFact(in, f.Pol)
					continue
				}
				// nil test of a merged value
				x, trueMeansNonNil, isNilTest := errNilTest(f.Cond)
				if !isNilTest {
					break
				}
				isNil := f.Pol != trueMeansNonNil
				cur := stripConv(x)
				resolved := false
				for m := 0; m < 8; m++ {
					ph, isPhi := cur.(*ssa.Phi)
					if !isPhi {
						break
					}
					in := incoming(ph, i)
					if in == nil {
						break
					}
					cur = stripConv(in)
					resolved = true
				}
				if !resolved {
					break
				}
				switch {
				case isNilConst(cur):
					if !isNil {
						return nil
					}
				case definitelyNonNil(cur):
					if isNil {
						return nil
					}
				default:
					if prev, known := pi.nilOf[cur]; known && prev != isNil {
						return nil
					}
					pi.nilOf[cur] = isNil
				}
				f = Fact{}
				break
			}
			if f.Cond != nil {
				pi.facts = append(pi.facts, f)
			}
		}
	}
	// contradictory facts make the path infeasible
	seen := map[string]bool{}
	for _, f := range pi.facts {
		k := p.key(f.Cond)
		if v, ok := seen[k]; ok && v != f.Pol {
			return nil
		}
		seen[k] = f.Pol
	}
	for v, isNil := range pi.nilOf {
		switch p.nilnessFromFacts(pi.facts, v) {
		case yesTri:
			if !isNil {
				return nil
			}
		case noTri:
			if isNil {
				return nil
			}
		}
	}
	return pi
}

// c18ReturnPaths enumerates the feasible acyclic paths from the entry of fn to its normal returns.
// complete=false when fn has loops or too many paths (the caller must not conclude anything then).
func (p *Program) c18ReturnPaths(fn *ssa.Function) (paths []*c18Path, complete bool) {
	if len(fn.Blocks) == 0 || len(loopsOf(fn)) > 0 {
		return nil, false
	}
	complete = true
	n := 0
	var walk func(path []*ssa.BasicBlock)
	walk = func(path []*ssa.BasicBlock) {
		if !complete {
			return
		}
		b := path[len(path)-1]
		if len(b.Instrs) > 0 {
			if _, isRet := b.Instrs[len(b.Instrs)-1].(*ssa.Return); isRet {
				n++
				if n > 4096 {
					complete = false
					return
				}
				if pi := p.c18PathInfo(append([]*ssa.BasicBlock{}, path...)); pi != nil {
					paths = append(paths, pi)
				}
				return
			}
		}
		for _, s := range b.Succs {
			walk(append(append([]*ssa.BasicBlock{}, path...), s))
		}
	}
	walk([]*ssa.BasicBlock{fn.Blocks[0]})
	return paths, complete
}

// c18bind maps the parameters of an extracted helper to the arguments of the call under inspection.
type c18bind struct {
	call  *ssa.Call
	outer *c18bind
}

// c18DerivesX: pfDerives that also looks into the results of extracted (inlinable) helpers, with the
// helper's parameters standing for the arguments of that call.
func (p *Program) c18DerivesX(v ssa.Value, bind *c18bind, depth int, pred func(ssa.Value, *c18bind) bool) bool {
	return p.pfDerives(v, func(x ssa.Value) bool {
		if pred(x, bind) {
			return true
		}
		if prm, ok := x.(*ssa.Parameter); ok && bind != nil {
			if h := staticCallee(bind.call.Common()); h != nil && prm.Parent() == h {
				if i := paramIndex(h, prm); i >= 0 && i < len(bind.call.Common().Args) {
					return p.c18DerivesX(bind.call.Common().Args[i], bind.outer, depth, pred)
				}
			}
			return false
		}
		if call, ok := x.(*ssa.Call); ok && depth < 3 {
			if h := staticCallee(call.Common()); h != nil && p.inlinable(h) {
				for _, b := range h.Blocks {
					if len(b.Instrs) == 0 || (h.Recover != nil && b == h.Recover) {
						continue
					}
					if ret, isRet := b.Instrs[len(b.Instrs)-1].(*ssa.Return); isRet {
						for _, r := range ret.Results {
							if p.c18DerivesX(r, &c18bind{call: call, outer: bind}, depth+1, pred) {
								return true
							}
						}
					}
				}
			}
		}
		return false
	})
}

func c18Retry(c *Ctx) {
	p := c.P
	// (i) a source read may report "not found, no error" only for NotFound ∧ Optional
	n := 0
	for _, fn := range p.FuncsIn(pkgObjTemplate) {
		if !c18IsLookupFunc(fn) {
			continue
		}
		n++
		gets := c18DynamicGets(fn)
		o := c.Ob(fn, "missing-source", gets[len(gets)-1], "a source lookup reports 'absent without error' only when the read returned NotFound and the source is marked Optional; found=true only under err==nil")
		verdicts, complete := p.c18LookupVerdicts(fn)
		if !complete {
			o.Unknown("the lookup has loops or too many paths to classify its verdicts")
			continue
		}
		var problems []string
		for _, v := range verdicts {
			if v.errNil == noTri {
				continue // an error return
			}
			at := p.IPos(v.ret)
			b, isConst := constBool(v.found)
			switch {
			case v.deleg != nil:
				// the verdict of a nested lookup (judged there) is passed on
				dFound := c11ExtractOf(v.deleg, v.deleg.Common().Signature().Results().Len()-2)
				switch {
				case v.path.errOfCall(v.deleg) != yesTri:
					problems = append(problems, "verdict at "+at+" without err==nil of the nested lookup "+calleeName(v.deleg.Common()))
				case dFound != nil && stripConv(v.found) == ssa.Value(dFound):
				case isConst && dFound != nil && p.boolFromFacts(v.path.facts, dFound) == boolTri(b):
				default:
					problems = append(problems, "the found result at "+at+" is not the verdict of the nested lookup "+calleeName(v.deleg.Common()))
				}
			case !isConst:
				problems = append(problems, "unrecognised found result at "+at)
			case v.get == nil:
				problems = append(problems, fmt.Sprintf("found=%v at %s is reported without a read", b, at))
			case b:
				if v.path.errOfCall(v.get) != yesTri {
					problems = append(problems, "found=true at "+at+" without err==nil of the read")
				}
			default:
				nf, opt := v.notFound, v.optional
				if !nf || !opt {
					problems = append(problems, fmt.Sprintf("absent-without-error return at %s is not restricted to NotFound(%v) ∧ src.Optional(%v)", at, nf, opt))
				}
			}
		}
		c11Conclude(o, uniqStrings(problems), nil, nil)
	}
	if n == 0 {
		c.AnchorLost("a (found bool, err error) source lookup in the ObjectTemplate controller")
	}
	// (ii) an absent optional source makes the collector report retryLater=true, and the reconciler requeues
	m := 0
	for _, fn := range p.FuncsIn(pkgObjTemplate) {
		for _, b := range fn.Blocks {
			for _, in := range b.Instrs {
				st, ok := in.(*ssa.Store)
				if !ok {
					continue
				}
				fa, ok := st.Addr.(*ssa.FieldAddr)
				if !ok || fieldName(fa.X.Type(), fa.Field) != "RequeueAfter" {
					continue
				}
				// guarded by a bool result of an error-free same-package call?
				for _, f := range p.FactsAt(b) {
					hc, idx := asCall(f.Cond)
					if hc == nil || idx != 0 || !f.Pol {
						continue
					}
					callee := staticCallee(hc.Common())
					if callee == nil || funcPkgPath(callee) != pkgObjTemplate || !p.errOfCallIsNil(p.FactsAt(b), hc) {
						continue
					}
					m++
					o := c.Ob(fn, "optional-source-requeue", st, "when the source collector reports retryLater the reconcile result requests a requeue; the collector reports retryLater whenever a source was absent")
					var problems []string
					if n, isC := constInt(st.Val); isC && n == 0 {
						problems = append(problems, "RequeueAfter is set to zero")
					}
					// no later store resets it
					for _, later := range reachableAfter(st, nil) {
						if s2, ok := later.(*ssa.Store); ok && s2 != st {
							if fa2, ok := s2.Addr.(*ssa.FieldAddr); ok && fa2.X == fa.X && fa2.Field == fa.Field {
								problems = append(problems, "RequeueAfter is overwritten at "+p.IPos(s2))
							}
						}
					}
					problems = append(problems, p.c18CollectorReportsAbsent(callee)...)
					c11Conclude(o, problems, nil, nil)
				}
			}
		}
	}
	if m == 0 {
		c.AnchorLost("a RequeueAfter assignment guarded by the retryLater result of the source collector")
	}
}

// c18CollectorReportsAbsent: in the collector (returns (bool, error)), whenever a per-source lookup
// returns found=false without error, the bool result of every later error-free return is true.
func (p *Program) c18CollectorReportsAbsent(fn *ssa.Function) (problems []string) {
	var look *ssa.Call
	for _, cc := range callsIn(fn) {
		callee := staticCallee(cc.Common)
		if callee == nil || funcPkgPath(callee) != funcPkgPath(fn) {
			continue
		}
		res := callee.Signature.Results()
		if res.Len() == 3 && res.At(1).Type().String() == "bool" && pfIsErrorType(res.At(2).Type()) {
			look, _ = cc.Instr.(*ssa.Call)
		}
	}
	if look == nil {
		return []string{"no per-source lookup returning (obj, found, err) in " + shortFuncID(fn)}
	}
	found := c11ExtractOf(look, 1)
	if found == nil {
		return []string{"the found result of the source lookup is ignored in " + shortFuncID(fn)}
	}
	// the edge on which found is false
	var absent *ssa.BasicBlock
	var from *ssa.BasicBlock
	for _, b := range fn.Blocks {
		iff, ok := b.Instrs[len(b.Instrs)-1].(*ssa.If)
		if !ok {
			continue
		}
		f := p.mkFact(iff.Cond, true)
		if f.Cond != found {
			continue
		}
		from = b
		if f.Pol {
			absent = b.Succs[1]
		} else {
			absent = b.Succs[0]
		}
	}
	if absent == nil {
		return []string{"the found result of the source lookup is not branched on in " + shortFuncID(fn)}
	}
	// every error-free return's bool result: phi whose incoming value along the absent path is true.
	L := innermostLoop(fn, look.Block())
	for _, rc := range p.returnCases(fn) {
		if !p.c18ErrMayBeNil(rc.Facts, rc.Results[1]) {
			continue
		}
		v := rc.Results[0]
		ph, isPhi := v.(*ssa.Phi)
		if !isPhi || L == nil || ph.Block() != L.Head {
			problems = append(problems, "the retry flag returned at "+p.IPos(rc.Ret)+" is not the loop-carried flag")
			continue
		}
		// every back edge reachable from the absent block without passing `from` again must carry true
		okAll := true
		seen := map[*ssa.BasicBlock]bool{}
		work := []*ssa.BasicBlock{absent}
		for len(work) > 0 {
			b := work[len(work)-1]
			work = work[:len(work)-1]
			if seen[b] || !L.Body[b] {
				continue
			}
			seen[b] = true
			for _, s := range b.Succs {
				if s == L.Head {
					for i, pr := range L.Head.Preds {
						if pr == b {
							if bv, isC := constBool(ph.Edges[i]); !isC || !bv {
								okAll = false
							}
						}
					}
					continue
				}
				if s != from {
					work = append(work, s)
				}
			}
		}
		// and once true it stays true: other back edges carry the phi itself or true
		for i, pr := range L.Head.Preds {
			if !L.Body[pr] {
				continue
			}
			e := ph.Edges[i]
			if bv, isC := constBool(e); isC && bv {
				continue
			}
			if e == ssa.Value(ph) {
				continue
			}
			okAll = false
		}
		if !okAll {
			problems = append(problems, "an absent source does not (permanently) set the retry flag returned at "+p.IPos(rc.Ret))
		}
	}
	return problems
}

// ---------------------------------------------------------------------------------------------
// The condition handed to meta.SetStatusCondition, whatever way it was built

// c18FieldAlt is one value a field of a struct value may hold at the place the struct is used.
type c18FieldAlt struct {
	Val  ssa.Value // nil with Zero
	Zero bool      // the field holds its zero value
}

func c18FieldIndex(t types.Type, name string) int {
	if pt, ok := t.Underlying().(*types.Pointer); ok {
		t = pt.Elem()
	}
	st, ok := t.Underlying().(*types.Struct)
	if !ok {
		return -1
	}
	for i := 0; i < st.NumFields(); i++ {
		if st.Field(i).Name() == name {
			return i
		}
	}
	return -1
}

// c18StructFieldAlts resolves the values field `name` of the struct value v may hold. v is a
// composite literal or a local filled by field assignments (flow-sensitive: fieldDefsAt at the load),
// the result of a statically called function with a body (every return of it; a parameter of the
// function is bound to the argument of this call), a merge of those, or the zero struct. ok is false
// for every other shape: the caller must then treat the field as unknown.
func (p *Program) c18StructFieldAlts(v ssa.Value, name string, depth int) ([]c18FieldAlt, bool) {
	if v == nil || depth > 4 {
		return nil, false
	}
	switch x := stripConv(v).(type) {
	case *ssa.Const:
		if _, isStruct := x.Type().Underlying().(*types.Struct); isStruct && x.Value == nil {
			return []c18FieldAlt{{Zero: true}}, true
		}
		return nil, false
	case *ssa.UnOp:
		if x.Op != token.MUL {
			return nil, false
		}
		a, isA := x.X.(*ssa.Alloc)
		if !isA {
			return nil, false
		}
		idx := c18FieldIndex(a.Type(), name)
		if idx < 0 {
			return nil, false
		}
		defs, ok := p.fieldDefsAt(a, idx, x, nil)
		if !ok {
			// the variable's address is handed out: the flow-insensitive view of a literal
			f, _, isLit := compositeFields(x)
			if !isLit || a.Comment != "complit" {
				return nil, false
			}
			if _, dup := f[name+"#dup"]; dup {
				return nil, false
			}
			if f[name] == nil {
				return []c18FieldAlt{{Zero: true}}, true
			}
			return []c18FieldAlt{{Val: f[name]}}, true
		}
		var out []c18FieldAlt
		for _, d := range defs {
			switch {
			case d.Whole != nil:
				sub, ok := p.c18StructFieldAlts(d.Whole, name, depth+1)
				if !ok {
					return nil, false
				}
				out = append(out, sub...)
			case d.Val != nil:
				out = append(out, c18FieldAlt{Val: d.Val})
			default:
				out = append(out, c18FieldAlt{Zero: true})
			}
		}
		return out, len(out) > 0
	case *ssa.Phi:
		var out []c18FieldAlt
		for _, e := range x.Edges {
			sub, ok := p.c18StructFieldAlts(e, name, depth+1)
			if !ok {
				return nil, false
			}
			out = append(out, sub...)
		}
		return out, len(out) > 0
	case *ssa.Call:
		return p.c18ResultFieldAlts(x, 0, 1, name, depth)
	case *ssa.Extract:
		if call, isCall := x.Tuple.(*ssa.Call); isCall {
			return p.c18ResultFieldAlts(call, x.Index, -1, name, depth)
		}
	}
	return nil, false
}

// c18ResultFieldAlts: field `name` of result #idx of a static call, per return of the callee.
func (p *Program) c18ResultFieldAlts(call *ssa.Call, idx, wantResults int, name string, depth int) ([]c18FieldAlt, bool) {
	h := staticCallee(call.Common())
	if h == nil || len(h.Blocks) == 0 || h.Signature.Results().Len() <= idx {
		return nil, false
	}
	if wantResults >= 0 && h.Signature.Results().Len() != wantResults {
		return nil, false
	}
	var out []c18FieldAlt
	for _, b := range h.Blocks {
		for _, in := range b.Instrs {
			switch r := in.(type) {
			case *ssa.Defer:
				return nil, false // a deferred function may still change a named result
			case *ssa.Return:
				if len(r.Results) <= idx {
					return nil, false
				}
				sub, ok := p.c18StructFieldAlts(r.Results[idx], name, depth+1)
				if !ok {
					return nil, false
				}
				for _, alt := range sub {
					if alt.Val != nil {
						if prm, isPrm := stripConv(alt.Val).(*ssa.Parameter); isPrm && prm.Parent() == h {
							i := paramIndex(h, prm)
							if i < 0 || i >= len(call.Common().Args) {
								return nil, false
							}
							alt.Val = call.Common().Args[i]
						}
					}
					out = append(out, alt)
				}
			}
		}
	}
	return out, len(out) > 0
}

// c18CondSet is one meta.SetStatusCondition call with what is known of the condition it sets.
type c18CondSet struct {
	Call     Call
	Types    []c18FieldAlt // possible values of .Type; nil when the condition's construction is not understood
	Statuses []c18FieldAlt // likewise
	Reasons  []c18FieldAlt
}

func (p *Program) c18ConditionSets(fn *ssa.Function) []c18CondSet {
	var out []c18CondSet
	for _, c := range callsIn(fn) {
		if !isCallTo(c.Common, pkgMeta+".SetStatusCondition") || len(c.Common.Args) != 2 {
			continue
		}
		cs := c18CondSet{Call: c}
		cs.Types, _ = p.c18StructFieldAlts(c.Common.Args[1], "Type", 0)
		cs.Statuses, _ = p.c18StructFieldAlts(c.Common.Args[1], "Status", 0)
		cs.Reasons, _ = p.c18StructFieldAlts(c.Common.Args[1], "Reason", 0)
		out = append(out, cs)
	}
	return out
}

// c18AltsConst: every alternative is the same string constant.
func c18AltsConst(alts []c18FieldAlt) (string, bool) {
	val, have := "", false
	for _, a := range alts {
		if a.Zero || a.Val == nil {
			return "", false
		}
		s, ok := constString(a.Val)
		if !ok || (have && s != val) {
			return "", false
		}
		val, have = s, true
	}
	return val, have
}

func (p *Program) c18DescribeAlts(alts []c18FieldAlt) string {
	var parts []string
	for _, a := range alts {
		switch {
		case a.Zero || a.Val == nil:
			parts = append(parts, "<zero value>")
		default:
			if s, ok := constString(a.Val); ok {
				parts = append(parts, s)
			} else {
				parts = append(parts, p.describe(a.Val))
			}
		}
	}
	return strings.Join(uniqStrings(parts), " | ")
}

// ---------------------------------------------------------------------------------------------
// R4

func c18r4(c *Ctx) {
	p := c.P
	invalid, ok := p.pfConstString(pkgCoreV1, "ObjectTemplateInvalid")
	if !ok {
		c.AnchorLost("constant corev1alpha1.ObjectTemplateInvalid")
		return
	}
	isErrType := func(t types.Type, name string) bool {
		pt, isP := t.Underlying().(*types.Pointer)
		return isP && namedTypeString(pt.Elem()) == pkgObjTemplate+"."+name
	}
	// (a) the mapper: the function in which the decision to report Invalid is taken. Normally that is
	// the function containing the SetStatusCondition call; when the condition literal was extracted
	// into an unexported helper, it is the function (reached through the helper's call sites) in which
	// the errors.As test guards the call.
	var mapper *ssa.Function
	asGuard := func(fs []Fact) (string, bool) {
		var which string
		_, ok := p.findFactCall(fs, true, []string{"errors.As"}, func(cc *ssa.CallCommon) bool {
			if len(cc.Args) != 2 {
				return false
			}
			if _, isPrm := stripConv(cc.Args[0]).(*ssa.Parameter); !isPrm {
				return false
			}
			a, isA := stripConv(cc.Args[1]).(*ssa.Alloc)
			if !isA {
				return false
			}
			pt, _ := a.Type().Underlying().(*types.Pointer)
			for _, n := range []string{"SourceError", "TemplateError"} {
				if pt != nil && isErrType(pt.Elem(), n) {
					which = n
					return true
				}
			}
			return false
		})
		return which, ok
	}
	type invCtx struct {
		fn    *ssa.Function
		site  ssa.Instruction
		chain []Call // helper calls from fn down to the SetStatusCondition (outermost first)
	}
	var contextsOf func(fn *ssa.Function, site ssa.Instruction, chain []Call, depth int) ([]invCtx, bool)
	contextsOf = func(fn *ssa.Function, site ssa.Instruction, chain []Call, depth int) ([]invCtx, bool) {
		if _, ok := asGuard(p.FactsAt(site.Block())); ok {
			return []invCtx{{fn, site, chain}}, true
		}
		if depth >= 3 || !p.inlinable(fn) {
			return nil, false
		}
		var out []invCtx
		for _, cl := range p.callersOf(fn) {
			if cl.Fn == fn {
				continue
			}
			sub, ok := contextsOf(cl.Fn, cl.Instr, append([]Call{cl}, chain...), depth+1)
			if !ok {
				return nil, false
			}
			out = append(out, sub...)
		}
		return out, len(out) > 0
	}
	resolveUp := func(v ssa.Value, chain []Call) ssa.Value {
		for i := len(chain) - 1; i >= 0 && v != nil; i-- {
			prm, isPrm := stripConv(v).(*ssa.Parameter)
			h := staticCallee(chain[i].Common)
			if !isPrm || h == nil || prm.Parent() != h {
				break
			}
			idx := paramIndex(h, prm)
			if idx < 0 || idx >= len(chain[i].Common.Args) {
				break
			}
			v = chain[i].Common.Args[idx]
		}
		return v
	}
	for _, sfn := range p.FuncsIn(pkgObjTemplate) {
		for _, cs := range p.c18ConditionSets(sfn) {
			// an instance is a condition that is, or on some way may be, the Invalid condition
			mayBeInvalid, onlyInvalid := false, true
			for _, t := range cs.Types {
				if s, isConst := constString(t.Val); t.Val != nil && isConst && s == invalid {
					mayBeInvalid = true
				} else {
					onlyInvalid = false
				}
			}
			if !mayBeInvalid {
				continue
			}
			ctxs, guarded := contextsOf(sfn, cs.Call.Instr, nil, 0)
			if !guarded {
				ctxs = []invCtx{{sfn, cs.Call.Instr, nil}}
			}
			for _, ic := range ctxs {
				fn := ic.fn
				mapper = fn
				// the reason names the obligation when every way of building the condition gives the same constant
				reason := ""
				for i, r := range cs.Reasons {
					s, isConst := "", false
					if r.Val != nil {
						s, isConst = constString(resolveUp(r.Val, ic.chain))
					}
					if !isConst || (i > 0 && s != reason) {
						reason = ""
						break
					}
					reason = s
				}
				o := c.Ob(fn, "Invalid-"+reason, ic.site, "Invalid=True is set under errors.As(err, **SourceError / **TemplateError) and the mapper then returns nil so that the status is persisted")
				var problems []string
				if !onlyInvalid {
					problems = append(problems, "the condition's type is not Invalid on every way: "+p.c18DescribeAlts(cs.Types))
				}
				if cs.Statuses == nil {
					problems = append(problems, "the status of the condition cannot be determined")
				} else if st, isConst := c18AltsConst(cs.Statuses); !isConst || st != "True" {
					problems = append(problems, "status is "+p.c18DescribeAlts(cs.Statuses))
				}
				which, ok := asGuard(p.FactsAt(ic.site.Block()))
				if !ok {
					problems = append(problems, "not guarded by errors.As(<err parameter>, **SourceError|**TemplateError) == true")
				}
				for _, in := range reachableAfter(ic.site, nil) {
					if r, isRet := in.(*ssa.Return); isRet {
						if len(r.Results) != 1 || !isNilConst(r.Results[0]) {
							problems = append(problems, "the mapper does not return nil after setting Invalid at "+p.IPos(r))
						}
					}
				}
				if len(problems) == 0 {
					o.OK("class " + which)
				} else {
					o.Fail("%s", strings.Join(problems, "; "))
				}
			}
		}
	}
	if mapper == nil {
		c.AnchorLost("a SetStatusCondition of type " + invalid)
		return
	}
	// (b) removal only on success
	nrem := 0
	for _, fn := range p.FuncsIn(pkgObjTemplate) {
		for _, rm := range conditionRemovals(fn) {
			if rm.Type != invalid {
				continue
			}
			nrem++
			o := c.Ob(fn, "Invalid-removed", rm.Call.Instr, "Invalid is removed only when the reconcile error is nil")
			okNil := false
			for _, prm := range fn.Params {
				if pfIsErrorType(prm.Type()) && p.nilnessFromFacts(p.FactsAt(rm.Call.Block()), prm) == yesTri {
					okNil = true
				}
			}
			if okNil {
				o.OK()
			} else {
				o.Fail("RemoveStatusCondition(Invalid) is not guarded by err == nil")
			}
		}
	}
	if nrem == 0 {
		c.AnchorLost("RemoveStatusCondition of " + invalid)
	}
	// (c) the mapper is deferred over the reconciler's named error result
	nd := 0
	for _, fn := range p.FuncsIn(pkgObjTemplate) {
		if fn.Parent() == nil {
			continue
		}
		for _, cc := range callsIn(fn) {
			if staticCallee(cc.Common) != mapper {
				continue
			}
			nd++
			o := c.Ob(fn.Parent(), "deferred-mapper", cc.Instr, "the reconciler defers the mapper over its named error result: it receives the returned error and its result replaces it")
			var problems []string
			call, _ := cc.Instr.(*ssa.Call)
			// closure is only deferred, at function entry
			var mk *ssa.MakeClosure
			for _, b := range fn.Parent().Blocks {
				for _, in := range b.Instrs {
					if m, ok := in.(*ssa.MakeClosure); ok && m.Fn == ssa.Value(fn) {
						mk = m
					}
				}
			}
			if mk == nil || !closureOnlyDeferred(mk) || mk.Block() != fn.Parent().Blocks[0] {
				problems = append(problems, "the closure is not deferred unconditionally at function entry")
			}
			// arg is a load of the captured err, result is stored back into it
			var fv *ssa.FreeVar
			for _, a := range cc.Common.Args {
				if u, isU := a.(*ssa.UnOp); isU && u.Op == token.MUL {
					if v, isFV := u.X.(*ssa.FreeVar); isFV && pfIsErrorType(u.Type()) {
						fv = v
					}
				}
			}
			if fv == nil {
				problems = append(problems, "the mapper is not given the reconciler's error result")
			} else {
				stored := false
				for _, r := range referrersOf(fv) {
					if st, isSt := r.(*ssa.Store); isSt && st.Addr == ssa.Value(fv) && call != nil && st.Val == ssa.Value(call) {
						stored = true
					}
				}
				if !stored {
					problems = append(problems, "the mapper's result does not replace the reconciler's error result")
				}
				// the captured variable is the parent's error result
				if mk != nil {
					for i, b := range mk.Bindings {
						if fn.FreeVars[i] != fv {
							continue
						}
						isRes := false
						for _, pb := range fn.Parent().Blocks {
							if r, isRet := pb.Instrs[len(pb.Instrs)-1].(*ssa.Return); isRet && len(r.Results) > 0 {
								if u, isU := r.Results[len(r.Results)-1].(*ssa.UnOp); isU && u.X == b {
									isRes = true
								}
							}
						}
						if !isRes {
							problems = append(problems, "the captured variable is not the reconciler's error result")
						}
					}
				}
			}
			if len(problems) == 0 {
				o.OK()
			} else {
				o.Fail("%s", strings.Join(problems, "; "))
			}
		}
	}
	if nd == 0 {
		c.AnchorLost("a deferred call of the Invalid-condition mapper in the template reconciler")
	}
	// (d) error classes
	// preflight violations → *SourceError{Err: &preflight.Error{Violations: v}}
	for _, fn := range p.FuncsIn(pkgObjTemplate) {
		for _, chk := range pfCheckCalls(fn, pfObjCheckSig) {
			o := c.Ob(fn, "violations-are-SourceError", chk, "a preflight violation of a source or of the target is returned as *SourceError wrapping *preflight.Error with those violations")
			v0 := pfExtract(chk, 0)
			n := 0
			var problems []string
			for _, rc := range p.returnCases(fn) {
				if v0 == nil || p.emptinessFromFacts(rc.Facts, v0) != noTri {
					continue
				}
				n++
				ev := stripConv(rc.Results[len(rc.Results)-1])
				a, isA := ev.(*ssa.Alloc)
				if !isA || !isErrType(a.Type(), "SourceError") {
					problems = append(problems, "return at "+p.IPos(rc.Ret)+" under len(violations)>0 does not return *SourceError")
					continue
				}
				f, _, _ := compositeFields(a)
				inner, isInner := stripConv(f["Err"]).(*ssa.Alloc)
				if !isInner || namedTypeString(inner.Type()) != pkgPreflight+".Error" {
					problems = append(problems, "the SourceError at "+p.IPos(rc.Ret)+" does not wrap *preflight.Error")
					continue
				}
				ff, _, _ := compositeFields(inner)
				if ff["Violations"] == nil || stripConv(ff["Violations"]) != v0 {
					problems = append(problems, "the preflight.Error does not carry the violations of this check")
				}
			}
			if n == 0 {
				problems = append(problems, "no return under len(violations)>0")
			}
			c11Conclude(o, problems, nil, nil)
		}
	}
	// missing required source → *SourceError (error verdicts of source lookups whose read reported NotFound)
	nreq := 0
	for _, fn := range p.FuncsIn(pkgObjTemplate) {
		if !c18IsLookupFunc(fn) {
			continue
		}
		verdicts, complete := p.c18LookupVerdicts(fn)
		relevant := !complete
		for _, v := range verdicts {
			if v.get != nil && v.deleg == nil && v.notFound {
				relevant = true
			}
		}
		if !relevant {
			continue // the lookup only passes on the verdict of a nested lookup
		}
		nreq++
		gets := c18DynamicGets(fn)
		o := c.Ob(fn, "missing-required-is-SourceError", gets[len(gets)-1], "a NotFound source that is not Optional is returned as *SourceError carrying the NotFound error")
		if !complete {
			o.Unknown("the lookup has loops or too many paths to classify its verdicts")
			continue
		}
		n := 0
		var problems []string
		for _, v := range verdicts {
			if v.get == nil || v.deleg != nil || !v.notFound {
				continue
			}
			ev := v.err
			if ev == nil || isNilConst(stripConv(ev)) {
				continue // the optional case (checked by C18.R1)
			}
			n++
			a, isA := stripConv(ev).(*ssa.Alloc)
			if !isA || !isErrType(a.Type(), "SourceError") {
				problems = append(problems, "NotFound return at "+p.IPos(v.ret)+" is not a *SourceError")
				continue
			}
			f, _, _ := compositeFields(a)
			if f["Err"] == nil || stripConv(v.path.resolve(f["Err"])) != ssa.Value(v.get) {
				problems = append(problems, "the SourceError does not carry the NotFound error of the read (needed for the missing-resource requeue)")
			}
		}
		if n == 0 {
			problems = append(problems, "no error return under IsNotFound")
		}
		c11Conclude(o, uniqStrings(problems), nil, nil)
	}
	if nreq == 0 {
		c.AnchorLost("a source lookup that classifies a NotFound read in the ObjectTemplate controller")
	}
	// template parse / execute failures → *TemplateError
	nt := 0
	for _, fn := range p.FuncsIn(pkgObjTemplate) {
		for _, cc := range callsIn(fn) {
			call, isCall := cc.Instr.(*ssa.Call)
			if !isCall {
				continue
			}
			res := cc.Common.Signature().Results()
			isParse := res.Len() == 2 && namedTypeString(res.At(0).Type()) == "text/template.Template" && pfIsErrorType(res.At(1).Type())
			isExec := isCallTo(cc.Common, "(*text/template.Template).Execute")
			if !isParse && !isExec {
				continue
			}
			nt++
			what := "parse"
			if isExec {
				what = "execute"
			}
			o := c.Ob(fn, "template-"+what+"-is-TemplateError", call, "a template "+what+" failure is returned as *TemplateError")
			n := 0
			var problems []string
			for _, rc := range p.returnCases(fn) {
				if p.errOfCall(rc.Facts, call) != noTri {
					continue
				}
				n++
				a, isA := stripConv(rc.Results[len(rc.Results)-1]).(*ssa.Alloc)
				if !isA || !isErrType(a.Type(), "TemplateError") {
					problems = append(problems, "failure return at "+p.IPos(rc.Ret)+" is not a *TemplateError")
				}
			}
			if n == 0 {
				problems = append(problems, "the error of the template "+what+" is not tested")
			}
			c11Conclude(o, problems, nil, nil)
		}
	}
	if nt == 0 {
		c.AnchorLost("template parse/execute calls in the ObjectTemplate controller")
	}
	// (e) wrapping keeps the chain: fmt.Errorf with an error argument uses %w
	for _, fn := range p.FuncsIn(pkgObjTemplate) {
		if !p.c18OnReconcilePath(fn) {
			continue
		}
		for _, cc := range callsIn(fn) {
			if !isCallTo(cc.Common, "fmt.Errorf") {
				continue
			}
			elems, ok := sliceElems(cc.Common.Args[1])
			if !ok {
				continue
			}
			wrapsErr := false
			for _, e := range elems {
				if pfIsErrorType(stripConvKeepIface(e).Type()) {
					wrapsErr = true
				}
			}
			if !wrapsErr {
				continue
			}
			// only errors that may carry a SourceError / TemplateError matter: those returned by same-package
			// functions whose call closure constructs one
			fromPkg := false
			for _, e := range elems {
				for _, pv := range p.possibleValues(stripConvKeepIface(e)) {
					if ec, _ := asCall(pv); ec != nil {
						if f := staticCallee(ec.Common()); f != nil && funcPkgPath(f) == pkgObjTemplate && p.c18MayConstruct(f, isErrType) {
							fromPkg = true
						}
					}
				}
			}
			if !fromPkg {
				continue
			}
			o := c.Ob(fn, "wrap-keeps-chain", cc.Instr, "an error that may carry *SourceError/*TemplateError is wrapped with %w so that errors.As in the mapper still finds it")
			format, isC := constString(cc.Common.Args[0])
			if isC && strings.Contains(format, "%w") {
				o.OK()
			} else {
				o.Fail("fmt.Errorf(%q, …) drops the error chain", format)
			}
		}
	}
}

// c18MayConstruct: the call closure of fn allocates a *SourceError or *TemplateError.
func (p *Program) c18MayConstruct(fn *ssa.Function, isErrType func(types.Type, string) bool) bool {
	seen := map[*ssa.Function]bool{}
	work := []*ssa.Function{fn}
	for len(work) > 0 {
		f := work[len(work)-1]
		work = work[:len(work)-1]
		if seen[f] {
			continue
		}
		seen[f] = true
		for _, b := range f.Blocks {
			for _, in := range b.Instrs {
				if a, ok := in.(*ssa.Alloc); ok && (isErrType(a.Type(), "SourceError") || isErrType(a.Type(), "TemplateError")) {
					return true
				}
			}
		}
		for _, c := range callsIn(f) {
			work = append(work, p.pfCallees(c.Common)...)
		}
	}
	return false
}

// pfBaseName: callee name with generic instantiation stripped.
func pfBaseName(cc *ssa.CallCommon) string {
	if f := staticCallee(cc); f != nil {
		if o := f.Origin(); o != nil {
			return o.Name()
		}
		return f.Name()
	}
	return calleeName(cc)
}

// stripConvKeepIface removes only ChangeInterface (error → any) so that the static error type is visible.
func stripConvKeepIface(v ssa.Value) ssa.Value {
	for {
		if x, ok := v.(*ssa.ChangeInterface); ok {
			v = x.X
			continue
		}
		return v
	}
}

// c18OnReconcilePath: fn is (transitively) called from a sub-reconciler Reconcile method of the package.
func (p *Program) c18OnReconcilePath(fn *ssa.Function) bool {
	seen := map[*ssa.Function]bool{}
	var up func(f *ssa.Function, d int) bool
	up = func(f *ssa.Function, d int) bool {
		if f == nil || seen[f] || d > 6 {
			return false
		}
		seen[f] = true
		if f.Name() == "Reconcile" && f.Signature.Recv() != nil {
			return true
		}
		for _, cl := range p.callersOf(f) {
			if up(cl.Fn, d+1) {
				return true
			}
		}
		return false
	}
	return up(fn, 0)
}

// ---------------------------------------------------------------------------------------------
// R5

func c18r5(c *Ctx) {
	p := c.P
	fns := p.pfControllerReconciles(pkgObjTemplate)
	if len(fns) == 0 {
		c.AnchorLost("reconcile.Reconciler implementation in " + pkgObjTemplate)
		return
	}
	var freeFn *ssa.Function
	for _, fn := range fns {
		o := c.Ob(fn, "free-on-delete", nil, "when DeletionTimestamp is set, every path frees the cache (or returns its error) and no sub-reconciler / finalizer-adding call is reachable")
		// the deletion edge: F of <obj>.GetDeletionTimestamp().IsZero()
		var delTo []*ssa.BasicBlock
		for _, b := range fn.Blocks {
			for _, s := range b.Succs {
				for _, f := range p.edgeFacts(b, s) {
					ic, _ := asCall(f.Cond)
					if ic == nil || calleeName(ic.Common()) != "IsZero" || f.Pol {
						continue
					}
					dc, _ := asCall(callRecv(ic.Common()))
					if dc != nil && calleeName(dc.Common()) == "GetDeletionTimestamp" {
						delTo = append(delTo, s)
					}
				}
			}
		}
		if len(delTo) == 0 {
			o.Fail("no branch on GetDeletionTimestamp().IsZero() found")
			continue
		}
		var problems []string
		for _, to := range delTo {
			var frees []*ssa.Call
			for _, in := range reachableFromEdge(to, nil) {
				ci, isCI := in.(ssa.CallInstruction)
				if !isCI {
					continue
				}
				cc := ci.Common()
				if cc.IsInvoke() && cc.Method.Name() == "Reconcile" {
					problems = append(problems, "a sub-reconciler is reachable on the deletion path at "+p.IPos(in))
				}
				if callee := staticCallee(cc); callee != nil && callee.Blocks != nil {
					if p.pfFuncContains(callee, func(k Call) bool { return k.Common.IsInvoke() && k.Common.Method.Name() == "Free" }) {
						if call, ok := in.(*ssa.Call); ok {
							frees = append(frees, call)
							freeFn = callee
						}
					}
					if p.pfFuncContains(callee, func(k Call) bool { return isCallTo(k.Common, pkgCtrlUtil+".AddFinalizer") }) {
						problems = append(problems, "a finalizer may be (re-)added on the deletion path at "+p.IPos(in))
					}
				}
				if cc.IsInvoke() && cc.Method.Name() == "Free" {
					if call, ok := in.(*ssa.Call); ok {
						frees = append(frees, call)
					}
				}
			}
			if len(frees) == 0 {
				problems = append(problems, "no cache Free is reachable on the deletion path")
				continue
			}
			// every path from the edge to a return passes a free call
			first := to.Instrs[0]
			isFree := func(in ssa.Instruction) bool {
				for _, f := range frees {
					if in == ssa.Instruction(f) {
						return true
					}
				}
				return false
			}
			if !isFree(first) && !p.mustFollow(first, isFree, nil) {
				problems = append(problems, "some path on the deletion branch returns without freeing the cache")
			}
			// the object freed is the reconciled template
			for _, f := range frees {
				okObj := false
				for _, a := range f.Common().Args {
					if ac, _ := asCall(a); ac != nil && calleeName(ac.Common()) == "ClientObject" {
						okObj = true
					}
				}
				if !okObj {
					problems = append(problems, "the freed object at "+p.IPos(f)+" is not the template's ClientObject()")
				}
			}
		}
		c11Conclude(o, uniqStrings(problems), nil, nil)
	}
	// Free precedes the finalizer removal inside the helper
	if freeFn == nil {
		return
	}
	o := c.Ob(freeFn, "free-before-unfinalize", nil, "the finalizer is removed only after cache.Free(ctx, obj) returned nil for the same object")
	var free *ssa.Call
	for _, cc := range callsIn(freeFn) {
		if cc.Common.IsInvoke() && cc.Common.Method.Name() == "Free" {
			free, _ = cc.Instr.(*ssa.Call)
		}
	}
	if free == nil {
		o.Unknown("Free is not called directly in %s", shortFuncID(freeFn))
		return
	}
	var problems []string
	n := 0
	for _, cc := range callsIn(freeFn) {
		callee := staticCallee(cc.Common)
		if callee == nil || callee.Blocks == nil {
			continue
		}
		if !p.pfFuncContains(callee, func(k Call) bool { return isCallTo(k.Common, pkgCtrlUtil+".RemoveFinalizer") }) {
			continue
		}
		n++
		if !p.errOfCallIsNil(p.FactsAt(cc.Instr.Block()), free) {
			problems = append(problems, "the finalizer removal at "+p.IPos(cc.Instr)+" is not guarded by err==nil of Free")
		}
		same := false
		for _, a := range cc.Common.Args {
			if p.sameValue(a, callArgs(free.Common())[1]) {
				same = true
			}
		}
		if !same {
			problems = append(problems, "the finalizer is removed from a different object than the one freed")
		}
	}
	if n == 0 {
		problems = append(problems, "no finalizer removal found after Free")
	}
	c11Conclude(o, problems, nil, nil)
}

// c18ErrMayBeNil: pfErrMayBeNil, except that a nil test of the returned value itself is honoured
// first. The error of a helper whose body was merged into its caller is a phi of the helper's error
// values and nil; under `if err != nil { return err }` that phi is not nil although one of the values
// that may flow into it is the nil constant.
func (p *Program) c18ErrMayBeNil(fs []Fact, v ssa.Value) bool {
	if v != nil && p.nilnessFromFacts(fs, v) == noTri {
		return false
	}
	return p.pfErrMayBeNil(fs, v)
}

// ---------------------------------------------------------------------------------------------
// Source lookups: functions of the ObjectTemplate controller that read a dynamic object and report
// (…, found bool, err error). Selected by result types and by what they do, so that a lookup whose
// body was merged into its caller (the caller then returns (obj, found, err)) is still one.

func c18DynamicGets(fn *ssa.Function) []*ssa.Call {
	var out []*ssa.Call
	for _, cc := range callsIn(fn) {
		call, isCall := cc.Instr.(*ssa.Call)
		if !isCall || !isReaderGet(cc.Common) {
			continue
		}
		if a := callArgs(cc.Common); len(a) >= 3 && classifyObjectArg(a[2]) == "typed" {
			continue
		}
		out = append(out, call)
	}
	return out
}

func c18IsLookupFunc(fn *ssa.Function) bool {
	if fn == nil || fn.Blocks == nil {
		return false
	}
	res := fn.Signature.Results()
	n := res.Len()
	if n < 2 || res.At(n-2).Type().String() != "bool" || !pfIsErrorType(res.At(n-1).Type()) {
		return false
	}
	return len(c18DynamicGets(fn)) > 0
}

func boolTri(b bool) tri {
	if b {
		return yesTri
	}
	return noTri
}

// c18Verdict: one feasible path of a lookup to a return, with the (found, err) it reports and the
// read that decided it: the last read executed on the path (get), or the last nested lookup called
// on it (deleg) when that came later.
type c18Verdict struct {
	path     *c18Path
	ret      *ssa.Return
	found    ssa.Value // resolved on the path
	err      ssa.Value // resolved on the path
	errNil   tri
	get      *ssa.Call
	deleg    *ssa.Call
	notFound bool // IsNotFound(<error of get>) is known true on the path
	optional bool // <ObjectTemplateSource>.Optional is known true on the path
}

func (p *Program) c18LookupVerdicts(fn *ssa.Function) ([]c18Verdict, bool) {
	paths, complete := p.c18ReturnPaths(fn)
	if !complete {
		return nil, false
	}
	isGet := map[ssa.Instruction]bool{}
	for _, g := range c18DynamicGets(fn) {
		isGet[g] = true
	}
	nres := fn.Signature.Results().Len()
	var out []c18Verdict
	for _, pi := range paths {
		last := pi.blocks[len(pi.blocks)-1]
		ret, _ := last.Instrs[len(last.Instrs)-1].(*ssa.Return)
		if ret == nil || len(ret.Results) != nres || (fn.Recover != nil && last == fn.Recover) {
			continue
		}
		v := c18Verdict{path: pi, ret: ret, found: pi.resolve(ret.Results[nres-2]), err: pi.resolve(ret.Results[nres-1])}
		v.errNil = pi.nilness(v.err)
		for _, b := range pi.blocks {
			for _, in := range b.Instrs {
				call, isCall := in.(*ssa.Call)
				if !isCall {
					continue
				}
				if isGet[in] {
					v.get, v.deleg = call, nil
					continue
				}
				if callee := staticCallee(call.Common()); callee != nil && callee != fn && funcPkgPath(callee) == funcPkgPath(fn) && c18IsLookupFunc(callee) {
					v.deleg = call
				}
			}
		}
		if v.get != nil {
			_, v.notFound = p.findFactCall(pi.facts, true, []string{pkgAPIErr + ".IsNotFound"}, func(cc *ssa.CallCommon) bool {
				return len(cc.Args) == 1 && stripConv(pi.resolve(cc.Args[0])) == ssa.Value(v.get)
			})
		}
		for _, f := range pi.facts {
			if u, isU := f.Cond.(*ssa.UnOp); isU && u.Op == token.MUL && f.Pol {
				if fa, isFA := u.X.(*ssa.FieldAddr); isFA && fieldName(fa.X.Type(), fa.Field) == "Optional" && namedTypeString(fa.X.Type()) == pkgCoreV1+".ObjectTemplateSource" {
					v.optional = true
				}
			}
		}
		out = append(out, v)
	}
	return out, true
}

// c18WriteGuardAllowed: allowedWriteGuard for the ObjectTemplate writes, seeing through guards that
// were materialised in a boolean variable. A boolean phi carries exactly the information of the
// branch conditions that select its incoming edge (those between the immediate dominator of the
// merge and the merge) and of its non-constant incoming values; it is an allowed guard when all of
// these are. This is the `found` result of a lookup whose body was merged into its caller: the phi of
// the constants the lookup returned, selected by its error / NotFound / Optional tests. A plain
// boolean field of a struct (a spec flag such as src.Optional) is not a comparison with the existing
// object either (accepted only behind such a phi).
func (p *Program) c18WriteGuardAllowed(f Fact, depth int) bool {
	if allowedWriteGuard(p, f) {
		return true
	}
	if depth > 3 {
		return false
	}
	switch x := f.Cond.(type) {
	case *ssa.UnOp:
		// only as one of the conditions behind a materialised guard (what a helper returning the
		// boolean used to hide from this rule), not as the guard of the write itself
		if x.Op == token.MUL && depth > 0 {
			if _, ok := x.X.(*ssa.FieldAddr); ok {
				if b, isBasic := x.Type().Underlying().(*types.Basic); isBasic && b.Info()&types.IsBoolean != 0 {
					return true
				}
			}
		}
	case *ssa.Phi:
		if b, isBasic := x.Type().Underlying().(*types.Basic); !isBasic || b.Info()&types.IsBoolean == 0 {
			return false
		}
		merge := x.Block()
		idom := merge.Idom()
		if idom == nil {
			return false
		}
		for _, e := range x.Edges {
			if _, isConst := constBool(e); isConst {
				continue
			}
			if !p.c18WriteGuardAllowed(p.mkFact(e, true), depth+1) {
				return false
			}
		}
		// blocks on the way from the immediate dominator to the merge
		region := map[*ssa.BasicBlock]bool{}
		work := append([]*ssa.BasicBlock{}, merge.Preds...)
		for len(work) > 0 {
			b := work[len(work)-1]
			work = work[:len(work)-1]
			if region[b] || b == merge {
				continue
			}
			region[b] = true
			if b != idom {
				work = append(work, b.Preds...)
			}
		}
		for b := range region {
			if !idom.Dominates(b) {
				return false
			}
			if iff, ok := b.Instrs[len(b.Instrs)-1].(*ssa.If); ok {
				if !p.c18WriteGuardAllowed(p.mkFact(iff.Cond, true), depth+1) {
					return false
				}
			}
		}
		return true
	}
	return false
}

// c18ErrCheckedBefore: every feasible path from call q to `site` takes an edge on which the error of
// q is known to be nil (a nil test of that error, or of a value it was merged into). Branch
// combinations that cannot occur are not walked (feasibleSuccs).
func (p *Program) c18ErrCheckedBefore(q *ssa.Call, site ssa.Instruction) bool {
	sb := q.Block()
	if site.Block() == sb && instrIndex(site) > instrIndex(q) {
		return false
	}
	type edge struct{ from, to *ssa.BasicBlock }
	cut := func(e edge) bool { return p.errOfCallIsNil(p.FactsOnEdge(e.from, e.to), q) }
	seen := map[edge]bool{}
	var work []edge
	for _, s := range sb.Succs {
		work = append(work, edge{sb, s})
	}
	for len(work) > 0 {
		e := work[len(work)-1]
		work = work[:len(work)-1]
		if seen[e] || cut(e) {
			continue
		}
		seen[e] = true
		if e.to == site.Block() {
			return false
		}
		for _, s := range p.feasibleSuccs(e.from, e.to) {
			work = append(work, edge{e.to, s})
		}
	}
	return true
}
