package main

// Owner-reference predicates decided from guard facts (C04.R5; usable by any rule).
//
// metav1.IsControlledBy(obj, owner) is, by its library source,
//
//	ref := GetControllerOfNoCopy(obj)          // first owner reference with Controller != nil && *Controller
//	return ref != nil && ref.UID == owner.GetUID()
//
// so "obj is NOT controlled by owner" is established by any of
//
//	!metav1.IsControlledBy(obj, owner)
//	metav1.GetControllerOf[NoCopy](obj) == nil            or  <that ref>.UID != owner.GetUID()
//	slices.IndexFunc(obj.GetOwnerReferences(), isCtrl) < 0 or  obj.GetOwnerReferences()[<that index>].UID != owner.GetUID()
//
// where isCtrl is a function that returns exactly `ref.Controller != nil && *ref.Controller`
// (verified on its SSA, not by name). The two alternatives of the written-out forms usually arrive
// over different edges (`a || b`), so rules evaluate the predicate per path (holdsForReturn).

import (
	"go/token"
	"go/types"

	"golang.org/x/tools/go/ssa"
)

// factNotControlledBy: the facts of one path establish that the object selected by isObj is not
// controlled by the owner selected by isOwner (both see client.Object values).
func (p *Program) factNotControlledBy(fs []Fact, isObj, isOwner func(ssa.Value) bool) (string, bool) {
	for _, f := range fs {
		// spelled with the library predicate
		if call, _ := asCall(f.Cond); call != nil && !f.Pol && isCallTo(call.Common(), pkgMetaV1+".IsControlledBy") {
			if a := call.Common().Args; len(a) == 2 && isObj(a[0]) && isOwner(a[1]) {
				return "!IsControlledBy(obj, owner)", true
			}
		}
		// no controller reference at all: pointer form
		if x, trueMeansNonNil, ok := errNilTest(f.Cond); ok && f.Pol != trueMeansNonNil && p.orControllerRefPtr(x, isObj) {
			return "GetControllerOf(obj) == nil", true
		}
		// UID of the controller reference differs from the owner's
		if b, ok := f.Cond.(*ssa.BinOp); ok && (b.Op == token.NEQ || b.Op == token.EQL) && f.Pol == (b.Op == token.NEQ) {
			for _, pair := range [][2]ssa.Value{{b.X, b.Y}, {b.Y, b.X}} {
				if p.orIsControllerUID(pair[0], isObj) && orIsUIDOf(pair[1], isOwner) {
					return "<controller reference of obj>.UID != owner.GetUID()", true
				}
			}
		}
	}
	// no controller reference at all: index form (any spelling of `idx < 0`)
	isIdx := func(v ssa.Value) bool { return p.orControllerRefIndex(stripConv(v), isObj) != nil }
	if p.relFromFacts(fs, isIdx, matchConstInt(0)).subsetOf(relLT) || p.relFromFacts(fs, isIdx, matchConstInt(-1)).subsetOf(relLT|relEQ) {
		return "slices.IndexFunc(obj.GetOwnerReferences(), <is controller>) < 0", true
	}
	return "", false
}

// orControllerRefPtr: v is metav1.GetControllerOf(obj) / GetControllerOfNoCopy(obj).
func (p *Program) orControllerRefPtr(v ssa.Value, isObj func(ssa.Value) bool) bool {
	call, _ := asCall(v)
	if call == nil || !isCallTo(call.Common(), pkgMetaV1+".GetControllerOf", pkgMetaV1+".GetControllerOfNoCopy") {
		return false
	}
	a := call.Common().Args
	return len(a) == 1 && isObj(a[0])
}

// orControllerRefIndex: v is slices.IndexFunc(obj.GetOwnerReferences(), <controller predicate>);
// returns the searched slice.
func (p *Program) orControllerRefIndex(v ssa.Value, isObj func(ssa.Value) bool) ssa.Value {
	call, _ := v.(*ssa.Call)
	if call == nil || call.Common().IsInvoke() || len(call.Common().Args) != 2 {
		return nil
	}
	if calleeID(call.Common()) != "slices.IndexFunc" {
		return nil
	}
	refs := call.Common().Args[0]
	gc, _ := asCall(refs)
	if gc == nil || calleeName(gc.Common()) != "GetOwnerReferences" {
		return nil
	}
	recv := callRecv(gc.Common())
	if recv == nil || !isObj(recv) {
		return nil
	}
	if !p.orIsControllerPredicate(call.Common().Args[1]) {
		return nil
	}
	return refs
}

// orIsControllerUID: v is the UID field of the controller reference of obj (either designator).
func (p *Program) orIsControllerUID(v ssa.Value, isObj func(ssa.Value) bool) bool {
	root, ok := p.pfFieldLoad(v, "UID")
	if !ok {
		return false
	}
	if namedTypeString(root.Type()) != pkgMetaV1+".OwnerReference" {
		if pt, isPtr := root.Type().Underlying().(*types.Pointer); !isPtr || namedTypeString(pt.Elem()) != pkgMetaV1+".OwnerReference" {
			return false
		}
	}
	if p.orControllerRefPtr(root, isObj) {
		return true
	}
	// refs[idx] directly, or through a single-assignment local copy
	var ia *ssa.IndexAddr
	switch x := root.(type) {
	case *ssa.IndexAddr:
		ia = x
	default:
		if u, isU := p.pfRootValue(root).(*ssa.UnOp); isU && u.Op == token.MUL {
			ia, _ = u.X.(*ssa.IndexAddr)
		}
	}
	if ia == nil {
		return false
	}
	refs := p.orControllerRefIndex(stripConv(ia.Index), isObj)
	return refs != nil && p.sameValue(refs, ia.X)
}

// orIsUIDOf: v is X.GetUID() for an X accepted by isOwner.
func orIsUIDOf(v ssa.Value, isOwner func(ssa.Value) bool) bool {
	call, _ := asCall(v)
	if call == nil || calleeName(call.Common()) != "GetUID" {
		return false
	}
	recv := callRecv(call.Common())
	return recv != nil && isOwner(recv)
}

// orIsControllerPredicate: fv is a function (or capture-free use of one) func(metav1.OwnerReference) bool
// that returns true exactly for controller references: on every return the result equals
// `ref.Controller != nil && *ref.Controller` given the conditions tested on the way.
func (p *Program) orIsControllerPredicate(fv ssa.Value) bool {
	var fn *ssa.Function
	switch x := stripConv(fv).(type) {
	case *ssa.Function:
		fn = x
	case *ssa.MakeClosure:
		fn, _ = x.Fn.(*ssa.Function)
	}
	if fn == nil || fn.Blocks == nil || len(fn.Params) != 1 || fn.Signature.Results().Len() != 1 {
		return false
	}
	prm := fn.Params[0]
	if namedTypeString(prm.Type()) != pkgMetaV1+".OwnerReference" || fn.Signature.Results().At(0).Type().String() != "bool" {
		return false
	}
	ctrlPtr := func(v ssa.Value) bool {
		root, ok := p.pfFieldLoad(v, "Controller")
		return ok && p.pfRootValue(root) == ssa.Value(prm)
	}
	ctrlDeref := func(v ssa.Value) bool {
		u, ok := v.(*ssa.UnOp)
		return ok && u.Op == token.MUL && ctrlPtr(u.X)
	}
	cases := p.returnCases(fn)
	if len(cases) == 0 {
		return false
	}
	for _, rc := range cases {
		ptrNil, deref := unknownTri, unknownTri
		for _, f := range rc.Facts {
			if x, trueMeansNonNil, ok := errNilTest(f.Cond); ok && ctrlPtr(x) {
				ptrNil = yesTri
				if f.Pol == trueMeansNonNil {
					ptrNil = noTri
				}
			}
			if ctrlDeref(f.Cond) {
				deref = noTri
				if f.Pol {
					deref = yesTri
				}
			}
		}
		r := rc.Results[0]
		if r == nil {
			return false
		}
		if cb, isConst := constBool(r); isConst {
			if cb && !(ptrNil == noTri && deref == yesTri) {
				return false
			}
			if !cb && !(ptrNil == yesTri || deref == noTri) {
				return false
			}
			continue
		}
		if ctrlDeref(r) && ptrNil == noTri {
			continue
		}
		return false
	}
	return true
}
