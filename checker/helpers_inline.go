package main

import (
	"golang.org/x/tools/go/ssa"
)

// "Virtual inlining": rules should not care whether a block of the analysed function was extracted
// into an unexported helper (see Program.inlinable). These helpers give rule code an inlined view:
//
//   callsInX(fn)            calls of fn and of the inlinable helpers it calls (transitively)
//   FactsAtX(block)         local facts + facts imported from the call sites (dataflow.go)
//   mustPrecedeX(site, m)   like mustPrecede, but a call of an inlinable helper that executes a
//                           match on every path counts as a match, and for a site inside a helper
//                           the search continues before each call site of the helper
//   returnCasesX(fn)        return cases with `return helper(...)` / `x := helper(); return x`
//                           expanded into the helper's own return cases
//   possibleValuesX(v)      possibleValues that also looks through results of inlinable helpers
//
// Value identity across the boundary is provided by key(): a parameter of a helper with a single
// static call site has the key of the argument passed there.

// XCall is a call seen through inlinable helpers; Chain lists the helper calls leading to it
// (outermost first), empty for a call directly in the root function.
type XCall struct {
	Call
	Chain []Call
}

func (p *Program) callsInX(fn *ssa.Function) []XCall {
	var out []XCall
	seen := map[*ssa.Function]bool{fn: true}
	var walk func(f *ssa.Function, chain []Call, depth int)
	walk = func(f *ssa.Function, chain []Call, depth int) {
		for _, c := range callsIn(f) {
			out = append(out, XCall{Call: c, Chain: append([]Call{}, chain...)})
			callee := staticCallee(c.Common)
			if callee != nil && depth < 3 && !seen[callee] && p.inlinable(callee) {
				seen[callee] = true
				walk(callee, append(append([]Call{}, chain...), c), depth+1)
			}
		}
	}
	walk(fn, nil, 0)
	return out
}

// mustExecute: every path through fn from entry to a normal return executes an instruction
// satisfying match (directly or through an inlinable helper that must execute one).
func (p *Program) mustExecute(fn *ssa.Function, match func(ssa.Instruction) bool, depth int) bool {
	if fn == nil || len(fn.Blocks) == 0 || depth > 3 {
		return false
	}
	m := p.liftMatch(match, depth)
	for _, b := range fn.Blocks {
		if len(b.Instrs) == 0 {
			continue
		}
		ret, ok := b.Instrs[len(b.Instrs)-1].(*ssa.Return)
		if !ok {
			continue
		}
		if fn.Recover != nil && b == fn.Recover {
			continue
		}
		if !p.mustPrecede(ret, m) {
			return false
		}
	}
	return true
}

// liftMatch extends a matcher to calls of inlinable helpers that must execute a match.
func (p *Program) liftMatch(match func(ssa.Instruction) bool, depth int) func(ssa.Instruction) bool {
	return func(in ssa.Instruction) bool {
		if match(in) {
			return true
		}
		if ci, ok := in.(ssa.CallInstruction); ok {
			if _, isGo := in.(*ssa.Go); isGo {
				return false
			}
			if _, isDefer := in.(*ssa.Defer); isDefer {
				return false
			}
			if callee := staticCallee(ci.Common()); callee != nil && p.inlinable(callee) {
				return p.mustExecute(callee, match, depth+1)
			}
		}
		return false
	}
}

// mustPrecedeX: inlining-aware mustPrecede.
func (p *Program) mustPrecedeX(site ssa.Instruction, match func(ssa.Instruction) bool) bool {
	return p.mustPrecedeXd(site, match, 0)
}

func (p *Program) mustPrecedeXd(site ssa.Instruction, match func(ssa.Instruction) bool, depth int) bool {
	if p.mustPrecede(site, p.liftMatch(match, 0)) {
		return true
	}
	fn := site.Parent()
	if depth >= 3 || !p.inlinable(fn) {
		return false
	}
	callers := p.callersOf(fn)
	if len(callers) == 0 {
		return false
	}
	for _, c := range callers {
		if !p.mustPrecedeXd(c.Instr, match, depth+1) {
			return false
		}
	}
	return true
}

// returnCasesX expands returns whose error/bool/value results come straight from an inlinable
// helper call into the helper's return cases. Facts of an expanded case are the helper-local facts
// (which include the facts imported from the call site via FactsAtX).
func (p *Program) returnCasesX(fn *ssa.Function) []ReturnCase {
	var out []ReturnCase
	for _, rc := range p.returnCases(fn) {
		expanded := false
		if len(rc.Ret.Results) > 0 {
			// all results are extracts of (or the value of) one call of an inlinable helper
			var call *ssa.Call
			same := true
			for i, r := range rc.Ret.Results {
				c, idx := asCall(r)
				if c == nil || (idx != -1 && idx != i) {
					same = false
					break
				}
				if call == nil {
					call = c
				} else if call != c {
					same = false
				}
			}
			if same && call != nil {
				if callee := staticCallee(call.Common()); callee != nil && p.inlinable(callee) && callee != fn {
					for _, hrc := range p.returnCases(callee) {
						if callee.Recover != nil && hrc.Ret.Block() == callee.Recover {
							continue
						}
						nrc := hrc
						nrc.Facts = append(append([]Fact{}, rc.Facts...), p.FactsAtX(hrc.Ret.Block())...)
						out = append(out, nrc)
					}
					expanded = true
				}
			}
		}
		if !expanded {
			out = append(out, rc)
		}
	}
	return out
}

// possibleValuesX: possibleValues that looks through the results of inlinable helpers.
func (p *Program) possibleValuesX(v ssa.Value) []ssa.Value {
	var out []ssa.Value
	seen := map[ssa.Value]bool{}
	var walk func(v ssa.Value, d int)
	walk = func(v ssa.Value, d int) {
		for _, pv := range p.possibleValues(v) {
			if seen[pv] {
				continue
			}
			seen[pv] = true
			c, idx := asCall(pv)
			if c != nil && d < 3 {
				if callee := staticCallee(c.Common()); callee != nil && p.inlinable(callee) {
					i := idx
					if i < 0 {
						i = 0
					}
					any := false
					for _, b := range callee.Blocks {
						if len(b.Instrs) == 0 {
							continue
						}
						if ret, ok := b.Instrs[len(b.Instrs)-1].(*ssa.Return); ok && i < len(ret.Results) {
							if callee.Recover != nil && b == callee.Recover {
								continue
							}
							any = true
							walk(p.resolveResult(ret.Results[i], ret), d+1)
						}
					}
					if any {
						continue
					}
				}
			}
			out = append(out, pv)
		}
	}
	walk(v, 0)
	return out
}
