package main

import (
	"fmt"
	"go/token"
	"go/types"
	"sort"
	"strings"

	"golang.org/x/tools/go/ssa"
)

// C09 — Paused means hands-off.

func init() {
	register(&Property{
		ID: "C09",
		Explanation: "Decides the structural core of C09 on every path of the current source. (R1) From every implementation of the phase engine's ReconcilePhase, " +
			"every call that may transitively send a non-dry-run write request (controller-runtime Create/Update/Patch/Delete, followed through static callees, " +
			"workspace implementations of invoked interface methods, closures and function values) is reachable only under owner.IsSpecPaused()==false, and the paused edge " +
			"returns the object read from the cache with a nil error so that the caller keeps probing it. (R2) Every call path from a controller to a Delete of a managed " +
			"object or of a delegated phase object passes a guard DeletionTimestamp!=0 or IsArchived() on the owner. (R3) Paused=True is set only under IsSpecPaused() " +
			"(ObjectSet: and all remote phases report Paused), the Paused condition is removed only when not paused, and the delegated phase's spec.paused patch is sent only when " +
			"current and desired differ, carries the desired value and the resourceVersion of the patched object. (R4) In the ObjectDeployment controller every write that " +
			"is not the pause propagation is skipped while paused; the propagation Update touches only non-archived revisions whose paused-by-parent mark differs from the " +
			"deployment, SetActiveByParent only where the parent mark is set; the adapters agree on the mark. (R5) The Package controller runs no writing sub-reconciler " +
			"while paused and copies exactly its pause value to the ObjectDeployment. Dry-run requests (client.DryRunAll) sent by the preflight checker while paused are " +
			"not counted as writes. It does not decide behaviour over time.",
		NotDecided: []string{"pause/unpause toggled at arbitrary moments between passes (schedules, histories)", "drift observed but unrepaired while paused",
			"that the API server honours dry-run", "completeness of the ObjectSet list the deployment controller iterates over",
			"external (non-workspace) implementations of repo interfaces are assumed not to write unless they are controller-runtime writer methods or receive a writer"},
		Technique: "transitive may-write summary over static callees + workspace implementations of interface invokes + function values; SSA guard-fact dataflow with boolean-phi splitting and disjunctive (edge-set) guards; upward call-path walk; return classification; map-literal resolution",
		Rules: []Rule{
			{ID: "C09.R1", Min: 3, Run: c09r1, Statement: "in the phase engine every call that may send a write is reachable only when owner.IsSpecPaused() is false; on the paused edge the object is read from the cache and returned for probing"},
			{ID: "C09.R2", Min: 2, Run: c09r2, Statement: "every call path from a controller to a Delete of a managed object / delegated phase object passes the guard DeletionTimestamp != 0 or IsArchived() of the owner"},
			{ID: "C09.R3", Min: 5, Run: c09r3, Statement: "Paused=True only under IsSpecPaused() (ObjectSet: and all remote phases paused); Paused removed only when not paused; the delegated phase pause patch is sent iff current and desired differ, with the desired value and the resourceVersion of the patched object"},
			{ID: "C09.R4", Min: 12, Run: c09r4, Statement: "ObjectDeployment controller: writes other than the pause propagation are skipped while paused; propagation only to non-archived revisions whose paused-by-parent mark differs; unpause only where the parent mark is set; adapters agree on the mark"},
			{ID: "C09.R5", Min: 5, Run: c09r5, Statement: "Package controller: no writing sub-reconciler while paused; the ObjectDeployment Update is sent only when the pause values differ and sets exactly the package's value"},
		},
	})
}

// ---------------------------------------------------------------------------------------------
// pause descent: shared by R1 / R4 / R5

type c09Descent struct {
	c         *Ctx
	method    string // accessor that tells "paused": IsSpecPaused | GetSpecPaused
	what      string
	visited   map[*ssa.Function]bool
	pauseIfs  []*ssa.If // branches on owner.<method>() seen in visited functions
	allow     func(d *c09Descent, fn *ssa.Function, owner ssa.Value, call Call, ws WriterSite) (bool, string)
	altGuard  func(d *c09Descent, owner ssa.Value, fs []Fact) bool
	ownerOf   map[*ssa.Function]ssa.Value
	nWriteObs int
}

// c09NotPaused: the facts say owner.<method>() == false.
func (d *c09Descent) notPaused(owner ssa.Value) func(fs []Fact) bool {
	p := d.c.P
	return func(fs []Fact) bool {
		if _, ok := p.mwFactAccessor(fs, false, d.method, func(r ssa.Value) bool { return p.sameValue(r, owner) }); ok {
			return true
		}
		if d.altGuard != nil && d.altGuard(d, owner, fs) {
			return true
		}
		return false
	}
}

func (d *c09Descent) run(fn *ssa.Function, owner ssa.Value, depth int) {
	c, p := d.c, d.c.P
	if d.visited[fn] {
		return
	}
	d.visited[fn] = true
	d.ownerOf[fn] = owner
	c.Visit(fn)
	for _, b := range fn.Blocks {
		if len(b.Instrs) == 0 {
			continue
		}
		if iff, ok := b.Instrs[len(b.Instrs)-1].(*ssa.If); ok {
			cond := iff.Cond
			for {
				if u, ok := cond.(*ssa.UnOp); ok && u.Op == token.NOT {
					cond = u.X
					continue
				}
				break
			}
			if call, _ := asCall(cond); call != nil && calleeName(call.Common()) == d.method && p.sameValue(callRecv(call.Common()), owner) {
				d.pauseIfs = append(d.pauseIfs, iff)
			}
		}
	}
	// closures created here that may write are treated like calls at their creation site
	for _, call := range callsIn(fn) {
		effs := p.mwCallMayWrite(call)
		if len(effs) == 0 {
			continue
		}
		name := calleeName(call.Common)
		if name == "" {
			name = "func-value"
		}
		o := c.Ob(fn, "maywrite-"+name, call.Instr, "a call that may send a write request must not be reachable while "+d.what+" is paused")
		o.Require("F:" + d.method + "(" + p.describe(owner) + ") on every path to the call")
		d.nWriteObs++
		if len(effs) > 3 {
			effs = append(effs[:3], fmt.Sprintf("... %d more", len(effs)-3))
		}
		o.Note("may write via: " + strings.Join(effs, " | "))
		if p.mwHoldsOnAllPaths(call.Block(), d.notPaused(owner)) {
			o.OK("guarded: " + d.what + " not paused (or being deleted) on every path")
			continue
		}
		if alts, isMerge := p.mwInvokeAlternatives(call); isMerge {
			// the receiver is an element of a list chosen among several: every list that holds a
			// writing callee must be chosen only when not paused
			allOK := true
			var notes []string
			for _, alt := range alts {
				writes := false
				for _, g := range alt.Callees {
					if len(p.mwWriteEffects(g)) > 0 {
						writes = true
					}
				}
				if !writes {
					notes = append(notes, "list "+p.describe(alt.List)+" holds no writing callee")
					continue
				}
				if p.mwHoldsCaseSplit(p.FactsOnEdge(alt.From, alt.To), d.notPaused(owner), 0) || p.mwHoldsOnAllPaths(alt.From, d.notPaused(owner)) {
					notes = append(notes, "list "+p.describe(alt.List)+" is chosen only when not paused")
					continue
				}
				allOK = false
			}
			if allOK {
				o.OK("guarded per list the receiver is taken from: " + strings.Join(notes, "; "))
				continue
			}
		}
		if ws, isW := classifyWriter(call); isW {
			if d.allow != nil {
				if ok, why := d.allow(d, fn, owner, call, ws); ok {
					o.OK("permitted while paused: " + why)
					continue
				} else if why != "" {
					o.Fail("write reachable while paused and not a permitted one: %s", why)
					continue
				}
			}
			o.Fail("%s request reachable while %s is paused (no %s()==false guard on some path)", ws.Verb, d.what, d.method)
			continue
		}
		// not guarded here: every callee must take the owner and guard its own writes
		callees := p.mwCallees(call)
		if depth <= 0 || len(callees) == 0 {
			o.Fail("call may write (%s) and is not guarded by %s()==false; callee cannot be followed further", strings.Join(effs, " | "), d.method)
			continue
		}
		var bad []string
		var followed []string
		for _, g := range callees {
			if len(p.mwWriteEffects(g)) == 0 {
				continue
			}
			var gOwner ssa.Value
			for _, prm := range mwParamsWithMethod(g, d.method) {
				if a := mwArgFor(call, g, prm); a != nil && p.sameValue(a, owner) {
					gOwner = prm
				}
			}
			if gOwner == nil {
				bad = append(bad, shortFuncID(g)+" may write but does not receive the paused object")
				continue
			}
			followed = append(followed, shortFuncID(g))
			d.run(g, gOwner, depth-1)
		}
		if len(bad) > 0 {
			o.Fail("not guarded by %s()==false at the call and %s", d.method, strings.Join(bad, "; "))
		} else {
			o.OK("not guarded at the call; writes inside " + strings.Join(followed, ", ") + " are checked individually")
		}
	}
	for _, af := range fn.AnonFuncs {
		if len(p.mwWriteEffects(af)) == 0 || d.visited[af] {
			continue
		}
		// a writing closure: find its creation site and require the guard there
		for _, b := range fn.Blocks {
			for _, in := range b.Instrs {
				mc, ok := in.(*ssa.MakeClosure)
				if !ok || mc.Fn != ssa.Value(af) {
					continue
				}
				o := c.Ob(fn, "maywrite-closure", mc, "a closure that may send a write request must not be created/run while "+d.what+" is paused")
				d.nWriteObs++
				if p.mwHoldsOnAllPaths(b, d.notPaused(owner)) {
					o.OK("closure created only when not paused")
				} else if d.allow != nil && c09ClosureOnlyAllowed(d, fn, owner, af) {
					o.OK("closure only performs permitted writes")
				} else {
					o.Fail("closure %s may write and is created on a path where %s may be paused", shortFuncID(af), d.what)
				}
			}
		}
	}
}

// c09ClosureOnlyAllowed: every writer site reachable from the closure is a permitted one when
// judged inside its own function (used for status-update callbacks).
func c09ClosureOnlyAllowed(d *c09Descent, fn *ssa.Function, owner ssa.Value, af *ssa.Function) bool {
	p := d.c.P
	for g := range p.mwReach(af) {
		for _, call := range callsIn(g) {
			if _, isEff := p.mwDirectEffect(call); !isEff {
				continue
			}
			ws, isW := classifyWriter(call)
			if !isW {
				return false
			}
			if ok, _ := d.allow(d, g, nil, call, ws); !ok {
				return false
			}
		}
	}
	return true
}

// ---------------------------------------------------------------------------------------------
// R1

func c09PhaseEngineRoots(c *Ctx) []*ssa.Function {
	p := c.P
	seen := map[*ssa.Function]bool{}
	var roots []*ssa.Function
	for _, pk := range []string{pkgObjectSets, pkgObjSetPhases} {
		for _, fn := range p.FuncsIn(pk) {
			for _, call := range callsIn(fn) {
				if !call.Common.IsInvoke() || call.Common.Method.Name() != "ReconcilePhase" {
					continue
				}
				for _, g := range p.mwImpls(call.Common) {
					if !seen[g] {
						seen[g] = true
						roots = append(roots, g)
					}
				}
			}
		}
	}
	return roots
}

func c09r1(c *Ctx) {
	p := c.P
	roots := c09PhaseEngineRoots(c)
	if len(roots) == 0 {
		c.AnchorLost("implementation of the phaseReconciler.ReconcilePhase interface method invoked by the ObjectSet / ObjectSetPhase controllers")
		return
	}
	for _, root := range roots {
		owners := mwParamsWithMethod(root, "IsSpecPaused")
		if len(owners) != 1 {
			c.Ob(root, "owner-param", nil, "the phase engine entry point receives the owner whose pause state is tested").Fail("%d parameters with IsSpecPaused()", len(owners))
			continue
		}
		d := &c09Descent{c: c, method: "IsSpecPaused", what: "the owner (ObjectSet / ObjectSetPhase)", visited: map[*ssa.Function]bool{}, ownerOf: map[*ssa.Function]ssa.Value{}}
		d.run(root, owners[0], 5)
		if d.nWriteObs == 0 {
			c.Ob(root, "no-writer", nil, "positive control: the phase engine must reach at least one writer").Fail("no call that may write is reachable from %s — the may-write summary lost its writers", shortFuncID(root))
		}
		// paused edge: read from cache, return it with nil error, nothing that writes
		o := c.Ob(root, "paused-edge-reads-and-returns", nil, "when paused the object is read (client.Reader.Get) and returned with a nil error so the caller keeps probing it; no write is reachable from the paused edge")
		if len(d.pauseIfs) == 0 {
			o.Fail("no branch on owner.IsSpecPaused() found in the functions between ReconcilePhase and the writers")
			continue
		}
		var problems, notes []string
		okReturn := false
		for _, iff := range d.pauseIfs {
			fn := iff.Parent()
			owner := d.ownerOf[fn]
			f := p.mkFact(iff.Cond, true)
			succ := iff.Block().Succs[0]
			if !f.Pol {
				succ = iff.Block().Succs[1]
			}
			if succ == iff.Block().Succs[0] && succ == iff.Block().Succs[1] {
				continue
			}
			for _, in := range reachableFromEdge(succ, nil) {
				ci, ok := in.(ssa.CallInstruction)
				if !ok {
					continue
				}
				call := Call{Instr: ci, Common: ci.Common(), Fn: fn}
				if effs := p.mwCallMayWrite(call); len(effs) > 0 {
					if p.mwHoldsOnAllPaths(in.Block(), d.notPaused(owner)) {
						continue // re-tested and not paused
					}
					problems = append(problems, "from the paused edge at "+p.IPos(iff)+" the call at "+p.IPos(in)+" may write: "+effs[0])
				}
			}
			for _, rc := range p.returnCases(fn) {
				if len(rc.Results) < 2 || !isNilConst(stripConv(rc.Results[len(rc.Results)-1])) {
					continue
				}
				paused := false
				for _, ff := range rc.Facts {
					if ff.key == f.key {
						paused = true
					}
				}
				if !paused {
					continue
				}
				obj := rc.Results[0]
				for _, cc := range callsIn(fn) {
					call, ok := cc.Instr.(*ssa.Call)
					if !ok || !isReaderGet(cc.Common) {
						continue
					}
					if p.sameValue(callArgs(cc.Common)[2], obj) && p.errOfCallIsNil(rc.Facts, call) {
						okReturn = true
						notes = append(notes, "paused return at "+p.IPos(rc.Ret)+" yields the object filled by "+p.describe(callRecv(cc.Common))+".Get")
					}
				}
			}
		}
		if !okReturn {
			problems = append(problems, "no return on the paused edge yields (object filled by an error-free Reader.Get, nil)")
		}
		if len(problems) > 0 {
			o.Fail("%s", strings.Join(problems, "; "))
		} else {
			o.OK(notes...)
		}
	}
}

// ---------------------------------------------------------------------------------------------
// R2

// c09DeletingOrArchived: facts contain !X.ClientObject().GetDeletionTimestamp().IsZero() or
// X.IsArchived() for an X accepted by xOK.
func c09DeletingOrArchived(p *Program, fs []Fact, xOK func(ssa.Value) bool) (string, bool) {
	if x, ok := p.mwFactAccessor(fs, true, "IsArchived", xOK); ok {
		return "IsArchived(" + p.describe(x) + ")", true
	}
	for _, f := range fs {
		if f.Pol {
			continue
		}
		call, _ := asCall(f.Cond)
		if call == nil || calleeName(call.Common()) != "IsZero" {
			continue
		}
		r := callRecv(call.Common())
		if r == nil {
			continue
		}
		dt, _ := asCall(r)
		if dt == nil || calleeName(dt.Common()) != "GetDeletionTimestamp" {
			continue
		}
		obj := callRecv(dt.Common())
		if obj == nil {
			continue
		}
		x := obj
		if co, _ := asCall(obj); co != nil && calleeName(co.Common()) == "ClientObject" {
			x = callRecv(co.Common())
		}
		if xOK == nil || xOK(x) || xOK(obj) {
			return "DeletionTimestamp != 0 of " + p.describe(x), true
		}
	}
	return "", false
}

func c09r2(c *Ctx) {
	p := c.P
	type leaf struct {
		call Call
		why  string
		ok   bool
		path string
	}
	leaves := map[ssa.Instruction]*leaf{}
	var order []ssa.Instruction
	nRoots := 0
	var walk func(site Call, path []string, seen map[*ssa.Function]bool)
	walk = func(site Call, path []string, seen map[*ssa.Function]bool) {
		fn := site.Fn
		c.Visit(fn)
		argOK := func(x ssa.Value) bool {
			if _, isParam := stripConv(x).(*ssa.Parameter); isParam && len(path) == 1 {
				return true
			}
			for _, a := range site.Common.Args {
				if p.sameValue(a, x) {
					return true
				}
			}
			if site.Common.IsInvoke() && p.sameValue(site.Common.Value, x) {
				return true
			}
			return false
		}
		why := ""
		guarded := p.mwHoldsOnAllPaths(site.Instr.Block(), func(fs []Fact) bool {
			w, ok := c09DeletingOrArchived(p, fs, argOK)
			if ok {
				why = w
			}
			return ok
		})
		rec := func(ok bool, why string) {
			if l, dup := leaves[site.Instr]; dup {
				if !ok {
					l.ok = false
					l.why = why
				}
				return
			}
			leaves[site.Instr] = &leaf{call: site, why: why, ok: ok, path: strings.Join(path, " <- ")}
			order = append(order, site.Instr)
		}
		if guarded {
			rec(true, why)
			return
		}
		if seen[fn] {
			return
		}
		seen[fn] = true
		defer delete(seen, fn)
		target := fn
		for target.Parent() != nil {
			target = target.Parent() // closures: treat the creating function as the caller
		}
		callers := p.mwCallSitesOf(target)
		if len(callers) == 0 || len(path) > 8 {
			rec(false, "reached "+shortFuncID(target)+" (no further callers in the workspace) without passing a guard DeletionTimestamp != 0 or IsArchived() on the owner")
			return
		}
		for _, cs := range callers {
			if isNonProductPkg(funcPkgPath(cs.Fn)) {
				continue
			}
			walk(cs, append(append([]string{}, path...), shortFuncID(cs.Fn)), seen)
		}
	}
	for _, ws := range allWriterSites(p.productFuncs()) {
		if ws.Verb != "Delete" || mwIsDryRun(ws) {
			continue
		}
		pk := funcPkgPath(ws.Call.Fn)
		if pk != pkgControllers && pk != pkgObjectSets && pk != pkgObjSetPhases {
			continue
		}
		nRoots++
		walk(ws.Call, []string{shortFuncID(ws.Call.Fn)}, map[*ssa.Function]bool{})
	}
	if nRoots < 2 {
		c.Ob(nil, "delete-sites", nil, "positive control: the Delete of managed objects and the Delete of the delegated phase object are found").Fail("only %d Delete site(s) found in the phase engine / ObjectSet controllers", nRoots)
	}
	for _, in := range order {
		l := leaves[in]
		name := calleeName(l.call.Common)
		o := c.Ob(l.call.Fn, "teardown-path-"+name, l.call.Instr, c.rule.Statement)
		o.Require("F:IsZero(GetDeletionTimestamp(owner)) or T:IsArchived(owner) on every path to the call, owner being passed on")
		o.Note("call path: " + l.path)
		if l.ok {
			o.OK("guard: " + l.why)
		} else {
			o.Fail("%s", l.why)
		}
	}
}

// ---------------------------------------------------------------------------------------------
// R3

// c09ConditionsOwner: conds is X.GetConditions() (possibly dereferenced) -> X.
func c09ConditionsOwner(p *Program, conds ssa.Value) ssa.Value {
	v := stripConv(conds)
	if u, ok := v.(*ssa.UnOp); ok && u.Op == token.MUL {
		v = u.X
	}
	call, _ := asCall(v)
	if call == nil || calleeName(call.Common()) != "GetConditions" {
		return nil
	}
	return callRecv(call.Common())
}

// c09AllPhasesPausedFn checks that g returns true at result 0 only as
// `count == len(X.GetRemotePhases())` with count incremented only under
// meta.IsStatusConditionTrue(_, "Paused").
func c09AllPhasesPausedFn(p *Program, g *ssa.Function) (bool, string) {
	found := false
	for _, rc := range p.returnCases(g) {
		if len(rc.Results) == 0 {
			return false, "no results"
		}
		r0 := rc.Results[0]
		if r0 == nil {
			return false, "unresolved result"
		}
		if b, isConst := constBool(r0); isConst {
			if b {
				return false, "returns constant true at " + p.IPos(rc.Ret)
			}
			continue
		}
		bin, ok := r0.(*ssa.BinOp)
		if !ok || bin.Op != token.EQL {
			return false, "result is not a comparison count == len(GetRemotePhases()) at " + p.IPos(rc.Ret)
		}
		isLen := func(v ssa.Value) bool {
			call, _ := asCall(v)
			if call == nil || !isCallTo(call.Common(), "builtin:len") {
				return false
			}
			in, _ := asCall(call.Common().Args[0])
			return in != nil && calleeName(in.Common()) == "GetRemotePhases"
		}
		var cnt ssa.Value
		switch {
		case isLen(bin.X):
			cnt = bin.Y
		case isLen(bin.Y):
			cnt = bin.X
		default:
			return false, "comparison is not against len(GetRemotePhases()) at " + p.IPos(rc.Ret)
		}
		ph, ok := cnt.(*ssa.Phi)
		if !ok {
			return false, "counter is not a loop-carried value"
		}
		incs := 0
		for _, e := range ph.Edges {
			if e == ssa.Value(ph) {
				continue
			}
			if n, isInt := constInt(e); isInt && n == 0 {
				continue
			}
			add, ok := e.(*ssa.BinOp)
			if !ok || add.Op != token.ADD {
				return false, "counter is changed by something other than +1"
			}
			one, isInt := constInt(add.Y)
			if !(add.X == ssa.Value(ph) && isInt && one == 1) {
				return false, "counter is changed by something other than +1"
			}
			if _, ok := p.findFactCall(p.FactsAt(add.Block()), true, []string{pkgMeta + ".IsStatusConditionTrue"}, func(cc *ssa.CallCommon) bool {
				return len(cc.Args) == 2 && isStringConst(cc.Args[1], "Paused")
			}); !ok {
				return false, "counter incremented at " + p.IPos(add) + " without IsStatusConditionTrue(_, \"Paused\")"
			}
			incs++
		}
		if incs == 0 {
			return false, "counter is never incremented"
		}
		found = true
	}
	if !found {
		return false, "never returns a computed value"
	}
	return true, ""
}

// c09FieldAlt is one value a field of a condition value can have when it is handed to
// SetStatusCondition (Val nil: still the zero value) with what is known on the ways on which that
// definition is the one in effect.
type c09FieldAlt struct {
	Val   ssa.Value
	Facts []Fact
}

func c09FieldIndex(t types.Type, name string) int {
	if pt, ok := t.Underlying().(*types.Pointer); ok {
		t = pt.Elem()
	}
	if st, ok := t.Underlying().(*types.Struct); ok {
		for i := 0; i < st.NumFields(); i++ {
			if st.Field(i).Name() == name {
				return i
			}
		}
	}
	return -1
}

// c09FieldAlts: the values field `field` of the struct value v can hold — v is a literal, a local
// variable filled field by field or assigned as a whole (per reaching definition, fieldDefsAt), a
// zero constant or a merge of those. ok=false: v is something else, or the variable's address is
// handed out.
func (p *Program) c09FieldAlts(v ssa.Value, field string, depth int) (alts []c09FieldAlt, ok bool) {
	v = stripConv(v)
	if depth > 4 {
		return nil, false
	}
	switch x := v.(type) {
	case *ssa.Const:
		if x.Value == nil {
			return []c09FieldAlt{{}}, true
		}
	case *ssa.UnOp:
		a, isAlloc := x.X.(*ssa.Alloc)
		if x.Op != token.MUL || !isAlloc {
			return nil, false
		}
		idx := c09FieldIndex(a.Type(), field)
		if idx < 0 {
			return nil, false
		}
		defs, ok := p.fieldDefsAt(a, idx, x, nil)
		if !ok {
			return nil, false
		}
		for _, d := range defs {
			if d.Whole == nil {
				alts = append(alts, c09FieldAlt{Val: d.Val, Facts: d.Facts})
				continue
			}
			sub, ok := p.c09FieldAlts(d.Whole, field, depth+1)
			if !ok {
				return nil, false
			}
			for _, sa := range sub {
				alts = append(alts, c09FieldAlt{Val: sa.Val, Facts: c09MergeFacts(d.Facts, sa.Facts)})
			}
		}
		return alts, true
	case *ssa.Phi:
		for i, e := range x.Edges {
			if i >= len(x.Block().Preds) {
				return nil, false
			}
			sub, ok := p.c09FieldAlts(e, field, depth+1)
			if !ok {
				return nil, false
			}
			ef := p.FactsOnEdge(x.Block().Preds[i], x.Block())
			for _, sa := range sub {
				alts = append(alts, c09FieldAlt{Val: sa.Val, Facts: c09MergeFacts(ef, sa.Facts)})
			}
		}
		return alts, true
	}
	return nil, false
}

func c09MergeFacts(a, b []Fact) []Fact {
	fs := factSet{}
	for _, f := range a {
		fs[f.key] = f
	}
	for _, f := range b {
		fs[f.key] = f
	}
	return fs.list()
}

func c09r3(c *Ctx) {
	p := c.P
	nTrue := 0
	for _, pk := range []string{pkgObjectSets, pkgObjSetPhases} {
		for _, fn := range p.FuncsIn(pk) {
			for _, cs := range conditionSets(fn) {
				// Type and Status of the condition value as it is when the call runs, one entry per
				// reaching definition (a literal has one; a variable filled field by field has one per
				// assignment that can be the last, each with what is known on its way to the call)
				types_, tOK := p.c09FieldAlts(cs.Call.Common.Args[1], "Type", 0)
				if !tOK {
					if cs.Fields != nil {
						if _, isConst := constString(cs.Fields["Type"]); !isConst {
							c.Ob(fn, "SetStatusCondition-dynamic-type", cs.Call.Instr, "condition type must be constant to decide whether it is Paused").Unknown("the condition's Type cannot be read per definition (the variable's address is handed out)")
						} else if cs.Type == "Paused" {
							c.Ob(fn, "Paused-dynamic-status", cs.Call.Instr, "status of the Paused condition must be constant").Unknown("the condition's fields cannot be read per definition (the variable's address is handed out)")
						}
					}
					continue
				}
				mayBePaused, dynType := false, ssa.Value(nil)
				for _, ta := range types_ {
					if ta.Val == nil {
						continue // Type still the zero value
					}
					t, isConst := constString(ta.Val)
					if !isConst {
						dynType = ta.Val
					} else if t == "Paused" {
						mayBePaused = true
					}
				}
				if dynType != nil {
					// non-constant type: could be Paused
					c.Ob(fn, "SetStatusCondition-dynamic-type", cs.Call.Instr, "condition type must be constant to decide whether it is Paused").Unknown("condition Type is %s", p.describe(dynType))
					continue
				}
				if !mayBePaused {
					continue
				}
				stats, sOK := p.c09FieldAlts(cs.Call.Common.Args[1], "Status", 0)
				if !sOK {
					c.Ob(fn, "Paused-dynamic-status", cs.Call.Instr, "status of the Paused condition must be constant").Unknown("the condition's Status cannot be read per definition")
					continue
				}
				// the definitions of Status that write True, each judged under the facts of the call
				// together with those of the ways on which that definition is the one in effect
				var trueAlts [][]Fact
				dynStatus := false
				for _, sa := range stats {
					if sa.Val == nil {
						continue // Status still "" — not True
					}
					st, isConst := constString(sa.Val)
					if !isConst {
						dynStatus = true
						continue
					}
					if st != "True" {
						continue
					}
					fs := c09MergeFacts(p.FactsAt(cs.Call.Block()), sa.Facts)
					if pfDeadByFacts(fs) {
						continue // copy of the write under contradictory guards (never executes)
					}
					trueAlts = append(trueAlts, fs)
				}
				if dynStatus {
					c.Ob(fn, "Paused-dynamic-status", cs.Call.Instr, "status of the Paused condition must be constant").Unknown("Status is not a constant")
					continue
				}
				if len(trueAlts) == 0 {
					continue
				}
				nTrue++
				o := c.Ob(fn, "Paused=True", cs.Call.Instr, "Paused=True is reported only when the object's spec says paused (ObjectSet: and every remote phase reports Paused)")
				x := c09ConditionsOwner(p, cs.Call.Common.Args[0])
				if x == nil {
					o.Unknown("conditions argument is not X.GetConditions()")
					continue
				}
				var problems []string
				for _, raw := range trueAlts {
					fs := p.mwExpandFacts(raw)
					if _, ok := p.mwFactAccessor(fs, true, "IsSpecPaused", func(r ssa.Value) bool { return p.sameValue(r, x) }); !ok {
						problems = append(problems, "not guarded by IsSpecPaused() == true of the object whose condition is set")
					} else {
						o.Note("T:IsSpecPaused(" + p.describe(x) + ")")
					}
					if mwHasMethod(x.Type(), "GetRemotePhases") {
						ok, why := c09RemotePhasesPausedFact(p, fn, fs, x)
						if !ok {
							problems = append(problems, why)
						} else {
							o.Note(why)
						}
					}
				}
				if len(problems) > 0 {
					o.Fail("%s", strings.Join(problems, "; "))
				} else {
					o.OK()
				}
			}
			for _, rm := range conditionRemovals(fn) {
				if rm.Type != "Paused" {
					continue
				}
				if pfDeadByFacts(p.FactsAt(rm.Call.Block())) {
					continue // copy of the removal under contradictory guards (never executes)
				}
				o := c.Ob(fn, "Paused-removed", rm.Call.Instr, "the Paused condition is removed only when the object's spec is not paused")
				x := c09ConditionsOwner(p, rm.Call.Common.Args[0])
				if x == nil {
					o.Unknown("conditions argument is not X.GetConditions()")
					continue
				}
				fs := p.mwExpandFacts(p.FactsAt(rm.Call.Block()))
				if _, ok := p.mwFactAccessor(fs, false, "IsSpecPaused", func(r ssa.Value) bool { return p.sameValue(r, x) }); ok {
					o.OK("F:IsSpecPaused(" + p.describe(x) + ")")
				} else {
					o.Fail("Paused condition removed on a path where IsSpecPaused() may be true")
				}
			}
		}
	}
	// delegated phase pause patch
	for _, ws := range allWriterSites(p.FuncsIn(pkgObjectSets)) {
		if ws.Verb != "Patch" {
			continue
		}
		body, ok := c09PatchBody(ws)
		if !ok {
			continue
		}
		spec, ok := mapLiteral(body["spec"])
		if !ok {
			continue
		}
		pausedVal, ok := spec["paused"]
		if !ok {
			continue
		}
		fn := ws.Call.Fn
		o := c.Ob(fn, "pause-patch", ws.Call.Instr, "the spec.paused patch of the delegated phase is sent iff current and desired pause state differ, carries the desired value and the resourceVersion of the patched object; desired is paused iff the ObjectSet is")
		var problems []string
		dCall, _ := asCall(pausedVal)
		if dCall == nil || calleeName(dCall.Common()) != "IsPaused" {
			o.Fail("spec.paused is %s, not <desired>.IsPaused()", p.describe(pausedVal))
			continue
		}
		desired := callRecv(dCall.Common())
		// patched object = C.ClientObject()
		cCall, _ := asCall(ws.Obj)
		if cCall == nil || calleeName(cCall.Common()) != "ClientObject" {
			o.Fail("patched object is not <current>.ClientObject()")
			continue
		}
		current := callRecv(cCall.Common())
		fs := p.FactsAt(ws.Call.Block())
		differ := false
		for _, f := range fs {
			bin, ok := f.Cond.(*ssa.BinOp)
			if !ok {
				continue
			}
			if !((bin.Op == token.NEQ && f.Pol) || (bin.Op == token.EQL && !f.Pol)) {
				continue
			}
			isPausedOf := func(v, recv ssa.Value) bool {
				call, _ := asCall(v)
				return call != nil && calleeName(call.Common()) == "IsPaused" && p.sameValue(callRecv(call.Common()), recv)
			}
			if (isPausedOf(bin.X, current) && isPausedOf(bin.Y, desired)) || (isPausedOf(bin.Y, current) && isPausedOf(bin.X, desired)) {
				differ = true
			}
		}
		if !differ {
			problems = append(problems, "patch is not guarded by current.IsPaused() != desired.IsPaused()")
		}
		for k := range spec {
			if k != "paused" {
				problems = append(problems, "patch touches spec."+k)
			}
		}
		md, ok := mapLiteral(body["metadata"])
		if !ok {
			problems = append(problems, "patch has no metadata map (resourceVersion precondition missing)")
		} else {
			rv, _ := asCall(md["resourceVersion"])
			if rv == nil || calleeName(rv.Common()) != "GetResourceVersion" || !p.sameValue(callRecv(rv.Common()), ws.Obj) {
				problems = append(problems, "metadata.resourceVersion is not GetResourceVersion() of the patched object")
			}
			for k := range md {
				if k != "resourceVersion" {
					problems = append(problems, "patch touches metadata."+k)
				}
			}
		}
		for k := range body {
			if k != "spec" && k != "metadata" {
				problems = append(problems, "patch touches "+k)
			}
		}
		// desired is built by a function in which SetPaused(true) happens iff objectSet.IsSpecPaused()
		// (when the pause block was extracted into a helper, desired is the argument passed to it)
		dc, idx := asCall(p.mwThroughParam(desired))
		var builder *ssa.Function
		if dc != nil && (idx == 0 || idx == -1) {
			builder = staticCallee(dc.Common())
		}
		if builder == nil || builder.Blocks == nil {
			problems = append(problems, "desired phase object is not the result of a workspace function")
		} else {
			c.Visit(builder)
			if why := c09SetPausedIffSpecPaused(p, builder); why != "" {
				problems = append(problems, "in "+shortFuncID(builder)+": "+why)
			} else {
				o.Note("desired built by " + shortFuncID(builder) + ": SetPaused(true) iff IsSpecPaused()")
			}
		}
		if len(problems) > 0 {
			o.Fail("%s", strings.Join(problems, "; "))
		} else {
			o.OK("guard current.IsPaused() != desired.IsPaused(); value desired.IsPaused(); resourceVersion of patched object")
		}
	}
	if nTrue < 2 {
		c.Ob(nil, "Paused=True-sites", nil, "positive control: both controllers report Paused=True").Fail("found %d Paused=True sites, expected one per controller", nTrue)
	}
}

// c09RemotePhasesPausedFact: the facts contain T:v where v is IsSpecPaused(x) (no remote phases)
// or result 0 of a workspace function that counts phases whose Paused condition is true.
func c09RemotePhasesPausedFact(p *Program, fn *ssa.Function, fs []Fact, x ssa.Value) (bool, string) {
	var lastWhy string
	// no remote phases at all on this path (`len(x.GetRemotePhases()) > 0` is known false): "every
	// remote phase reports Paused" holds vacuously, the spec alone decides
	for _, f := range fs {
		if l, nonEmptyWhenTrue, ok := lenCmp(f.Cond); ok && f.Pol != nonEmptyWhenTrue {
			if rp, _ := asCall(l); rp != nil && calleeName(rp.Common()) == "GetRemotePhases" && p.sameValue(callRecv(rp.Common()), x) {
				return true, "F:len(" + p.describe(x) + ".GetRemotePhases()) > 0 (no remote phases)"
			}
		}
	}
	for _, f := range fs {
		if !f.Pol {
			continue
		}
		viaFn := 0
		var names []string
		// every value that can have made the fact true is IsSpecPaused(x) or result 0 of a faithful
		// count; a value computed by an extracted helper (`paused, unknown, err := helper(...)`) is
		// judged by the values the helper returns; a constant false cannot have made the fact true
		var accept func(v ssa.Value, d int) bool
		accept = func(v ssa.Value, d int) bool {
			for _, pv := range p.possibleValues(v) {
				if b, isConst := constBool(pv); isConst && !b {
					continue
				}
				call, idx := asCall(pv)
				if call == nil {
					return false
				}
				if calleeName(call.Common()) == "IsSpecPaused" && p.sameValue(callRecv(call.Common()), x) {
					continue
				}
				g := staticCallee(call.Common())
				if g == nil || g.Blocks == nil {
					return false
				}
				passes := false
				for _, a := range call.Common().Args {
					if p.sameValue(a, x) {
						passes = true
					}
				}
				if !passes {
					return false
				}
				if idx <= 0 {
					ok, why := c09AllPhasesPausedFn(p, g)
					if ok {
						names = append(names, shortFuncID(g))
						viaFn++
						continue
					}
					lastWhy = shortFuncID(g) + ": " + why
				}
				if d >= 3 || !p.inlinable(g) {
					return false
				}
				ri := idx
				if ri < 0 {
					ri = 0
				}
				n := 0
				for _, b := range g.Blocks {
					if len(b.Instrs) == 0 || (g.Recover != nil && b == g.Recover) {
						continue
					}
					ret, isRet := b.Instrs[len(b.Instrs)-1].(*ssa.Return)
					if !isRet || ri >= len(ret.Results) {
						continue
					}
					n++
					if !accept(p.resolveResult(ret.Results[ri], ret), d+1) {
						return false
					}
				}
				if n == 0 {
					return false
				}
			}
			return true
		}
		if accept(f.Cond, 0) && viaFn > 0 {
			return true, "T:phases paused, computed by " + strings.Join(names, ",") + " (count of phases with Paused=True == len(GetRemotePhases()))"
		}
	}
	if lastWhy != "" {
		return false, "remote phases check is not a faithful count: " + lastWhy
	}
	return false, "not guarded by a value telling that every remote phase reports Paused"
}

// c09PatchBody resolves RawPatch(_, json.Marshal(map literal)#0).
func c09PatchBody(ws WriterSite) (map[string]ssa.Value, bool) {
	args := callArgs(ws.Call.Common)
	if len(args) < 3 {
		return nil, false
	}
	pc, _ := asCall(args[2])
	if pc == nil || !isCallTo(pc.Common(), pkgClient+".RawPatch") {
		return nil, false
	}
	mc, idx := asCall(pc.Common().Args[1])
	if mc == nil || !isCallTo(mc.Common(), "encoding/json.Marshal") || idx != 0 {
		return nil, false
	}
	return mapLiteral(mc.Common().Args[0])
}

// c09SetPausedIffSpecPaused: in builder, SetPaused is called with constant true exactly on the
// IsSpecPaused()==true edge of a parameter (or with the value IsSpecPaused() itself, unconditionally).
// Returns "" when fine.
func c09SetPausedIffSpecPaused(p *Program, builder *ssa.Function) string {
	n := 0
	for _, cc := range callsIn(builder) {
		if calleeName(cc.Common) != "SetPaused" || len(callArgs(cc.Common)) != 1 {
			continue
		}
		n++
		arg := callArgs(cc.Common)[0]
		fs := p.mwExpandFacts(p.FactsAt(cc.Block()))
		if b, isConst := constBool(arg); isConst {
			src, ok := p.mwFactAccessor(fs, b, "IsSpecPaused", func(r ssa.Value) bool { _, isP := stripConv(r).(*ssa.Parameter); return isP })
			if !ok {
				return fmt.Sprintf("SetPaused(%v) at %s is not guarded by IsSpecPaused()==%v of the ObjectSet", b, p.IPos(cc.Instr), b)
			}
			if b {
				// the paused edge must always reach this call
				var iff *ssa.If
				for _, blk := range builder.Blocks {
					if len(blk.Instrs) == 0 {
						continue
					}
					if i, ok := blk.Instrs[len(blk.Instrs)-1].(*ssa.If); ok {
						f := p.mkFact(i.Cond, true)
						if call, _ := asCall(f.Cond); call != nil && calleeName(call.Common()) == "IsSpecPaused" && p.sameValue(callRecv(call.Common()), src) {
							succ := blk.Succs[0]
							if !f.Pol {
								succ = blk.Succs[1]
							}
							iff = i
							if !p.mwMustExecuteFrom(succ, func(in ssa.Instruction) bool { return in == cc.Instr }) {
								return "a path from the IsSpecPaused()==true edge reaches a return without SetPaused(true)"
							}
						}
					}
				}
				if iff == nil {
					return "no branch on IsSpecPaused() found"
				}
			}
			continue
		}
		ac, _ := asCall(arg)
		if ac != nil && calleeName(ac.Common()) == "IsSpecPaused" {
			if _, isP := stripConv(callRecv(ac.Common())).(*ssa.Parameter); isP {
				continue
			}
		}
		return "SetPaused argument at " + p.IPos(cc.Instr) + " is neither a constant under an IsSpecPaused() guard nor IsSpecPaused() itself"
	}
	if n == 0 {
		return "SetPaused is never called (a paused ObjectSet would leave its delegated phases running)"
	}
	return ""
}

// ---------------------------------------------------------------------------------------------
// R4 / R5

// c09ReconcilerRoots: methods `Reconcile(ctx, reconcile.Request)` declared in pkg.
func c09ReconcilerRoots(p *Program, pkg string) []*ssa.Function {
	var out []*ssa.Function
	for _, fn := range p.FuncsIn(pkg) {
		if fn.Name() != "Reconcile" || fn.Signature.Recv() == nil || fn.Signature.Params().Len() != 2 {
			continue
		}
		if strings.HasSuffix(namedTypeString(fn.Signature.Params().At(1).Type()), "reconcile.Request") {
			out = append(out, fn)
		}
	}
	return out
}

// c09BeingDeleted: alternative guard for R4/R5 — the owner is being deleted.
func c09BeingDeleted(d *c09Descent, owner ssa.Value, fs []Fact) bool {
	p := d.c.P
	for _, f := range fs {
		if f.Pol {
			continue
		}
		call, _ := asCall(f.Cond)
		if call == nil || calleeName(call.Common()) != "IsZero" || callRecv(call.Common()) == nil {
			continue
		}
		dt, _ := asCall(callRecv(call.Common()))
		if dt == nil || calleeName(dt.Common()) != "GetDeletionTimestamp" {
			continue
		}
		co, _ := asCall(callRecv(dt.Common()))
		if co != nil && calleeName(co.Common()) == "ClientObject" && p.sameValue(callRecv(co.Common()), owner) {
			return true
		}
	}
	return false
}

// c09OwnSelfWrite: the written object is owner.ClientObject() (status / finalizer of the paused
// object itself — not one of its children).
func c09OwnSelfWrite(p *Program, owner ssa.Value, ws WriterSite) bool {
	co, _ := asCall(ws.Obj)
	if co == nil || calleeName(co.Common()) != "ClientObject" {
		return false
	}
	r := callRecv(co.Common())
	if owner != nil {
		return p.sameValue(r, owner)
	}
	return false
}

// c09ControllerDescent runs the descent from a controller Reconcile whose paused object is a local
// (the value with the accessor that is passed to the writing callees).
func c09ControllerDescent(c *Ctx, root *ssa.Function, method, what string, allow func(d *c09Descent, fn *ssa.Function, owner ssa.Value, call Call, ws WriterSite) (bool, string)) *c09Descent {
	p := c.P
	d := &c09Descent{c: c, method: method, what: what, visited: map[*ssa.Function]bool{}, ownerOf: map[*ssa.Function]ssa.Value{}, allow: allow, altGuard: c09BeingDeleted}
	// owner in the root: the unique value with the accessor that is handed to a writing callee or whose ClientObject() is written
	var owner ssa.Value
	ambiguous := false
	consider := func(v ssa.Value) {
		if v == nil || !mwHasMethod(v.Type(), method) || !mwHasMethod(v.Type(), "ClientObject") {
			return
		}
		if owner == nil {
			owner = v
		} else if !p.sameValue(owner, v) {
			ambiguous = true
		}
	}
	for _, call := range callsIn(root) {
		if calleeName(call.Common) == method && len(callArgs(call.Common)) == 0 {
			// the value the root itself tests
			if r := callRecv(call.Common); r != nil && p.mwHoldsOnAllPaths(call.Block(), func([]Fact) bool { return true }) {
				_ = r
			}
		}
		if len(p.mwCallMayWrite(call)) == 0 {
			continue
		}
		if _, isW := classifyWriter(call); isW {
			continue
		}
		for _, a := range call.Common.Args {
			consider(a)
		}
	}
	if owner == nil || ambiguous {
		c.Ob(root, "paused-object", nil, "the controller hands the object whose pause state matters to its writing sub-reconcilers").Unknown("cannot determine the paused object in %s (found: %v, ambiguous: %v)", shortFuncID(root), owner != nil, ambiguous)
		return d
	}
	d.run(root, owner, 5)
	return d
}

func c09r4(c *Ctx) {
	p := c.P
	roots := c09ReconcilerRoots(p, pkgObjDeploy)
	if len(roots) == 0 {
		c.AnchorLost("reconcile.Reconciler implementation in " + pkgObjDeploy)
		return
	}
	var propagation []WriterSite
	allow := func(d *c09Descent, fn *ssa.Function, owner ssa.Value, call Call, ws WriterSite) (bool, string) {
		if owner != nil && c09OwnSelfWrite(p, owner, ws) {
			return true, "write to the ObjectDeployment itself (status)"
		}
		if strings.HasPrefix(ws.Verb, "Status.") && owner == nil {
			return true, "status write"
		}
		if ws.Verb != "Update" {
			return false, ""
		}
		co, _ := asCall(ws.Obj)
		if co == nil || calleeName(co.Common()) != "ClientObject" || !mwHasMethod(callRecv(co.Common()).Type(), "GetPausedByParent") {
			return false, ""
		}
		propagation = append(propagation, ws)
		return true, "pause propagation Update of a revision (checked as C09.R4 propagation obligation)"
	}
	total := 0
	for _, root := range roots {
		d := c09ControllerDescent(c, root, "GetSpecPaused", "the ObjectDeployment", allow)
		total += d.nWriteObs
	}
	if total == 0 {
		c.Ob(roots[0], "no-writer", nil, "positive control: the deployment controller must reach writers").Fail("no call that may write found")
	}
	// propagation sites
	for _, ws := range propagation {
		fn := ws.Call.Fn
		o := c.Ob(fn, "propagation-Update", ws.Call.Instr, "the pause propagation Update touches only non-archived revisions whose paused-by-parent mark differs from the deployment's pause value, after setting the mark accordingly")
		co, _ := asCall(ws.Obj)
		s := callRecv(co.Common())
		fs := p.mwExpandFacts(p.FactsAt(ws.Call.Block()))
		var problems []string
		if _, ok := p.mwFactAccessor(fs, false, "IsArchived", func(r ssa.Value) bool { return p.sameValue(r, s) }); !ok {
			problems = append(problems, "not guarded by IsArchived()==false of the revision")
		}
		dep := c09DiffersFact(p, fs, s)
		if dep == nil {
			problems = append(problems, "not guarded by GetSpecPaused() != revision.GetPausedByParent()")
		}
		isSetter := func(in ssa.Instruction) bool {
			ci, ok := in.(ssa.CallInstruction)
			if !ok {
				return false
			}
			n := calleeName(ci.Common())
			return (n == "SetPausedByParent" || n == "SetActiveByParent") && p.sameValue(callRecv(ci.Common()), s)
		}
		if !p.mustPrecede(ws.Call.Instr, isSetter) {
			problems = append(problems, "Update is not preceded on every path by SetPausedByParent/SetActiveByParent of the same revision")
		}
		if len(problems) > 0 {
			o.Fail("%s", strings.Join(problems, "; "))
		} else {
			o.OK("F:IsArchived, T:GetSpecPaused()!=GetPausedByParent(), setter precedes")
		}
		for _, cc := range callsIn(fn) {
			n := calleeName(cc.Common)
			if n != "SetPausedByParent" && n != "SetActiveByParent" {
				continue
			}
			oo := c.Ob(fn, "call-"+n, cc.Instr, "SetPausedByParent only while the deployment is paused; SetActiveByParent only while it is not paused and only for revisions carrying the parent's mark")
			r := callRecv(cc.Common)
			ffs := p.mwExpandFacts(p.FactsAt(cc.Block()))
			d2 := c09DiffersFact(p, ffs, r)
			wantPaused := n == "SetPausedByParent"
			var pr []string
			if d2 == nil {
				pr = append(pr, "not under GetSpecPaused() != GetPausedByParent() of the same revision")
			} else if _, ok := p.mwFactAccessor(ffs, wantPaused, "GetSpecPaused", func(x ssa.Value) bool { return p.sameValue(x, d2) }); !ok {
				pr = append(pr, fmt.Sprintf("not under GetSpecPaused()==%v of the deployment", wantPaused))
			}
			if _, ok := p.mwFactAccessor(ffs, false, "IsArchived", func(x ssa.Value) bool { return p.sameValue(x, r) }); !ok {
				pr = append(pr, "revision may be archived")
			}
			if len(pr) > 0 {
				oo.Fail("%s", strings.Join(pr, "; "))
			} else {
				oo.OK()
			}
		}
	}
	if len(propagation) == 0 {
		c.Ob(roots[0], "propagation-Update", nil, "the deployment controller propagates its pause value to the revisions").Fail("no pause propagation Update found")
	}
	c09AdapterSiblings(c)
}

// c09DiffersFact finds T:(D.GetSpecPaused() != s.GetPausedByParent()) and returns D.
func c09DiffersFact(p *Program, fs []Fact, s ssa.Value) ssa.Value {
	for _, f := range fs {
		bin, ok := f.Cond.(*ssa.BinOp)
		if !ok || !((bin.Op == token.NEQ && f.Pol) || (bin.Op == token.EQL && !f.Pol)) {
			continue
		}
		for _, pair := range [][2]ssa.Value{{bin.X, bin.Y}, {bin.Y, bin.X}} {
			a, _ := asCall(pair[0])
			b, _ := asCall(pair[1])
			if a == nil || b == nil {
				continue
			}
			if calleeName(a.Common()) == "GetSpecPaused" && calleeName(b.Common()) == "GetPausedByParent" && p.sameValue(callRecv(b.Common()), s) {
				return callRecv(a.Common())
			}
		}
	}
	return nil
}

// c09AdapterSiblings: every GetPausedByParent tests lifecycleState==Paused and the parent mark;
// SetPausedByParent sets both; SetActiveByParent deletes the mark; all agree on the key.
func c09AdapterSiblings(c *Ctx) {
	p := c.P
	pausedConst := ""
	if pk := p.ByPath[pkgCoreV1]; pk != nil && pk.Types != nil {
		if k, ok := pk.Types.Scope().Lookup("ObjectSetLifecycleStatePaused").(*types.Const); ok {
			pausedConst = k.Val().ExactString()
		}
	}
	if pausedConst == "" {
		c.AnchorLost(pkgCoreV1 + ".ObjectSetLifecycleStatePaused")
		return
	}
	isLifecycleLoad := func(v ssa.Value) bool {
		u, ok := v.(*ssa.UnOp)
		if !ok || u.Op != token.MUL {
			return false
		}
		fa, ok := u.X.(*ssa.FieldAddr)
		return ok && fieldName(fa.X.Type(), fa.Field) == "LifecycleState"
	}
	annotationKeyOf := func(v ssa.Value) (string, bool) {
		lk, ok := v.(*ssa.Lookup)
		if !ok {
			return "", false
		}
		u, ok := lk.X.(*ssa.UnOp)
		if !ok {
			return "", false
		}
		fa, ok := u.X.(*ssa.FieldAddr)
		if !ok || fieldName(fa.X.Type(), fa.Field) != "Annotations" {
			return "", false
		}
		return constString(lk.Index)
	}
	keys := map[string]bool{}
	var fns []*ssa.Function
	for _, fn := range p.productFuncs() {
		if fn.Signature.Recv() != nil && (fn.Name() == "GetPausedByParent" || fn.Name() == "SetPausedByParent" || fn.Name() == "SetActiveByParent") {
			fns = append(fns, fn)
		}
	}
	sort.Slice(fns, func(i, j int) bool { return fns[i].String() < fns[j].String() })
	for _, fn := range fns {
		switch fn.Name() {
		case "GetPausedByParent":
			o := c.Ob(fn, "paused-by-parent", nil, "GetPausedByParent is true only when lifecycleState==Paused and the paused-by-parent annotation is set")
			var problems []string
			for _, rc := range p.returnCases(fn) {
				r := rc.Results[0]
				if b, isConst := constBool(r); isConst && !b {
					continue
				}
				type lit struct {
					v   ssa.Value
					pol bool
				}
				var conj []lit
				for _, f := range p.mwExpandFacts(rc.Facts) {
					conj = append(conj, lit{f.Cond, f.Pol})
				}
				if _, isConst := constBool(r); !isConst {
					rf := p.mkFact(r, true)
					conj = append(conj, lit{rf.Cond, rf.Pol})
				}
				hasState, hasMark := false, false
				for _, l := range conj {
					bin, ok := l.v.(*ssa.BinOp)
					if !ok || !((bin.Op == token.EQL && l.pol) || (bin.Op == token.NEQ && !l.pol)) {
						continue
					}
					for _, pair := range [][2]ssa.Value{{bin.X, bin.Y}, {bin.Y, bin.X}} {
						if k, ok := pair[1].(*ssa.Const); ok && k.Value != nil {
							if isLifecycleLoad(pair[0]) && k.Value.ExactString() == pausedConst {
								hasState = true
							}
							if key, ok := annotationKeyOf(pair[0]); ok && k.Value.ExactString() == "\"true\"" {
								hasMark = true
								keys[key] = true
							}
						}
					}
				}
				if !hasState {
					problems = append(problems, "a true result at "+p.IPos(rc.Ret)+" does not require lifecycleState == Paused")
				}
				if !hasMark {
					problems = append(problems, "a true result at "+p.IPos(rc.Ret)+" does not require the paused-by-parent annotation == \"true\"")
				}
			}
			if len(problems) > 0 {
				o.Fail("%s", strings.Join(problems, "; "))
			} else {
				o.OK()
			}
		case "SetPausedByParent", "SetActiveByParent":
			o := c.Ob(fn, "mark-"+fn.Name(), nil, "SetPausedByParent sets the mark and lifecycleState=Paused; SetActiveByParent deletes the mark and leaves Paused")
			set := fn.Name() == "SetPausedByParent"
			markOK, stateOK := false, false
			ret := func(in ssa.Instruction) bool { return false }
			_ = ret
			for _, b := range fn.Blocks {
				for _, in := range b.Instrs {
					switch x := in.(type) {
					case *ssa.MapUpdate:
						if k, ok := constString(x.Key); ok && set && isStringConst(x.Value, "true") && p.c09Unconditional(in) {
							keys[k] = true
							markOK = true
						}
					case *ssa.Call:
						if !set && isCallTo(x.Common(), "builtin:delete") && len(x.Call.Args) == 2 && p.c09Unconditional(in) {
							if k, ok := constString(x.Call.Args[1]); ok {
								keys[k] = true
								markOK = true
							}
						}
					case *ssa.Store:
						fa, ok := x.Addr.(*ssa.FieldAddr)
						if ok && fieldName(fa.X.Type(), fa.Field) == "LifecycleState" && p.c09Unconditional(in) {
							if k, ok := x.Val.(*ssa.Const); ok && k.Value != nil {
								isPaused := k.Value.ExactString() == pausedConst
								if set && isPaused || !set && !isPaused {
									stateOK = true
								}
							}
						}
					}
				}
			}
			var problems []string
			if !markOK {
				if set {
					problems = append(problems, "does not unconditionally set the paused-by-parent annotation to \"true\"")
				} else {
					problems = append(problems, "does not unconditionally delete the paused-by-parent annotation")
				}
			}
			if !stateOK {
				problems = append(problems, "does not store the expected lifecycleState")
			}
			if len(problems) > 0 {
				o.Fail("%s", strings.Join(problems, "; "))
			} else {
				o.OK()
			}
		}
	}
	ok := c.Ob(nil, "mark-key-agreement", nil, "all adapters read, set and delete the same paused-by-parent annotation key")
	if len(keys) == 1 {
		for k := range keys {
			ok.OK("key " + k)
		}
	} else {
		var ks []string
		for k := range keys {
			ks = append(ks, k)
		}
		sort.Strings(ks)
		ok.Fail("adapters use %d different keys: %v", len(keys), ks)
	}
}

// c09Unconditional: the instruction executes on every path from entry to a normal return.
func (p *Program) c09Unconditional(in ssa.Instruction) bool {
	fn := in.Parent()
	if len(fn.Blocks) == 0 {
		return false
	}
	return p.mwMustExecuteFrom(fn.Blocks[0], func(x ssa.Instruction) bool { return x == in })
}

func c09r5(c *Ctx) {
	p := c.P
	roots := c09ReconcilerRoots(p, pkgPackagesCtl)
	if len(roots) == 0 {
		c.AnchorLost("reconcile.Reconciler implementation in " + pkgPackagesCtl)
		return
	}
	var propagation []WriterSite
	allow := func(d *c09Descent, fn *ssa.Function, owner ssa.Value, call Call, ws WriterSite) (bool, string) {
		if owner != nil && c09OwnSelfWrite(p, owner, ws) {
			return true, "write to the Package itself (status / finalizer)"
		}
		if ws.Verb != "Update" {
			return false, ""
		}
		co, _ := asCall(ws.Obj)
		if co == nil || calleeName(co.Common()) != "ClientObject" || !mwHasMethod(callRecv(co.Common()).Type(), "SetSpecPaused") {
			return false, ""
		}
		propagation = append(propagation, ws)
		return true, "pause propagation Update of the ObjectDeployment (checked as C09.R5 propagation obligation)"
	}
	total := 0
	for _, root := range roots {
		d := c09ControllerDescent(c, root, "GetSpecPaused", "the Package", allow)
		total += d.nWriteObs
	}
	if total == 0 {
		c.Ob(roots[0], "no-writer", nil, "positive control: the package controller must reach writers").Fail("no call that may write found")
	}
	for _, ws := range propagation {
		fn := ws.Call.Fn
		o := c.Ob(fn, "propagation-Update", ws.Call.Instr, "the ObjectDeployment Update is sent only when pkg.GetSpecPaused() != objDep.GetSpecPaused() and after SetSpecPaused(<the package's value>)")
		co, _ := asCall(ws.Obj)
		dep := callRecv(co.Common())
		fs := p.mwExpandFacts(p.FactsAt(ws.Call.Block()))
		var pkgV ssa.Value
		for _, f := range fs {
			bin, ok := f.Cond.(*ssa.BinOp)
			if !ok || !((bin.Op == token.NEQ && f.Pol) || (bin.Op == token.EQL && !f.Pol)) {
				continue
			}
			for _, pair := range [][2]ssa.Value{{bin.X, bin.Y}, {bin.Y, bin.X}} {
				a, _ := asCall(pair[0])
				b, _ := asCall(pair[1])
				if a == nil || b == nil || calleeName(a.Common()) != "GetSpecPaused" || calleeName(b.Common()) != "GetSpecPaused" {
					continue
				}
				if p.sameValue(callRecv(b.Common()), dep) && !p.sameValue(callRecv(a.Common()), dep) {
					pkgV = callRecv(a.Common())
				}
			}
		}
		var problems []string
		if pkgV == nil {
			problems = append(problems, "not guarded by pkg.GetSpecPaused() != objDep.GetSpecPaused()")
		}
		nSet := 0
		for _, cc := range callsIn(fn) {
			if calleeName(cc.Common) != "SetSpecPaused" || !p.sameValue(callRecv(cc.Common), dep) || len(callArgs(cc.Common)) != 1 {
				continue
			}
			nSet++
			arg := callArgs(cc.Common)[0]
			ffs := p.mwExpandFacts(p.FactsAt(cc.Block()))
			if b, isConst := constBool(arg); isConst {
				if pkgV == nil {
					continue
				}
				if _, ok := p.mwFactAccessor(ffs, b, "GetSpecPaused", func(x ssa.Value) bool { return p.sameValue(x, pkgV) }); !ok {
					problems = append(problems, fmt.Sprintf("SetSpecPaused(%v) at %s is not under pkg.GetSpecPaused()==%v", b, p.IPos(cc.Instr), b))
				}
				continue
			}
			ac, _ := asCall(arg)
			if ac == nil || calleeName(ac.Common()) != "GetSpecPaused" || (pkgV != nil && !p.sameValue(callRecv(ac.Common()), pkgV)) {
				problems = append(problems, "SetSpecPaused argument at "+p.IPos(cc.Instr)+" is not the package's pause value")
			}
		}
		if nSet == 0 {
			problems = append(problems, "SetSpecPaused is never called on the updated ObjectDeployment")
		}
		if !p.mustPrecede(ws.Call.Instr, func(in ssa.Instruction) bool {
			ci, ok := in.(ssa.CallInstruction)
			return ok && calleeName(ci.Common()) == "SetSpecPaused" && p.sameValue(callRecv(ci.Common()), dep)
		}) {
			problems = append(problems, "Update is not preceded on every path by SetSpecPaused on the same ObjectDeployment")
		}
		if len(problems) > 0 {
			o.Fail("%s", strings.Join(problems, "; "))
		} else {
			o.OK("T:pkg.GetSpecPaused()!=objDep.GetSpecPaused(); SetSpecPaused(pkg value) precedes")
		}
	}
	if len(propagation) == 0 {
		c.Ob(roots[0], "propagation-Update", nil, "the package controller propagates its pause value to the ObjectDeployment").Fail("no pause propagation Update found")
	}
}
