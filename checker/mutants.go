package main

import (
	"encoding/json"
	"fmt"
	"os"
	"os/exec"
	"path/filepath"
	"sort"
	"strings"
	"sync"

	"golang.org/x/tools/go/ssa"
)

type ssaBlock = ssa.BasicBlock

// Mutant is one in-memory source variant for the checker self-test ("test the checker both ways").
// A breaking mutant (Benign=false) must be reported with an obligation key starting with one of
// Expect; a benign variant must leave the property's check silent.
type Mutant struct {
	Prop   string
	Name   string
	File   string // relative to the repository root
	Old    string // must occur exactly once in File
	New    string
	Expect []string
	Benign bool
	Why    string
	More   []Edit // additional replacements (same or other files) belonging to the same variant
	// OwnOnly: a "benign" variant that is silent for its own property only (e.g. a repair-shaped
	// variant that introduces a construct another property legitimately reports); excluded from
	// the cross-property benign run.
	OwnOnly bool
	// PatchFile: a unified diff (seeded change) to apply instead of the text edits.
	PatchFile string
}

// Edit is one exact-text replacement.
type Edit struct {
	File, Old, New string
}

var mutants []Mutant

func addMutants(ms ...Mutant) { mutants = append(mutants, ms...) }

type MutantOutcome struct {
	Name    string `json:"name"`
	File    string `json:"file"`
	Benign  bool   `json:"benign"`
	Outcome string `json:"outcome"` // killed | silent | survived | fired | not-applicable
	Detail  string `json:"detail,omitempty"`
}

type MutantResult struct {
	Total         int             `json:"total"`
	Killed        int             `json:"breaking_killed"`
	Silent        int             `json:"benign_silent"`
	NotApplicable int             `json:"not_applicable"`
	Outcomes      []MutantOutcome `json:"outcomes"`
	Failures      []MutantOutcome `json:"failures,omitempty"`
}

func runMutants(repo, verifDir, prop string) *MutantResult {
	res := &MutantResult{}
	var sel []Mutant
	for _, m := range mutants {
		if m.Prop == prop {
			sel = append(sel, m)
		}
	}
	sel = append(sel, seededMutants(verifDir, prop)...)
	if len(sel) == 0 {
		return res
	}
	tmp, err := os.MkdirTemp("", "pkocheck-mut-")
	if err != nil {
		res.Failures = append(res.Failures, MutantOutcome{Name: "setup", Outcome: "cannot create temp dir: " + err.Error()})
		return res
	}
	defer os.RemoveAll(tmp)
	exe, _ := os.Executable()
	outs := make([]MutantOutcome, len(sel))
	sem := make(chan struct{}, 6)
	var wg sync.WaitGroup
	for i, m := range sel {
		i, m := i, m
		wg.Add(1)
		go func() {
			defer wg.Done()
			sem <- struct{}{}
			defer func() { <-sem }()
			outs[i] = runOneMutant(exe, repo, verifDir, tmp, i, m)
		}()
	}
	wg.Wait()
	sort.Slice(outs, func(i, j int) bool { return outs[i].Name < outs[j].Name })
	for _, o := range outs {
		res.Total++
		switch o.Outcome {
		case "killed":
			res.Killed++
		case "silent":
			res.Silent++
		case "not-applicable":
			res.NotApplicable++
		default:
			res.Failures = append(res.Failures, o)
		}
	}
	res.Outcomes = outs
	return res
}

func runOneMutant(exe, repo, verifDir, tmp string, idx int, m Mutant) MutantOutcome {
	out := MutantOutcome{Name: m.Name, File: m.File, Benign: m.Benign}
	edits := append([]Edit{{m.File, m.Old, m.New}}, m.More...)
	contents := map[string]string{}
	if m.PatchFile != "" {
		edits = nil
		patched, err := applyPatchToCopies(repo, m.PatchFile, filepath.Join(tmp, fmt.Sprintf("p%d", idx)))
		if err != nil {
			out.Outcome = "not-applicable"
			out.Detail = "patch does not apply to the current tree: " + firstLine(err.Error())
			return out
		}
		for abs, c := range patched {
			contents[abs] = c
		}
	}
	for _, e := range edits {
		abs := filepath.Join(repo, e.File)
		cur, ok := contents[abs]
		if !ok {
			src, err := os.ReadFile(abs)
			if err != nil {
				out.Outcome = "not-applicable"
				out.Detail = "file missing: " + e.File
				return out
			}
			cur = string(src)
		}
		if strings.Count(cur, e.Old) != 1 {
			out.Outcome = "not-applicable"
			out.Detail = fmt.Sprintf("snippet occurs %d times in %s of the current tree", strings.Count(cur, e.Old), e.File)
			return out
		}
		contents[abs] = strings.Replace(cur, e.Old, e.New, 1)
	}
	ovm := map[string]string{}
	n := 0
	for abs, c := range contents {
		mf := filepath.Join(tmp, fmt.Sprintf("m%d_%d.go", idx, n))
		n++
		if err := os.WriteFile(mf, []byte(c), 0o644); err != nil {
			out.Outcome = "not-applicable"
			out.Detail = err.Error()
			return out
		}
		ovm[abs] = mf
	}
	ov, _ := json.Marshal(ovm)
	of := filepath.Join(tmp, fmt.Sprintf("m%d.json", idx))
	_ = os.WriteFile(of, ov, 0o644)
	args := []string{"-property", m.Prop, "-tier", "quick", "-repo", repo, "-verif", verifDir, "-overlay", of}
	if m.Benign {
		args = append(args, "-expect-clean")
	} else {
		args = append(args, "-expect", strings.Join(m.Expect, ","))
	}
	cmd := exec.Command(exe, args...)
	b, err := cmd.CombinedOutput()
	code := 0
	if err != nil {
		if ee, ok := err.(*exec.ExitError); ok {
			code = ee.ExitCode()
		} else {
			code = 99
		}
	}
	tail := lastLines(string(b), 6)
	switch {
	case code == 3:
		out.Outcome = "not-applicable"
		out.Detail = tail
	case code == 0 && m.Benign:
		out.Outcome = "silent"
	case code == 0:
		out.Outcome = "killed"
	case m.Benign:
		out.Outcome = "fired"
		out.Detail = "reason=checker-imprecise: benign variant raised an alarm: " + tail
	default:
		out.Outcome = "survived"
		out.Detail = "reason=checker-unsound: breaking mutant not reported: " + tail
	}
	return out
}

func lastLines(s string, n int) string {
	lines := strings.Split(strings.TrimSpace(s), "\n")
	if len(lines) > n {
		lines = lines[len(lines)-n:]
	}
	return strings.Join(lines, " | ")
}

// runCrossBenign runs every benign variant against all properties (a behaviour-preserving edit made
// for one rule must not trip a rule of another property that looks at the same code).
func runCrossBenign(repo, verifDir, filter string) int {
	var sel []Mutant
	for _, m := range mutants {
		if m.Benign && !m.OwnOnly && (filter == "all" || strings.Contains(m.Name, filter)) {
			mm := m
			mm.Prop = "all"
			sel = append(sel, mm)
		}
	}
	tmp, err := os.MkdirTemp("", "pkocheck-cross-")
	if err != nil {
		fmt.Println("cannot create temp dir:", err)
		return 2
	}
	defer os.RemoveAll(tmp)
	exe, _ := os.Executable()
	outs := make([]MutantOutcome, len(sel))
	sem := make(chan struct{}, 8)
	var wg sync.WaitGroup
	for i, m := range sel {
		i, m := i, m
		wg.Add(1)
		go func() {
			defer wg.Done()
			sem <- struct{}{}
			defer func() { <-sem }()
			outs[i] = runOneMutant(exe, repo, verifDir, tmp, i, m)
			outs[i].Name = mutants0Prop(m.Name)
		}()
	}
	wg.Wait()
	bad := 0
	silent, na := 0, 0
	for _, o := range outs {
		switch o.Outcome {
		case "silent":
			silent++
		case "not-applicable":
			na++
			fmt.Printf("CROSS not-applicable %s: %s\n", o.Name, o.Detail)
		default:
			bad++
			fmt.Printf("CROSS fired %s (%s): %s\n", o.Name, o.File, o.Detail)
		}
	}
	fmt.Printf("cross-benign: %d variants, %d silent, %d not-applicable, %d fired\n", len(outs), silent, na, bad)
	if bad > 0 {
		return 1
	}
	return 0
}

func mutants0Prop(n string) string { return n }

// seededMutants turns the seeded changes kept under <verif>/seeded (independent sub-agents' patches
// that break a property while compiling and passing the test-suite) into self-test variants of the
// properties that are expected to report them (meta.json: detected_by.properties).
func seededMutants(verifDir, prop string) []Mutant {
	var out []Mutant
	metas, _ := filepath.Glob(filepath.Join(verifDir, "seeded", "C*-*", "meta.json"))
	sort.Strings(metas)
	for _, mf := range metas {
		b, err := os.ReadFile(mf)
		if err != nil {
			continue
		}
		var m struct {
			Property   string `json:"property"`
			DetectedBy struct {
				Properties []string `json:"properties"`
			} `json:"detected_by"`
		}
		if json.Unmarshal(b, &m) != nil {
			continue
		}
		for _, pr := range m.DetectedBy.Properties {
			if pr != prop {
				continue
			}
			dir := filepath.Dir(mf)
			out = append(out, Mutant{Prop: prop, Name: "seeded-" + filepath.Base(dir), File: "seeded/" + filepath.Base(dir) + "/patch.diff",
				PatchFile: filepath.Join(dir, "patch.diff"), Expect: []string{prop + "."}})
		}
	}
	return out
}

// applyPatchToCopies applies a unified diff to copies of the files it touches (never to the
// repository) and returns absolute repo path -> patched content.
func applyPatchToCopies(repo, patchFile, scratch string) (map[string]string, error) {
	diff, err := os.ReadFile(patchFile)
	if err != nil {
		return nil, err
	}
	var files []string
	for _, l := range strings.Split(string(diff), "\n") {
		if strings.HasPrefix(l, "+++ b/") {
			files = append(files, strings.TrimPrefix(l, "+++ b/"))
		}
	}
	if len(files) == 0 {
		return nil, fmt.Errorf("no files in patch")
	}
	for _, f := range files {
		dst := filepath.Join(scratch, f)
		if err := os.MkdirAll(filepath.Dir(dst), 0o755); err != nil {
			return nil, err
		}
		src, err := os.ReadFile(filepath.Join(repo, f))
		if err != nil {
			return nil, err
		}
		if err := os.WriteFile(dst, src, 0o644); err != nil {
			return nil, err
		}
	}
	cmd := exec.Command("patch", "-p1", "--no-backup-if-mismatch", "-s", "-i", patchFile)
	cmd.Dir = scratch
	if b, err := cmd.CombinedOutput(); err != nil {
		return nil, fmt.Errorf("%v: %s", err, strings.TrimSpace(string(b)))
	}
	out := map[string]string{}
	for _, f := range files {
		b, err := os.ReadFile(filepath.Join(scratch, f))
		if err != nil {
			return nil, err
		}
		out[filepath.Join(repo, f)] = string(b)
	}
	return out, nil
}
