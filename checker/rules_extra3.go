package main

import (
	"fmt"
	"go/token"
	"go/types"
	"strings"

	"golang.org/x/tools/go/ssa"
)

// Rules added after the second round of seeded changes (DESIGN.md §8).

// ---------------------------------------------------------------------------------------------
// The cache finalizer is persisted before any effect (C04, C12, C15, C18): an owner must hold the
// `cached` finalizer before it starts watches or writes objects, otherwise a deletion/archival that
// arrives after a partial pass finds no finalizer, skips teardown (handleDeletionAndArchival treats
// "no finalizer" as done) and never frees the watches.
//
//	(1) in every controller Reconcile that calls EnsureCachedFinalizer, every sub-reconciler
//	    invocation is preceded on all paths by an error-free EnsureCachedFinalizer of the same object;
//	(2) the helper returns nil only when the finalizer was already present or the patch that adds
//	    it returned no error (an ignored NotFound would let a vanished owner register watches).

func finalizerBeforeEffectsRule(c *Ctx) {
	p := c.P
	n := 0
	ensureID := pkgControllers + ".EnsureCachedFinalizer"
	for _, fn := range p.productFuncs() {
		if !strings.HasPrefix(funcPkgPath(fn), pkgControllers+"/") || fn.Parent() != nil {
			continue
		}
		var ensure *ssa.Call
		for _, cc := range callsIn(fn) {
			if call, ok := cc.Instr.(*ssa.Call); ok && isCallTo(cc.Common, ensureID) {
				ensure = call
			}
		}
		if ensure == nil {
			continue
		}
		// sub-reconciler invocations: invoke of a method named Reconcile returning (Result, error)
		for _, cc := range callsIn(fn) {
			if !cc.Common.IsInvoke() || cc.Common.Method.Name() != "Reconcile" {
				continue
			}
			res := cc.Common.Signature().Results()
			if res.Len() != 2 || res.At(1).Type().String() != "error" {
				continue
			}
			n++
			o := c.Ob(fn, "sub-reconciler-after-finalizer", cc.Instr, c.rule.Statement)
			ok := p.mustPrecede(cc.Instr, func(in ssa.Instruction) bool { return in == ssa.Instruction(ensure) }) &&
				p.errOfCallIsNil(p.FactsAt(cc.Instr.Block()), ensure)
			if ok {
				o.OK("EnsureCachedFinalizer at " + p.IPos(ensure) + " error-free on every path")
			} else {
				o.Fail("a sub-reconciler (which starts watches and writes objects) can run before the cache finalizer is persisted: after a failed or interrupted pass the owner controls objects without a finalizer, so deletion/archival skips teardown and the watches are never freed")
			}
		}
	}
	if n < 3 {
		c.AnchorLost(fmt.Sprintf("sub-reconciler invocations in controllers that call EnsureCachedFinalizer (found %d)", n))
	}
	// (2) the helper
	helper := p.Func(pkgControllers, "EnsureFinalizer")
	if helper == nil {
		c.AnchorLost(pkgControllers + ".EnsureFinalizer")
		return
	}
	c.Visit(helper)
	var patch *ssa.Call
	for _, ws := range allWriterSites([]*ssa.Function{helper}) {
		if call, ok := ws.Call.Instr.(*ssa.Call); ok && ws.Verb == "Patch" {
			patch = call
		}
	}
	if patch == nil {
		c.Ob(helper, "finalizer-patch", nil, "the finalizer is persisted with a Patch").Unknown("no Patch call found")
		return
	}
	for _, rc := range p.returnCases(helper) {
		last := rc.Results[len(rc.Results)-1]
		mayBeNil := false
		vals := p.possibleValues(last)
		for _, pv := range vals {
			if isNilConst(pv) {
				mayBeNil = true
			}
			if call, _ := asCall(pv); call != nil && !isCallTo(call.Common(), "fmt.Errorf") {
				mayBeNil = true // computed error (e.g. IgnoreNotFound(err)) may be nil
			}
		}
		if !mayBeNil {
			continue
		}
		o := c.Ob(helper, "nil-return", rc.Ret, "EnsureFinalizer reports success only when the finalizer is present in the persisted object")
		present := false
		if _, found := p.findFactCall(rc.Facts, true, []string{pkgCtrlUtil + ".ContainsFinalizer"}, nil); found {
			present = true
		}
		patched := p.errOfCallIsNil(rc.Facts, patch) && p.mustPrecede(rc.Ret, func(in ssa.Instruction) bool { return in == ssa.Instruction(patch) })
		isPlainNil := len(vals) == 1 && isNilConst(vals[0])
		switch {
		case present && isPlainNil:
			o.OK("finalizer already present")
		case patched && isPlainNil:
			o.OK("patch returned no error")
		default:
			o.Fail("this return can report success (%s) although the finalizer patch may have failed: the caller would go on to start watches for an owner whose finalizer is not persisted", p.describe(last))
		}
	}
}

const finalizerStatement = "the cache finalizer is persisted (error-free EnsureCachedFinalizer) before any sub-reconciler runs, and the helper reports success only when the finalizer is present or its patch succeeded"

// ---------------------------------------------------------------------------------------------
// Pause is propagated to a delegated phase on every pass that read the phase object (C09): no
// error-free return of the delegated-phase reconciler is reachable after the phase object was read
// without first passing the pause decision (current.IsPaused() != desired.IsPaused()).

func pauseDecisionBeforeReturnRule(c *Ctx) {
	p := c.P
	n := 0
	for _, fn := range p.FuncsIn(pkgObjectSets) {
		if fn.Parent() != nil {
			continue
		}
		// the pause decision: an If on IsPaused() != IsPaused() of two different objects
		var decision ssa.Instruction
		for _, b := range fn.Blocks {
			if len(b.Instrs) == 0 {
				continue
			}
			iff, ok := b.Instrs[len(b.Instrs)-1].(*ssa.If)
			if !ok {
				continue
			}
			cond := iff.Cond
			for {
				if u, ok := cond.(*ssa.UnOp); ok && u.Op == token.NOT {
					cond = u.X
					continue
				}
				break
			}
			bo, ok := cond.(*ssa.BinOp)
			if !ok || (bo.Op != token.NEQ && bo.Op != token.EQL) {
				continue
			}
			cx, _ := asCall(bo.X)
			cy, _ := asCall(bo.Y)
			if cx != nil && cy != nil && calleeName(cx.Common()) == "IsPaused" && calleeName(cy.Common()) == "IsPaused" {
				decision = iff
			}
		}
		if decision == nil {
			continue
		}
		n++
		// the read of the phase object: the last reader Get / Create that fills the compared object
		var reads []ssa.Instruction
		for _, cc := range callsIn(fn) {
			if isReaderGet(cc.Common) {
				reads = append(reads, cc.Instr)
			}
		}
		o := c.Ob(fn, "pause-decision-before-return", decision, c.rule.Statement)
		var bad []string
		for _, rc := range p.returnCases(fn) {
			if fn.Recover != nil && rc.Ret.Block() == fn.Recover {
				continue
			}
			last := rc.Results[len(rc.Results)-1]
			mayBeNil := false
			// judged under the facts of the return: `if err != nil { return …, err }` on the merged
			// error of a multi-return helper does not return nil
			for _, pv := range p.pfPossibleValuesUnder(last, rc.Facts) {
				if isNilConst(pv) {
					mayBeNil = true
				}
			}
			if !mayBeNil {
				continue
			}
			afterRead := false
			for _, r := range reads {
				if canPrecede(r, rc.Ret) {
					afterRead = true
				}
			}
			if !afterRead {
				continue
			}
			if rc.Ret.Block() == decision.Block() {
				continue
			}
			if !p.mustPrecede(rc.Ret, func(in ssa.Instruction) bool { return in == decision }) {
				bad = append(bad, "return at "+p.IPos(rc.Ret))
			}
		}
		if len(bad) == 0 {
			o.OK()
		} else {
			o.Fail("the delegated-phase reconciler can return without error (%s) before deciding whether the ObjectSetPhase must be paused/unpaused: a paused ObjectSet would leave a phase whose status is missing or stale unpaused, and its controller keeps writing the listed objects", strings.Join(bad, ", "))
		}
	}
	if n == 0 {
		c.AnchorLost("pause decision (IsPaused() != IsPaused()) in " + pkgObjectSets)
	}
}

const pauseDecisionStatement = "every error-free return of the delegated-phase reconciler that is reachable after the phase object was read passes the pause decision (current.IsPaused() != desired.IsPaused()) first"

// ---------------------------------------------------------------------------------------------
// Path-prefix lint (C13 conservation across components, C19 input handling): a directory prefix
// used with strings.HasPrefix/TrimPrefix on a path must end with a separator, otherwise
// "components/api" also matches "components/api-gateway/...".

func pathPrefixRule(c *Ctx) {
	p := c.P
	n := 0
	control := 0
	for _, fn := range p.productFuncs() {
		pk := funcPkgPath(fn)
		if !strings.HasPrefix(pk, modPKO+"/internal/packages") {
			continue
		}
		for _, cc := range callsIn(fn) {
			id := calleeID(cc.Common)
			if id != "strings.HasPrefix" && id != "strings.TrimPrefix" && id != "strings.CutPrefix" {
				continue
			}
			prefix := cc.Common.Args[1]
			if jc, _ := asCall(prefix); jc != nil && (isCallTo(jc.Common(), "path/filepath.Join") || isCallTo(jc.Common(), "path.Join")) {
				// Join never leaves a trailing separator
				n++
				c.Ob(fn, "path-prefix", cc.Instr, c.rule.Statement).Fail("the directory prefix %s is the result of Join (no trailing separator): files of a sibling directory whose name merely starts with the same characters match as well (objects of another component would be rendered into this one)", p.describe(prefix))
				continue
			}
			bo, isConcat := stripConv(prefix).(*ssa.BinOp)
			if !isConcat || bo.Op != token.ADD {
				if s, ok := constString(prefix); ok && strings.Contains(s, "/") {
					control++
				}
				continue
			}
			// does the concatenation mention a path constant at all?
			pathLike := false
			var leaves []ssa.Value
			var collect func(v ssa.Value)
			collect = func(v ssa.Value) {
				if b, ok := stripConv(v).(*ssa.BinOp); ok && b.Op == token.ADD {
					collect(b.X)
					collect(b.Y)
					return
				}
				leaves = append(leaves, v)
			}
			collect(bo)
			for _, l := range leaves {
				if s, ok := constString(l); ok && strings.Contains(s, "/") {
					pathLike = true
				}
				if call, _ := asCall(l); call != nil && strings.HasPrefix(calleeID(call.Common()), "path") {
					pathLike = true
				}
			}
			if !pathLike {
				continue
			}
			n++
			o := c.Ob(fn, "path-prefix", cc.Instr, c.rule.Statement)
			lastLeaf := leaves[len(leaves)-1]
			if s, ok := constString(lastLeaf); ok && strings.HasSuffix(s, "/") {
				o.OK("prefix ends with a separator")
			} else {
				o.Fail("the directory prefix %s does not end with a path separator: files of a sibling directory whose name merely starts with the same characters match as well (objects of another component would be rendered into this one)", p.describe(prefix))
			}
		}
	}
	// zero-expected rule: positive control = the matcher sees constant path prefixes
	if control == 0 && n == 0 {
		c.AnchorLost("positive control: strings.HasPrefix with a constant path prefix in internal/packages")
	}
	if n == 0 {
		c.Ob(nil, "no-computed-path-prefix", nil, c.rule.Statement).OK(fmt.Sprintf("no computed path prefixes; %d constant path-prefix tests seen by the matcher (positive control)", control))
	}
}

const pathPrefixStatement = "a computed directory prefix used to select files (strings.HasPrefix/TrimPrefix) ends with a path separator"

// ---------------------------------------------------------------------------------------------
// The ObjectSet list that protects slices from garbage collection is the unfiltered list (C14):
// the lister hands back every item the API returned; it drops none.

func listerUnfilteredRule(c *Ctx) {
	p := c.P
	n := 0
	for _, fn := range p.FuncsIn(pkgPkgDeploy) {
		if fn.Parent() != nil || fn.Signature.Results().Len() != 2 {
			continue
		}
		// a function returning ([]genericObjectSet, error) that performs a List
		rt := fn.Signature.Results().At(0).Type()
		sl, ok := rt.Underlying().(*types.Slice)
		if !ok || !strings.Contains(types.TypeString(sl.Elem(), nil), "ObjectSet") {
			continue
		}
		var list *ssa.Call
		for _, cc := range callsIn(fn) {
			if call, ok := cc.Instr.(*ssa.Call); ok && calleeName(cc.Common) == "List" && cc.Common.IsInvoke() {
				list = call
			}
		}
		if list == nil {
			continue
		}
		n++
		for _, rc := range p.returnCases(fn) {
			if isNilConst(stripConv(rc.Results[0])) {
				continue
			}
			o := c.Ob(fn, "returns-all-items", rc.Ret, c.rule.Statement)
			call, _ := asCall(rc.Results[0])
			if call != nil && calleeName(call.Common()) == "GetItems" {
				o.OK("returns GetItems() of the listed object")
			} else {
				o.Fail("the list of ObjectSets returned (%s) is not the complete result of the API list: an ObjectSet that is filtered out here (e.g. archived) no longer protects the slices it references from garbage collection", p.describe(rc.Results[0]))
			}
		}
	}
	if n == 0 {
		c.AnchorLost("function listing the ObjectSets of a deployment in " + pkgPkgDeploy)
	}
}

const listerStatement = "the list of existing ObjectSets used by slice garbage collection is the complete result of the API list (no revision is filtered out)"

// ---------------------------------------------------------------------------------------------
// Who may withdraw the Package's Invalid condition (C16): only the deployer, at the end of a
// successful load. A sub-reconciler that removes it (e.g. because the *previous* deployment is
// Available) erases a load failure before the status is persisted.

func invalidWithdrawalRule(c *Ctx) {
	p := c.P
	n, control := 0, 0
	for _, fn := range p.productFuncs() {
		pk := funcPkgPath(fn)
		for _, r := range conditionRemovals(fn) {
			if r.Type == "package-operator.run/Invalid" {
				control++ // the ObjectTemplate's own Invalid condition: same matcher, different condition
				continue
			}
			if r.Type != "Invalid" {
				continue
			}
			owner := "other"
			if call, _ := asCall(r.Call.Common.Args[0]); call != nil {
				if recv := callRecv(call.Common()); recv != nil {
					ts := types.TypeString(recv.Type(), nil)
					switch {
					case strings.Contains(ts, "ObjectTemplate"):
						owner = "template"
					case strings.Contains(ts, "Package"):
						owner = "package"
					}
				}
			}
			if owner == "template" {
				control++
				continue
			}
			n++
			o := c.Ob(fn, "RemoveStatusCondition-Invalid", r.Call.Instr, c.rule.Statement)
			if pk == pkgPkgDeploy {
				o.OK("deployer (end of a successful load; paths checked by C16.R2)")
			} else {
				o.Fail("the Package's Invalid condition is withdrawn outside the package deployer: a load failure or unmet constraint recorded by this pass can be erased before the status is persisted")
			}
		}
		for _, cs := range conditionSets(fn) {
			if cs.Type == "Invalid" && cs.Status != "True" && pk != pkgObjTemplate {
				n++
				c.Ob(fn, "SetStatusCondition-Invalid-notTrue", cs.Call.Instr, c.rule.Statement).Fail("Invalid is overwritten with status %q", cs.Status)
			}
		}
	}
	if n == 0 {
		c.AnchorLost("withdrawal of the Package Invalid condition in the deployer")
	}
	if control == 0 {
		c.AnchorLost("positive control: the ObjectTemplate's own Invalid removal")
	}
}

const invalidWithdrawalStatement = "the Package's Invalid condition is withdrawn only by the package deployer (who-may-remove over all RemoveStatusCondition/SetStatusCondition sites)"

// ---------------------------------------------------------------------------------------------
// Allocation sizes are not taken from input (C19): make([]T, n) with n read from a decoded header
// / parsed value panics ("makeslice: len out of range") or exhausts memory on hostile input.

func allocFromInputRule(c *Ctx) {
	p := c.P
	n := 0
	var fns []*ssa.Function
	for _, fn := range p.productFuncs() {
		pk := funcPkgPath(fn)
		if strings.HasPrefix(pk, modPKO+"/internal/packages") || pk == pkgObjTemplate || strings.HasPrefix(pk, pkgProbing) || pk == pkgControllers {
			fns = append(fns, fn)
		}
	}
	for _, fn := range fns {
		for _, b := range fn.Blocks {
			for _, in := range b.Instrs {
				ms, ok := in.(*ssa.MakeSlice)
				if !ok {
					continue
				}
				n++
				bad := ""
				for _, sz := range []ssa.Value{ms.Len, ms.Cap} {
					if why := unboundedSize(p, sz, 0); why != "" {
						bad = why
					}
				}
				if bad == "" {
					continue
				}
				o := c.Ob(fn, "make-size", in, c.rule.Statement)
				o.Fail("the size of this allocation (%s) is %s: a crafted input can make the process panic with 'makeslice: len out of range' or exhaust memory instead of returning an error", p.describe(ms.Len), bad)
			}
		}
	}
	o := c.Ob(nil, "make-sites-scanned", nil, c.rule.Statement)
	if n < 10 {
		o.Fail("reason=anchor-lost: only %d make([]T, n) sites seen in the input-handling packages", n)
	} else {
		o.OK(fmt.Sprintf("%d make sites: every size is a constant, a len/cap of an existing value, or arithmetic over those", n))
	}
}

// unboundedSize returns "" when the size is a constant, len/cap of something, a parameter-free
// arithmetic combination of those, or a loop counter bounded by such; otherwise a description.
func unboundedSize(p *Program, v ssa.Value, d int) string {
	if d > 8 {
		return ""
	}
	switch x := stripConv(v).(type) {
	case *ssa.Const:
		return ""
	case *ssa.Call:
		id := calleeID(x.Common())
		if id == "builtin:len" || id == "builtin:cap" || id == "builtin:min" {
			return ""
		}
		// counting functions of the standard library are bounded by the length of a value that is
		// already in memory, exactly like len
		switch id {
		case "strings.Count", "bytes.Count", "unicode/utf8.RuneCountInString", "unicode/utf8.RuneCount",
			"strings.Index", "strings.LastIndex", "strings.IndexByte", "strings.IndexRune", "bytes.Index", "bytes.IndexByte":
			return ""
		}
		return "the result of " + id
	case *ssa.BinOp:
		if w := unboundedSize(p, x.X, d+1); w != "" {
			return w
		}
		return unboundedSize(p, x.Y, d+1)
	case *ssa.Convert:
		return unboundedSize(p, x.X, d+1)
	case *ssa.Phi:
		for _, e := range x.Edges {
			if w := unboundedSize(p, e, d+1); w != "" {
				return w
			}
		}
		return ""
	case *ssa.UnOp:
		if x.Op == token.MUL {
			if fa, ok := x.X.(*ssa.FieldAddr); ok {
				return "read from field " + fieldName(fa.X.Type(), fa.Field) + " of " + types.TypeString(fa.X.Type(), nil)
			}
			if src, ok := p.loadSource(x); ok {
				return unboundedSize(p, src, d+1)
			}
		}
		return ""
	case *ssa.Field:
		return "read from field " + fieldName(x.X.Type(), x.Field)
	case *ssa.Extract:
		if call, ok := x.Tuple.(*ssa.Call); ok {
			return "a result of " + calleeID(call.Common())
		}
	case *ssa.Parameter:
		return ""
	}
	return ""
}

const allocStatement = "no make([]T, n) in the input-handling packages takes its size from a decoded field or a parsed value (sizes are constants, len/cap of existing values, or arithmetic over those)"

// ---------------------------------------------------------------------------------------------
// Process-global mutable state (C13 purity, C16 fresh render, C10 no durable in-memory progress):
// package-level variables that are *written* after initialisation in the package/render/deploy
// pipeline make a render depend on what the process saw before. Frozen table of today's instances.

var reviewedGlobals = map[string]string{}

func globalStateRule(c *Ctx) {
	globalStateRuleFor(modPKO+"/internal/packages", pkgTransform, pkgUtils)(c)
}

func globalStateRuleFor(scope ...string) func(c *Ctx) {
	return func(c *Ctx) { globalStateRuleIn(c, scope) }
}

func globalStateRuleIn(c *Ctx, scope []string) {
	p := c.P
	n := 0
	for _, fn := range p.productFuncs() {
		pk := funcPkgPath(fn)
		inScope := false
		for _, s := range scope {
			if strings.HasPrefix(pk, s) {
				inScope = true
			}
		}
		if !inScope {
			continue
		}
		if fn.Name() == "init" || strings.HasPrefix(fn.Name(), "init#") {
			continue
		}
		for _, b := range fn.Blocks {
			for _, in := range b.Instrs {
				var g *ssa.Global
				what := ""
				switch x := in.(type) {
				case *ssa.Store:
					if gg, ok := x.Addr.(*ssa.Global); ok {
						g, what = gg, "assigned"
					}
				case *ssa.MapUpdate:
					if u, ok := x.Map.(*ssa.UnOp); ok {
						if gg, ok := u.X.(*ssa.Global); ok {
							g, what = gg, "map entry written"
						}
					}
				case ssa.CallInstruction:
					cc := x.Common()
					id := calleeID(cc)
					if strings.HasPrefix(id, "(*sync.Map).") && !strings.HasSuffix(id, ".Load") && !strings.HasSuffix(id, ".Range") {
						if gg, ok := cc.Args[0].(*ssa.Global); ok {
							g, what = gg, id
						}
					}
				}
				if g == nil || g.Pkg == nil || !strings.HasPrefix(g.Pkg.Pkg.Path(), modPKO) {
					continue
				}
				n++
				key := g.Pkg.Pkg.Path() + "." + g.Name()
				o := c.Ob(fn, "global-write#"+g.Name(), in, c.rule.Statement)
				if why, ok := reviewedGlobals[key]; ok {
					o.OK("reviewed: " + why)
				} else {
					o.Fail("package-level variable %s is %s at run time in the package pipeline: results (admission, render, hash) can depend on what this process handled earlier instead of only on the package, its configuration and environment", key, what)
				}
			}
		}
	}
	if n == 0 {
		c.Ob(nil, "no-global-writes", nil, c.rule.Statement).OK("no run-time write to a package-level variable in the package pipeline")
	}
	// positive control for the zero-expected rule: the matcher must recognise run-time writes of
	// package-level state elsewhere in the workspace
	control := 0
	for _, fn := range p.Funcs {
		if fn.Name() == "init" || strings.HasPrefix(fn.Name(), "init#") {
			continue
		}
		for _, b := range fn.Blocks {
			for _, in := range b.Instrs {
				if st, ok := in.(*ssa.Store); ok {
					if _, isG := st.Addr.(*ssa.Global); isG {
						control++
					}
				}
			}
		}
	}
	if control == 0 {
		c.AnchorLost("positive control: a run-time store to some package-level variable anywhere in the workspace")
	}
}

const globalStateStatement = "no package-level variable is written at run time in the load/validate/admit/render/deploy pipeline (rendering and admission are functions of their inputs, not of process history)"

func init() {
	for _, id := range []string{"C04", "C12", "C15"} {
		addRule(id, Rule{ID: id + ".RF", Min: 4, Statement: finalizerStatement, Run: finalizerBeforeEffectsRule})
	}
	addRule("C09", Rule{ID: "C09.R7", Min: 1, Statement: pauseDecisionStatement, Run: pauseDecisionBeforeReturnRule})
	addRule("C13", Rule{ID: "C13.R8", Min: 1, Statement: pathPrefixStatement, Run: pathPrefixRule})
	addRule("C14", Rule{ID: "C14.R6", Min: 1, Statement: listerStatement, Run: listerUnfilteredRule})
	addRule("C16", Rule{ID: "C16.R7", Min: 1, Statement: invalidWithdrawalStatement, Run: invalidWithdrawalRule})
	addRule("C19", Rule{ID: "C19.R7", Min: 1, Statement: allocStatement, Run: allocFromInputRule})
	addRule("C16", Rule{ID: "C16.R8", Min: 1, Statement: globalStateStatement, Run: globalStateRule})
	addRule("C13", Rule{ID: "C13.R9", Min: 1, Statement: globalStateStatement, Run: globalStateRule})
}

// ---------------------------------------------------------------------------------------------
// Non-existence is established by the uncached reader (C01 / C02): the create-apply of a managed
// object bypasses the adoption ladder, the never-adopt-newer guard and the IsController patch guard,
// so it may only run when the API server itself (not the label-selected informer cache) said
// NotFound. For every write of a dynamic object that is guarded by IsNotFound(e): every feasible
// source of e is the error of a Get on a reader that is not the watch cache.

// feasibleSources: the values that can be the tested error v where callee(v) == pol is known.
// known are the facts that hold where v is tested (nil at a nested merge: the facts of the edge the
// outer merge was entered through take their place). An incoming edge of a merge is dropped when
// what is known on that edge says the predicate answers the opposite for the value it carries:
// the predicate was tested on it with the other outcome, the value is a lookup answer that is nil
// there (`if err != nil { err = second() }; if err != nil && IsNotFound(err)`: the first answer
// reaches the merge only as nil, and IsNotFound(nil) is false), or a sibling merge of the same block
// known at the test rules the edge out (phiEdgeExcluded).
func (p *Program) feasibleSources(v ssa.Value, pol bool, callee string, known []Fact, depth int) []ssa.Value {
	v = stripConv(v)
	ph, ok := v.(*ssa.Phi)
	if !ok || depth > 4 {
		if u, isLoad := v.(*ssa.UnOp); isLoad && u.Op == token.MUL {
			var out []ssa.Value
			for _, pv := range p.possibleValues(v) {
				if pv != v {
					out = append(out, p.feasibleSources(pv, pol, callee, nil, depth+1)...)
				} else {
					out = append(out, pv)
				}
			}
			return out
		}
		return []ssa.Value{v}
	}
	knownSet := factSet{}
	for _, f := range known {
		knownSet[f.key] = f
	}
	var out []ssa.Value
	blk := ph.Block()
	for i, e := range ph.Edges {
		if i >= len(blk.Preds) {
			out = append(out, e)
			continue
		}
		// infeasible if the edge already knows callee(e) == !pol
		infeasible := false
		ef := p.FactsOnEdge(blk.Preds[i], blk)
		for _, f := range ef {
			call, _ := asCall(f.Cond)
			if call == nil || calleeName(call.Common()) != callee || len(call.Common().Args) != 1 {
				continue
			}
			if p.sameValue(call.Common().Args[0], e) && f.Pol != pol {
				infeasible = true
			}
		}
		if pol && isNilConst(stripConv(e)) {
			infeasible = true // IsNotFound(nil) is false
		}
		if pol && !infeasible && p.nilnessFromFacts(ef, e) == yesTri && p.onlyLookupAnswers(e) {
			// a lookup's answer that arrives here only as nil said "found": it cannot be what the
			// NotFound test saw. (Kept to lookups on purpose: a variable that also receives the error
			// of some other operation — a write placed between the lookup and the decision — is
			// still reported as not being a lookup answer, as before.)
			infeasible = true
		}
		if !infeasible && phiEdgeExcluded(blk, i, knownSet) {
			infeasible = true
		}
		if !infeasible {
			out = append(out, p.feasibleSources(e, pol, callee, ef, depth+1)...)
		}
	}
	return out
}

// onlyLookupAnswers: every value that can flow into v is the error of a Reader.Get (cache or not).
func (p *Program) onlyLookupAnswers(v ssa.Value) bool {
	vals := p.possibleValues(v)
	if len(vals) == 0 {
		return false
	}
	for _, pv := range vals {
		call, _ := asCall(pv)
		if call == nil || !isReaderGet(call.Common()) {
			return false
		}
	}
	return true
}

func createOnlyAfterUncachedNotFoundRule(c *Ctx) {
	p := c.P
	n := 0
	for _, ws := range allWriterSites(p.FuncsIn(pkgControllers)) {
		if ws.Class == "typed" || (ws.Verb != "Patch" && ws.Verb != "Create") {
			continue
		}
		fn := ws.Call.Fn
		fs := p.FactsAt(ws.Call.Instr.Block())
		var nfs []*ssa.Call
		for _, f := range fs {
			if call, _ := asCall(f.Cond); call != nil && f.Pol && isCallTo(call.Common(), pkgAPIErr+".IsNotFound") {
				nfs = append(nfs, call)
			}
		}
		if len(nfs) == 0 {
			continue
		}
		n++
		o := c.Ob(fn, "create-after-NotFound", ws.Call.Instr, c.rule.Statement)
		// cache receivers: whatever Watch is invoked on in this package
		cacheKeys := map[string]bool{}
		for _, f := range p.FuncsIn(pkgControllers) {
			for _, cc := range callsIn(f) {
				if calleeName(cc.Common) == "Watch" && cc.Common.IsInvoke() {
					cacheKeys[p.key(cc.Common.Value)] = true
				}
			}
		}
		// all NotFound tests listed hold here; one of them on the uncached reader's answer suffices
		var bad []string
		for _, nf := range nfs {
			var b []string
			srcs := p.feasibleSources(nf.Common().Args[0], true, "IsNotFound", fs, 0)
			if len(srcs) == 0 {
				b = append(b, "no feasible source of the tested error")
			}
			for _, s := range srcs {
				call, _ := asCall(s)
				if call == nil || !isReaderGet(call.Common()) {
					b = append(b, "the tested error may be "+p.describe(s)+", which is not the result of a Reader.Get")
					continue
				}
				if cacheKeys[p.key(callRecv(call.Common()))] {
					b = append(b, "the tested error may be the informer cache's answer ("+p.describe(call)+" at "+p.IPos(call)+"): the cache only holds labelled objects and lags behind")
				}
			}
			if len(b) == 0 {
				bad = nil
				break
			}
			bad = append(bad, b...)
		}
		if len(bad) == 0 {
			o.OK("NotFound comes from the uncached reader on every feasible path")
		} else {
			o.Fail("the object is created/applied without the adoption checks although its absence was not confirmed by the API server: %s — an existing object controlled by a newer revision would be overwritten and re-owned", strings.Join(dedupe(bad), "; "))
		}
	}
	if n == 0 {
		c.AnchorLost("dynamic create-apply guarded by IsNotFound in " + pkgControllers)
	}
}

const createStatement = "a managed object is created/applied without the adoption ladder only when the uncached reader (not the informer cache) reported NotFound on every feasible path"

func init() {
	addRule("C01", Rule{ID: "C01.R8", Min: 1, Statement: createStatement, Run: createOnlyAfterUncachedNotFoundRule})
	addRule("C02", Rule{ID: "C02.R5", Min: 1, Statement: createStatement, Run: createOnlyAfterUncachedNotFoundRule})
}

func init() {
	// recorders, collectors and adapters are mutated through methods; a value receiver loses the update
	addRule("C03", Rule{ID: "C03.R7", Min: 1, Statement: lostMutationStatement, Run: lostMutationRule(pkgControllers)})
	addRule("C06", Rule{ID: "C06.R12", Min: 1, Statement: lostMutationStatement, Run: lostMutationRule(pkgControllers, pkgAdapters)})
	addRule("C13", Rule{ID: "C13.R10", Min: 1, Statement: lostMutationStatement, Run: lostMutationRule(modPKO+"/internal/packages", pkgTransform)})
	addRule("C12", Rule{ID: "C12.R9", Min: 1, Statement: lostMutationStatement, Run: lostMutationRule(pkgDynCache)})
}
