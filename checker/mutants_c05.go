package main

func init() {
	const pr = "internal/controllers/phase_reconciler.go"
	addMutants(
		Mutant{Prop: "C05", Name: "drop-resourceversion-precondition", File: pr,
			Old:    "\t\tResourceVersion: ptr.To(currentObj.GetResourceVersion()),\n",
			New:    "",
			Expect: []string{"C05.R1@"}},
		Mutant{Prop: "C05", Name: "uid-from-desired-object", File: pr,
			Old:    "UID:             ptr.To(currentObj.GetUID()),",
			New:    "UID:             ptr.To(desiredObj.GetUID()),",
			Expect: []string{"C05.R1@"}},
		Mutant{Prop: "C05", Name: "delete-under-isowner", File: pr,
			Old:    "\tif !r.ownerStrategy.IsController(owner.ClientObject(), currentObj) {\n\t\tif !r.ownerStrategy.IsOwner(owner.ClientObject(), currentObj) {",
			New:    "\tif !r.ownerStrategy.IsOwner(owner.ClientObject(), currentObj) {\n\t\tif !r.ownerStrategy.IsOwner(owner.ClientObject(), currentObj) {",
			Expect: []string{"C05.R1@"}},
		Mutant{Prop: "C05", Name: "inspect-through-informer-cache", File: pr,
			Old:    "\terr = r.uncachedClient.Get(\n\t\tctx, client.ObjectKeyFromObject(desiredObj), currentObj)\n\tif err != nil && apimachineryerrors.IsNotFound(err) {\n\t\t// No matter",
			New:    "\terr = r.dynamicCache.Get(\n\t\tctx, client.ObjectKeyFromObject(desiredObj), currentObj)\n\tif err != nil && apimachineryerrors.IsNotFound(err) {\n\t\t// No matter",
			Expect: []string{"C05.R2@"}},
		Mutant{Prop: "C05", Name: "orphan-guard-removed", File: "internal/controllers/objectsets/objectsetphases_reconciler.go",
			Old:    "\tif controllerutil.ContainsFinalizer(objectSet.ClientObject(), \"orphan\") {\n\t\treturn true, nil\n\t}",
			New:    "\tif controllerutil.ContainsFinalizer(objectSet.ClientObject(), \"orphan\") {\n\t\tlog.Info(\"orphan\")\n\t}",
			Expect: []string{"C05.R4@"}},
		Mutant{Prop: "C05", Name: "coowner-patch-touches-spec", File: pr,
			Old:    "\t\t\t\t\"ownerReferences\": object.GetOwnerReferences(),\n\t\t\t},\n\t\t}",
			New:    "\t\t\t\t\"ownerReferences\": object.GetOwnerReferences(),\n\t\t\t},\n\t\t\t\"spec\": nil,\n\t\t}",
			Expect: []string{"C05.R3@"}},
		Mutant{Prop: "C05", Name: "mutate-between-read-and-delete", File: pr,
			Old:    "\tlog.Info(\"deleting managed object\",",
			New:    "\tcurrentObj.SetResourceVersion(\"\")\n\tlog.Info(\"deleting managed object\",",
			Expect: []string{"C05.R1@"}},
		Mutant{Prop: "C05", Name: "benign-reorder-and-log", File: pr, Benign: true,
			Old: "\t\tUID:             ptr.To(currentObj.GetUID()),\n\t\tResourceVersion: ptr.To(currentObj.GetResourceVersion()),",
			New: "\t\tResourceVersion: ptr.To(currentObj.GetResourceVersion()),\n\t\tUID:             ptr.To(currentObj.GetUID()),"},
		Mutant{Prop: "C05", Name: "benign-early-return-style", File: pr, Benign: true,
			Old: "\tif err != nil && apimachineryerrors.IsNotFound(err) {\n\t\t// No matter who the owner of this object is,\n\t\t// it's already gone.\n\t\treturn true, nil\n\t}\n\tif err != nil {\n\t\treturn false, fmt.Errorf(\"getting object for teardown: %w\", err)\n\t}",
			New: "\tif apimachineryerrors.IsNotFound(err) {\n\t\treturn true, nil\n\t} else if err != nil {\n\t\treturn false, fmt.Errorf(\"getting object for teardown: %w\", err)\n\t}"},
	)
}

func init() {
	const pr = "internal/controllers/phase_reconciler.go"
	addMutants(
		Mutant{Prop: "C05", Name: "benign-delete-helper-extracted", File: pr, Benign: true,
			Old:  "\terr = r.writer.Delete(ctx, currentObj, client.Preconditions{\n\t\tUID:             ptr.To(currentObj.GetUID()),\n\t\tResourceVersion: ptr.To(currentObj.GetResourceVersion()),\n\t})\n",
			New:  "\terr = r.deletePinned(ctx, currentObj)\n",
			Why:  "helper extraction keeps guard, read and preconditions",
			More: []Edit{{File: pr, Old: "func (r *PhaseReconciler) reconcilePhaseObject(", New: "func (r *PhaseReconciler) deletePinned(ctx context.Context, obj *unstructured.Unstructured) error {\n\treturn r.writer.Delete(ctx, obj, client.Preconditions{\n\t\tUID:             ptr.To(obj.GetUID()),\n\t\tResourceVersion: ptr.To(obj.GetResourceVersion()),\n\t})\n}\n\nfunc (r *PhaseReconciler) reconcilePhaseObject("}}},
		Mutant{Prop: "C05", Name: "conflict-retry-without-ownership-recheck", File: pr,
			Old:    "\terr = r.writer.Delete(ctx, currentObj, client.Preconditions{\n\t\tUID:             ptr.To(currentObj.GetUID()),\n\t\tResourceVersion: ptr.To(currentObj.GetResourceVersion()),\n\t})\n",
			New:    "\terr = r.deletePinned(ctx, currentObj)\n\tif err != nil && apimachineryerrors.IsConflict(err) {\n\t\terr = r.uncachedClient.Get(ctx, client.ObjectKeyFromObject(desiredObj), currentObj)\n\t\tif err == nil {\n\t\t\terr = r.deletePinned(ctx, currentObj)\n\t\t}\n\t}\n",
			Expect: []string{"C05.R1@"},
			More:   []Edit{{File: pr, Old: "func (r *PhaseReconciler) reconcilePhaseObject(", New: "func (r *PhaseReconciler) deletePinned(ctx context.Context, obj *unstructured.Unstructured) error {\n\treturn r.writer.Delete(ctx, obj, client.Preconditions{\n\t\tUID:             ptr.To(obj.GetUID()),\n\t\tResourceVersion: ptr.To(obj.GetResourceVersion()),\n\t})\n}\n\nfunc (r *PhaseReconciler) reconcilePhaseObject("}}},
	)
}
