package main

import (
	"fmt"
	"go/token"
	"go/types"
	"sort"
	"strings"

	"golang.org/x/tools/go/ssa"
)

// C12 — Dynamic cache: one informer per watched kind, released with its last owner.

const (
	c12Cache     = pkgDynCache + ".Cache"
	c12IMap      = pkgDynCache + ".InformerMap"
	c12Source    = pkgDynCache + ".cacheSource"
	c12IfaceIMap = "invoke:" + pkgDynCache + ".informerMap."
	c12Refs      = "informerReferences"
	c12RefsMux   = c12Cache + ".informerReferencesMux"
)

// c12Guarded: which mutex protects which field — read off the current code and frozen.
var c12Guarded = []GuardedField{
	{Type: c12Cache, Field: c12Refs, Mutex: "informerReferencesMux"},
	{Type: c12IMap, Field: "informers", Mutex: "informersMux"},
	{Type: c12Source, Field: "handlers", Mutex: "mu"},
	{Type: c12Source, Field: "blockNew", Mutex: "mu"},
	{Type: c12Source, Field: "settings", Mutex: "mu"},
}

func init() {
	register(&Property{
		ID: "C12",
		Explanation: "Decides the structural core of C12 on every path of the current source of internal/dynamiccache: (R1) every access of Cache.informerReferences " +
			"(and of the per-kind owner sets stored in it), InformerMap.informers and cacheSource.handlers/blockNew/settings happens with the protecting mutex of the same " +
			"instance held, write-locked for writes — including accesses in unexported helpers (list, sampleMetrics, rollbackWatch), which inherit the lock from all their " +
			"static callers, and the deferred sampleMetrics, which runs before the deferred Unlock because it is registered after it; (R2) Watch asks the informer map for an " +
			"informer and registers handlers only when the kind had no reference before the insert, and always records ownerRef(owner) in the kind's owner set; (R3) on that " +
			"path success is only returned after handleNewInformer(informer of that Get), handleNewInformer starts a source for every registered handler and handlers are frozen " +
			"once the cache is started; (R4) after the kind's reference is inserted, every path that may return an error first deletes the reference and calls informerMap.Delete; " +
			"(R5) Free stops an informer only when the freed owner was in the set and the set is empty after its removal, then drops the kind, removes only ownerRef(owner), and " +
			"visits every kind; (R6) Get/list reach the informer map only for kinds with a reference, under the lock, else return CacheNotStartedError; (R7) the cached " +
			"finalizer is removed only after an error-free Free; (R8) the informer map closes a stop channel only for an existing entry which it removes in the same critical " +
			"section, and creates informers only after re-checking absence under the write lock. Locks are identified by struct field and instance (value key), not by run-time address.",
		NotDecided: []string{
			"races beyond lock discipline (informer sync timing, event delivery order)", "informer start-up behaviour of client-go (trusted)",
			"that Cache.Start (handler freeze) runs before the first Watch (manager runnable ordering)",
			"that interface/dynamic callees do not release the caller's mutex; sync.Locker/TryLock uses (none today)",
			"that two struct pointers with different value keys never alias the same instance",
		},
		Technique: "SSA lockset dataflow with LIFO defer model and bounded caller summaries (A7) + typestate must-dataflow insert⇒rollback-before-error-return (A8) + guard-dominance facts and value identity (A1/A3)",
		Rules: []Rule{
			{ID: "C12.R1", Min: 48, Run: c12r1, Statement: "every access of Cache.informerReferences, InformerMap.informers and cacheSource.handlers/blockNew/settings is made with the protecting mutex of the same instance held (write lock for writes)"},
			{ID: "C12.R2", Min: 4, Run: c12r2, Statement: "Watch creates an informer / registers handlers only when the kind had no reference before the insert, and records ownerRef(owner) in the kind's owner set on every successful path"},
			{ID: "C12.R3", Min: 5, Run: c12r3, Statement: "every newly started informer gets all handlers: success is returned only after handleNewInformer(informer of this Get); handleNewInformer starts a source per handler; handlers are frozen once the cache is started"},
			{ID: "C12.R4", Min: 1, Run: c12r4, Statement: "after the kind's reference is inserted, every path that may return an error removes the reference again and calls informerMap.Delete for the kind"},
			{ID: "C12.R5", Min: 3, Run: c12r5, Statement: "Free stops an informer only when the freed owner was registered and no owner is left after its removal, then forgets the kind; it removes only ownerRef(owner) and visits every kind"},
			{ID: "C12.R6", Min: 4, Run: c12r6, Statement: "reads reach the informer map only for a kind that has a reference, under the reference lock; otherwise they return CacheNotStartedError"},
			{ID: "C12.R7", Min: 4, Run: c12r7, Statement: "the cached finalizer is removed only after an error-free cache.Free of the same object; every package that sets the cached finalizer also frees"},
			{ID: "C12.R8", Min: 3, Run: c12r8, Statement: "InformerMap closes a stop channel only for an existing entry and removes that entry in the same critical section; informers are created only after re-checking absence under the write lock and are started with the stored stop channel"},
		},
	})
}

// ---------------------------------------------------------------------------------------------
// shared C12 matchers

// c12MutexAnchors verifies that the mutex fields of the frozen table still exist with a sync type.
func c12CheckGuardTable(c *Ctx, table []GuardedField) bool {
	ok := true
	for _, g := range table {
		i := strings.LastIndex(g.Type, ".")
		pk := c.P.ByPath[g.Type[:i]]
		if pk == nil || pk.Types == nil {
			c.AnchorLost("package " + g.Type[:i])
			ok = false
			continue
		}
		obj := pk.Types.Scope().Lookup(g.Type[i+1:])
		if obj == nil {
			c.AnchorLost("type " + g.Type)
			ok = false
			continue
		}
		st, isStruct := obj.Type().Underlying().(*types.Struct)
		if !isStruct {
			c.AnchorLost("struct " + g.Type)
			ok = false
			continue
		}
		haveF, haveM := false, false
		for j := 0; j < st.NumFields(); j++ {
			f := st.Field(j)
			if f.Name() == g.Field {
				haveF = true
			}
			if f.Name() == g.Mutex {
				if ts := f.Type().String(); ts == "sync.Mutex" || ts == "sync.RWMutex" {
					haveM = true
				}
			}
		}
		if !haveF {
			c.AnchorLost("field " + g.Type + "." + g.Field)
			ok = false
		}
		if !haveM {
			c.AnchorLost("mutex field " + g.Type + "." + g.Mutex)
			ok = false
		}
	}
	return ok
}

func c12r1(c *Ctx) {
	if !c12CheckGuardTable(c, c12Guarded) {
		return
	}
	for _, g := range c12Guarded {
		if checkLockDiscipline(c, g) == 0 {
			c.AnchorLost("accesses of " + g.Type + "." + g.Field)
		}
	}
}

// c12InformerMapCall: call of informerMap.<method> (interface field today; a concrete *InformerMap
// receiver is accepted as an equivalent).
func c12InformerMapCall(cc *ssa.CallCommon, method string) bool {
	return isCallTo(cc, c12IfaceIMap+method, "(*"+c12IMap+")."+method)
}

func c12HandleNewInformerCall(cc *ssa.CallCommon) bool {
	return isCallTo(cc, "invoke:"+pkgDynCache+".cacheSourcer.handleNewInformer", "(*"+c12Source+").handleNewInformer")
}

func c12IsRefsMap(v ssa.Value) (ssa.Value, bool) { return guardedFieldLoad(v, c12Cache, c12Refs) }

// c12Resolve looks through loads of local variables with a single reaching store.
func (p *Program) c12Resolve(v ssa.Value) ssa.Value {
	for i := 0; i < 4; i++ {
		v = stripConv(v)
		u, ok := v.(*ssa.UnOp)
		if !ok || u.Op != token.MUL {
			return v
		}
		src, ok := p.loadSource(u)
		if !ok {
			return v
		}
		v = src
	}
	return v
}

// c12OwnerRefOf: v is the first result of (*Cache).ownerRef(<parameter of the enclosing function>).
func (p *Program) c12OwnerRefOf(v ssa.Value) (*ssa.Call, bool) {
	v = p.c12Resolve(v)
	call, idx := asCall(v)
	if call == nil || idx != 0 || !isCallTo(call.Common(), "(*"+c12Cache+").ownerRef") {
		return nil, false
	}
	args := callArgs(call.Common())
	if len(args) != 1 {
		return nil, false
	}
	if _, isParam := stripConv(args[0]).(*ssa.Parameter); !isParam {
		return nil, false
	}
	return call, true
}

// c12KindInserts: `informerReferences[k] = …` instructions of fn.
func c12KindInserts(fn *ssa.Function) []*ssa.MapUpdate {
	var out []*ssa.MapUpdate
	for _, b := range fn.Blocks {
		for _, in := range b.Instrs {
			if mu, ok := in.(*ssa.MapUpdate); ok {
				if _, isRefs := c12IsRefsMap(mu.Map); isRefs {
					out = append(out, mu)
				}
			}
		}
	}
	return out
}

// c12RefsWrites: instructions of fn that change which owner set informerReferences holds for a kind
// (`informerReferences[k] = …`, `delete(informerReferences, k)`).
func c12RefsWrites(fn *ssa.Function) []ssa.Instruction {
	var out []ssa.Instruction
	for _, mu := range c12KindInserts(fn) {
		out = append(out, mu)
	}
	for _, b := range fn.Blocks {
		for _, in := range b.Instrs {
			if args, ok := builtinCall(in, "delete"); ok && len(args) == 2 {
				if _, isRefs := c12IsRefsMap(args[0]); isRefs {
					out = append(out, in)
				}
			}
		}
	}
	return out
}

// c12CurrentOwnerSet: at instruction `use` of fn, v is the owner set that informerReferences holds for
// `kind` — however it was obtained: read from the map (`informerReferences[kind]`, plain or comma-ok)
// with no write of the map between the read and the use, or the very value that was stored under the
// kind (`refs = map…{}; informerReferences[kind] = refs`) on every way to the use with no other write
// after it, or a merge of such values (each judged at the end of the block it arrives from). A set
// that was read before the kind's entry was replaced is stale and is not accepted.
func (p *Program) c12CurrentOwnerSet(fn *ssa.Function, v ssa.Value, kind ssa.Value, use ssa.Instruction, depth int) bool {
	if depth > 4 {
		return false
	}
	v = p.c12Resolve(v)
	writes := c12RefsWrites(fn)
	unwrittenSince := func(from ssa.Instruction, except ssa.Instruction) bool {
		for _, in := range between(from, use) {
			for _, w := range writes {
				if in == w && w != except {
					return false
				}
			}
		}
		return true
	}
	if ph, ok := v.(*ssa.Phi); ok {
		if len(ph.Edges) == 0 {
			return false
		}
		for i, e := range ph.Edges {
			pr := ph.Block().Preds[i]
			if len(pr.Instrs) == 0 {
				return false
			}
			if !p.c12CurrentOwnerSet(fn, e, kind, pr.Instrs[len(pr.Instrs)-1], depth+1) {
				return false
			}
		}
		// from the merge to the use
		return unwrittenSince(ph, nil)
	}
	var lk *ssa.Lookup
	switch x := v.(type) {
	case *ssa.Lookup:
		if !x.CommaOk {
			lk = x
		}
	case *ssa.Extract:
		if t, ok := x.Tuple.(*ssa.Lookup); ok && t.CommaOk && x.Index == 0 {
			lk = t
		}
	}
	if lk != nil {
		if _, isRefs := c12IsRefsMap(lk.X); !isRefs || !p.sameValue(lk.Index, kind) {
			return false
		}
		return unwrittenSince(lk, nil)
	}
	// the value stored under the kind
	for _, mu := range c12KindInserts(fn) {
		if mu.Value != v || !p.sameValue(mu.Key, kind) {
			continue
		}
		if use != ssa.Instruction(mu) && !p.mustPrecede(use, func(in ssa.Instruction) bool { return in == ssa.Instruction(mu) }) {
			continue
		}
		if unwrittenSince(mu, mu) {
			return true
		}
	}
	return false
}

// c12WatchFuncs: functions of the package that insert a kind into informerReferences.
func c12WatchFuncs(c *Ctx) []*ssa.Function {
	var out []*ssa.Function
	for _, fn := range c.P.FuncsIn(pkgDynCache) {
		if len(c12KindInserts(fn)) > 0 {
			out = append(out, fn)
		}
	}
	watch := c.MustFunc(pkgDynCache, "(*Cache).Watch")
	if watch == nil {
		return nil
	}
	found := false
	for _, f := range out {
		if f == watch {
			found = true
		}
	}
	if !found {
		c.AnchorLost("insert into Cache.informerReferences in (*Cache).Watch")
	}
	return out
}

// c12WatchRegion: the watch functions together with the helpers that only they use: unexported,
// called only statically (p.inlinable), every call an ordinary call (no go/defer) made from the region.
// This is where a block of Watch lands when it is extracted into a helper that the normalisation
// pre-pass has to leave in place (a helper with a defer, a recursive one, …).
func c12WatchRegion(c *Ctx) map[*ssa.Function]bool {
	p := c.P
	region := map[*ssa.Function]bool{}
	for _, f := range c12WatchFuncs(c) {
		region[f] = true
	}
	for changed := true; changed; {
		changed = false
		for _, h := range p.FuncsIn(pkgDynCache) {
			if region[h] || !p.inlinable(h) {
				continue
			}
			all := true
			for _, cs := range p.callersOf(h) {
				if _, isCall := cs.Instr.(*ssa.Call); !isCall || !region[cs.Fn] {
					all = false
				}
			}
			if all {
				region[h] = true
				changed = true
			}
		}
	}
	return region
}

// c12WatchCalls: the calls of a watch function and of the region helpers it reaches.
func c12WatchCalls(c *Ctx, fn *ssa.Function, region map[*ssa.Function]bool) []Call {
	var out []Call
	for _, xc := range c.P.callsInX(fn) {
		if xc.Call.Fn == fn || region[xc.Call.Fn] {
			out = append(out, xc.Call)
		}
	}
	return out
}

// c12AbsentFact: facts contain ok==false of a comma-ok lookup informerReferences[key] that was
// evaluated before any insert of fn. Returns the lookup.
func (p *Program) c12RefLookupFact(fs []Fact, pol bool, key ssa.Value) *ssa.Lookup {
	return lookupFact(fs, pol, func(lk *ssa.Lookup) bool {
		if _, ok := c12IsRefsMap(lk.X); !ok {
			return false
		}
		return key == nil || p.strictSame(lk.Index, key)
	})
}

func c12LookupBeforeInserts(fn *ssa.Function, lk *ssa.Lookup) (bool, *ssa.MapUpdate) {
	for _, mu := range c12KindInserts(fn) {
		for _, in := range reachableAfter(mu, nil) {
			if in == ssa.Instruction(lk) {
				return false, mu
			}
		}
	}
	return true, nil
}

func (p *Program) mayReturnNilErr(ret *ssa.Return) bool    { return p.returnErrNilness(ret) != noTri }
func (p *Program) mayReturnNonNilErr(ret *ssa.Return) bool { return p.returnErrNilness(ret) != yesTri }

func c12r2(c *Ctx) {
	p := c.P
	region := c12WatchRegion(c)
	for _, fn := range c12WatchFuncs(c) {
		inserts := c12KindInserts(fn)
		kindKey := inserts[0].Key
		// (a) informer creation / handler registration only for a kind that had no reference
		for _, call := range c12WatchCalls(c, fn, region) {
			var what string
			switch {
			case c12InformerMapCall(call.Common, "Get"):
				what = "informerMap.Get"
			case c12HandleNewInformerCall(call.Common):
				what = "handleNewInformer"
			default:
				continue
			}
			o := c.Ob(fn, what, call.Instr, "in a function that registers a kind, "+what+" runs only when informerReferences had no entry for the kind before the insert")
			o.Require("F: _, ok := informerReferences[kind] (evaluated before the insert)")
			var key ssa.Value = kindKey
			if what == "informerMap.Get" {
				if a := callArgs(call.Common); len(a) >= 2 {
					key = a[1]
					if !p.sameValue(key, kindKey) {
						o.Fail("informerMap.Get is asked for %s, the reference is inserted for %s", p.describe(key), p.describe(kindKey))
						continue
					}
				}
			}
			lk := p.c12RefLookupFact(p.FactsAtX(call.Instr.Block()), false, key)
			if lk == nil {
				o.Fail("%s is reachable for a kind that already has a reference (no dominating `!ok` of informerReferences[kind]); found facts: %s",
					what, strings.Join(factStrings(p, p.FactsAtX(call.Instr.Block())), ", "))
				continue
			}
			if ok, mu := c12LookupBeforeInserts(fn, lk); !ok {
				o.Fail("the existence test at %s is evaluated after the insert at %s, so it is always true", p.IPos(lk), p.IPos(mu))
				continue
			}
			o.OK("guarded by !ok of " + p.describe(lk) + " at " + p.IPos(lk))
		}
		// (b) a fresh owner set replaces the kind's entry only when there was none
		for _, mu := range inserts {
			o := c.Ob(fn, "kind-insert", mu, "a new owner set is stored for a kind only when the kind had no entry (otherwise registered owners would be dropped)")
			lk := p.c12RefLookupFact(p.FactsAt(mu.Block()), false, mu.Key)
			switch {
			case lk == nil:
				o.Fail("informerReferences[kind] is overwritten without a dominating `!ok` test for the same key")
			default:
				if ok, other := c12LookupBeforeInserts(fn, lk); !ok && other != mu {
					o.Fail("existence test evaluated after another insert at %s", p.IPos(other))
				} else if _, isMake := stripConv(mu.Value).(*ssa.MakeMap); !isMake {
					o.Unknown("inserted value is not a fresh map: %s", p.describe(mu.Value))
				} else {
					o.OK("fresh set under !ok")
				}
			}
		}
		// (c) the owner is recorded, keyed by ownerRef(owner), on every successful path
		var ownerInsert *ssa.MapUpdate
		for _, b := range fn.Blocks {
			for _, in := range b.Instrs {
				mu, ok := in.(*ssa.MapUpdate)
				if !ok {
					continue
				}
				if _, isRefs := c12IsRefsMap(mu.Map); isRefs || !p.c12CurrentOwnerSet(fn, mu.Map, kindKey, mu, 0) {
					continue
				}
				if _, ok := p.c12OwnerRefOf(mu.Key); ok {
					ownerInsert = mu
				}
			}
		}
		var ownerSite ssa.Instruction
		if ownerInsert != nil {
			ownerSite = ownerInsert
		}
		o := c.Ob(fn, "owner-insert", ownerSite, "every path that returns success has executed informerReferences[kind][ownerRef(owner)] = struct{}{} (idempotent set insert)")
		if ownerInsert == nil {
			o.Fail("no insert of ownerRef(owner) into the owner set of the kind found")
		} else {
			mt, _ := ownerInsert.Map.Type().Underlying().(*types.Map)
			st, isStruct := mt.Elem().Underlying().(*types.Struct)
			bad := ""
			if !isStruct || st.NumFields() != 0 {
				bad = "owner set element type is not struct{} (insert would not be idempotent)"
			}
			for _, b := range fn.Blocks {
				if len(b.Instrs) == 0 || b == fn.Recover {
					continue
				}
				ret, isRet := b.Instrs[len(b.Instrs)-1].(*ssa.Return)
				if !isRet || !p.mayReturnNilErr(ret) {
					continue
				}
				if !p.mustPrecede(ret, func(in ssa.Instruction) bool { return in == ssa.Instruction(ownerInsert) }) {
					bad = "return at " + p.IPos(ret) + " may report success without the owner having been recorded"
				}
			}
			if bad != "" {
				o.Fail("%s", bad)
			} else {
				o.OK("owner insert at " + p.IPos(ownerInsert) + " precedes every possibly-successful return")
			}
		}
	}
	// (d) ownerRef identifies the owner by UID, name, namespace and group-kind
	if fn := c.MustFunc(pkgDynCache, "(*Cache).ownerRef"); fn != nil {
		o := c.Ob(fn, "ownerRef-shape", nil, "ownerRef(owner) is built from owner.GetUID/GetName/GetNamespace and the group and kind of GVKForObject(owner)")
		problems := c12CheckOwnerRefShape(p, fn)
		if len(problems) == 0 {
			o.OK()
		} else {
			o.Fail("%s", strings.Join(problems, "; "))
		}
	}
}

func c12CheckOwnerRefShape(p *Program, fn *ssa.Function) (problems []string) {
	if len(fn.Params) != 2 {
		return []string{"unexpected signature"}
	}
	owner := fn.Params[1]
	checked := 0
	for _, rc := range p.returnCases(fn) {
		if len(rc.Results) != 2 || !isNilConst(rc.Results[1]) {
			continue
		}
		checked++
		fields, _, ok := compositeFields(rc.Results[0])
		if !ok {
			return []string{"successful return value is not an OwnerReference literal"}
		}
		for f, getter := range map[string]string{"UID": "GetUID", "Name": "GetName", "Namespace": "GetNamespace"} {
			call, _ := asCall(fields[f])
			if call == nil || calleeName(call.Common()) != getter || !p.sameValue(callRecv(call.Common()), owner) {
				problems = append(problems, f+" is not owner."+getter+"()")
			}
		}
		// GroupKind: a nested literal {Group: gvk.Group, Kind: gvk.Kind}, a GroupKind value built that
		// way, or gvk.GroupKind() (apimachinery: exactly that pair) — gvk being GVKForObject(owner).
		fromOwnerGVK := func(v ssa.Value) bool {
			gc, idx := asCall(v)
			return gc != nil && idx == 0 && isCallTo(gc.Common(), "sigs.k8s.io/controller-runtime/pkg/client/apiutil.GVKForObject") &&
				len(gc.Common().Args) > 0 && p.sameValue(gc.Common().Args[0], owner)
		}
		u, _ := stripConv(rc.Results[0]).(*ssa.UnOp)
		var lit *ssa.Alloc
		if u != nil {
			lit, _ = u.X.(*ssa.Alloc)
		}
		got := map[string]bool{}
		if lit != nil {
			for _, r := range referrersOf(lit) {
				gk, ok := r.(*ssa.FieldAddr)
				if !ok || fieldName(lit.Type(), gk.Field) != "GroupKind" {
					continue
				}
				for _, rr := range referrersOf(gk) {
					switch x := rr.(type) {
					case *ssa.FieldAddr:
						name := fieldName(gk.Type(), x.Field)
						for _, rrr := range referrersOf(x) {
							st, ok := rrr.(*ssa.Store)
							if !ok || st.Addr != ssa.Value(x) {
								continue
							}
							if src, f, ok := p.c12FieldOfValue(st.Val); ok && f == name && fromOwnerGVK(src) {
								got[name] = true
							}
						}
					case *ssa.Store:
						if x.Addr != ssa.Value(gk) {
							continue
						}
						for name, part := range p.c12GroupKindParts(x.Val) {
							if part.Field == name && fromOwnerGVK(part.Of) {
								got[name] = true
							}
						}
					}
				}
			}
		}
		for _, n := range []string{"Group", "Kind"} {
			if !got[n] {
				problems = append(problems, "GroupKind."+n+" is not taken from GVKForObject(owner)")
			}
		}
	}
	if checked == 0 {
		problems = append(problems, "no successful return found")
	}
	return problems
}

// c12Part: "field Field of the struct value Of".
type c12Part struct {
	Of    ssa.Value
	Field string
}

// c12FieldOfValue resolves v to "field f of the struct value src": a Field of an SSA value, or a load
// of a field of a local variable that holds exactly one whole value there and is not written field by
// field.
func (p *Program) c12FieldOfValue(v ssa.Value) (src ssa.Value, f string, ok bool) {
	switch x := stripConv(v).(type) {
	case *ssa.Field:
		return x.X, fieldName(x.X.Type(), x.Field), true
	case *ssa.UnOp:
		if x.Op != token.MUL {
			return nil, "", false
		}
		fa, isFA := x.X.(*ssa.FieldAddr)
		if !isFA {
			return nil, "", false
		}
		a, isAlloc := fa.X.(*ssa.Alloc)
		if !isAlloc {
			return nil, "", false
		}
		for _, r := range referrersOf(a) {
			if o, isF := r.(*ssa.FieldAddr); isF && o.Field == fa.Field && derivedAddrWritten(o) {
				return nil, "", false
			}
		}
		sts, known := p.storesReaching(a, x)
		if !known || len(sts) != 1 {
			return nil, "", false
		}
		return sts[0].Val, fieldName(a.Type(), fa.Field), true
	}
	return nil, "", false
}

// c12GroupKindParts resolves a schema.GroupKind value to where its Group and Kind come from:
// gvk.GroupKind() is {Group: gvk.Group, Kind: gvk.Kind} (value-receiver helper of apimachinery), a
// literal is read field by field. Fields that cannot be resolved are absent.
func (p *Program) c12GroupKindParts(v ssa.Value) map[string]c12Part {
	out := map[string]c12Part{}
	if call, idx := asCall(v); call != nil {
		if idx == -1 && calleeID(call.Common()) == "(k8s.io/apimachinery/pkg/runtime/schema.GroupVersionKind).GroupKind" && len(call.Common().Args) == 1 {
			out["Group"] = c12Part{call.Common().Args[0], "Group"}
			out["Kind"] = c12Part{call.Common().Args[0], "Kind"}
		}
		return out
	}
	fields, _, ok := compositeFields(v)
	if !ok {
		return out
	}
	for _, n := range []string{"Group", "Kind"} {
		if fv := fields[n]; fv != nil {
			if src, f, ok := p.c12FieldOfValue(fv); ok {
				out[n] = c12Part{src, f}
			}
		}
	}
	return out
}

func c12r3(c *Ctx) {
	p := c.P
	// (a) success only after handleNewInformer(informer of this Get)
	region := c12WatchRegion(c)
	for _, fn := range c12WatchFuncs(c) {
		for _, call := range c12WatchCalls(c, fn, region) {
			if !c12InformerMapCall(call.Common, "Get") {
				continue
			}
			g, isCall := call.Instr.(*ssa.Call)
			if !isCall {
				continue
			}
			o := c.Ob(fn, "handlers-after-Get", g, "after informerMap.Get for a new kind, every path that may return success has called handleNewInformer with the informer this Get returned")
			ok := p.mustFollowF(g, func(in ssa.Instruction) bool {
				ci, isC := in.(*ssa.Call)
				if !isC || !c12HandleNewInformerCall(ci.Common()) {
					return false
				}
				args := callArgs(ci.Common())
				if len(args) != 1 {
					return false
				}
				src, idx := asCall(p.c12Resolve(args[0]))
				return src == g && idx == 0
			}, func(in ssa.Instruction) bool {
				ret, isRet := in.(*ssa.Return)
				return isRet && !p.mayReturnNilErr(ret)
			})
			if ok {
				o.OK()
			} else {
				o.Fail("a path from informerMap.Get to a return that may report success does not pass handleNewInformer(<informer returned by this Get>): the new informer would deliver no events")
			}
		}
	}
	// (b) handleNewInformer starts a source for every registered handler
	if fn := c.MustFunc(pkgDynCache, "(*cacheSource).handleNewInformer"); fn != nil {
		n := 0
		for _, call := range callsIn(fn) {
			if !isCallTo(call.Common, "(*sigs.k8s.io/controller-runtime/pkg/source.Informer).Start") {
				continue
			}
			n++
			o := c.Ob(fn, "source.Informer.Start", call.Instr, "a source.Informer{Informer: <the new informer>, Handler: <handler i>} is started for every element of cacheSource.handlers; the loop ends early only with an error")
			var problems []string
			fields, _, ok := compositeFields(callRecv(call.Common))
			if !ok {
				o.Unknown("receiver of Start is not a source.Informer literal")
				continue
			}
			if len(fn.Params) < 2 || !p.sameValue(fields["Informer"], fn.Params[1]) {
				problems = append(problems, "Informer field is "+p.describe(fields["Informer"])+", not the informer passed in")
			}
			// Handler comes from an element of the guarded slice indexed inside a loop
			elemOK := false
			var loop *Loop
			if h, isLoad := stripConv(fields["Handler"]).(*ssa.UnOp); isLoad {
				if hf, isFA := h.X.(*ssa.FieldAddr); isFA && fieldName(hf.X.Type(), hf.Field) == "handler" {
					var elem ssa.Value
					switch x := hf.X.(type) {
					case *ssa.Alloc:
						if sts, known := p.storesReaching(x, h); known && len(sts) == 1 {
							elem = sts[0].Val
						}
					case *ssa.IndexAddr:
						elem = x
					}
					var ia *ssa.IndexAddr
					switch e := elem.(type) {
					case *ssa.UnOp:
						ia, _ = e.X.(*ssa.IndexAddr)
					case *ssa.IndexAddr:
						ia = e
					}
					if ia != nil {
						if _, isH := guardedFieldLoad(ia.X, c12Source, "handlers"); isH {
							loop = innermostLoop(fn, ia.Block())
							if loop != nil && loop.Body[call.Instr.Block()] {
								if ph, isPhi := stripIncrement(ia.Index).(*ssa.Phi); isPhi && ph.Block() == loop.Head {
									elemOK = true
								}
							}
						}
					}
				}
			}
			if !elemOK {
				problems = append(problems, "Handler is not the handler of the loop's current element of cacheSource.handlers")
			}
			if loop != nil {
				if !dominatesAllTails(call.Instr.Block(), loop) {
					problems = append(problems, "Start is not executed on every iteration")
				}
				if ok, at := p.loopEarlyExitsFail(loop); !ok {
					problems = append(problems, "the loop can be left early with a possibly-nil error at "+at+" (remaining handlers would not be attached)")
				}
			}
			if len(problems) == 0 {
				o.OK("one Start per element of handlers")
			} else {
				o.Fail("%s", strings.Join(problems, "; "))
			}
		}
		if n == 0 {
			c.Ob(fn, "source.Informer.Start", nil, "handleNewInformer starts a source.Informer per handler").Fail("no source.Informer.Start call in handleNewInformer")
		}
	}
	// (c) handlers / settings are only extended while registrations are not blocked
	for _, field := range []string{"handlers", "settings"} {
		for _, a := range p.fieldAccesses(c12Source, field) {
			if a.Kind != "store" {
				continue
			}
			o := c.Ob(a.Fn, "freeze-"+field, a.Instr, "cacheSource."+field+" is only modified when blockNew is false (handlers are frozen once the cache has been started)")
			ok := false
			for _, f := range p.FactsAt(a.Instr.Block()) {
				cond, pol := normBoolCond(f.Cond, f.Pol)
				if base, isB := guardedFieldLoad(cond, c12Source, "blockNew"); isB && !pol && p.sameValue(base, a.Base) {
					ok = true
				}
			}
			if ok {
				o.OK("under !blockNew")
			} else {
				o.Fail("store to cacheSource.%s is not dominated by a `blockNew == false` test of the same cacheSource", field)
			}
		}
	}
	// (d) Cache.Start blocks new registrations
	if fn := c.MustFunc(pkgDynCache, "(*Cache).Start"); fn != nil {
		o := c.Ob(fn, "blockNewRegistrations", nil, "Cache.Start blocks new handler registrations on every path, and blockNewRegistrations sets blockNew = true")
		isBlock := func(in ssa.Instruction) bool {
			ci, ok := in.(*ssa.Call)
			return ok && isCallTo(ci.Common(), "invoke:"+pkgDynCache+".cacheSourcer.blockNewRegistrations", "(*"+c12Source+").blockNewRegistrations")
		}
		bn := c.MustFunc(pkgDynCache, "(*cacheSource).blockNewRegistrations")
		switch {
		case !p.everyReturnPreceded(fn, isBlock):
			o.Fail("a path through Cache.Start does not call blockNewRegistrations")
		case bn == nil:
		case !p.everyReturnPreceded(bn, func(in ssa.Instruction) bool {
			st, ok := in.(*ssa.Store)
			if !ok {
				return false
			}
			fa, ok := st.Addr.(*ssa.FieldAddr)
			if !ok || namedTypeString(fa.X.Type()) != c12Source || fieldName(fa.X.Type(), fa.Field) != "blockNew" {
				return false
			}
			v, isC := constBool(st.Val)
			return isC && v
		}):
			o.Fail("blockNewRegistrations does not set blockNew = true on every path")
		default:
			o.OK()
		}
	}
}

// stripIncrement: `i+1` → i (range-index loops use phi+1 as the index).
func stripIncrement(v ssa.Value) ssa.Value {
	if b, ok := v.(*ssa.BinOp); ok && b.Op == token.ADD {
		if _, isC := b.Y.(*ssa.Const); isC {
			return b.X
		}
	}
	return v
}

func c12r4(c *Ctx) {
	p := c.P
	for _, fn := range c12WatchFuncs(c) {
		for _, mu := range c12KindInserts(fn) {
			key := mu.Key
			o := c.Ob(fn, "rollback-after-insert", mu, c.rule.Statement)
			o.Require("delete(informerReferences, kind) [or helper]", "informerMap.Delete(_, kind) [or helper]", "on every path from the insert to a return whose error may be non-nil")
			names := []string{"removal of the kind from informerReferences", "informerMap.Delete for the kind"}
			// Judged on feasible paths (c12Walk): the error of a merged or called helper that the function
			// tests and hands on separates "helper failed and rolled back" from "helper succeeded".
			bad := map[*ssa.Return][]int{}
			undecided := false
			for kind := range names {
				rets, und := p.c12ErrReturnsWithout(kind, mu, key)
				undecided = undecided || und
				for _, r := range rets {
					bad[r] = append(bad[r], kind)
				}
			}
			if undecided {
				o.Unknown("too many paths behind the insert to enumerate")
				continue
			}
			if len(bad) == 0 {
				o.OK("every error return after the insert is preceded by both rollback steps")
				continue
			}
			var msgs []string
			for ret, miss := range bad {
				var m []string
				for _, i := range miss {
					m = append(m, names[i])
				}
				msgs = append(msgs, fmt.Sprintf("return at %s may report an error without %s", p.IPos(ret), strings.Join(m, " and ")))
			}
			sortStrings(msgs)
			o.Fail("%s: the reference stays, a later Watch of the kind skips informer creation and handler registration", strings.Join(msgs, "; "))
		}
	}
}

func sortStrings(s []string) {
	for i := 1; i < len(s); i++ {
		for j := i; j > 0 && s[j] < s[j-1]; j-- {
			s[j], s[j-1] = s[j-1], s[j]
		}
	}
}

// c12IsRollbackSite: the instruction (an informerMap.Delete call or a delete on informerReferences)
// belongs to the R4 rollback of a watch function: whenever it executes, the Watch call it runs under
// fails (c12FailsWatch: it lies behind the insert on a feasible-path-wise pure error path — directly,
// or in a statically called helper whose calls are such points), and, inside a helper, it concerns
// the very kind that is rolled back. Anything else that stops informers or forgets kinds falls under
// R5.
func (p *Program) c12IsRollbackSite(c *Ctx, in ssa.Instruction) bool {
	key, ok := p.c12FailsWatch(c, in, nil, 3)
	if !ok {
		return false
	}
	for _, w := range c12WatchFuncs(c) {
		if in.Parent() == w {
			return true // R4 judges which kind the steps in the watch function itself concern
		}
	}
	return p.c12DirectEvent(c12EvRemovesRef, in, key) || p.c12DirectEvent(c12EvStopsInformer, in, key)
}

// c12OwnerSetOf: v is the owner set of a kind: the value of ranging over informerReferences or
// informerReferences[k]. Returns the kind key value.
func c12OwnerSetOf(v ssa.Value) (kind ssa.Value, rng *ssa.Range, ok bool) {
	switch x := stripConv(v).(type) {
	case *ssa.Extract:
		switch t := x.Tuple.(type) {
		case *ssa.Next:
			r, isR := t.Iter.(*ssa.Range)
			if !isR || x.Index != 2 {
				return nil, nil, false
			}
			if _, isRefs := c12IsRefsMap(r.X); !isRefs {
				return nil, nil, false
			}
			for _, rr := range referrersOf(t) {
				if e, isE := rr.(*ssa.Extract); isE && e.Index == 1 {
					kind = e
				}
			}
			return kind, r, true
		case *ssa.Lookup:
			if _, isRefs := c12IsRefsMap(t.X); isRefs && x.Index == 0 {
				return t.Index, nil, true
			}
		}
	case *ssa.Lookup:
		if _, isRefs := c12IsRefsMap(x.X); isRefs {
			return x.Index, nil, true
		}
	}
	return nil, nil, false
}

// c12OwnerSetOfX: c12OwnerSetOf, also for an owner set that a helper with a single call site
// (p.soleArgument) receives as a parameter: the set is what the caller passes. kind and rng are
// values of the function that reads the set from informerReferences.
func (p *Program) c12OwnerSetOfX(v ssa.Value) (kind ssa.Value, rng *ssa.Range, ok bool) {
	for i := 0; i < 3; i++ {
		if k, r, ok := c12OwnerSetOf(v); ok {
			return k, r, true
		}
		prm, isPrm := stripConv(p.c12Resolve(v)).(*ssa.Parameter)
		if !isPrm {
			return nil, nil, false
		}
		a := p.soleArgument(prm)
		if a == nil {
			return nil, nil, false
		}
		v = a
	}
	return nil, nil, false
}

// c12OwnerRefOfX: c12OwnerRefOf, also for a helper with a single call site that is handed the
// owner reference its caller obtained.
func (p *Program) c12OwnerRefOfX(v ssa.Value) (*ssa.Call, bool) {
	for i := 0; i < 3; i++ {
		if call, ok := p.c12OwnerRefOf(v); ok {
			return call, true
		}
		prm, isPrm := stripConv(p.c12Resolve(v)).(*ssa.Parameter)
		if !isPrm {
			return nil, false
		}
		a := p.soleArgument(prm)
		if a == nil {
			return nil, false
		}
		v = a
	}
	return nil, false
}

// c12FreeRegion: Free and the helpers it reaches through static calls of inlinable helpers — the
// functions whose role is to release an owner's references.
func (p *Program) c12FreeRegion(free *ssa.Function) map[*ssa.Function]bool {
	region := map[*ssa.Function]bool{free: true}
	for _, xc := range p.callsInX(free) {
		region[xc.Call.Fn] = true
	}
	return region
}

// c12SiteIn: the instruction of fn through which control reaches `in`: `in` itself when it lies in
// fn, else the call in fn of the single-call-site helper (chain) that contains it; nil if there is
// no such chain.
func (p *Program) c12SiteIn(fn *ssa.Function, in ssa.Instruction) ssa.Instruction {
	for i := 0; i < 4 && in != nil; i++ {
		cur := in.Parent()
		if cur == fn {
			return in
		}
		if !p.inlinable(cur) {
			return nil
		}
		callers := p.callersOf(cur)
		if len(callers) != 1 {
			return nil
		}
		in = callers[0].Instr
	}
	return nil
}

// c12HelperErrorReported: fn is not a helper (exported, used dynamically, without error result), or
// every static caller of the helper fn reports a non-nil error of fn as a non-nil error of its own
// (feasible paths behind the call, the helper's error taken to be non-nil) — up the chain of helpers.
func (p *Program) c12HelperErrorReported(fn *ssa.Function, depth int) (bool, string) {
	if !p.inlinable(fn) || errResultIndex(fn) < 0 {
		return true, ""
	}
	if depth <= 0 {
		return false, "helper chain above " + fn.Name() + " too deep to follow its error"
	}
	for _, cs := range p.callersOf(fn) {
		call, isCall := cs.Instr.(*ssa.Call)
		if !isCall {
			return false, "the error of " + fn.Name() + " is lost at " + p.IPos(cs.Instr) + " (go/defer)"
		}
		e := c12CallErrValue(call)
		if e == nil {
			return false, "the error of " + fn.Name() + " is dropped at " + p.IPos(cs.Instr) + ": a failed stop would be reported as success while the kind stays registered"
		}
		if errResultIndex(cs.Fn) < 0 || !p.c12OnlyErrorReturnsAfter(cs.Instr, e) {
			return false, shortFuncID(cs.Fn) + " may report success although " + fn.Name() + " failed at " + p.IPos(cs.Instr) + ": a failed stop would go unnoticed while the kind stays registered"
		}
		if ok, why := p.c12HelperErrorReported(cs.Fn, depth-1); !ok {
			return false, why
		}
	}
	return true, ""
}

func c12r5(c *Ctx) {
	p := c.P
	free := c.MustFunc(pkgDynCache, "(*Cache).Free")
	if free == nil {
		return
	}
	freeRegion := p.c12FreeRegion(free)
	// (a) every informer stop that is not the R4 rollback
	nStops := 0
	for _, fn := range p.FuncsIn(pkgDynCache) {
		for _, call := range callsIn(fn) {
			if !c12InformerMapCall(call.Common, "Delete") {
				continue
			}
			if p.c12IsRollbackSite(c, call.Instr) {
				continue
			}
			nStops++
			o := c.Ob(fn, "informerMap.Delete", call.Instr, "an informer is stopped only for a kind whose owner set contained the freed owner and is empty after removing it; the kind is then forgotten")
			o.Require("T: _, ok := refs[ownerRef(owner)]", "T: len(refs)==0 evaluated after delete(refs, ownerRef(owner))", "delete(informerReferences, kind) follows")
			args := callArgs(call.Common)
			if len(args) != 2 {
				o.Unknown("unexpected arguments")
				continue
			}
			kind := args[1]
			fs := p.FactsAtX(call.Instr.Block()) // with the facts of the call sites of an extracted helper
			var problems []string
			// membership
			var refs ssa.Value
			member := lookupFact(fs, true, func(lk *ssa.Lookup) bool {
				k, _, ok := p.c12OwnerSetOfX(lk.X)
				if !ok || k == nil || !p.sameValue(k, kind) {
					return false
				}
				_, isOwner := p.c12OwnerRefOfX(lk.Index)
				return isOwner
			})
			if member == nil {
				problems = append(problems, "not dominated by `_, ok := refs[ownerRef(owner)]; ok` for the owner set of the kind being stopped")
			} else {
				refs = member.X
			}
			// emptiness after removal
			emptyOK := false
			for _, f := range fs {
				x, nonEmptyWhenTrue, ok := lenCmp(f.Cond)
				if !ok || f.Pol == nonEmptyWhenTrue {
					continue
				}
				k, _, isSet := p.c12OwnerSetOfX(x)
				if !isSet || k == nil || !p.sameValue(k, kind) {
					continue
				}
				// the len() operand of this comparison
				var lenCall *ssa.Call
				if b, isB := f.Cond.(*ssa.BinOp); isB {
					for _, opnd := range []ssa.Value{b.X, b.Y} {
						if lc, isC := opnd.(*ssa.Call); isC {
							lenCall = lc
						}
					}
				}
				if lenCall == nil {
					continue
				}
				removed := false
				for _, b := range fn.Blocks {
					for _, in := range b.Instrs {
						da, isDel := builtinCall(in, "delete")
						if !isDel || len(da) != 2 || !p.sameValue(da[0], x) {
							continue
						}
						if _, isOwner := p.c12OwnerRefOfX(da[1]); !isOwner {
							continue
						}
						if in.Block() == lenCall.Block() && instrIndex(in) < instrIndex(lenCall) || in.Block() != lenCall.Block() && in.Block().Dominates(lenCall.Block()) {
							removed = true
						}
					}
				}
				if removed {
					emptyOK = true
				} else {
					problems = append(problems, "len(refs)==0 is evaluated before the owner was removed from refs")
				}
			}
			if !emptyOK {
				problems = append(problems, "not dominated by `len(refs) == 0` (after delete(refs, ownerRef(owner))): the informer would be stopped while other owners still watch the kind")
			}
			_ = refs
			// forget the kind afterwards
			if !p.mustFollowF(call.Instr, func(in ssa.Instruction) bool {
				da, ok := builtinCall(in, "delete")
				if !ok || len(da) != 2 {
					return false
				}
				_, isRefs := c12IsRefsMap(da[0])
				return isRefs && p.sameValue(da[1], kind)
			}, func(in ssa.Instruction) bool {
				ret, isRet := in.(*ssa.Return)
				return isRet && !p.mayReturnNilErr(ret)
			}) {
				problems = append(problems, "delete(informerReferences, kind) does not follow the stop on every successful path (a later Watch would not restart the informer)")
			}
			// a failed stop leaves the kind registered and is excused only because the error is reported:
			// in a helper, its callers have to hand that error on
			if ok, why := p.c12HelperErrorReported(fn, 3); !ok {
				problems = append(problems, why)
			}
			if len(problems) == 0 {
				o.OK()
			} else {
				if !freeRegion[fn] {
					// say which role the site was judged in: it is not the release of an owner's reference
					problems = append([]string{"this stop is neither part of Free (or of a helper only Free uses) nor of a recognised rollback of a failed Watch, so it is held to the conditions of Free"}, problems...)
				}
				o.Fail("%s", strings.Join(problems, "; "))
			}
		}
	}
	if nStops == 0 {
		c.AnchorLost("informerMap.Delete call outside the Watch rollback")
	}
	inFree := false
	for _, xc := range p.callsInX(free) {
		if c12InformerMapCall(xc.Call.Common, "Delete") {
			inFree = true
		}
	}
	if !inFree {
		c.AnchorLost("informerMap.Delete call in (*Cache).Free")
	}
	// (b) removals from owner sets / kinds
	judged := map[ssa.Instruction]bool{}
	ownerRemoval := func(fn *ssa.Function, in ssa.Instruction, args []ssa.Value) {
		if judged[in] {
			return
		}
		judged[in] = true
		o := c.Ob(fn, "owner-removal", in, "only the freed owner's own reference (ownerRef(owner)) is removed from an owner set, and every kind is visited")
		var problems []string
		if _, ok := p.c12OwnerRefOfX(args[1]); !ok {
			problems = append(problems, "removed key is "+p.describe(args[1])+", not ownerRef(<owner parameter>)")
		}
		_, rng, isSet := p.c12OwnerSetOfX(args[0])
		switch {
		case !isSet:
			problems = append(problems, "owner set not recognised")
		case rng == nil:
			problems = append(problems, "owner set is not obtained by ranging over all of informerReferences")
		default:
			// the loop is where the owner sets are enumerated: around the removal itself, or around the
			// call of the helper that performs it
			var l *Loop
			if site := p.c12SiteIn(rng.Parent(), in); site != nil {
				l = innermostLoop(rng.Parent(), site.Block())
			}
			if l == nil {
				problems = append(problems, "removal is not inside the loop over informerReferences")
			} else if ok, at := p.loopEarlyExitsFail(l); !ok {
				problems = append(problems, "the loop over informerReferences can be left early with a possibly-nil error at "+at+" (remaining kinds keep the owner)")
			}
		}
		if len(problems) == 0 {
			o.OK()
		} else {
			o.Fail("%s", strings.Join(problems, "; "))
		}
	}
	// an owner set handed to a helper of Free: the accesses made through the parameter
	var freeHelpers []*ssa.Function
	for h := range freeRegion {
		if h != free {
			freeHelpers = append(freeHelpers, h)
		}
	}
	sort.Slice(freeHelpers, func(i, j int) bool { return shortFuncID(freeHelpers[i]) < shortFuncID(freeHelpers[j]) })
	for _, h := range freeHelpers {
		for _, b := range h.Blocks {
			for _, in := range b.Instrs {
				args, isDel := builtinCall(in, "delete")
				if !isDel || len(args) != 2 {
					continue
				}
				if _, isPrm := stripConv(p.c12Resolve(args[0])).(*ssa.Parameter); !isPrm {
					continue
				}
				if _, _, isSet := p.c12OwnerSetOfX(args[0]); isSet {
					ownerRemoval(h, in, args)
				}
			}
		}
	}
	for _, a := range p.fieldAccesses(c12Cache, c12Refs) {
		if a.Kind != "delete" {
			continue
		}
		args, _ := builtinCall(a.Instr, "delete")
		if len(args) != 2 {
			continue
		}
		if a.Derived {
			ownerRemoval(a.Fn, a.Instr, args)
			continue
		}
		if p.c12IsRollbackSite(c, a.Instr) {
			continue
		}
		o := c.Ob(a.Fn, "kind-removal", a.Instr, "a kind is forgotten only when its owner set is empty")
		ok := false
		for _, f := range p.FactsAtX(a.Instr.Block()) {
			x, nonEmptyWhenTrue, isLen := lenCmp(f.Cond)
			if !isLen || f.Pol == nonEmptyWhenTrue {
				continue
			}
			if k, _, isSet := p.c12OwnerSetOfX(x); isSet && k != nil && p.sameValue(k, args[1]) {
				ok = true
			}
		}
		if ok {
			o.OK("under len(refs)==0 of the same kind")
		} else {
			o.Fail("delete(informerReferences, %s) is not dominated by `len(refs)==0` for that kind: owners still watching would lose their reference", p.describe(args[1]))
		}
	}
}

// c12ReadCtx: one read path that reaches informerMap.Get. Normally Fn is the function containing the
// call; when the call sits in an extracted helper that hands the informer/reader it obtained back to
// its callers, the read paths are the helper's call sites (Site = the call of the helper in Fn).
type c12ReadCtx struct {
	Fn    *ssa.Function
	Site  ssa.CallInstruction // call of informerMap.Get, or of the helper that performs it
	Get   Call                // the informerMap.Get call itself
	Chain []Call              // helper calls leading from Fn to Get (outermost first)
}

// c12ReturnsResultOf: some non-error result of fn is (on some path) a non-error result of call.
func (p *Program) c12ReturnsResultOf(fn *ssa.Function, call ssa.CallInstruction) bool {
	cv, ok := call.(*ssa.Call)
	if !ok {
		return false
	}
	for _, rc := range p.returnCases(fn) {
		for i, r := range rc.Results {
			if i == errResultIndex(fn) {
				continue
			}
			for _, pv := range p.possibleValues(r) {
				if src, _ := asCall(pv); src == cv && pv.Type().String() != "error" {
					return true
				}
			}
		}
	}
	return false
}

func (p *Program) c12ReadContexts(get Call) []c12ReadCtx {
	var out []c12ReadCtx
	var walk func(fn *ssa.Function, site ssa.CallInstruction, chain []Call, depth int)
	walk = func(fn *ssa.Function, site ssa.CallInstruction, chain []Call, depth int) {
		if depth < 3 && p.inlinable(fn) && p.c12ReturnsResultOf(fn, site) {
			for _, cs := range p.callersOf(fn) {
				if cs.Fn == fn {
					continue
				}
				walk(cs.Fn, cs.Instr, append([]Call{cs}, chain...), depth+1)
			}
			return
		}
		out = append(out, c12ReadCtx{Fn: fn, Site: site, Get: get, Chain: chain})
	}
	walk(get.Fn, get.Instr, nil, 0)
	return out
}

// c12ErrCase: one way a function can produce its error result: the value, the facts under which it
// is returned (those of the helper included when the error is the unchanged error of an extracted
// helper) and the return instruction that produced the value.
type c12ErrCase struct {
	Val   ssa.Value
	Facts []Fact
	Ret   *ssa.Return
	Outer *ssa.Return // return of the root function
}

// c12InfeasibleFacts: the facts contain a nil test whose outcome contradicts what the tested value
// is: a freshly built error (&T{} / fmt.Errorf / errors.New converted to error) "found nil", or the
// nil constant "found non-nil". No execution reaches such a point; it exists only because the
// returned expression of a merged helper is followed by the caller's own `if err != nil`.
func (p *Program) c12InfeasibleFacts(fs []Fact) bool {
	for _, f := range fs {
		x, trueMeansNonNil, ok := errNilTest(f.Cond)
		if !ok {
			continue
		}
		isNil := f.Pol != trueMeansNonNil
		n := p.errorValueNilness(x, nil)
		if n == unknownTri && definitelyNonNil(x) {
			n = noTri
		}
		if n == yesTri && !isNil || n == noTri && isNil {
			return true
		}
	}
	return false
}

// c12ErrCases enumerates the error results of fn, looking through `x, err := helper(...); return err`
// for inlinable helpers.
func (p *Program) c12ErrCases(fn *ssa.Function, depth int) []c12ErrCase {
	idx := errResultIndex(fn)
	if idx < 0 {
		return nil
	}
	var out []c12ErrCase
	for _, rc := range p.returnCases(fn) {
		if fn.Recover != nil && rc.Ret.Block() == fn.Recover {
			continue
		}
		if p.c12InfeasibleFacts(rc.Facts) {
			continue // e.g. the `err == nil` continuation after a merged helper return of a fresh error
		}
		for _, pv := range p.possibleValues(rc.Results[idx]) {
			call, ci := asCall(pv)
			if call != nil && depth < 3 {
				if h := staticCallee(call.Common()); h != nil && h != fn && p.inlinable(h) {
					hi := errResultIndex(h)
					if hi >= 0 && (ci == hi || ci == -1 && h.Signature.Results().Len() == 1) {
						for _, hc := range p.c12ErrCases(h, depth+1) {
							hc.Facts = append(append([]Fact{}, rc.Facts...), hc.Facts...)
							hc.Outer = rc.Ret
							out = append(out, hc)
						}
						continue
					}
				}
			}
			out = append(out, c12ErrCase{Val: pv, Facts: rc.Facts, Ret: rc.Ret, Outer: rc.Ret})
		}
	}
	return out
}

func c12r6(c *Ctx) {
	p := c.P
	watch := c12WatchRegion(c)
	n := 0
	for _, gfn := range p.FuncsIn(pkgDynCache) {
		if watch[gfn] {
			continue
		}
		for _, call := range callsIn(gfn) {
			if !c12InformerMapCall(call.Common, "Get") {
				continue
			}
			if namedTypeString(callRecvType(call.Common)) == c12IMap && gfn.Signature.Recv() != nil && namedTypeString(gfn.Signature.Recv().Type()) == c12IMap {
				continue // InformerMap calling itself is not a Cache read path
			}
			for _, rc := range p.c12ReadContexts(call) {
				n++
				c12r6Context(c, rc)
			}
		}
	}
	if n == 0 {
		c.AnchorLost("informerMap.Get call on a read path")
	}
}

func c12r6Context(c *Ctx, rc c12ReadCtx) {
	p := c.P
	fn, call := rc.Fn, rc.Get
	args := callArgs(call.Common)
	o := c.Ob(fn, "read-informerMap.Get", rc.Site, "a read asks the informer map only for a kind that has a reference, inside the critical section of the reference check")
	o.Require("T: _, ok := informerReferences[kind]", "informerReferencesMux held from the check to the call")
	if len(args) < 2 {
		o.Unknown("unexpected arguments")
		return
	}
	// the reference check dominates the call: in the function of the call (facts imported from all
	// call sites of an extracted helper included), or before the helper call on this read path
	lk := p.c12RefLookupFact(p.FactsAtX(call.Instr.Block()), true, args[1])
	for i := len(rc.Chain) - 1; lk == nil && i >= 0; i-- {
		// the kind as seen by the function that calls the helper
		key := args[1]
		for j := len(rc.Chain) - 1; j >= i && key != nil; j-- {
			h := staticCallee(rc.Chain[j].Common)
			pi := -1
			if h != nil {
				pi = paramIndex(h, p.c12Resolve(key))
			}
			if pi < 0 || pi >= len(rc.Chain[j].Common.Args) {
				key = nil
				break
			}
			key = rc.Chain[j].Common.Args[pi]
		}
		if key != nil {
			lk = p.c12RefLookupFact(p.FactsAtX(rc.Chain[i].Instr.Block()), true, key)
		}
	}
	if lk == nil {
		o.Fail("informerMap.Get(%s) is reachable without a dominating `ok` of informerReferences[kind]: reading an unwatched kind would silently start an informer", p.describe(args[1]))
		return
	}
	base, _ := c12IsRefsMap(lk.X)
	// where the lookup's function continues towards the Get call
	var towards ssa.Instruction = call.Instr
	for _, ch := range rc.Chain {
		if ch.Fn == lk.Parent() {
			towards = ch.Instr
			break
		}
	}
	held, why := p.LockHeld(towards, LockReq{Field: c12RefsMux, Base: base}, 3)
	if held && towards != ssa.Instruction(call.Instr) {
		// the helper(s) between the check and the Get must not drop the lock either
		for _, ch := range rc.Chain {
			if h := staticCallee(ch.Common); h != nil {
				if rs := p.lockReleases(h); rs.all || rs.fields[c12RefsMux] {
					held, why = false, "helper "+shortFuncID(h)+" may unlock"
				}
			}
		}
	}
	if !held {
		o.Fail("informerMap.Get is called outside the reference lock: %s", why)
		return
	}
	if ok, why := p.lockNotReleasedBetween(lk, towards, c12RefsMux); !ok {
		o.Fail("the reference lock is released between the check and informerMap.Get: %s", why)
		return
	}
	o.OK("guarded by ok of " + p.describe(lk) + "; " + why)
	// the not-watched edge returns CacheNotStartedError
	oo := c.Ob(fn, "not-started-error", lk, "when the kind has no reference the read returns *CacheNotStartedError")
	cases := 0
	bad := ""
	for _, ec := range p.c12ErrCases(fn, 0) {
		isAbsent := false
		for _, f := range ec.Facts {
			if cond, pol := normBoolCond(f.Cond, f.Pol); !pol && commaOkLookup(cond) == lk {
				isAbsent = true
			}
		}
		if !isAbsent {
			continue
		}
		cases++
		if namedTypeString(stripConv(ec.Val).Type()) != pkgDynCache+".CacheNotStartedError" {
			bad = "return at " + p.IPos(ec.Ret) + " on the not-watched path does not return a CacheNotStartedError"
		}
	}
	// an error handed up by the helper that performs the check must be returned unchanged
	above := len(rc.Chain) // number of helper calls between fn and the function of the check
	for i, ch := range rc.Chain {
		if ch.Fn == lk.Parent() {
			above = i
			break
		}
	}
	for _, ch := range rc.Chain[:above] {
		h := staticCallee(ch.Common)
		cv, isCall := ch.Instr.(*ssa.Call)
		if h == nil || !isCall {
			bad = "the helper that checks the reference is not called by a plain call at " + p.IPos(ch.Instr)
			continue
		}
		for _, r := range p.returnCases(ch.Fn) {
			idx := errResultIndex(ch.Fn)
			if idx < 0 {
				continue
			}
			for _, f := range r.Facts {
				x, trueMeansNonNil, ok := errNilTest(f.Cond)
				if !ok || f.Pol != trueMeansNonNil {
					continue
				}
				if src, si := asCall(p.c12Resolve(x)); src != cv || si != errResultIndex(h) {
					continue
				}
				for _, pv := range p.possibleValues(r.Results[idx]) {
					if src, si := asCall(pv); src != cv || si != errResultIndex(h) {
						bad = "return at " + p.IPos(r.Ret) + " replaces the error of " + h.Name() + " (which reports the missing reference)"
					}
				}
			}
		}
	}
	switch {
	case cases == 0:
		oo.Fail("no return on the `!ok` edge found")
	case bad != "":
		oo.Fail("%s", bad)
	default:
		oo.OK()
	}
}

func callRecvType(cc *ssa.CallCommon) types.Type {
	if r := callRecv(cc); r != nil {
		return r.Type()
	}
	return nil
}

func c12r7(c *Ctx) {
	p := c.P
	cachedFin := ""
	if pk := p.ByPath[pkgConstants]; pk != nil && pk.Types != nil {
		if k, ok := pk.Types.Scope().Lookup("CachedFinalizer").(*types.Const); ok {
			cachedFin = strings.Trim(k.Val().ExactString(), `"`)
		}
	}
	if cachedFin == "" {
		c.AnchorLost(pkgConstants + ".CachedFinalizer")
		return
	}
	isCachedConst := func(v ssa.Value) bool { s, ok := constString(v); return ok && s == cachedFin }
	n := 0
	ensurePkgs := map[string]ssa.Instruction{}
	freePkgs := map[string]bool{}
	var ensureFns = map[string]*ssa.Function{}
	for _, fn := range p.productFuncs() {
		for _, call := range callsIn(fn) {
			cc := call.Common
			switch {
			case isCallTo(cc, pkgControllers+".RemoveFinalizer") && len(cc.Args) == 4 && isCachedConst(cc.Args[3]),
				isCallTo(cc, pkgCtrlUtil+".RemoveFinalizer") && len(cc.Args) == 2 && isCachedConst(cc.Args[1]):
				n++
				obj := cc.Args[len(cc.Args)-2]
				o := c.Ob(fn, "remove-cached-finalizer", call.Instr, "the cached finalizer is removed only after cache.Free(ctx, obj) of the same object returned no error")
				var freeCall *ssa.Call
				for _, fc := range callsIn(fn) {
					x, isCall := fc.Instr.(*ssa.Call)
					if !isCall || calleeName(fc.Common) != "Free" {
						continue
					}
					a := callArgs(fc.Common)
					if len(a) == 2 && p.sameValue(a[1], obj) {
						freeCall = x
					}
				}
				switch {
				case freeCall == nil:
					o.Fail("no cache.Free(ctx, %s) in the function that removes the cached finalizer", p.describe(obj))
				case !p.errOfCallIsNil(p.FactsAt(call.Instr.Block()), freeCall):
					o.Fail("finalizer removal is not dominated by err == nil of %s at %s: the owner could disappear while its watches stay registered", p.describe(freeCall), p.IPos(freeCall))
				default:
					o.OK("after error-free " + p.describe(freeCall))
					freePkgs[funcPkgPath(fn)] = true
				}
			case isCallTo(cc, pkgControllers+".EnsureCachedFinalizer"),
				isCallTo(cc, pkgControllers+".EnsureFinalizer") && len(cc.Args) == 4 && isCachedConst(cc.Args[3]) && funcPkgPath(fn) != pkgControllers:
				if _, dup := ensurePkgs[funcPkgPath(fn)]; !dup {
					ensurePkgs[funcPkgPath(fn)] = call.Instr
					ensureFns[funcPkgPath(fn)] = fn
				}
			case isCallTo(cc, pkgControllers+".FreeCacheAndRemoveFinalizer"):
				freePkgs[funcPkgPath(fn)] = true
			}
		}
	}
	if n == 0 {
		c.AnchorLost("removal of the cached finalizer")
	}
	var pkgs []string
	for pk := range ensurePkgs {
		pkgs = append(pkgs, pk)
	}
	sortStrings(pkgs)
	for _, pk := range pkgs {
		o := c.Ob(ensureFns[pk], "ensure-implies-free", ensurePkgs[pk], "a controller package that sets the cached finalizer also frees the cache and removes it (FreeCacheAndRemoveFinalizer)")
		if freePkgs[pk] {
			o.OK()
		} else {
			o.Fail("package %s sets the cached finalizer but never calls FreeCacheAndRemoveFinalizer: its watches are never released", shortPkg(pk))
		}
	}
}

// resolveLocalField: v is a load of field f of a local struct variable; returns the single value
// stored into that field.
func (p *Program) resolveLocalField(v ssa.Value) (ssa.Value, *ssa.Alloc, bool) {
	u, ok := stripConv(v).(*ssa.UnOp)
	if !ok || u.Op != token.MUL {
		return nil, nil, false
	}
	fa, ok := u.X.(*ssa.FieldAddr)
	if !ok {
		return nil, nil, false
	}
	a, ok := fa.X.(*ssa.Alloc)
	if !ok {
		return nil, nil, false
	}
	var val ssa.Value
	n := 0
	for _, r := range referrersOf(a) {
		f2, ok := r.(*ssa.FieldAddr)
		if !ok || f2.Field != fa.Field {
			continue
		}
		for _, rr := range referrersOf(f2) {
			if st, ok := rr.(*ssa.Store); ok && st.Addr == ssa.Value(f2) {
				val = st.Val
				n++
			}
		}
	}
	if n == 1 {
		return val, a, true
	}
	// whole-struct store (entry := m[k])
	if n == 0 {
		if sts, known := p.storesReaching(a, u); known && len(sts) == 1 {
			return nil, a, true
		}
	}
	return nil, a, false
}

// c12EntryShape: the element type of the InformerMap.informers map (the per-kind entry; its name is
// repo-internal and therefore not matched) and the names of its stop-channel field (the only field
// of channel type) and informer field (the only field whose type has a Run(<-chan struct{}) method).
func c12EntryShape(p *Program) (elem types.Type, stopField, informerField string, ok bool) {
	i := strings.LastIndex(c12IMap, ".")
	pk := p.ByPath[c12IMap[:i]]
	if pk == nil || pk.Types == nil {
		return nil, "", "", false
	}
	obj := pk.Types.Scope().Lookup(c12IMap[i+1:])
	if obj == nil {
		return nil, "", "", false
	}
	st, isStruct := obj.Type().Underlying().(*types.Struct)
	if !isStruct {
		return nil, "", "", false
	}
	for j := 0; j < st.NumFields(); j++ {
		if st.Field(j).Name() != "informers" {
			continue
		}
		mt, isMap := st.Field(j).Type().Underlying().(*types.Map)
		if !isMap {
			return nil, "", "", false
		}
		elem = mt.Elem()
	}
	if elem == nil {
		return nil, "", "", false
	}
	et := elem
	if pt, isPtr := et.Underlying().(*types.Pointer); isPtr {
		et = pt.Elem()
	}
	est, isStruct := et.Underlying().(*types.Struct)
	if !isStruct {
		return nil, "", "", false
	}
	nChan, nInf := 0, 0
	for j := 0; j < est.NumFields(); j++ {
		f := est.Field(j)
		if _, isChan := f.Type().Underlying().(*types.Chan); isChan {
			stopField = f.Name()
			nChan++
			continue
		}
		if m, _, _ := types.LookupFieldOrMethod(f.Type(), true, f.Pkg(), "Run"); m != nil {
			if fn, isFn := m.(*types.Func); isFn {
				if sig := fn.Type().(*types.Signature); sig.Params().Len() == 1 {
					if _, isChan := sig.Params().At(0).Type().Underlying().(*types.Chan); isChan {
						informerField = f.Name()
						nInf++
					}
				}
			}
		}
	}
	return et, stopField, informerField, nChan == 1 && nInf == 1
}

func c12r8(c *Ctx) {
	p := c.P
	mux := c12IMap + ".informersMux"
	isInformers := func(v ssa.Value) (ssa.Value, bool) { return guardedFieldLoad(v, c12IMap, "informers") }
	entryT, stopField, informerField, shapeOK := c12EntryShape(p)
	if !shapeOK {
		c.AnchorLost("element type of InformerMap.informers with one channel field and one informer field")
		return
	}
	isEntry := func(t types.Type) bool {
		if pt, isPtr := t.Underlying().(*types.Pointer); isPtr {
			t = pt.Elem()
		}
		return types.Identical(t, entryT)
	}
	nClose := 0
	for _, fn := range p.FuncsIn(pkgDynCache) {
		for _, b := range fn.Blocks {
			for _, in := range b.Instrs {
				// (a) close(entry.StopCh)
				if args, ok := builtinCall(in, "close"); ok && len(args) == 1 {
					u, isLoad := stripConv(args[0]).(*ssa.UnOp)
					if !isLoad {
						continue
					}
					fa, isFA := u.X.(*ssa.FieldAddr)
					if !isFA || !isEntry(fa.X.Type()) || fieldName(fa.X.Type(), fa.Field) != stopField {
						continue
					}
					nClose++
					o := c.Ob(fn, "close-StopCh", in, "a stop channel is closed only for an entry found in InformerMap.informers, under the write lock, and the entry is removed in the same critical section (so it cannot be closed twice)")
					var lk *ssa.Lookup
					if a, isAlloc := fa.X.(*ssa.Alloc); isAlloc {
						if sts, known := p.storesReaching(a, in); known && len(sts) == 1 {
							if e, isE := sts[0].Val.(*ssa.Extract); isE && e.Index == 0 {
								lk, _ = e.Tuple.(*ssa.Lookup)
							}
						}
					}
					if lk == nil || !lk.CommaOk {
						o.Unknown("closed channel is not the StopCh of an entry obtained by `entry, ok := informers[kind]`")
						continue
					}
					base, isInf := isInformers(lk.X)
					if !isInf {
						o.Unknown("entry does not come from InformerMap.informers")
						continue
					}
					var problems []string
					if lookupFact(p.FactsAt(in.Block()), true, func(x *ssa.Lookup) bool { return x == lk }) == nil {
						problems = append(problems, "close is not dominated by `ok` of the lookup (closing the nil channel of a missing entry panics)")
					}
					if held, why := p.LockHeld(in, LockReq{Field: mux, Write: true, Base: base}, 2); !held {
						problems = append(problems, "write lock not held at close: "+why)
					}
					// the entry is removed in the same critical section, after or before the close
					isRemoval := func(x ssa.Instruction) bool {
						da, ok := builtinCall(x, "delete")
						if !ok || len(da) != 2 {
							return false
						}
						_, isInf := isInformers(da[0])
						return isInf && p.sameValue(da[1], lk.Index)
					}
					var del ssa.Instruction
					for _, bb := range fn.Blocks {
						for _, x := range bb.Instrs {
							if isRemoval(x) {
								del = x
							}
						}
					}
					switch {
					case del == nil:
						problems = append(problems, "the entry is never removed from informers: a second Delete would close the channel again (panic)")
					case p.mustFollowF(in, isRemoval, nil):
						if ok, why := p.lockNotReleasedBetween(in, del, mux); !ok {
							problems = append(problems, "lock released between close and delete: "+why)
						}
					case p.mustPrecede(in, isRemoval) && lookupFact(p.FactsAt(del.Block()), true, func(x *ssa.Lookup) bool { return x == lk }) != nil:
						if ok, why := p.lockNotReleasedBetween(del, in, mux); !ok {
							problems = append(problems, "lock released between delete and close: "+why)
						}
					default:
						problems = append(problems, "delete(informers, kind) does not accompany the close on every path: a second Delete would close the channel again (panic)")
					}
					if len(problems) == 0 {
						o.OK()
					} else {
						o.Fail("%s", strings.Join(problems, "; "))
					}
				}
				// (b) insert into informers
				if mu, ok := in.(*ssa.MapUpdate); ok {
					base, isInf := isInformers(mu.Map)
					if !isInf {
						continue
					}
					o := c.Ob(fn, "informers-insert", mu, "an informer is created and stored only after re-checking, under the same write lock, that the kind has none")
					lk := lookupFact(p.FactsAt(mu.Block()), false, func(x *ssa.Lookup) bool {
						_, isI := isInformers(x.X)
						return isI && p.sameValue(x.Index, mu.Key)
					})
					var problems []string
					if lk == nil {
						problems = append(problems, "insert is not dominated by `!ok` of informers[kind]: two racing Gets would each start an informer")
					} else {
						if held, why := p.LockHeld(lk, LockReq{Field: mux, Write: true, Base: base}, 2); !held {
							problems = append(problems, "existence re-check is not under the write lock: "+why)
						}
						if ok, why := p.lockNotReleasedBetween(lk, mu, mux); !ok {
							problems = append(problems, "lock released between re-check and insert: "+why)
						}
					}
					if held, why := p.LockHeld(mu, LockReq{Field: mux, Write: true, Base: base}, 2); !held {
						problems = append(problems, "insert not under the write lock: "+why)
					}
					if len(problems) == 0 {
						o.OK()
					} else {
						o.Fail("%s", strings.Join(problems, "; "))
					}
					// (c) the stored informer is started with the stored stop channel
					oo := c.Ob(fn, "informer-run", mu, "the stored informer is started (go Run) with the stop channel stored in the same entry, after the entry is stored")
					fields, _, okLit := compositeFields(mu.Value)
					if !okLit {
						oo.Unknown("stored entry is not a composite literal of the entry type")
						continue
					}
					// Candidate starts: the `go x.Run(ch)` statements that can execute after this store
					// (the normaliser's tail duplication may have copied the whole tail of the function, so
					// another copy's store/start pair is not this store's); if none can, the starts from
					// which this store can still be reached (started before stored); else all of them.
					var allRuns, goRuns []*ssa.Go
					for _, cc := range callsIn(fn) {
						g, isGo := cc.Instr.(*ssa.Go)
						if isGo && calleeName(cc.Common) == "Run" {
							allRuns = append(allRuns, g)
						}
					}
					if len(allRuns) == 0 {
						oo.Fail("no `go <informer>.Run(stopCh)` in the function that stores the informer")
						continue
					}
					after := map[ssa.Instruction]bool{}
					for _, x := range reachableAfter(mu, nil) {
						after[x] = true
					}
					for _, g := range allRuns {
						if after[g] {
							goRuns = append(goRuns, g)
						}
					}
					if len(goRuns) == 0 {
						for _, g := range allRuns {
							for _, x := range reachableAfter(g, nil) {
								if x == ssa.Instruction(mu) {
									goRuns = append(goRuns, g)
									break
								}
							}
						}
					}
					if len(goRuns) == 0 {
						goRuns = allRuns
					}
					var pr []string
					if _, isMk := stripConv(fields[stopField]).(*ssa.MakeChan); !isMk {
						pr = append(pr, "stored StopCh is not a freshly made channel")
					}
					for _, goRun := range goRuns {
						recv := callRecv(goRun.Common())
						if rv, _, ok := p.resolveLocalField(recv); ok && rv != nil {
							recv = rv
						}
						var stop ssa.Value
						if a := callArgs(goRun.Common()); len(a) == 1 {
							stop = stripConv(a[0])
							if sv, _, ok := p.resolveLocalField(stop); ok && sv != nil {
								stop = sv
							}
						}
						if !p.sameValue(recv, fields[informerField]) {
							pr = append(pr, "Run is invoked on "+p.describe(recv)+", not on the stored informer")
						}
						if stop == nil || !p.sameValue(stop, fields[stopField]) {
							pr = append(pr, "Run is not given the stored StopCh (Delete could never stop this informer)")
						}
						if !p.mustPrecede(goRun, func(x ssa.Instruction) bool { return x == ssa.Instruction(mu) }) {
							pr = append(pr, "informer is started before it is stored")
						}
						if lookupFact(p.FactsAt(goRun.Block()), false, func(x *ssa.Lookup) bool { return x == lk }) == nil {
							pr = append(pr, "informer start is not under `!ok`")
						}
					}
					if len(pr) == 0 {
						oo.OK()
					} else {
						oo.Fail("%s", strings.Join(pr, "; "))
					}
				}
			}
		}
	}
	if nClose == 0 {
		c.AnchorLost("close(mapEntry.StopCh)")
	}
}
