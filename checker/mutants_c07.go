package main

func init() {
	const (
		osr  = "internal/controllers/objectdeployments/objectset_reconciler.go"
		nrr  = "internal/controllers/objectdeployments/new_revision_reconciler.go"
		odc  = "internal/controllers/objectdeployments/objectdeployment_controller.go"
		aos  = "internal/controllers/objectdeployments/adapter_objectset.go"
		hr   = "internal/controllers/objectdeployments/hash_reconciler.go"
		hash = "internal/utils/hash.go"
		rev  = "internal/controllers/objectsets/revision_reconciler.go"
	)
	const slicesImportOld = "\t\"fmt\"\n\n\t\"package-operator.run/internal/adapters\"\n"
	const slicesImportNew = "\t\"fmt\"\n\t\"slices\"\n\n\t\"package-operator.run/internal/adapters\"\n"
	const delayLoop = "\tfor _, objectSet := range objectSets {\n\t\tif objectSet.GetRevision() == 0 {\n\t\t\treturn ctrl.Result{}, nil\n\t\t}\n\t}\n"
	const selection = "\tif len(objectSets) > 0 {\n" +
		"\t\tmaybeCurrentObjectSet := objectSets[len(objectSets)-1]\n" +
		"\t\tannotations := maybeCurrentObjectSet.ClientObject().GetAnnotations()\n" +
		"\t\tif annotations != nil {\n" +
		"\t\t\tif hash, ok := annotations[ObjectSetHashAnnotation]; ok &&\n" +
		"\t\t\t\thash == objectDeployment.GetStatusTemplateHash() {\n" +
		"\t\t\t\tcurrentObjectSet = maybeCurrentObjectSet\n" +
		"\t\t\t\tprevObjectSets = objectSets[0 : len(objectSets)-1] // previous is everything excluding current\n" +
		"\t\t\t}\n" +
		"\t\t}\n" +
		"\t}\n" +
		"\tif currentObjectSet == nil {\n" +
		"\t\t// all ObjectSets are outdated.\n" +
		"\t\tprevObjectSets = objectSets\n" +
		"\t}\n"
	const fnvBody = "\thasher := fnv.New32a()\n\tDeepHashObject(hasher, obj)\n\n" +
		"\t// Add collisionCount in the hash if it exists.\n" +
		"\tif collisionCount != nil {\n" +
		"\t\tcollisionCountBytes := make([]byte, 8)\n" +
		"\t\tbinary.LittleEndian.PutUint32(\n" +
		"\t\t\tcollisionCountBytes, uint32(*collisionCount))\n" +
		"\t\thasher.Write(collisionCountBytes)\n" +
		"\t}\n\n" +
		"\treturn rand.SafeEncodeString("
	addMutants(
		// ---- R1: delay until every listed ObjectSet reports a revision
		Mutant{Prop: "C07", Name: "r1-delay-continues-instead-of-returning", File: osr,
			Old:    delayLoop,
			New:    "\tfor _, objectSet := range objectSets {\n\t\tif objectSet.GetRevision() == 0 {\n\t\t\tcontinue\n\t\t}\n\t}\n",
			Expect: []string{"C07.R1@"}},
		Mutant{Prop: "C07", Name: "r1-delay-skips-archived", File: osr,
			Old:    delayLoop,
			New:    "\tfor _, objectSet := range objectSets {\n\t\tif objectSet.IsArchived() {\n\t\t\tcontinue\n\t\t}\n\t\tif objectSet.GetRevision() == 0 {\n\t\t\treturn ctrl.Result{}, nil\n\t\t}\n\t}\n",
			Expect: []string{"C07.R1@"}},
		Mutant{Prop: "C07", Name: "r1-delay-stops-at-first-reported", File: osr,
			Old:    delayLoop,
			New:    "\tfor _, objectSet := range objectSets {\n\t\tif objectSet.GetRevision() == 0 {\n\t\t\treturn ctrl.Result{}, nil\n\t\t}\n\t\tbreak\n\t}\n",
			Expect: []string{"C07.R1@"}},
		Mutant{Prop: "C07", Name: "r1-benign-operand-swap", File: osr, Benign: true,
			Old: "\t\tif objectSet.GetRevision() == 0 {\n\t\t\treturn ctrl.Result{}, nil\n",
			New: "\t\tif 0 == objectSet.GetRevision() {\n\t\t\treturn ctrl.Result{}, nil\n"},
		Mutant{Prop: "C07", Name: "r1-benign-classic-for-and-negated-test", File: osr, Benign: true,
			Old: delayLoop,
			New: "\tfor i := 0; i < len(objectSets); i++ {\n\t\tif objectSets[i].GetRevision() != 0 {\n\t\t\tcontinue\n\t\t}\n\t\treturn ctrl.Result{}, nil\n\t}\n"},

		// the delay loop spelled with the standard library's search functions (corpus J4-1)
		Mutant{Prop: "C07", Name: "r1-benign-delay-as-containsfunc", File: osr, Benign: true,
			Old:  delayLoop,
			New:  "\tif slices.ContainsFunc(objectSets, func(objectSet adapters.ObjectSetAccessor) bool {\n\t\treturn objectSet.GetRevision() == 0\n\t}) {\n\t\treturn ctrl.Result{}, nil\n\t}\n",
			More: []Edit{{File: osr, Old: slicesImportOld, New: slicesImportNew}}},
		Mutant{Prop: "C07", Name: "r1-benign-delay-as-indexfunc", File: osr, Benign: true,
			Old:  delayLoop,
			New:  "\tif idx := slices.IndexFunc(objectSets, func(objectSet adapters.ObjectSetAccessor) bool {\n\t\tif objectSet.GetRevision() != 0 {\n\t\t\treturn false\n\t\t}\n\t\treturn true\n\t}); idx >= 0 {\n\t\treturn ctrl.Result{}, nil\n\t}\n",
			More: []Edit{{File: osr, Old: slicesImportOld, New: slicesImportNew}}},
		Mutant{Prop: "C07", Name: "r1-containsfunc-tests-revision-one", File: osr,
			Old:    delayLoop,
			New:    "\tif slices.ContainsFunc(objectSets, func(objectSet adapters.ObjectSetAccessor) bool {\n\t\treturn objectSet.GetRevision() == 1\n\t}) {\n\t\treturn ctrl.Result{}, nil\n\t}\n",
			More:   []Edit{{File: osr, Old: slicesImportOld, New: slicesImportNew}},
			Expect: []string{"C07.R1@"}},
		Mutant{Prop: "C07", Name: "r1-containsfunc-result-ignored", File: osr,
			Old:    delayLoop,
			New:    "\t_ = slices.ContainsFunc(objectSets, func(objectSet adapters.ObjectSetAccessor) bool {\n\t\treturn objectSet.GetRevision() == 0\n\t})\n",
			More:   []Edit{{File: osr, Old: slicesImportOld, New: slicesImportNew}},
			Expect: []string{"C07.R1@"}},
		Mutant{Prop: "C07", Name: "r1-containsfunc-skips-archived", File: osr,
			Old:    delayLoop,
			New:    "\tif slices.ContainsFunc(objectSets, func(objectSet adapters.ObjectSetAccessor) bool {\n\t\tif objectSet.IsArchived() {\n\t\t\treturn false\n\t\t}\n\t\treturn objectSet.GetRevision() == 0\n\t}) {\n\t\treturn ctrl.Result{}, nil\n\t}\n",
			More:   []Edit{{File: osr, Old: slicesImportOld, New: slicesImportNew}},
			Expect: []string{"C07.R1@"}},
		Mutant{Prop: "C07", Name: "r1-indexfunc-ignores-first-element", File: osr,
			Old:    delayLoop,
			New:    "\tif idx := slices.IndexFunc(objectSets, func(objectSet adapters.ObjectSetAccessor) bool {\n\t\treturn objectSet.GetRevision() == 0\n\t}); idx > 0 {\n\t\treturn ctrl.Result{}, nil\n\t}\n",
			More:   []Edit{{File: osr, Old: slicesImportOld, New: slicesImportNew}},
			Expect: []string{"C07.R1@"}},

		// ---- R2: current = newest with matching hash, previous = all others
		Mutant{Prop: "C07", Name: "r2-current-on-hash-mismatch", File: osr,
			Old:    "\t\t\t\thash == objectDeployment.GetStatusTemplateHash() {\n",
			New:    "\t\t\t\thash != objectDeployment.GetStatusTemplateHash() {\n",
			Expect: []string{"C07.R2@"}},
		Mutant{Prop: "C07", Name: "r2-current-without-hash-test", File: osr,
			Old:    "\t\t\tif hash, ok := annotations[ObjectSetHashAnnotation]; ok &&\n\t\t\t\thash == objectDeployment.GetStatusTemplateHash() {\n",
			New:    "\t\t\tif _, ok := annotations[ObjectSetHashAnnotation]; ok {\n",
			Expect: []string{"C07.R2@"}},
		Mutant{Prop: "C07", Name: "r2-current-is-oldest", File: osr,
			Old:    "\t\tmaybeCurrentObjectSet := objectSets[len(objectSets)-1]\n",
			New:    "\t\tmaybeCurrentObjectSet := objectSets[0]\n",
			Expect: []string{"C07.R2@"}},
		Mutant{Prop: "C07", Name: "r2-previous-incomplete-when-no-current", File: osr,
			Old:    "\t\t// all ObjectSets are outdated.\n\t\tprevObjectSets = objectSets\n",
			New:    "\t\t// all ObjectSets are outdated.\n\t\tprevObjectSets = objectSets[len(objectSets)/2:]\n",
			Expect: []string{"C07.R2@"}},
		Mutant{Prop: "C07", Name: "r2-list-sorted-descending", File: aos,
			Old:    "\treturn iObj.GetRevision() < jObj.GetRevision()\n",
			New:    "\treturn iObj.GetRevision() > jObj.GetRevision()\n",
			Expect: []string{"C07.R2@"}},
		Mutant{Prop: "C07", Name: "r2-list-reversed", File: odc,
			Old:    "\tsort.Sort(objectSetsByRevisionAscending(items))\n",
			New:    "\tsort.Sort(sort.Reverse(objectSetsByRevisionAscending(items)))\n",
			Expect: []string{"C07.R2@"}},
		Mutant{Prop: "C07", Name: "r2-benign-restructured-selection", File: osr, Benign: true,
			Old: selection,
			New: "\tprevObjectSets = objectSets\n" +
				"\tif n := len(objectSets); n > 0 {\n" +
				"\t\tlast := objectSets[n-1]\n" +
				"\t\tif objectDeployment.GetStatusTemplateHash() == last.ClientObject().GetAnnotations()[ObjectSetHashAnnotation] {\n" +
				"\t\t\tcurrentObjectSet = last\n" +
				"\t\t\tprevObjectSets = objectSets[:n-1]\n" +
				"\t\t}\n" +
				"\t}\n"},
		Mutant{Prop: "C07", Name: "r2-benign-operand-swap-and-log", File: osr, Benign: true,
			Old: "\t\t\t\thash == objectDeployment.GetStatusTemplateHash() {\n",
			New: "\t\t\t\tobjectDeployment.GetStatusTemplateHash() == hash {\n\t\t\t\tctrl.Log.V(5).Info(\"current revision found\")\n"},

		// ---- R3: what is created, and when
		Mutant{Prop: "C07", Name: "r3-create-although-current-exists", File: nrr,
			Old:    "\tif currentObject != nil {\n",
			New:    "\tif currentObject != nil && !currentObject.IsArchived() {\n",
			Expect: []string{"C07.R3@"}},
		Mutant{Prop: "C07", Name: "r3-create-with-empty-template", File: nrr,
			Old:    "\tif len(objectDeployment.GetObjectSetTemplate().Spec.Phases) == 0 {\n",
			New:    "\tif len(objectDeployment.GetObjectSetTemplate().Spec.Phases) == 0 && objectDeployment.GetSpecPaused() {\n",
			Expect: []string{"C07.R3@"}},
		Mutant{Prop: "C07", Name: "r3-previous-only-newest", File: nrr,
			Old:    "\tnewObjectSet.SetPreviousRevisions(prevObjectSets)\n",
			New:    "\tnewObjectSet.SetPreviousRevisions(prevObjectSets[max(len(prevObjectSets)-1, 0):])\n",
			Expect: []string{"C07.R3@"}},
		Mutant{Prop: "C07", Name: "r3-previous-given-other-list", File: nrr,
			Old:    "\tnewObjectSet, err := r.newObjectSetFromDeployment(objectDeployment, prevObjectSets)\n",
			New:    "\tnewObjectSet, err := r.newObjectSetFromDeployment(objectDeployment, prevObjectSets[:len(prevObjectSets)/2])\n",
			Expect: []string{"C07.R3@"}},
		Mutant{Prop: "C07", Name: "r3-spec-not-from-template", File: nrr,
			Old:    "\tnewObjectSet.SetTemplateSpec(\n\t\tobjectDeployment.GetObjectSetTemplate().Spec,\n\t)\n",
			New:    "\tnewObjectSet.SetTemplateSpec(\n\t\tnewObjectSet.GetTemplateSpec(),\n\t)\n",
			Expect: []string{"C07.R3@"}},
		Mutant{Prop: "C07", Name: "r3-name-without-hash", File: nrr,
			Old:    "deploymentClientObj.GetName() + \"-\" + objectDeployment.GetStatusTemplateHash())\n",
			New:    "deploymentClientObj.GetName() + \"-\" + deploymentClientObj.GetResourceVersion())\n",
			Expect: []string{"C07.R3@"}},
		Mutant{Prop: "C07", Name: "r3-hash-annotation-wrong-value", File: nrr,
			Old:    "\tnewObjectSetClientObj.GetAnnotations()[ObjectSetHashAnnotation] = objectDeployment.GetStatusTemplateHash()\n",
			New:    "\tnewObjectSetClientObj.GetAnnotations()[ObjectSetHashAnnotation] = deploymentClientObj.GetName()\n",
			Expect: []string{"C07.R3@"}},
		Mutant{Prop: "C07", Name: "r3-hash-annotation-replaced-afterwards", File: nrr,
			Old:    "\tnewObjectSetClientObj.GetAnnotations()[ObjectSetHashAnnotation] = objectDeployment.GetStatusTemplateHash()\n",
			New:    "\tnewObjectSetClientObj.GetAnnotations()[ObjectSetHashAnnotation] = objectDeployment.GetStatusTemplateHash()\n\tnewObjectSetClientObj.SetAnnotations(deploymentClientObj.GetAnnotations())\n",
			Expect: []string{"C07.R3@"}},
		Mutant{Prop: "C07", Name: "r3-controller-is-not-the-deployment", File: nrr,
			Old:    "\t\tdeploymentClientObj, newObjectSetClientObj, r.scheme); err != nil {\n",
			New:    "\t\tnewObjectSetClientObj, newObjectSetClientObj, r.scheme); err != nil {\n",
			Expect: []string{"C07.R3@"}},
		Mutant{Prop: "C07", Name: "r3-benign-locals-and-equivalent-guards", File: nrr, Benign: true,
			Old: "\tif len(objectDeployment.GetObjectSetTemplate().Spec.Phases) == 0 {\n",
			New: "\ttmpl := objectDeployment.GetObjectSetTemplate()\n\tif len(tmpl.Spec.Phases) < 1 {\n"},
		Mutant{Prop: "C07", Name: "r3-benign-reordered-setters", File: nrr, Benign: true,
			Old: "\tnewObjectSet.SetTemplateSpec(\n\t\tobjectDeployment.GetObjectSetTemplate().Spec,\n\t)\n\tnewObjectSet.SetPreviousRevisions(prevObjectSets)\n",
			New: "\tnewObjectSet.SetPreviousRevisions(prevObjectSets)\n\tspec := objectDeployment.GetObjectSetTemplate().Spec\n\tnewObjectSet.SetTemplateSpec(spec)\n"},
		Mutant{Prop: "C07", Name: "r3-benign-nil-test-swapped", File: nrr, Benign: true,
			Old: "\tif currentObject != nil {\n",
			New: "\tif nil != currentObject {\n"},

		// ---- R4: name clash
		Mutant{Prop: "C07", Name: "r4-reuse-archived", File: nrr,
			Old:    "\tif !conflictingObjectSet.IsArchived() &&\n\t\tconflictingObjectSet.GetRevision() >= latestRevisionNumber &&\n",
			New:    "\tif conflictingObjectSet.GetRevision() >= latestRevisionNumber &&\n",
			Expect: []string{"C07.R4@"}},
		Mutant{Prop: "C07", Name: "r4-reuse-older-revision", File: nrr,
			Old:    "\t\tconflictingObjectSet.GetRevision() >= latestRevisionNumber &&\n",
			New:    "",
			Expect: []string{"C07.R4@"}},
		Mutant{Prop: "C07", Name: "r4-latest-is-oldest-previous", File: nrr,
			Old:    "\treturn prevObjectSets[len(prevObjectSets)-1].GetRevision()\n",
			New:    "\treturn prevObjectSets[0].GetRevision()\n",
			Expect: []string{"C07.R4@"}},
		Mutant{Prop: "C07", Name: "r4-reuse-foreign-objectset", File: nrr,
			Old:    "\t\tcontrollerRef.UID == objectDeployment.ClientObject().GetUID() &&\n",
			New:    "\t\tcontrollerRef.UID != \"\" &&\n",
			Expect: []string{"C07.R4@"}},
		Mutant{Prop: "C07", Name: "r4-reuse-different-spec", File: nrr,
			Old:    "equality.Semantic.DeepEqual(newObjectSet.GetTemplateSpec(), conflictingObjectSet.GetTemplateSpec()) {",
			New:    "equality.Semantic.DeepEqual(conflictingObjectSet.GetTemplateSpec(), conflictingObjectSet.GetTemplateSpec()) {",
			Expect: []string{"C07.R4@"}},
		Mutant{Prop: "C07", Name: "r4-collision-count-not-incremented", File: nrr,
			Old:    "\t*currentCollisionCount++\n",
			New:    "",
			Expect: []string{"C07.R4@"}},
		Mutant{Prop: "C07", Name: "r4-clash-ignored", File: nrr,
			Old:    "\tobjectDeployment.SetStatusCollisionCount(\n\t\tcurrentCollisionCount,\n\t)\n",
			New:    "\t_ = currentCollisionCount\n",
			Expect: []string{"C07.R4@"}},
		Mutant{Prop: "C07", Name: "r4-benign-operand-swap-nested-ifs", File: nrr, Benign: true,
			Old: "\tif !conflictingObjectSet.IsArchived() &&\n\t\tconflictingObjectSet.GetRevision() >= latestRevisionNumber &&\n",
			New: "\tif notArchived := !conflictingObjectSet.IsArchived(); notArchived &&\n\t\tlatestRevisionNumber <= conflictingObjectSet.GetRevision() &&\n"},
		Mutant{Prop: "C07", Name: "r4-benign-inline-latest", File: nrr, Benign: true,
			Old: "\tlatestRevisionNumber := latestRevisionNumber(prevObjectSets)\n",
			New: "\tvar latestRevisionNumber int64\n\tif len(prevObjectSets) > 0 {\n\t\tlatestRevisionNumber = prevObjectSets[len(prevObjectSets)-1].GetRevision()\n\t}\n"},

		// the five-way && extracted into a boolean helper with early returns (corpus J4-3): the
		// normaliser's tail duplication leaves one dead copy of the reuse branch per `return false`
		Mutant{Prop: "C07", Name: "r4-benign-reuse-test-as-early-return-helper", File: nrr, Benign: true,
			Old: "\tif !conflictingObjectSet.IsArchived() &&\n\t\tconflictingObjectSet.GetRevision() >= latestRevisionNumber &&\n\t\tcontrollerRef != nil &&\n\t\tcontrollerRef.UID == objectDeployment.ClientObject().GetUID() &&\n\t\tequality.Semantic.DeepEqual(newObjectSet.GetTemplateSpec(), conflictingObjectSet.GetTemplateSpec()) {\n",
			New: "\t_ = controllerRef\n\tif isOwnUpToDate(conflictingObjectSet, newObjectSet, latestRevisionNumber, objectDeployment) {\n",
			More: []Edit{{File: nrr, Old: "\n// Creates and returns a new objectset in memory with the correct objectset template,\n",
				New: "\nfunc isOwnUpToDate(conflicting, desired adapters.ObjectSetAccessor, latest int64, dep adapters.ObjectDeploymentAccessor) bool {\n" +
					"\tref := metav1.GetControllerOf(conflicting.ClientObject())\n\tif conflicting.IsArchived() {\n\t\treturn false\n\t}\n" +
					"\tif conflicting.GetRevision() < latest {\n\t\treturn false\n\t}\n\tif ref == nil {\n\t\treturn false\n\t}\n" +
					"\tif ref.UID != dep.ClientObject().GetUID() {\n\t\treturn false\n\t}\n" +
					"\treturn equality.Semantic.DeepEqual(desired.GetTemplateSpec(), conflicting.GetTemplateSpec())\n}\n" +
					"\n// Creates and returns a new objectset in memory with the correct objectset template,\n"}}},
		Mutant{Prop: "C07", Name: "r4-early-return-helper-accepts-archived", File: nrr,
			Old: "\tif !conflictingObjectSet.IsArchived() &&\n\t\tconflictingObjectSet.GetRevision() >= latestRevisionNumber &&\n\t\tcontrollerRef != nil &&\n\t\tcontrollerRef.UID == objectDeployment.ClientObject().GetUID() &&\n\t\tequality.Semantic.DeepEqual(newObjectSet.GetTemplateSpec(), conflictingObjectSet.GetTemplateSpec()) {\n",
			New: "\t_ = controllerRef\n\tif isOwnUpToDate(conflictingObjectSet, newObjectSet, latestRevisionNumber, objectDeployment) {\n",
			More: []Edit{{File: nrr, Old: "\n// Creates and returns a new objectset in memory with the correct objectset template,\n",
				New: "\nfunc isOwnUpToDate(conflicting, desired adapters.ObjectSetAccessor, latest int64, dep adapters.ObjectDeploymentAccessor) bool {\n" +
					"\tref := metav1.GetControllerOf(conflicting.ClientObject())\n\tif conflicting.IsArchived() {\n\t\treturn true\n\t}\n" +
					"\tif conflicting.GetRevision() < latest {\n\t\treturn false\n\t}\n\tif ref == nil {\n\t\treturn false\n\t}\n" +
					"\tif ref.UID != dep.ClientObject().GetUID() {\n\t\treturn false\n\t}\n" +
					"\treturn equality.Semantic.DeepEqual(desired.GetTemplateSpec(), conflicting.GetTemplateSpec())\n}\n" +
					"\n// Creates and returns a new objectset in memory with the correct objectset template,\n"}},
			Expect: []string{"C07.R4@"}},

		// ---- R5: hash
		Mutant{Prop: "C07", Name: "r5-sortkeys-false", File: hash,
			Old:    "\t\tSortKeys:       true,\n",
			New:    "\t\tSortKeys:       false,\n",
			Expect: []string{"C07.R5@"}},
		Mutant{Prop: "C07", Name: "r5-collision-count-not-hashed", File: hash,
			Old:    fnvBody,
			New:    "\thasher := fnv.New32a()\n\tDeepHashObject(hasher, obj)\n\n\tif collisionCount != nil {\n\t\tcollisionCountBytes := make([]byte, 8)\n\t\tbinary.LittleEndian.PutUint32(\n\t\t\tcollisionCountBytes, uint32(0))\n\t\thasher.Write(collisionCountBytes)\n\t}\n\n\treturn rand.SafeEncodeString(",
			Expect: []string{"C07.R5@"}},
		Mutant{Prop: "C07", Name: "r5-collision-count-erased-by-reset", File: hash,
			Old:    fnvBody,
			New:    "\thasher := fnv.New32a()\n\tif collisionCount != nil {\n\t\tcollisionCountBytes := make([]byte, 8)\n\t\tbinary.LittleEndian.PutUint32(\n\t\t\tcollisionCountBytes, uint32(*collisionCount))\n\t\thasher.Write(collisionCountBytes)\n\t}\n\tDeepHashObject(hasher, obj)\n\n\treturn rand.SafeEncodeString(",
			Expect: []string{"C07.R5@"}},
		Mutant{Prop: "C07", Name: "r5-random-salt", File: hash,
			Old:    fnvBody,
			New:    "\thasher := fnv.New32a()\n\tDeepHashObject(hasher, obj)\n\thasher.Write([]byte(rand.String(4)))\n\n\tif collisionCount != nil {\n\t\tcollisionCountBytes := make([]byte, 8)\n\t\tbinary.LittleEndian.PutUint32(\n\t\t\tcollisionCountBytes, uint32(*collisionCount))\n\t\thasher.Write(collisionCountBytes)\n\t}\n\n\treturn rand.SafeEncodeString(",
			Expect: []string{"C07.R5@"}},
		Mutant{Prop: "C07", Name: "r5-hash-ignores-collision-count", File: hr,
			Old:    "utils.ComputeFNV32Hash(objectSetTemplate, objectSetDeployment.GetStatusCollisionCount())",
			New:    "utils.ComputeFNV32Hash(objectSetTemplate, nil)",
			Expect: []string{"C07.R5@"}},
		Mutant{Prop: "C07", Name: "r5-benign-inline-and-reorder", File: hr, Benign: true,
			Old: "\tobjectSetTemplate := objectSetDeployment.GetObjectSetTemplate()\n\ttemplateHash := utils.ComputeFNV32Hash(objectSetTemplate, objectSetDeployment.GetStatusCollisionCount())\n",
			New: "\tcount := objectSetDeployment.GetStatusCollisionCount()\n\ttemplateHash := utils.ComputeFNV32Hash(objectSetDeployment.GetObjectSetTemplate(), count)\n"},
		Mutant{Prop: "C07", Name: "r5-benign-config-field-order", File: hash, Benign: true,
			Old: "\t\tSortKeys:       true,\n\t\tDisableMethods: true,\n\t\tSpewKeys:       true,\n",
			New: "\t\tSpewKeys:       true,\n\t\tDisableMethods: true,\n\t\tSortKeys:       true,\n"},

		// ---- R6: revision numbers
		Mutant{Prop: "C07", Name: "r6-revision-not-incremented", File: rev,
			Old:    "\tobjectSet.SetRevision(latestPreviousRevision + 1)\n",
			New:    "\tobjectSet.SetRevision(latestPreviousRevision)\n",
			Expect: []string{"C07.R6@"}},
		Mutant{Prop: "C07", Name: "r6-no-wait-for-unreported-previous", File: rev,
			Old:    "\t\tif sr == 0 {\n",
			New:    "\t\tif sr < 0 {\n",
			Expect: []string{"C07.R6@"}},
		Mutant{Prop: "C07", Name: "r6-last-instead-of-max", File: rev,
			Old:    "\t\tif sr > latestPreviousRevision {\n\t\t\tlatestPreviousRevision = sr\n\t\t}\n",
			New:    "\t\tlatestPreviousRevision = sr\n",
			Expect: []string{"C07.R6@"}},
		Mutant{Prop: "C07", Name: "r6-min-instead-of-max", File: rev,
			Old:    "\t\tif sr > latestPreviousRevision {\n",
			New:    "\t\tif sr < latestPreviousRevision || latestPreviousRevision == 0 {\n",
			Expect: []string{"C07.R6@"}},
		Mutant{Prop: "C07", Name: "r6-only-first-previous", File: rev,
			Old:    "\t\tif sr > latestPreviousRevision {\n\t\t\tlatestPreviousRevision = sr\n\t\t}\n",
			New:    "\t\tif sr > latestPreviousRevision {\n\t\t\tlatestPreviousRevision = sr\n\t\t}\n\t\tbreak\n",
			Expect: []string{"C07.R6@"}},
		Mutant{Prop: "C07", Name: "r6-revision-overwritten", File: rev,
			Old:    "\tif objectSet.GetRevision() != 0 {\n",
			New:    "\tif objectSet.GetRevision() > 1 {\n",
			Expect: []string{"C07.R6@"}},
		Mutant{Prop: "C07", Name: "r6-constant-revision-with-previous", File: rev,
			Old:    "\tif len(objectSet.GetPrevious()) == 0 {\n",
			New:    "\tif len(objectSet.GetPrevious()) <= 1 {\n",
			Expect: []string{"C07.R6@"}},
		Mutant{Prop: "C07", Name: "r6-benign-equivalent-comparisons", File: rev, Benign: true,
			Old: "\t\tif sr > latestPreviousRevision {\n",
			New: "\t\tif latestPreviousRevision < sr {\n"},
		Mutant{Prop: "C07", Name: "r6-benign-max-builtin", File: rev, Benign: true,
			Old: "\t\tif sr > latestPreviousRevision {\n\t\t\tlatestPreviousRevision = sr\n\t\t}\n",
			New: "\t\tlatestPreviousRevision = max(latestPreviousRevision, sr)\n"},
		Mutant{Prop: "C07", Name: "r6-benign-early-return-style", File: rev, Benign: true,
			Old: "\tif objectSet.GetRevision() != 0 {\n",
			New: "\tif current := objectSet.GetRevision(); current > 0 {\n"},
	)
}

// Round two: the verdict of the delay loop travels through a boolean (flag variable, or a boolean
// helper whose body the normaliser merged into Reconcile): early exit and exhaustion meet in one
// block and are separated again only by the test of the merged boolean.
func init() {
	const osr = "internal/controllers/objectdeployments/objectset_reconciler.go"
	const delayLoop = "\tfor _, objectSet := range objectSets {\n\t\tif objectSet.GetRevision() == 0 {\n\t\t\treturn ctrl.Result{}, nil\n\t\t}\n\t}\n"
	addMutants(
		Mutant{Prop: "C07", Name: "r1-benign-verdict-through-flag", File: osr, Benign: true,
			Old: delayLoop,
			New: "\tallReported := true\n\tfor _, objectSet := range objectSets {\n\t\tif objectSet.GetRevision() == 0 {\n\t\t\tallReported = false\n\t\t\tbreak\n\t\t}\n\t}\n\tif !allReported {\n\t\treturn ctrl.Result{}, nil\n\t}\n"},
		Mutant{Prop: "C07", Name: "r1-benign-verdict-through-boolean-helper", File: osr, Benign: true,
			Old: delayLoop,
			New: "\tif !allRevisionsReported(objectSets) {\n\t\treturn ctrl.Result{}, nil\n\t}\n",
			More: []Edit{{File: osr, Old: "// Does current objectset exist?\n",
				New: "func allRevisionsReported(objectSets []adapters.ObjectSetAccessor) bool {\n\tfor _, objectSet := range objectSets {\n\t\tif objectSet.GetRevision() == 0 {\n\t\t\treturn false\n\t\t}\n\t}\n\treturn true\n}\n\n// Does current objectset exist?\n"}}},
		Mutant{Prop: "C07", Name: "r1-flag-never-cleared", File: osr,
			Why:    "the early exit leaves the flag true: Reconcile goes on although an ObjectSet has not reported its revision",
			Old:    delayLoop,
			New:    "\tallReported := true\n\tfor _, objectSet := range objectSets {\n\t\tif objectSet.GetRevision() == 0 {\n\t\t\tallReported = true\n\t\t\tbreak\n\t\t}\n\t}\n\tif !allReported {\n\t\treturn ctrl.Result{}, nil\n\t}\n",
			Expect: []string{"C07.R1@"}},
		Mutant{Prop: "C07", Name: "r1-boolean-helper-verdict-inverted", File: osr,
			Why: "the helper reports `all reported` exactly when one is missing",
			Old: delayLoop,
			New: "\tif !allRevisionsReported(objectSets) {\n\t\treturn ctrl.Result{}, nil\n\t}\n",
			More: []Edit{{File: osr, Old: "// Does current objectset exist?\n",
				New: "func allRevisionsReported(objectSets []adapters.ObjectSetAccessor) bool {\n\tfor _, objectSet := range objectSets {\n\t\tif objectSet.GetRevision() == 0 {\n\t\t\treturn true\n\t\t}\n\t}\n\treturn len(objectSets) == 0\n}\n\n// Does current objectset exist?\n"}},
			Expect: []string{"C07.R1@"}},
	)
}

// Round four (corpus G*): the count bytes live in an array that is sliced at each use.
func init() {
	const hash = "internal/utils/hash.go"
	const fnvTail = "\t\tcollisionCountBytes := make([]byte, 8)\n" +
		"\t\tbinary.LittleEndian.PutUint32(\n" +
		"\t\t\tcollisionCountBytes, uint32(*collisionCount))\n" +
		"\t\thasher.Write(collisionCountBytes)\n" +
		"\t}\n\n" +
		"\treturn rand.SafeEncodeString("
	arr := func(fill, write, extra string) string {
		return "\t\tvar collisionCountBytes [8]byte\n" + extra +
			"\t\tbinary.LittleEndian.PutUint32(\n" +
			"\t\t\tcollisionCountBytes[" + fill + "], uint32(*collisionCount))\n" +
			"\t\thasher.Write(" + write + ")\n" +
			"\t}\n\n" +
			"\treturn rand.SafeEncodeString("
	}
	addMutants(
		Mutant{Prop: "C07", Name: "r5-benign-count-bytes-in-array", File: hash, Benign: true,
			Old: fnvTail, New: arr(":", "collisionCountBytes[:]", "")},
		Mutant{Prop: "C07", Name: "r5-array-zero-half-written", File: hash,
			Why: "the upper, never filled half of the buffer is hashed: the count does not enter the hash",
			Old: fnvTail, New: arr(":", "collisionCountBytes[4:]", ""),
			Expect: []string{"C07.R5@internal/utils.ComputeFNV32Hash#collision-count-hashed"}},
		Mutant{Prop: "C07", Name: "r5-array-other-buffer-written", File: hash,
			Old: fnvTail, New: arr(":", "zero[:]", "\t\tvar zero [8]byte\n"),
			Expect: []string{"C07.R5@internal/utils.ComputeFNV32Hash#collision-count-hashed"}},
		Mutant{Prop: "C07", Name: "r5-array-count-cut-off", File: hash,
			Why: "the count is stored at offset 4, only bytes 0..5 are hashed: counts above 65535 collide",
			Old: fnvTail, New: arr("4:", "collisionCountBytes[:6]", ""),
			Expect: []string{"C07.R5@internal/utils.ComputeFNV32Hash#collision-count-hashed"}},
	)
}
